(* Xpath/DeleteProofs.v — delete / pop on a spelled existing node = delete_at. *)
From Coq Require Import List NArith ZArith Bool Lia.
From N0 Require Import Base.PyStr Base.PyVal Xpath.Dec Xpath.DecProofs Xpath.Token Xpath.TokenProofs
  Xpath.Find Xpath.FindProofs Xpath.Write Xpath.SpecProofs Xpath.WalkProofs.
Import ListNotations.

Arguments N.eqb : simpl never.

(* a walk survives the replacement of its endpoint *)
Lemma walk_replace_endpoint : forall t toks p v, walk t toks p v -> forall w, walk (replace_at t p w) toks p w.
Proof.
  induction 1 as [t|x toks c kvs k child p v Hs Hk Hl Hw IH
                  |x toks c items si z i child p v Hs Hi He Hn Hc Hw IH
                  |x toks c kvs k si c' items z i child p v Hs Hk Hi Hb He Hl Hn Hc Hw IH]; intros w.
  - cbn. constructor.
  - cbn [replace_at]. rewrite Hl. eapply walk_key; eauto. apply lookup_update_same.
  - cbn [replace_at]. rewrite Hc. eapply walk_idx; eauto.
    + now rewrite set_nth_length.
    + apply nth_error_set_nth_same. eapply nth_error_Some_lt; eauto.
  - cbn [replace_at]. rewrite Hl. cbn [replace_at]. rewrite Hc.
    eapply walk_keyidx with (c' := c') (items := set_nth i (replace_at child p w) items) (si := si) (z := z)
                            (child := replace_at child p w); auto.
    + apply lookup_update_same.
    + now rewrite set_nth_length.
    + apply nth_error_set_nth_same. eapply nth_error_Some_lt; eauto.
Qed.

(* cutting a walk at a token boundary *)
Lemma walk_split : forall t toks p v, walk t toks p v ->
  forall n, n < length toks ->
  exists p' r v', walk t (firstn n toks) p' v' /\ p = p' ++ r /\ r <> [] /\ walk v' (skipn n toks) r v.
Proof.
  induction 1 as [t|x toks c kvs k child p v Hs Hk Hl Hw IH
                  |x toks c items si z i child p v Hs Hi He Hn Hc Hw IH
                  |x toks c kvs k si c' items z i child p v Hs Hk Hi Hb He Hl Hn Hc Hw IH]; intros n Hlt.
  - cbn in Hlt. lia.
  - destruct n as [|n].
    + exists [], (PKey k :: p), (Dict c kvs). cbn [firstn skipn app].
      split; [constructor|]. split; [reflexivity|]. split; [congruence|]. eapply walk_key; eauto.
    + destruct (IH n ltac:(cbn in Hlt; lia)) as [p' [r [v' [H1 [H2 [H3 H4]]]]]].
      exists (PKey k :: p'), r, v'. cbn [firstn skipn]. repeat split; auto; [eapply walk_key; eauto|now rewrite H2].
  - destruct n as [|n].
    + exists [], (PIdx i :: p), (Lst c items). cbn [firstn skipn app].
      split; [constructor|]. split; [reflexivity|]. split; [congruence|]. eapply walk_idx; eauto.
    + destruct (IH n ltac:(cbn in Hlt; lia)) as [p' [r [v' [H1 [H2 [H3 H4]]]]]].
      exists (PIdx i :: p'), r, v'. cbn [firstn skipn]. repeat split; auto; [eapply walk_idx; eauto|now rewrite H2].
  - destruct n as [|n].
    + exists [], (PKey k :: PIdx i :: p), (Dict c kvs). cbn [firstn skipn app].
      split; [constructor|]. split; [reflexivity|]. split; [congruence|]. eapply walk_keyidx; eauto.
    + destruct (IH n ltac:(cbn in Hlt; lia)) as [p' [r [v' [H1 [H2 [H3 H4]]]]]].
      exists (PKey k :: PIdx i :: p'), r, v'. cbn [firstn skipn]. repeat split; auto; [eapply walk_keyidx; eauto|now rewrite H2].
Qed.

Lemma walk_prefix_after_delete t toks p v n :
  walk t toks p v -> n < length toks ->
  exists p' v', walk (delete_at t p) (firstn n toks) p' v'.
Proof.
  intros Hw Hn. destruct (walk_split t toks p v Hw n Hn) as [p' [r [v' [H1 [H2 [H3 H4]]]]]].
  exists p', (delete_at v' r). subst p.
  rewrite (delete_at_app t p' r v' H3 (walk_resolve _ _ _ _ H1)).
  exact (walk_replace_endpoint _ _ _ _ H1 _).
Qed.

(* the deletion itself *)
Lemma br_brackets s : startswith (br s) [c_lb] = true /\ endswith (br s) [c_rb] = true /\ removelast (tl (br s)) = s.
Proof.
  unfold br. split; [|split].
  - cbn [startswith]. now rewrite N.eqb_refl.
  - unfold endswith. change (c_lb :: s ++ [c_rb]) with ((c_lb :: s) ++ [c_rb]). rewrite rev_app_distr.
    cbn [rev app startswith]. now rewrite N.eqb_refl.
  - cbn [tl]. apply removelast_last.
Qed.

Lemma del_slot_found root sub pos p u F :
  resolve root pos = Some sub -> found_at sub pos p u F ->
  del_slot root (f_par F) (f_slot F) = Ok (delete_at root (pos ++ p)).
Proof.
  intros Hpos [q [last [slot [Hp [Hpar [Hres [Hsl [Hsn [Hv Hrest]]]]]]]]].
  unfold del_slot. rewrite Hsl, Hpar. cbn [pget pset].
  assert (Hq : resolve root (pos ++ q) = Some (f_parv F)) by (now rewrite resolve_app, Hpos).
  rewrite Hq. subst p. rewrite app_assoc.
  destruct last as [k|i]; cbn [slot_names] in Hsn.
  - destruct Hsn as [c [kvs [w [Epv [-> [Hs Hl]]]]]]. rewrite Epv in *. rewrite Hl.
    now rewrite (delete_at_app root (pos ++ q) [PKey k] _ ltac:(congruence) Hq).
  - destruct Hsn as [c [items [z [w [Epv [-> [Hn Hnth]]]]]]]. rewrite Epv in *.
    destruct (br_brackets (dec_of_Z z)) as [B1 [B2 B3]]. rewrite B1, B2, B3. cbn [andb].
    rewrite n0eval_dec, Hn.
    now rewrite (delete_at_app root (pos ++ q) [PIdx i] _ ltac:(congruence) Hq).
Qed.

Lemma delete_loop_skip fuel root toks : forall l,
  (forall n, 0 < n -> n <= l -> exists F, find true true fuel root (firstn n toks) (PAt []) root s_root = Ok (root, false, F)) ->
  delete_loop fuel root toks false l false = (root, None).
Proof.
  induction l as [|l IH]; intros H; [reflexivity|].
  cbn [delete_loop]. destruct (H (S l) ltac:(lia) ltac:(lia)) as [F HF]. rewrite HF. cbn [orb andb].
  apply IH. intros n H1 H2. apply H; lia.
Qed.

Theorem delete_walk fuel root x p u :
  tokenize x <> [] -> walk root (tokenize x) p u -> 2 * length (tokenize x) <= fuel ->
  delete fuel root x false = (delete_at root p, None).
Proof.
  intros Hne Hw Hf. unfold delete.
  destruct (tokenize x) as [|t0 toks0] eqn:Et; [congruence|]. rewrite <- Et in *.
  assert (Hlen : length (tokenize x) = S (length toks0)) by (rewrite Et; reflexivity).
  rewrite Hlen. cbn [delete_loop]. rewrite <- Hlen, firstn_all.
  destruct (find_walk true root (tokenize x) p u Hw Hne fuel root [] s_root Hf) as [F [HF Hat]].
  rewrite HF. cbn [orb].
  rewrite (del_slot_found root root [] p u F eq_refl Hat). cbn [app].
  apply delete_loop_skip. intros n H1 H2.
  destruct (walk_prefix_after_delete root (tokenize x) p u n Hw ltac:(lia)) as [p' [v' Hw']].
  assert (Hne' : firstn n (tokenize x) <> []).
  { rewrite Et. destruct n; [lia|]. cbn. congruence. }
  destruct (find_walk true (delete_at root p) (firstn n (tokenize x)) p' v' Hw' Hne' fuel (delete_at root p) [] s_root) as [F' [HF' _]].
  - rewrite firstn_length. lia.
  - exists F'. exact HF'.
Qed.

Theorem delete_existing :
  forall root x p, keys_ok root -> tokenize x <> [] -> spells root p (tokenize x) ->
  delete_res (wfuel x) root x false = Ok (delete_at root p).
Proof.
  intros root x p Hok Hne Hs. destruct (spells_walk root p (tokenize x) Hs Hok) as [u Hw].
  unfold delete_res. now rewrite (delete_walk _ root x p u Hne Hw (wfuel_enough x)).
Qed.

(* pop = lookup, then delete; a missing path returns the default and changes nothing *)
Theorem pop_existing :
  forall root x p, keys_ok root -> has_path_char x = true -> no_qmark x -> tokenize x <> [] ->
  spells root p (tokenize x) ->
  exists v, resolve root p = Some v /\ pop (wfuel x) root x false = Ok (Some v, delete_at root p).
Proof.
  intros root x p Hok Hc Hq Hne Hs. destruct (spells_walk root p (tokenize x) Hs Hok) as [v Hw].
  exists v. split; [eapply walk_resolve; eauto|].
  unfold pop, dict_getitem. rewrite dict_get_no_qmark by assumption.
  destruct (dict_get_core_walk (wfuel x) root x true true LDefault p v Hc Hne Hw (wfuel_enough x)) as [H1 _].
  rewrite H1. now rewrite (delete_walk _ root x p v Hne Hw (wfuel_enough x)).
Qed.

Theorem pop_missing fuel root x rc root' e :
  dict_getitem fuel root x = Ok (root', LRaise e) -> pop fuel root x rc = Ok (None, root').
Proof. intros H. unfold pop. now rewrite H. Qed.

(* the deleted slot is gone afterwards: a key no longer resolves, a list is one shorter *)
Lemma lookup_notin {A} k (kvs : list (pstr * A)) : ~ In k (map fst kvs) -> lookup k kvs = None.
Proof.
  induction kvs as [|[k' v'] r IH]; intros H; [reflexivity|]. cbn in *.
  destruct (pstr_eqb k k') eqn:E.
  - apply pstr_eqb_eq in E. subst. exfalso. apply H. now left.
  - apply IH. intros Hin. apply H. now right.
Qed.

Lemma lookup_remove_key {A} k (kvs : list (pstr * A)) : NoDup (map fst kvs) -> lookup k (remove_key k kvs) = None.
Proof.
  induction kvs as [|[k' v'] r IH]; intros Hnd; [reflexivity|]. cbn in *. inversion Hnd as [|? ? Hni Hnd']; subst.
  destruct (pstr_eqb k k') eqn:E.
  - apply pstr_eqb_eq in E. subst. now apply lookup_notin.
  - cbn. rewrite E. now apply IH.
Qed.

Lemma del_nth_length {A} (l : list A) i : i < length l -> length (del_nth i l) = length l - 1.
Proof.
  revert i. induction l as [|x r IH]; intros [|i] H; cbn in *; try lia.
  rewrite IH by lia. destruct r; cbn in *; lia.
Qed.

(* ---- recursively=True: emptied dictionary ancestors are pruned ---------------------------------------- *)
(* Spec: walking up the token-boundary prefixes of the path, an ancestor that is an empty dictionary at that
   moment is removed *)
Definition prune_step (t : tree) (q : path) : tree :=
  match resolve t q with Some (Dict _ []) => delete_at t q | _ => t end.
Definition prune_list (t : tree) (qs : list path) : tree := fold_left prune_step qs t.

Ltac unify_eqs :=
  repeat match goal with
         | H1 : ?a = Ok _, H2 : ?a = Ok _ |- _ => rewrite H1 in H2; inversion H2; subst; clear H2
         | H1 : ?a = Some _, H2 : ?a = Some _ |- _ => rewrite H1 in H2; inversion H2; subst; clear H2
         | H1 : ?a = EvInt _, H2 : ?a = EvInt _ |- _ => rewrite H1 in H2; inversion H2; subst; clear H2
         end.

Lemma walk_fun : forall t toks p v, walk t toks p v -> forall p' v', walk t toks p' v' -> p = p' /\ v = v'.
Proof.
  induction 1 as [t|x toks c kvs k child p v Hs Hk Hl Hw IH
                  |x toks c items si z i child p v Hs Hi He Hn Hc Hw IH
                  |x toks c kvs k si c' items z i child p v Hs Hk Hi Hb He Hl Hn Hc Hw IH]; intros p' v' H2.
  - inversion H2; subst. auto.
  - clear Hw. inversion H2; subst; try congruence. unify_eqs.
    match goal with H : walk _ _ _ _ |- _ => destruct (IH _ _ H) as [-> ->] end. auto.
  - clear Hw. inversion H2; subst; try congruence. unify_eqs.
    match goal with H : walk _ _ _ _ |- _ => destruct (IH _ _ H) as [-> ->] end. auto.
  - clear Hw. inversion H2; subst; try congruence. unify_eqs.
    match goal with H : walk _ _ _ _ |- _ => destruct (IH _ _ H) as [-> ->] end. auto.
Qed.

Lemma walk_after_delete_below t toks q v' r :
  walk t toks q v' -> r <> [] -> walk (delete_at t (q ++ r)) toks q (delete_at v' r).
Proof.
  intros Hw Hr. rewrite (delete_at_app t q r v' Hr (walk_resolve _ _ _ _ Hw)).
  exact (walk_replace_endpoint _ _ _ _ Hw _).
Qed.

Section recursive.
Variable root : tree.
Variable toks : list pstr.
Variable fuel : nat.
Hypothesis Hfuel : 2 * length toks <= fuel.

(* the path of the token prefix of length k, as determined in the original tree *)
Definition Q (k : nat) (q : path) : Prop := exists v', walk root (firstn k toks) q v'.

Definition inv (t : tree) (l : nat) : Prop :=
  forall k, 0 < k -> k <= l -> exists q v', Q k q /\ walk t (firstn k toks) q v'.

Lemma inv_after_delete t l q vq :
  S l <= length toks -> inv t (S l) -> Q (S l) q -> walk t (firstn (S l) toks) q vq ->
  inv (delete_at t q) l.
Proof.
  intros Hlen Hinv HQ Hw k Hk0 Hkl.
  destruct (Hinv k Hk0 ltac:(lia)) as [qk [vk [HQk Hwk]]].
  (* qk is a proper prefix of q: cut the longer walk at k *)
  destruct (walk_split _ _ _ _ Hw k) as [q' [r [v'' [H1 [H2 [H3 H4]]]]]].
  { rewrite firstn_length. lia. }
  rewrite firstn_firstn in H1. replace (Nat.min k (S l)) with k in H1 by lia.
  destruct (walk_fun _ _ _ _ Hwk _ _ H1) as [-> ->].
  exists q', (delete_at v'' r). split; [exact HQk|]. subst q. now apply walk_after_delete_below.
Qed.

Lemma delete_loop_recursive : forall l t,
  l < length toks -> inv t l ->
  exists qs, Forall2 Q (rev (seq 1 l)) qs /\
             delete_loop fuel t toks true l false = (prune_list t qs, None).
Proof.
  induction l as [|l IH]; intros t Hl Hinv.
  - exists []. split; [constructor|reflexivity].
  - destruct (Hinv (S l) ltac:(lia) (le_n _)) as [q [vq [HQ Hw]]].
    assert (Hne : firstn (S l) toks <> []).
    { destruct toks; [cbn in Hl; lia|cbn; congruence]. }
    destruct (find_walk true t (firstn (S l) toks) q vq Hw Hne fuel t [] s_root) as [F [HF Hat]].
    { rewrite firstn_length. lia. }
    cbn [delete_loop]. rewrite HF. cbn [orb andb].
    assert (Hval : f_val F = Some vq) by (destruct Hat as [? [? [? [_ [_ [_ [_ [_ [Hv _]]]]]]]]]; exact Hv).
    rewrite Hval.
    assert (Hseq : rev (seq 1 (S l)) = S l :: rev (seq 1 l)).
    { rewrite seq_S, rev_app_distr. reflexivity. }
    destruct vq as [sc|c [|kv kvs]|c xs].
    + destruct (IH t ltac:(lia)) as [qs [HF2 Hres]]; [intros k H1 H2; apply Hinv; lia|].
      exists (q :: qs). split; [rewrite Hseq; constructor; assumption|].
      rewrite Hres. unfold prune_list at 2. cbn [fold_left]. unfold prune_step at 2.
      now rewrite (walk_resolve _ _ _ _ Hw).
    + (* an empty dictionary: it is deleted *)
      rewrite (del_slot_found t t [] q _ F eq_refl Hat). cbn [app].
      destruct (IH (delete_at t q) ltac:(lia)) as [qs [HF2 Hres]].
      { eapply inv_after_delete; eauto. lia. }
      exists (q :: qs). split; [rewrite Hseq; constructor; assumption|].
      rewrite Hres. unfold prune_list at 2. cbn [fold_left]. unfold prune_step at 2.
      now rewrite (walk_resolve _ _ _ _ Hw).
    + destruct (IH t ltac:(lia)) as [qs [HF2 Hres]]; [intros k H1 H2; apply Hinv; lia|].
      exists (q :: qs). split; [rewrite Hseq; constructor; assumption|].
      rewrite Hres. unfold prune_list at 2. cbn [fold_left]. unfold prune_step at 2.
      now rewrite (walk_resolve _ _ _ _ Hw).
    + destruct (IH t ltac:(lia)) as [qs [HF2 Hres]]; [intros k H1 H2; apply Hinv; lia|].
      exists (q :: qs). split; [rewrite Hseq; constructor; assumption|].
      rewrite Hres. unfold prune_list at 2. cbn [fold_left]. unfold prune_step at 2.
      now rewrite (walk_resolve _ _ _ _ Hw).
Qed.
End recursive.

Theorem delete_recursive_walk fuel root x p u :
  tokenize x <> [] -> walk root (tokenize x) p u -> 2 * length (tokenize x) <= fuel ->
  exists qs,
    Forall2 (Q root (tokenize x)) (rev (seq 1 (length (tokenize x) - 1))) qs /\
    delete fuel root x true = (prune_list (delete_at root p) qs, None).
Proof.
  intros Hne Hw Hf. unfold delete.
  destruct (tokenize x) as [|t0 toks0] eqn:Et; [congruence|]. rewrite <- Et in *.
  assert (Hlen : length (tokenize x) = S (length toks0)) by (rewrite Et; reflexivity).
  rewrite Hlen. cbn [delete_loop]. rewrite <- Hlen, firstn_all.
  destruct (find_walk true root (tokenize x) p u Hw Hne fuel root [] s_root Hf) as [F [HF Hat]].
  rewrite HF. cbn [orb].
  rewrite (del_slot_found root root [] p u F eq_refl Hat). cbn [app].
  replace (length (tokenize x) - 1) with (length toks0) by lia.
  apply (delete_loop_recursive root (tokenize x) fuel Hf (length toks0) (delete_at root p)); [lia|].
  intros k Hk0 Hkl.
  destruct (walk_split root (tokenize x) p u Hw k ltac:(lia)) as [q [r [v' [H1 [H2 [H3 H4]]]]]].
  exists q, (delete_at v' r). split; [exists v'; exact H1|]. subst p. now apply walk_after_delete_below.
Qed.

(* consequence: if no token-boundary ancestor becomes an empty dictionary, recursively changes nothing *)
Lemma prune_list_noop t qs :
  Forall (fun q => forall c, resolve t q <> Some (Dict c [])) qs -> prune_list t qs = t.
Proof.
  induction 1 as [|q qs Hq Hqs IH]; [reflexivity|]. unfold prune_list. cbn [fold_left].
  assert (E : prune_step t q = t).
  { unfold prune_step. destruct (resolve t q) as [[s|c [|kv kvs]|c xs]|] eqn:Er; try reflexivity.
    exfalso. exact (Hq c eq_refl). }
  rewrite E. exact IH.
Qed.
(* delete of a path that addresses nothing removes nothing: below a resolved prefix, an index outside the
   list (on either side) or an unknown key makes delete raise, and the tree it leaves is the one it was given *)
Theorem delete_index_out_of_range fuel root x rc toks p c items y rest si z :
  tokenize x = toks ++ y :: rest -> walk root toks p (Lst c items) ->
  split_name_index y = Ok ([], IdxStr si) -> plain_idx si -> n0eval si = EvInt z ->
  norm_idx (length items) z = None -> 2 * length toks + 1 <= fuel ->
  delete fuel root x rc = (root, Some (Raise ExIndex)).
Proof.
  intros Ht Hw Hy Hpi He Hn Hf. unfold delete. rewrite Ht.
  assert (Hlen : length (toks ++ y :: rest) = S (length toks + length rest)) by (rewrite app_length; cbn; lia).
  rewrite Hlen. cbn [delete_loop]. rewrite <- Hlen, firstn_all.
  destruct (find_walk_prefix true root toks p _ Hw (y :: rest) ltac:(congruence) fuel root [] s_root ltac:(lia))
    as [fstr' [fuel' [H1 [H2 H3]]]].
  rewrite H3. destruct fuel' as [|f']; [lia|].
  rewrite (find_idx_oob true f' root y rest _ c items fstr' si z Hy Hpi He Hn).
  cbn [orb f_par f_slot]. unfold del_slot. cbn [app pget].
  rewrite (walk_resolve _ _ _ _ Hw).
  destruct (br_brackets (dec_of_Z z)) as [B1 [B2 B3]]. rewrite B1, B2, B3. cbn [andb].
  rewrite n0eval_dec, Hn. reflexivity.
Qed.

Theorem delete_unknown_key fuel root x rc toks p c kvs y rest k ix :
  tokenize x = toks ++ y :: rest -> walk root toks p (Dict c kvs) ->
  split_name_index y = Ok (k, ix) -> plain_key k -> lookup k kvs = None ->
  2 * length toks + 1 <= fuel ->
  exists e, delete fuel root x rc = (root, Some (Raise e)).
Proof.
  intros Ht Hw Hy Hpk Hl Hf. unfold delete. rewrite Ht.
  assert (Hlen : length (toks ++ y :: rest) = S (length toks + length rest)) by (rewrite app_length; cbn; lia).
  rewrite Hlen. cbn [delete_loop]. rewrite <- Hlen, firstn_all.
  destruct (find_walk_prefix true root toks p _ Hw (y :: rest) ltac:(congruence) fuel root [] s_root ltac:(lia))
    as [fstr' [fuel' [H1 [H2 H3]]]].
  rewrite H3. destruct fuel' as [|f']; [lia|].
  rewrite (find_key_missing true f' root y rest _ c kvs fstr' k ix Hy Hpk Hl).
  cbn [orb f_par f_slot]. unfold del_slot. cbn [app pget].
  rewrite (walk_resolve _ _ _ _ Hw). eexists. reflexivity.
Qed.
