(* Xpath/AppendProofs.v — P[new()] = v on an existing list appends exactly one element. *)
From Coq Require Import List NArith ZArith Bool Lia.
From N0 Require Import Base.PyStr Base.PyVal Xpath.Dec Xpath.DecProofs Xpath.Token Xpath.TokenProofs
  Xpath.Find Xpath.FindProofs Xpath.Write Xpath.SpecProofs Xpath.WalkProofs Xpath.TokenizeProofs Xpath.EnumProofs
  Xpath.FstrProofs Xpath.DeleteProofs Xpath.CreateProofs.
Import ListNotations.

Arguments N.eqb : simpl never.

Lemma sni_new : split_name_index (br s_new) = Ok ([], IdxStr s_new).
Proof. reflexivity. Qed.

Lemma set_nth_snoc {A} (l : list A) (a v : A) : set_nth (length l) v (l ++ [a]) = l ++ [v].
Proof. induction l as [|x r IH]; cbn; [reflexivity|]. now rewrite IH. Qed.

Lemma norm_idx_last n : norm_idx (S n) (-1) = Some n.
Proof. apply norm_idx_spec. right. split; lia. Qed.

(* the [new()] branch of the resolver at an existing list reached by a walk from the root *)
Lemma find_new_at_list rl f root p c items segs toks :
  keys_good root -> walks root toks p (Lst c items) segs -> segs <> [] ->
  2 * length (seg_tokens segs) <= f ->
  find true rl (S f) root [br s_new] (PAt p) (Lst c items) (s_root ++ render_segs segs) =
  Ok (root, false, mkF (PAt p) (Lst c items) None None
                       (match find true rl f root (tokenize (s_root ++ render_segs segs)) (PAt []) root s_root with
                        | Ok (_, _, F1) => f_str F1 | _ => [] end)
                       (Some [br s_new])).
Proof.
  intros Hg Hw Hne Hf.
  destruct (refind_walks rl f root toks p (Lst c items) segs Hg Hw Hne Hf) as [F1 [HF1 Hat]].
  cbn [find]. rewrite sni_new. cbn [bind nonempty negb andb idx_truthy].
  replace (pstr_eqb s_new s_new) with true by reflexivity.
  rewrite HF1. cbn [bind].
  destruct Hat as [q [last [slot [Hp [Hpar [Hres [Hsl [Hsn [Hv Hrest]]]]]]]]].
  pose proof (walk_resolve _ _ _ _ (walks_walk _ _ _ _ _ Hw)) as Hrp.
  rewrite Hp, resolve_app in Hrp. cbn [app] in Hres. rewrite Hres in Hrp.
  rewrite Hsl. cbn [app] in Hpar.
  destruct last as [k|i]; cbn [slot_names] in Hsn.
  - destruct Hsn as [c0 [kvs0 [u [Epv [-> [Hs Hl]]]]]]. rewrite Epv in *. cbn in Hrp. rewrite Hl in Hrp.
    inversion Hrp; subst u. rewrite Hl. cbn [is_list]. rewrite Hpar. cbn [child_key]. now rewrite <- Hp.
  - destruct Hsn as [c0 [items0 [z [u [Epv [-> [Hn Hnth]]]]]]]. rewrite Epv in *. cbn in Hrp. rewrite Hnth in Hrp.
    inversion Hrp; subst u.
    destruct (br_brackets (dec_of_Z z)) as [B1 [B2 B3]]. rewrite B1, B2, B3. cbn [andb].
    rewrite n0eval_dec, Hn, Hnth, Hpar. cbn [is_list]. now rewrite <- Hp.
Qed.

Theorem setitem_appends fuel root x v toks p c items segs :
  keys_good root ->
  has_path_char x = true -> tokenize x = toks ++ [br s_new] ->
  walks root toks p (Lst c items) segs -> toks <> [] ->
  2 * length toks + 2 * length (seg_tokens segs) + 2 <= fuel ->
  setitem_core fuel root x v = Ok (replace_at root p (Lst c (items ++ [v]))).
Proof.
  intros Hg Hc Ht Hw Htne Hf. unfold setitem_core. rewrite Hc, Ht.
  destruct (find_walks_prefix true root toks p (Lst c items) segs Hw [br s_new] ltac:(congruence) fuel root [] s_root ltac:(lia))
    as [fuel' [H1 [H2 H3]]].
  rewrite H3. destruct fuel' as [|f']; [lia|].
  assert (Hsne : segs <> []).
  { inversion Hw; subst; congruence. }
  cbn [app].
  rewrite (find_new_at_list true f' root p c items segs toks Hg Hw Hsne ltac:(lia)).
  cbn [bind rest_falsy f_rest f_par f_slot].
  pose proof (walk_resolve _ _ _ _ (walks_walk _ _ _ _ _ Hw)) as Hp.
  destruct fuel as [|f]; [lia|].
  cbn [add]. rewrite sni_new. cbn [bind]. rewrite Hp.
  replace (pstr_eqb s_new s_new) with true by reflexivity. cbn [bind].
  set (root' := replace_at root p (Lst c (items ++ [Leaf SNone]))).
  unfold write_slot. rewrite sni_lastidx. cbn [bind pget nonempty].
  unfold root' at 1. rewrite (resolve_replace_same root p _ _ Hp). rewrite n0eval_last.
  rewrite app_length. cbn [length]. rewrite Nat.add_1_r, norm_idx_last. cbn [pset].
  rewrite set_nth_snoc. unfold root'. now rewrite (replace_replace_same root p _ _ _ Hp).
Qed.

(* non-vacuity: {"a": {"l": [1]}}  and  a/l[new()] = 7 *)
Definition ap_root : tree := Dict true [([97]%N, Dict true [([108]%N, Lst true [Leaf (SInt 1)])])].
Definition ap_x : pstr := [97; 47; 108; 47]%N ++ br s_new.

Theorem append_example :
  keys_good ap_root /\
  (exists toks p c items segs, tokenize ap_x = toks ++ [br s_new] /\ walks ap_root toks p (Lst c items) segs /\ toks <> []) /\
  setitem_core (wfuel ap_x) ap_root ap_x (Leaf (SInt 7)) =
  Ok (Dict true [([97]%N, Dict true [([108]%N, Lst true [Leaf (SInt 1); Leaf (SInt 7)])])]).
Proof.
  split; [cbn; repeat split; apply good_key_letter; cbv; congruence|].
  split; [|vm_compute; reflexivity].
  exists [[97]%N; [108]%N], [PKey [97]%N; PKey [108]%N], true, [Leaf (SInt 1)], [SK [97]%N; SK [108]%N].
  split; [vm_compute; reflexivity|]. split; [|discriminate].
  eapply walks_key with (k := [97]%N); [reflexivity| |reflexivity|].
  - unfold plain_key. repeat split; try discriminate; reflexivity.
  - eapply walks_key with (k := [108]%N); [reflexivity| |reflexivity|constructor].
    unfold plain_key. repeat split; try discriminate; reflexivity.
Qed.

(* ---- P[len] = v : an index equal to the length appends exactly one element ------------------------- *)
Lemma add_at_len f root p c items z y :
  resolve root p = Some (Lst c items) -> z = Z.of_nat (length items) ->
  (exists nn ni, split_name_index y = Ok (nn, ni)) ->
  add (S f) root p (Some (br (dec_of_Z z))) [y] =
  Ok (replace_at root p (Lst c (items ++ [Leaf SNone])), p, s_lastidx).
Proof.
  intros Hp Hz [nn [ni Hy]]. cbn [add]. unfold br at 1. cbn [app].
  change (c_lb :: dec_of_Z z ++ [c_rb]) with (br (dec_of_Z z)).
  rewrite (sni_br _ (clean_idx_dec z)), Hy. cbn [bind]. rewrite Hp.
  destruct (plain_idx_dec z) as [_ [Hnew Hstar]].
  rewrite Hnew.
  assert (Hlast : pstr_eqb (dec_of_Z z) s_last = false) by (apply dec_not_kw; cbn; lia).
  rewrite Hlast, n0eval_dec, Hz, Z.eqb_refl. reflexivity.
Qed.

Theorem setitem_appends_at_len fuel root x v toks p c items y si :
  has_path_char x = true -> tokenize x = toks ++ [y] ->
  walk root toks p (Lst c items) ->
  split_name_index y = Ok ([], IdxStr si) -> plain_idx si -> n0eval si = EvInt (Z.of_nat (length items)) ->
  2 * length toks + 2 <= fuel ->
  setitem_core fuel root x v = Ok (replace_at root p (Lst c (items ++ [v]))).
Proof.
  intros Hc Ht Hw Hs Hi He Hf. unfold setitem_core. rewrite Hc, Ht.
  destruct (find_walk_prefix true root toks p (Lst c items) Hw [y] ltac:(congruence) fuel root [] s_root ltac:(lia))
    as [fstr' [fuel' [H1 [H2 H3]]]].
  rewrite H3. destruct fuel' as [|f']; [lia|].
  assert (Hoob : norm_idx (length items) (Z.of_nat (length items)) = None) by (apply norm_idx_none; lia).
  rewrite (find_idx_oob true f' root y [] (PAt ([] ++ p)) c items fstr' si _ Hs Hi He Hoob).
  cbn [bind rest_falsy f_rest f_par f_slot app].
  pose proof (walk_resolve _ _ _ _ Hw) as Hp.
  destruct fuel as [|f]; [lia|].
  rewrite (add_at_len f root p c items _ y Hp eq_refl ltac:(eauto)). cbn [bind].
  set (root' := replace_at root p (Lst c (items ++ [Leaf SNone]))).
  unfold write_slot. rewrite sni_lastidx. cbn [bind pget nonempty].
  unfold root' at 1. rewrite (resolve_replace_same root p _ _ Hp). rewrite n0eval_last.
  rewrite app_length. cbn [length]. rewrite Nat.add_1_r, norm_idx_last. cbn [pset].
  rewrite set_nth_snoc. unfold root'. now rewrite (replace_replace_same root p _ _ _ Hp).
Qed.

(* an index beyond the end is refused: SyntaxError, and the tree is not touched (the model returns no tree) *)
Theorem setitem_refuses_beyond_end fuel root x v toks p c items y si z :
  has_path_char x = true -> tokenize x = toks ++ [y] ->
  walk root toks p (Lst c items) ->
  split_name_index y = Ok ([], IdxStr si) -> plain_idx si -> n0eval si = EvInt z ->
  (Z.of_nat (length items) < z)%Z ->
  2 * length toks + 2 <= fuel ->
  setitem_core fuel root x v = Raise ExSyntax.
Proof.
  intros Hc Ht Hw Hs Hi He Hz Hf. unfold setitem_core. rewrite Hc, Ht.
  destruct (find_walk_prefix true root toks p (Lst c items) Hw [y] ltac:(congruence) fuel root [] s_root ltac:(lia))
    as [fstr' [fuel' [H1 [H2 H3]]]].
  rewrite H3. destruct fuel' as [|f']; [lia|].
  assert (Hoob : norm_idx (length items) z = None) by (apply norm_idx_none; lia).
  rewrite (find_idx_oob true f' root y [] (PAt ([] ++ p)) c items fstr' si _ Hs Hi He Hoob).
  cbn [bind rest_falsy f_rest f_par f_slot app].
  pose proof (walk_resolve _ _ _ _ Hw) as Hp.
  destruct fuel as [|f]; [lia|].
  cbn [add]. unfold br at 1. cbn [app]. change (c_lb :: dec_of_Z z ++ [c_rb]) with (br (dec_of_Z z)).
  rewrite (sni_br _ (clean_idx_dec z)), Hs. cbn [bind]. rewrite Hp.
  destruct (plain_idx_dec z) as [_ [Hnew Hstar]]. rewrite Hnew.
  assert (Hlast : pstr_eqb (dec_of_Z z) s_last = false) by (apply dec_not_kw; cbn; lia).
  rewrite Hlast, n0eval_dec.
  assert (E : Z.eqb z (Z.of_nat (length items)) = false) by (apply Z.eqb_neq; lia).
  now rewrite E.
Qed.

(* ---- a step below a scalar is refused ------------------------------------------------------------------ *)
Lemma find_key_below_scalar rl f root x rest par s fstr name ix :
  split_name_index x = Ok (name, ix) -> name <> [] -> pstr_eqb name s_dotdot = false ->
  find true rl (S f) root (x :: rest) par (Leaf s) fstr = Raise ExIndex.
Proof.
  intros Hs Hne Hdd. cbn [find]. rewrite Hs. cbn [bind].
  destruct name as [|n0 n1]; [congruence|]. cbn [nonempty negb andb]. now rewrite Hdd.
Qed.

Theorem setitem_refuses_below_scalar fuel root x v toks p s y rest name ix :
  has_path_char x = true -> tokenize x = toks ++ y :: rest ->
  walk root toks p (Leaf s) ->
  split_name_index y = Ok (name, ix) -> name <> [] -> pstr_eqb name s_dotdot = false ->
  2 * length toks + 1 <= fuel ->
  setitem_core fuel root x v = Raise ExIndex.
Proof.
  intros Hc Ht Hw Hs Hne Hdd Hf. unfold setitem_core. rewrite Hc, Ht.
  destruct (find_walk_prefix true root toks p (Leaf s) Hw (y :: rest) ltac:(congruence) fuel root [] s_root ltac:(lia))
    as [fstr' [fuel' [H1 [H2 H3]]]].
  rewrite H3. destruct fuel' as [|f']; [lia|].
  now rewrite (find_key_below_scalar true f' root y rest _ s fstr' name ix Hs Hne Hdd).
Qed.

Theorem lookup_below_scalar_is_miss fuel root x re rl dflt toks p s y rest name ix :
  has_path_char x = true -> tokenize x = toks ++ y :: rest ->
  walk root toks p (Leaf s) ->
  split_name_index y = Ok (name, ix) -> name <> [] -> pstr_eqb name s_dotdot = false ->
  2 * length toks + 1 <= fuel ->
  dict_get_core fuel root x re rl dflt = Ok (root, if re then LRaise ExIndex else dflt).
Proof.
  intros Hc Ht Hw Hs Hne Hdd Hf. unfold dict_get_core. rewrite Hc, Ht.
  destruct (find_walk_prefix rl root toks p (Leaf s) Hw (y :: rest) ltac:(congruence) fuel root [] s_root ltac:(lia))
    as [fstr' [fuel' [H1 [H2 H3]]]].
  rewrite H3. destruct fuel' as [|f']; [lia|].
  rewrite (find_key_below_scalar rl f' root y rest _ s fstr' name ix Hs Hne Hdd). reflexivity.
Qed.
