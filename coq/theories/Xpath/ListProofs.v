(* Xpath/ListProofs.v — list-rooted containers addressed with a leading index. *)
From Coq Require Import List NArith ZArith Bool Lia.
From N0 Require Import Base.PyStr Base.PyVal Xpath.Dec Xpath.DecProofs Xpath.Token Xpath.TokenProofs
  Xpath.Find Xpath.FindProofs Xpath.Write Xpath.SpecProofs Xpath.WalkProofs.
Import ListNotations.

Arguments N.eqb : simpl never.

(* a walk from a list root: index steps through nested lists, then (below the first
   dictionary) the dict-rooted walk *)
Inductive lwalk : tree -> list pstr -> path -> tree -> Prop :=
| lwalk_last x c items si z i child :
    split_name_index x = Ok ([], IdxStr si) -> plain_idx si -> n0eval si = EvInt z ->
    norm_idx (length items) z = Some i -> nth_error items i = Some child ->
    lwalk (Lst c items) [x] [PIdx i] child
| lwalk_list x toks c items si z i c' items' p v :
    split_name_index x = Ok ([], IdxStr si) -> plain_idx si -> n0eval si = EvInt z ->
    norm_idx (length items) z = Some i -> nth_error items i = Some (Lst c' items') ->
    lwalk (Lst c' items') toks p v -> lwalk (Lst c items) (x :: toks) (PIdx i :: p) v
| lwalk_dict x toks c items si z i c' kvs p v :
    split_name_index x = Ok ([], IdxStr si) -> plain_idx si -> n0eval si = EvInt z ->
    norm_idx (length items) z = Some i -> nth_error items i = Some (Dict c' kvs) ->
    toks <> [] -> walk (Dict c' kvs) toks p v -> lwalk (Lst c items) (x :: toks) (PIdx i :: p) v.

Lemma lwalk_resolve t toks p v : lwalk t toks p v -> resolve t p = Some v.
Proof.
  induction 1 as [x c items si z i child Hs Hi He Hn Hc
                  |x toks c items si z i c' items' p v Hs Hi He Hn Hc Hw IH
                  |x toks c items si z i c' kvs p v Hs Hi He Hn Hc Hne Hw]; cbn [resolve].
  - now rewrite Hc.
  - now rewrite Hc.
  - rewrite Hc. eapply walk_resolve; eauto.
Qed.

Lemma lwalk_nonempty t toks p v : lwalk t toks p v -> toks <> [].
Proof. destruct 1; discriminate. Qed.

Theorem lfind_lwalk rl : forall sub toks p v, lwalk sub toks p v ->
  forall fuel root pos fstr, 2 * length toks + 1 <= fuel ->
  exists F, lfind rl fuel root toks (PAt pos) sub fstr = Ok (root, false, F) /\
            f_val F = Some v /\ f_rest F = None.
Proof.
  induction 1 as [x c items si z i child Hs Hi He Hn Hc
                  |x toks c items si z i c' items' p v Hs Hi He Hn Hc Hw IH
                  |x toks c items si z i c' kvs p v Hs Hi He Hn Hc Hne Hw];
    intros fuel root pos fstr Hf.
  - destruct fuel as [|f]; [lia|]. destruct Hi as [Hsine [Hnew Hst]].
    cbn [lfind]. rewrite Hs. cbn [bind nonempty]. rewrite Hst. cbn [wrap_parent]. rewrite He, Hn, Hc.
    eexists. split; [reflexivity|]. split; reflexivity.
  - destruct fuel as [|f]; [lia|]. destruct Hi as [Hsine [Hnew Hst]].
    pose proof (lwalk_nonempty _ _ _ _ Hw) as Hne.
    cbn [lfind]. rewrite Hs. cbn [bind nonempty]. rewrite Hst. cbn [wrap_parent]. rewrite He, Hn, Hc.
    destruct toks as [|y toks']; [congruence|].
    cbn [child_idx]. apply IH. cbn in *. lia.
  - destruct fuel as [|f]; [lia|]. destruct Hi as [Hsine [Hnew Hst]].
    cbn [lfind]. rewrite Hs. cbn [bind nonempty]. rewrite Hst. cbn [wrap_parent]. rewrite He, Hn, Hc.
    destruct toks as [|y toks']; [congruence|]. cbn [child_idx].
    destruct (find_walk rl (Dict c' kvs) (y :: toks') p v Hw Hne f (Dict c' kvs) [] s_root) as [F [HF Hat]];
      [cbn in *; lia|].
    rewrite HF. cbn [bind]. eexists. split; [reflexivity|].
    destruct Hat as [q [last [slot [_ [_ [_ [_ [_ [Hv Hr]]]]]]]]]. cbn [rebase f_val f_rest]. auto.
Qed.

Lemma list_get_no_qmark fuel root x re rl :
  x <> [] -> no_qmark x -> list_get fuel root x re rl = list_get_core fuel root x re rl LDefault.
Proof.
  unfold list_get, no_qmark. destruct x as [|c x']; [congruence|]. intros _.
  destruct c as [|q]; [reflexivity|]. repeat (destruct q as [q|q|]; try reflexivity). intros [].
Qed.

Theorem list_lookup_lwalk root x p v :
  has_path_char x = true -> no_qmark x -> lwalk root (tokenize x) p v ->
  resolve root p = Some v /\
  list_get (fuel_for root x) root x true true = Ok (root, LVal v) /\
  list_get (fuel_for root x) root x false true = Ok (root, LVal v) /\
  list_first (fuel_for root x) root x = Ok (root, unwrap_single (LVal v)).
Proof.
  intros Hc Hq Hw. split; [eapply lwalk_resolve; eauto|].
  assert (Hx : x <> []) by (intros ->; discriminate).
  assert (Hf : 2 * length (tokenize x) + 1 <= fuel_for root x) by (unfold fuel_for; lia).
  unfold list_first. rewrite !list_get_no_qmark by assumption. unfold list_get_core. rewrite Hc.
  destruct (lfind_lwalk true root (tokenize x) p v Hw _ root [] s_root Hf) as [F1 [HF1 [Hv1 Hr1]]].
  destruct (lfind_lwalk false root (tokenize x) p v Hw _ root [] s_root Hf) as [F2 [HF2 [Hv2 Hr2]]].
  rewrite HF1, HF2, Hr1, Hr2, Hv1, Hv2. cbn [rest_falsy bind]. auto.
Qed.
