(* Xpath/PutPut.v — the remaining lens law of the Spec: the last write wins. *)
From Coq Require Import List NArith ZArith Bool Lia.
From N0 Require Import Base.PyStr Base.PyVal Xpath.SpecProofs.
Import ListNotations.

Lemma update_update {A} k (v w : A) kvs : update k w (update k v kvs) = update k w kvs.
Proof.
  induction kvs as [|[k' v'] r IH]; cbn.
  - now rewrite pstr_eqb_refl.
  - destruct (pstr_eqb k k') eqn:E; cbn; rewrite E; [reflexivity|now rewrite IH].
Qed.

Lemma set_nth_set_nth {A} n (v w : A) l : set_nth n w (set_nth n v l) = set_nth n w l.
Proof. revert n. induction l as [|x r IH]; intros [|n]; cbn; try reflexivity. now rewrite IH. Qed.

Theorem replace_replace t p v w : replace_at (replace_at t p v) p w = replace_at t p w.
Proof.
  revert t. induction p as [|s p IH]; intros t; [reflexivity|].
  destruct s as [k|i]; destruct t as [sc|c kvs|c xs]; cbn [replace_at]; try reflexivity.
  - destruct (lookup k kvs) as [u|] eqn:E; cbn [replace_at]; [|now rewrite E].
    rewrite lookup_update_same, update_update, IH. reflexivity.
  - destruct (nth_error xs i) as [u|] eqn:E; cbn [replace_at]; [|now rewrite E].
    rewrite nth_error_set_nth_same by (apply nth_error_Some; congruence).
    rewrite set_nth_set_nth, IH. reflexivity.
Qed.
