(* Xpath/FindProofs.v — proofs about the resolver model. *)
From Coq Require Import List NArith ZArith Bool Lia.
From N0 Require Import Base.PyStr Base.PyVal Xpath.Dec Xpath.Token Xpath.Find.
Import ListNotations.

(* ---- the exception funnel of _get -------------------------------------------------- *)
Lemma dict_get_core_no_funnelled fuel root x rl dflt root' e :
  (forall e', dflt <> LRaise e') ->
  dict_get_core fuel root x false rl dflt = Ok (root', LRaise e) -> funnelled e = false.
Proof.
  unfold dict_get_core. intros Hd H.
  destruct (has_path_char x).
  - destruct (find true rl fuel root (tokenize x) (PAt []) root s_root) as [[[r m] F]|e0| |]; try discriminate.
    + destruct (rest_falsy (f_rest F)).
      * destruct (f_val F); inversion H.
      * inversion H as [[Hr Hl]]. exfalso. eapply Hd. exact Hl.
    + destruct (funnelled e0) eqn:Ef; inversion H as [[Hr Hl]].
      * exfalso. eapply Hd. exact Hl.
      * subst. exact Ef.
  - destruct root; try discriminate. destruct (lookup x kvs); inversion H as [[Hr Hl]].
    exfalso. eapply Hd. exact Hl.
Qed.

Lemma dict_get_no_funnelled fuel root x rl root' e :
  dict_get fuel root x false rl = Ok (root', LRaise e) -> funnelled e = false.
Proof.
  unfold dict_get. intros H.
  destruct x as [|c x'].
  - eapply dict_get_core_no_funnelled; [|exact H]. discriminate.
  - destruct (N.eqb c 63) eqn:Ec.
    + apply N.eqb_eq in Ec. subst c. eapply dict_get_core_no_funnelled; [|exact H]. discriminate.
    + assert (Hm : match c :: x' with 63%N :: x'0 => dict_get_core fuel root x'0 false rl LEmpty
                                  | _ => dict_get_core fuel root (c :: x') false rl LDefault end
                   = dict_get_core fuel root (c :: x') false rl LDefault).
      { apply N.eqb_neq in Ec. destruct c as [|p]; [reflexivity|].
        repeat (destruct p as [p|p|]; try reflexivity). congruence. }
      rewrite Hm in H. eapply dict_get_core_no_funnelled; [|exact H]. discriminate.
Qed.
