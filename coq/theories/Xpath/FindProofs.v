(* Xpath/FindProofs.v — proofs about the resolver model. *)
From Coq Require Import List NArith ZArith Bool Lia.
From N0 Require Import Base.PyStr Base.PyVal Xpath.Dec Xpath.Token Xpath.Find.
Import ListNotations.

(* ---- the exception funnel of _get -------------------------------------------------- *)
Lemma dict_get_core_no_funnelled fuel root x rl dflt root' e :
  (forall e', dflt <> LRaise e') ->
  dict_get_core fuel root x false rl dflt = Ok (root', LRaise e) -> funnelled e = false.
Proof.
  unfold dict_get_core. intros Hd H.
  destruct (has_path_char x).
  - destruct (find true rl fuel root (tokenize x) (PAt []) root s_root) as [[[r m] F]|e0| |]; try discriminate.
    + destruct (rest_falsy (f_rest F)).
      * destruct (f_val F); inversion H.
      * inversion H as [[Hr Hl]]. exfalso. eapply Hd. exact Hl.
    + destruct (funnelled e0) eqn:Ef; inversion H as [[Hr Hl]].
      * exfalso. eapply Hd. exact Hl.
      * subst. exact Ef.
  - destruct root; try discriminate. destruct (lookup x kvs); inversion H as [[Hr Hl]].
    exfalso. eapply Hd. exact Hl.
Qed.

Lemma dict_get_no_funnelled fuel root x rl root' e :
  dict_get fuel root x false rl = Ok (root', LRaise e) -> funnelled e = false.
Proof.
  unfold dict_get. intros H.
  destruct x as [|c x'].
  - eapply dict_get_core_no_funnelled; [|exact H]. discriminate.
  - destruct (N.eqb c 63) eqn:Ec.
    + apply N.eqb_eq in Ec. subst c. eapply dict_get_core_no_funnelled; [|exact H]. discriminate.
    + assert (Hm : match c :: x' with 63%N :: x'0 => dict_get_core fuel root x'0 false rl LEmpty
                                  | _ => dict_get_core fuel root (c :: x') false rl LDefault end
                   = dict_get_core fuel root (c :: x') false rl LDefault).
      { apply N.eqb_neq in Ec. destruct c as [|p]; [reflexivity|].
        repeat (destruct p as [p|p|]; try reflexivity). congruence. }
      rewrite Hm in H. eapply dict_get_core_no_funnelled; [|exact H]. discriminate.
Qed.

(* ---- one resolver step on a key / on an index ------------------------------------------ *)
Definition plain_key (k : pstr) : Prop :=
  k <> [] /\ pstr_eqb k s_dotdot = false /\ pstr_eqb k s_star = false.
Definition plain_idx (si : pstr) : Prop :=
  si <> [] /\ pstr_eqb si s_new = false /\ pstr_eqb si s_star = false.

Lemma find_key_step rl f root x rest par c kvs fstr k child :
  split_name_index x = Ok (k, IdxNone) -> plain_key k -> lookup k kvs = Some child ->
  find true rl (S f) root (x :: rest) par (Dict c kvs) fstr =
  match rest with
  | [] => Ok (root, false, mkF par (Dict c kvs) (Some k) (Some child) (sl fstr k) None)
  | _ => find true rl f root rest (child_key par k) child (sl fstr k)
  end.
Proof.
  intros Hs [Hne [Hdd Hst]] Hl. cbn [find]. rewrite Hs. cbn [bind].
  destruct k as [|k0 k1]; [congruence|]. cbn [nonempty negb andb idx_truthy].
  rewrite Hdd. cbn [is_list]. rewrite Hst, Hl. destruct rest; reflexivity.
Qed.

Lemma find_idx_step rl f root x rest par c items fstr si z i child :
  split_name_index x = Ok ([], IdxStr si) -> plain_idx si -> n0eval si = EvInt z ->
  norm_idx (length items) z = Some i -> nth_error items i = Some child ->
  find true rl (S f) root (x :: rest) par (Lst c items) fstr =
  match rest with
  | [] => Ok (root, false, mkF par (Lst c items) (Some (br (dec_of_Z z))) (Some child) (fstr ++ br (dec_of_Z z)) None)
  | _ => find true rl f root rest (child_idx par i) child (fstr ++ br (dec_of_Z z))
  end.
Proof.
  intros Hs [Hne [Hnew Hst]] He Hn Hc. cbn [find]. rewrite Hs. cbn [bind].
  destruct si as [|s0 s1]; [congruence|]. cbn [nonempty negb andb idx_truthy].
  rewrite Hnew, Hst. cbn [wrap_parent]. rewrite He, Hn, Hc. destruct rest; reflexivity.
Qed.

Lemma find_keyidx_step rl f root x rest par c kvs fstr k si child :
  split_name_index x = Ok (k, IdxStr si) -> plain_key k -> si <> [] -> lookup k kvs = Some child ->
  find true rl (S f) root (x :: rest) par (Dict c kvs) fstr =
  find true rl f root (br si :: rest) (child_key par k) child (sl fstr k).
Proof.
  intros Hs [Hne [Hdd Hst]] Hsi Hl. cbn [find]. rewrite Hs. cbn [bind].
  destruct k as [|k0 k1]; [congruence|]. cbn [nonempty negb andb idx_truthy].
  rewrite Hdd. cbn [is_list]. rewrite Hst, Hl. destruct rest; reflexivity.
Qed.

Lemma sni_none_self x k : split_name_index x = Ok (k, IdxNone) -> k = x.
Proof.
  unfold split_name_index, bind. intros H.
  repeat match type of H with
         | context [match ?d with _ => _ end] => destruct d eqn:?; try discriminate H
         | context [if ?d then _ else _] => destruct d eqn:?; try discriminate H
         end.
  all: try (inversion H; reflexivity).
Qed.

(* ---- the walk a token list denotes -------------------------------------------------------- *)
Inductive walk : tree -> list pstr -> path -> tree -> Prop :=
| walk_nil t : walk t [] [] t
| walk_key x toks c kvs k child p v :
    split_name_index x = Ok (k, IdxNone) -> plain_key k -> lookup k kvs = Some child ->
    walk child toks p v -> walk (Dict c kvs) (x :: toks) (PKey k :: p) v
| walk_idx x toks c items si z i child p v :
    split_name_index x = Ok ([], IdxStr si) -> plain_idx si -> n0eval si = EvInt z ->
    norm_idx (length items) z = Some i -> nth_error items i = Some child ->
    walk child toks p v -> walk (Lst c items) (x :: toks) (PIdx i :: p) v
| walk_keyidx x toks c kvs k si c' items z i child p v :
    split_name_index x = Ok (k, IdxStr si) -> plain_key k -> plain_idx si ->
    split_name_index (br si) = Ok ([], IdxStr si) -> n0eval si = EvInt z ->
    lookup k kvs = Some (Lst c' items) ->
    norm_idx (length items) z = Some i -> nth_error items i = Some child ->
    walk child toks p v -> walk (Dict c kvs) (x :: toks) (PKey k :: PIdx i :: p) v.

Lemma walk_resolve t toks p v : walk t toks p v -> resolve t p = Some v.
Proof.
  induction 1 as [t|x toks c kvs k child p v Hs Hk Hl Hw IH
                  |x toks c items si z i child p v Hs Hi He Hn Hc Hw IH
                  |x toks c kvs k si c' items z i child p v Hs Hk Hi Hb He Hl Hn Hc Hw IH]; cbn [resolve].
  - reflexivity.
  - now rewrite Hl.
  - now rewrite Hc.
  - rewrite Hl. cbn [resolve]. now rewrite Hc.
Qed.

(* what the returned (parent, slot) pair says about the addressed node *)
Definition slot_names (parv : tree) (slot : pstr) (last : pstep) : Prop :=
  match last with
  | PKey k => exists c kvs u, parv = Dict c kvs /\ slot = k /\ split_name_index k = Ok (k, IdxNone) /\
                              lookup k kvs = Some u
  | PIdx i => exists c items z u, parv = Lst c items /\ slot = br (dec_of_Z z) /\
                                  norm_idx (length items) z = Some i /\ nth_error items i = Some u
  end.

Definition found_at (sub : tree) (pos : path) (p : path) (v : tree) (F : found) : Prop :=
  exists q last slot,
    p = q ++ [last] /\ f_par F = PAt (pos ++ q) /\ resolve sub q = Some (f_parv F) /\
    f_slot F = Some slot /\ slot_names (f_parv F) slot last /\
    f_val F = Some v /\ f_rest F = None.

Lemma found_at_cons sub pos st p v F child :
  resolve sub [st] = Some child ->
  found_at child (pos ++ [st]) p v F -> found_at sub pos (st :: p) v F.
Proof.
  intros Hr [q [last [slot [Hp [Hpar [Hres [Hsl [Hsn [Hv Hrest]]]]]]]]].
  exists (st :: q), last, slot. repeat split; auto.
  - now rewrite Hp.
  - now rewrite Hpar, <- app_assoc.
  - change (st :: q) with ([st] ++ q). rewrite resolve_app, Hr. exact Hres.
Qed.

Theorem find_walk rl : forall sub toks p v, walk sub toks p v -> toks <> [] ->
  forall fuel root pos fstr, 2 * length toks <= fuel ->
  exists F, find true rl fuel root toks (PAt pos) sub fstr = Ok (root, false, F) /\ found_at sub pos p v F.
Proof.
  induction 1 as [t|x toks c kvs k child p v Hs Hk Hl Hw IH
                  |x toks c items si z i child p v Hs Hi He Hn Hc Hw IH
                  |x toks c kvs k si c' items z i child p v Hs Hk Hi Hb He Hl Hn Hc Hw IH];
    intros Hne fuel root pos fstr Hf.
  - congruence.
  - destruct fuel as [|f]; [cbn in Hf; lia|].
    rewrite (find_key_step rl f root x toks (PAt pos) c kvs fstr k child Hs Hk Hl).
    destruct toks as [|y toks'].
    + inversion Hw; subst. eexists. split; [reflexivity|].
      exists [], (PKey k), k. cbn. rewrite app_nil_r. repeat split; auto.
      exists c, kvs, v. repeat split; auto. now rewrite (sni_none_self _ _ Hs) in Hs |- *.
    + destruct (IH ltac:(congruence) f root (pos ++ [PKey k]) (sl fstr k)) as [F [HF Hat]]; [cbn in *; lia|].
      exists F. split; [exact HF|]. eapply found_at_cons; [|exact Hat]. cbn. now rewrite Hl.
  - destruct fuel as [|f]; [cbn in Hf; lia|].
    rewrite (find_idx_step rl f root x toks (PAt pos) c items fstr si z i child Hs Hi He Hn Hc).
    destruct toks as [|y toks'].
    + inversion Hw; subst. eexists. split; [reflexivity|].
      exists [], (PIdx i), (br (dec_of_Z z)). cbn. rewrite app_nil_r. repeat split; auto.
      exists c, items, z, v. auto.
    + destruct (IH ltac:(congruence) f root (pos ++ [PIdx i]) (fstr ++ br (dec_of_Z z))) as [F [HF Hat]]; [cbn in *; lia|].
      exists F. split; [exact HF|]. eapply found_at_cons; [|exact Hat]. cbn. now rewrite Hc.
  - destruct fuel as [|f]; [cbn in Hf; lia|].
    destruct Hi as [Hsine Hi'].
    rewrite (find_keyidx_step rl f root x toks (PAt pos) c kvs fstr k si (Lst c' items) Hs Hk Hsine Hl).
    destruct f as [|f]; [cbn in Hf; lia|].
    cbn [child_key].
    rewrite (find_idx_step rl f root (br si) toks (PAt (pos ++ [PKey k])) c' items (sl fstr k) si z i child Hb
               (conj Hsine Hi') He Hn Hc).
    destruct toks as [|y toks'].
    + inversion Hw; subst. eexists. split; [reflexivity|].
      exists [PKey k], (PIdx i), (br (dec_of_Z z)). cbn. rewrite Hl. repeat split; auto.
      exists c', items, z, v. auto.
    + cbn [child_idx].
      destruct (IH ltac:(congruence) f root ((pos ++ [PKey k]) ++ [PIdx i]) (sl fstr k ++ br (dec_of_Z z))) as [F [HF Hat]];
        [cbn in *; lia|].
      exists F. split; [exact HF|].
      eapply found_at_cons; [cbn; rewrite Hl; reflexivity|].
      eapply found_at_cons; [|exact Hat]. cbn. now rewrite Hc.
Qed.

(* ---- a walk followed by further steps -------------------------------------------------------- *)
Theorem find_walk_prefix rl : forall sub toks p v, walk sub toks p v ->
  forall rest, rest <> [] ->
  forall fuel root pos fstr, 2 * length toks <= fuel ->
  exists fstr' fuel', fuel <= fuel' + 2 * length toks /\ fuel' <= fuel /\
    find true rl fuel root (toks ++ rest) (PAt pos) sub fstr =
    find true rl fuel' root rest (PAt (pos ++ p)) v fstr'.
Proof.
  induction 1 as [t|x toks c kvs k child p v Hs Hk Hl Hw IH
                  |x toks c items si z i child p v Hs Hi He Hn Hc Hw IH
                  |x toks c kvs k si c' items z i child p v Hs Hk Hi Hb He Hl Hn Hc Hw IH];
    intros rest Hrest fuel root pos fstr Hf.
  - exists fstr, fuel. cbn. rewrite app_nil_r. repeat split; lia.
  - destruct fuel as [|f]; [cbn in Hf; lia|]. cbn [app].
    rewrite (find_key_step rl f root x (toks ++ rest) (PAt pos) c kvs fstr k child Hs Hk Hl).
    destruct (toks ++ rest) eqn:E; [destruct toks; cbn in E; congruence|]. rewrite <- E.
    destruct (IH rest Hrest f root (pos ++ [PKey k]) (sl fstr k)) as [fstr' [fuel' [H1 [H2 H3]]]]; [cbn in *; lia|].
    exists fstr', fuel'. cbn [child_key]. rewrite H3, <- app_assoc. cbn in *. repeat split; lia.
  - destruct fuel as [|f]; [cbn in Hf; lia|]. cbn [app].
    rewrite (find_idx_step rl f root x (toks ++ rest) (PAt pos) c items fstr si z i child Hs Hi He Hn Hc).
    destruct (toks ++ rest) eqn:E; [destruct toks; cbn in E; congruence|]. rewrite <- E.
    destruct (IH rest Hrest f root (pos ++ [PIdx i]) (fstr ++ br (dec_of_Z z))) as [fstr' [fuel' [H1 [H2 H3]]]]; [cbn in *; lia|].
    exists fstr', fuel'. cbn [child_idx]. rewrite H3, <- app_assoc. cbn in *. repeat split; lia.
  - destruct fuel as [|f]; [cbn in Hf; lia|]. cbn [app].
    destruct Hi as [Hsine Hi'].
    rewrite (find_keyidx_step rl f root x (toks ++ rest) (PAt pos) c kvs fstr k si (Lst c' items) Hs Hk Hsine Hl).
    destruct f as [|f]; [cbn in Hf; lia|]. cbn [child_key].
    rewrite (find_idx_step rl f root (br si) (toks ++ rest) (PAt (pos ++ [PKey k])) c' items (sl fstr k) si z i child Hb
               (conj Hsine Hi') He Hn Hc).
    destruct (toks ++ rest) eqn:E; [destruct toks; cbn in E; congruence|]. rewrite <- E.
    destruct (IH rest Hrest f root ((pos ++ [PKey k]) ++ [PIdx i]) (sl fstr k ++ br (dec_of_Z z))) as [fstr' [fuel' [H1 [H2 H3]]]];
      [cbn in *; lia|].
    exists fstr', fuel'. cbn [child_idx]. rewrite H3, <- !app_assoc. cbn in *. repeat split; lia.
Qed.

(* ---- misses: an index out of range, an unknown key ------------------------------------------- *)
Lemma find_idx_oob rl f root x rest par c items fstr si z :
  split_name_index x = Ok ([], IdxStr si) -> plain_idx si -> n0eval si = EvInt z ->
  norm_idx (length items) z = None ->
  find true rl (S f) root (x :: rest) par (Lst c items) fstr =
  Ok (root, false, mkF par (Lst c items) (Some (br (dec_of_Z z))) None fstr (Some (x :: rest))).
Proof.
  intros Hs [Hne [Hnew Hst]] He Hn. cbn [find]. rewrite Hs. cbn [bind].
  destruct si as [|s0 s1]; [congruence|]. cbn [nonempty negb andb idx_truthy].
  rewrite Hnew, Hst. cbn [wrap_parent]. now rewrite He, Hn.
Qed.

Lemma find_key_missing rl f root x rest par c kvs fstr k ix :
  split_name_index x = Ok (k, ix) -> plain_key k -> lookup k kvs = None ->
  find true rl (S f) root (x :: rest) par (Dict c kvs) fstr =
  Ok (root, false, mkF par (Dict c kvs) None None fstr (Some (x :: rest))).
Proof.
  intros Hs [Hne [Hdd Hst]] Hl. cbn [find]. rewrite Hs. cbn [bind].
  destruct k as [|k0 k1]; [congruence|]. cbn [nonempty negb andb].
  rewrite Hdd. cbn [is_list]. now rewrite Hst, Hl.
Qed.

(* ---- purity: the tree a lookup returns differs from its input only if the [new()] branch ran;
        that branch raises the "mutated" flag ------------------------------------------------------- *)
Lemma loop_result_root_irrelevant : True.
Proof. exact I. Qed.

Ltac step_in H :=
  match type of H with
  | context [match ?d with _ => _ end] => destruct d eqn:?
  | context [if ?d then _ else _] => destruct d eqn:?
  end.

Theorem find_unmutated rl : forall fuel root xs par parv fstr root' m F,
  find true rl fuel root xs par parv fstr = Ok (root', m, F) -> m = false -> root' = root.
Proof.
  induction fuel as [|f IH]; intros root xs par parv fstr root' m F H Hm; [discriminate H|].
  cbn [find] in H. unfold bind in H.
  repeat (step_in H; try discriminate H).
  all: try (inversion H; subst; reflexivity).
  all: try (eapply IH; eassumption).
  all: try (inversion H; subst; discriminate).
  all: inversion H; subst;
       repeat match goal with Hb : _ || _ = false |- _ => apply orb_false_iff in Hb; destruct Hb; subst end;
       repeat match goal with
              | Hf : find _ _ _ ?r _ _ _ _ = Ok (?r', false, _) |- _ =>
                let E := fresh in assert (E : r' = r) by (eapply IH; [exact Hf|reflexivity]); subst; clear Hf
              end;
       try reflexivity.
Qed.

Theorem lfind_unmutated rl : forall fuel root xs par parv fstr root' m F,
  lfind rl fuel root xs par parv fstr = Ok (root', m, F) -> m = false -> root' = root.
Proof.
  induction fuel as [|f IH]; intros root xs par parv fstr root' m F H Hm; [discriminate H|].
  cbn [lfind] in H. unfold bind in H.
  repeat (step_in H; try discriminate H).
  all: try (inversion H; subst; reflexivity).
  all: try (eapply IH; eassumption).
  all: try (inversion H; subst; discriminate).
Qed.

(* the flag of a whole lookup *)
Definition dict_lookup_mutates (fuel : nat) (root : tree) (x : pstr) (rl : bool) : bool :=
  match find true rl fuel root (tokenize x) (PAt []) root s_root with
  | Ok (_, m, _) => m
  | _ => false
  end.

Theorem dict_get_core_pure fuel root x re rl dflt root' r :
  dict_get_core fuel root x re rl dflt = Ok (root', r) ->
  dict_lookup_mutates fuel root x rl = false -> root' = root.
Proof.
  unfold dict_get_core, dict_lookup_mutates. intros H Hm.
  destruct (has_path_char x).
  - destruct (find true rl fuel root (tokenize x) (PAt []) root s_root) as [[[r0 m] F]|e| |] eqn:E; try discriminate H.
    + assert (r0 = root) by (eapply find_unmutated; eauto). subst.
      destruct (rest_falsy (f_rest F)); [destruct (f_val F)|]; inversion H; reflexivity.
    + destruct (funnelled e); inversion H; reflexivity.
  - destruct root; try discriminate H. destruct (lookup x kvs); inversion H; reflexivity.
Qed.

(* ---- totality: every exception the resolver raises is one the lookups funnel ---------------------- *)
Lemma sni_raises_funnelled x e : split_name_index x = Raise e -> funnelled e = true.
Proof.
  unfold split_name_index, bind. intros H.
  repeat match type of H with
         | context [match ?d with _ => _ end] => destruct d eqn:?; try discriminate H
         | context [if ?d then _ else _] => destruct d eqn:?; try discriminate H
         end.
  all: try (inversion H; reflexivity).
  all: match goal with Hp : pred_value _ = Raise _ |- _ => unfold pred_value in Hp;
         repeat match type of Hp with
                | context [if ?d then _ else _] => destruct d; try discriminate Hp
                | context [match ?d with _ => _ end] => destruct d; try discriminate Hp
                end end.
Qed.

Ltac loop_raises IH :=
  match goal with
  | Hx : ?L ?c ?v ?fs = Raise ?e0 |- funnelled ?e0 = true =>
    revert Hx; generalize v, fs; generalize c;
    let cs := fresh "cs" in let IHc := fresh "IHc" in
    intros cs; induction cs as [|[[[? ?] ?] ?] ? IHc]; intros ? ? Hx; [discriminate Hx|];
    cbn in Hx;
    match type of Hx with
    | context [find ?a ?b ?c2 ?d ?e1 ?g ?h ?i] =>
      let Ef := fresh "Ef" in
      destruct (find a b c2 d e1 g h i) as [[[? [|]] ?]|?| |] eqn:Ef; try discriminate Hx;
      [ repeat match type of Hx with
               | context [if ?d2 then _ else _] => destruct d2; try discriminate Hx
               | context [match ?d2 with _ => _ end] => destruct d2; try discriminate Hx
               end; eapply IHc; eassumption
      | inversion Hx; subst; eapply IH; exact Ef ]
    end
  end.

Theorem find_raises_funnelled rl : forall fuel root xs par parv fstr e,
  find true rl fuel root xs par parv fstr = Raise e -> funnelled e = true.
Proof.
  induction fuel as [|f IH]; intros root xs par parv fstr e H; [discriminate H|].
  cbn [find] in H. unfold bind in H.
  repeat (step_in H; try discriminate H).
  all: try (inversion H; subst; reflexivity).
  all: try (eapply IH; eassumption).
  all: try (eapply sni_raises_funnelled; eassumption).
  all: try (match goal with Hl : lit_in _ _ = Raise _ |- _ => unfold lit_in in Hl;
              repeat match type of Hl with
                     | context [match ?d with _ => _ end] => destruct d; try discriminate Hl
                     end; inversion Hl; subst; inversion H; subst; reflexivity end).
  all: inversion H; subst; try (eapply IH; eassumption); try (eapply sni_raises_funnelled; eassumption).
  all: try (loop_raises IH).
  all: match goal with
       | Hx : _ = Raise _ |- _ =>
         unfold bind in Hx;
         repeat match type of Hx with
                | context [match ?d with _ => _ end] => destruct d eqn:?; try discriminate Hx
                end;
         try (inversion Hx; subst; reflexivity); try (eapply sni_raises_funnelled; eassumption)
       end.
  all: repeat match goal with Hx : Raise _ = Raise _ |- _ => inversion Hx; subst; clear Hx end;
       try (eapply sni_raises_funnelled; eassumption); try (eapply IH; eassumption).
  all: match goal with
       | Hx : (if _ then _ else _) = Raise _ |- _ =>
         repeat match type of Hx with context [if ?d then _ else _] => destruct d; try discriminate Hx end;
         try (inversion Hx; subst; reflexivity);
         unfold lit_in in Hx;
         repeat match type of Hx with context [match ?d with _ => _ end] => destruct d; try discriminate Hx end;
         inversion Hx; subst; reflexivity
       end.
Qed.

Theorem lfind_raises_funnelled rl : forall fuel root xs par parv fstr e,
  lfind rl fuel root xs par parv fstr = Raise e -> funnelled e = true.
Proof.
  induction fuel as [|f IH]; intros root xs par parv fstr e H; [discriminate H|].
  cbn [lfind] in H. unfold bind in H.
  repeat (step_in H; try discriminate H).
  all: try (inversion H; subst; reflexivity).
  all: try (eapply IH; eassumption).
  all: try (eapply sni_raises_funnelled; eassumption).
  all: inversion H; subst; try (eapply IH; eassumption); try (eapply sni_raises_funnelled; eassumption);
       try (eapply find_raises_funnelled; eassumption).
  all: match goal with
       | Hx : ?L ?c ?v ?fs = Raise ?e0 |- funnelled ?e0 = true =>
         revert Hx; generalize v, fs; generalize c;
         let cs := fresh "cs" in let IHc := fresh "IHc" in
         intros cs; induction cs as [|[i child] r IHc]; intros vals0 fst0 Hx; [discriminate Hx|];
         cbn -[dec_of_nat br find lfind child_idx replace_at rebase] in Hx;
         destruct child as [sc|dc kvs|lc xs1];
         [ inversion Hx; reflexivity
         | destruct (child_idx par i) as [cp|w]; [|discriminate Hx];
           match type of Hx with context [find ?a ?b ?c2 ?d ?e1 ?g ?h ?i2] =>
             destruct (find a b c2 d e1 g h i2) as [[[ch m] F]|e1'| |] eqn:Ef end;
           cbn -[dec_of_nat br find lfind child_idx replace_at rebase] in Hx; try discriminate Hx;
           [ destruct m; try discriminate Hx;
             destruct (rest_falsy (f_rest (rebase cp F))); [destruct (f_val (rebase cp F)); try discriminate Hx|];
             eapply IHc; eassumption
           | inversion Hx; subst; eapply find_raises_funnelled; exact Ef ]
         | match type of Hx with context [lfind ?a ?b ?c2 ?d ?e1 ?g ?h] =>
             destruct (lfind a b c2 d e1 g h) as [[[ch m] F]|e1'| |] eqn:El end;
           try discriminate Hx;
           [ destruct m; try discriminate Hx;
             destruct (rest_falsy (f_rest F)); [destruct (f_val F); try discriminate Hx|];
             eapply IHc; eassumption
           | inversion Hx; subst; eapply IH; exact El ] ]
       end.
Qed.

(* get / first never raise; item access raises only the five classes of the statement *)
Theorem dict_get_total fuel root x rl root' r :
  dict_get fuel root x false rl = Ok (root', r) -> forall e, r <> LRaise e.
Proof.
  intros H e Er. subst r.
  pose proof (dict_get_no_funnelled fuel root x rl root' e H) as Hnf.
  (* the exception can only come from the resolver, which raises funnelled classes only *)
  unfold dict_get in H.
  assert (G : forall y dflt, (forall e', dflt <> LRaise e') ->
              dict_get_core fuel root y false rl dflt = Ok (root', LRaise e) -> False).
  { intros y dflt Hd Hc. unfold dict_get_core in Hc.
    destruct (has_path_char y).
    - destruct (find true rl fuel root (tokenize y) (PAt []) root s_root) as [[[r0 m] F]|e0| |] eqn:Ef; try discriminate Hc.
      + destruct (rest_falsy (f_rest F)); [destruct (f_val F); inversion Hc|injection Hc as _ E; eapply Hd; exact E].
      + rewrite (find_raises_funnelled rl _ _ _ _ _ _ _ Ef) in Hc. injection Hc as _ E. eapply Hd; exact E.
    - destruct root; try discriminate Hc. destruct (lookup y kvs); injection Hc as _ E; [discriminate E|eapply Hd; exact E]. }
  destruct x as [|c x']; [eapply G; [|exact H]; discriminate|].
  destruct (N.eqb c 63) eqn:Ec.
  - apply N.eqb_eq in Ec. subst c. eapply G; [|exact H]. discriminate.
  - assert (Hm : match c :: x' with 63%N :: x'0 => dict_get_core fuel root x'0 false rl LEmpty
                                | _ => dict_get_core fuel root (c :: x') false rl LDefault end
                 = dict_get_core fuel root (c :: x') false rl LDefault).
    { apply N.eqb_neq in Ec. destruct c as [|p]; [reflexivity|].
      repeat (destruct p as [p|p|]; try reflexivity). congruence. }
    rewrite Hm in H. eapply G; [|exact H]. discriminate.
Qed.

Theorem dict_getitem_raises_allowed fuel root x root' e :
  dict_getitem fuel root x = Ok (root', LRaise e) -> funnelled e = true.
Proof.
  unfold dict_getitem, dict_get. intros H.
  assert (G : forall y re dflt, dict_get_core fuel root y re true dflt = Ok (root', LRaise e) ->
              (forall e', dflt <> LRaise e') -> funnelled e = true).
  { intros y re dflt Hc Hd. unfold dict_get_core in Hc.
    destruct (has_path_char y).
    - destruct (find true true fuel root (tokenize y) (PAt []) root s_root) as [[[r0 m] F]|e0| |] eqn:Ef; try discriminate Hc.
      + destruct (rest_falsy (f_rest F)); [destruct (f_val F); inversion Hc|].
        destruct re; injection Hc as _ E; [subst; reflexivity|exfalso; eapply Hd; exact E].
      + rewrite (find_raises_funnelled true _ _ _ _ _ _ _ Ef) in Hc.
        destruct re; injection Hc as _ E; [subst; eapply find_raises_funnelled; exact Ef|exfalso; eapply Hd; exact E].
    - destruct root; try discriminate Hc. destruct (lookup y kvs); [inversion Hc|].
      destruct re; injection Hc as _ E; [subst; reflexivity|exfalso; eapply Hd; exact E]. }
  destruct x as [|c x']; [eapply G; [exact H|discriminate]|].
  destruct (N.eqb c 63) eqn:Ec.
  - apply N.eqb_eq in Ec. subst c. eapply G; [exact H|discriminate].
  - assert (Hm : match c :: x' with 63%N :: x'0 => dict_get_core fuel root x'0 false true LEmpty
                                | _ => dict_get_core fuel root (c :: x') true true LDefault end
                 = dict_get_core fuel root (c :: x') true true LDefault).
    { apply N.eqb_neq in Ec. destruct c as [|p]; [reflexivity|].
      repeat (destruct p as [p|p|]; try reflexivity). congruence. }
    rewrite Hm in H. eapply G; [exact H|discriminate].
Qed.

Theorem list_get_total fuel root x rl root' r :
  list_get fuel root x false rl = Ok (root', r) -> forall e, r <> LRaise e.
Proof.
  intros H e Er. subst r. unfold list_get in H.
  assert (G : forall y dflt, (forall e', dflt <> LRaise e') ->
              list_get_core fuel root y false rl dflt = Ok (root', LRaise e) -> False).
  { intros y dflt Hd Hc. unfold list_get_core in Hc.
    destruct (has_path_char y).
    - destruct (lfind rl fuel root (tokenize y) (PAt []) root s_root) as [[[r0 m] F]|e0| |] eqn:Ef; try discriminate Hc.
      + destruct (rest_falsy (f_rest F)); [destruct (f_val F); inversion Hc|injection Hc as _ E; eapply Hd; exact E].
      + rewrite (lfind_raises_funnelled rl _ _ _ _ _ _ _ Ef) in Hc. injection Hc as _ E. eapply Hd; exact E.
    - destruct root; try discriminate Hc. destruct (n0eval y); try discriminate Hc.
      + destruct (norm_idx (length xs) z); [destruct (nth_error xs n); inversion Hc|injection Hc as _ E; eapply Hd; exact E].
      + injection Hc as _ E. eapply Hd; exact E. }
  destruct x as [|c x']; [inversion H|].
  destruct (N.eqb c 63) eqn:Ec.
  - apply N.eqb_eq in Ec. subst c. eapply G; [|exact H]. discriminate.
  - assert (Hm : match c :: x' with
                 | [] => Ok (root, LDefault)
                 | 63%N :: x'0 => list_get_core fuel root x'0 false rl LEmpty
                 | _ => list_get_core fuel root (c :: x') false rl LDefault end
                 = list_get_core fuel root (c :: x') false rl LDefault).
    { apply N.eqb_neq in Ec. destruct c as [|p]; [reflexivity|].
      repeat (destruct p as [p|p|]; try reflexivity). congruence. }
    rewrite Hm in H. eapply G; [|exact H]. discriminate.
Qed.

(* Item access has no caller default.  The only string on which it answers without a value and
   without raising is the empty string on a list root (n0list_._get returns if_not_found = None
   before it looks at raise_exception); on a dict root it never does.  This is what lets the
   harness use "item access returns" as its meaning of "the path resolves" everywhere else. *)
Theorem list_getitem_default_only_empty fuel root x rl root' :
  list_get fuel root x true rl = Ok (root', LDefault) -> x = [].
Proof.
  intros H. unfold list_get in H.
  assert (G : forall y dflt, dflt <> LDefault ->
              forall re, (re = true \/ dflt <> LDefault) ->
              list_get_core fuel root y re rl (if re then LDefault else dflt) = Ok (root', LDefault) -> False).
  { intros y dflt Hd re _ Hc. unfold list_get_core in Hc.
    destruct (has_path_char y).
    - destruct (lfind rl fuel root (tokenize y) (PAt []) root s_root) as [[[r0 m] F]|e0| |] eqn:Ef; try discriminate Hc.
      + destruct (rest_falsy (f_rest F)); [destruct (f_val F); inversion Hc|].
        destruct re; injection Hc as _ E; [discriminate E|exact (Hd E)].
      + destruct (funnelled e0); [|inversion Hc].
        destruct re; injection Hc as _ E; [discriminate E|exact (Hd E)].
    - destruct root; try discriminate Hc. destruct (n0eval y); try discriminate Hc.
      + destruct (norm_idx (length xs) z); [destruct (nth_error xs n); inversion Hc|].
        destruct re; injection Hc as _ E; [discriminate E|exact (Hd E)].
      + destruct re; injection Hc as _ E; [discriminate E|exact (Hd E)]. }
  destruct x as [|c x']; [reflexivity|exfalso].
  destruct (N.eqb c 63) eqn:Ec.
  - apply N.eqb_eq in Ec. subst c.
    eapply (G x' LEmpty ltac:(discriminate) false); [right; discriminate|exact H].
  - assert (Hm : match c :: x' with
                 | [] => Ok (root, LDefault)
                 | 63%N :: x'0 => list_get_core fuel root x'0 false rl LEmpty
                 | _ => list_get_core fuel root (c :: x') true rl LDefault end
                 = list_get_core fuel root (c :: x') true rl LDefault).
    { apply N.eqb_neq in Ec. destruct c as [|p]; [reflexivity|].
      repeat (destruct p as [p|p|]; try reflexivity). congruence. }
    rewrite Hm in H.
    eapply (G (c :: x') LEmpty ltac:(discriminate) true); [left; reflexivity|exact H].
Qed.

Theorem dict_getitem_never_default fuel root x root' :
  dict_getitem fuel root x = Ok (root', LDefault) -> False.
Proof.
  unfold dict_getitem, dict_get. intros H.
  assert (G : forall y dflt, dflt <> LDefault -> forall re,
              dict_get_core fuel root y re true (if re then LDefault else dflt) = Ok (root', LDefault) -> False).
  { intros y dflt Hd re Hc. unfold dict_get_core in Hc.
    destruct (has_path_char y).
    - destruct (find true true fuel root (tokenize y) (PAt []) root s_root) as [[[r0 m] F]|e0| |] eqn:Ef; try discriminate Hc.
      + destruct (rest_falsy (f_rest F)); [destruct (f_val F); inversion Hc|].
        destruct re; injection Hc as _ E; [discriminate E|exact (Hd E)].
      + destruct (funnelled e0); [|inversion Hc].
        destruct re; injection Hc as _ E; [discriminate E|exact (Hd E)].
    - destruct root; try discriminate Hc. destruct (lookup y kvs); [inversion Hc|].
      destruct re; injection Hc as _ E; [discriminate E|exact (Hd E)]. }
  destruct x as [|c x']; [eapply (G [] LEmpty ltac:(discriminate) true); exact H|].
  destruct (N.eqb c 63) eqn:Ec.
  - apply N.eqb_eq in Ec. subst c. eapply (G x' LEmpty ltac:(discriminate) false); exact H.
  - assert (Hm : match c :: x' with 63%N :: x'0 => dict_get_core fuel root x'0 false true LEmpty
                                | _ => dict_get_core fuel root (c :: x') true true LDefault end
                 = dict_get_core fuel root (c :: x') true true LDefault).
    { apply N.eqb_neq in Ec. destruct c as [|p]; [reflexivity|].
      repeat (destruct p as [p|p|]; try reflexivity). congruence. }
    rewrite Hm in H. eapply (G (c :: x') LEmpty ltac:(discriminate) true); exact H.
Qed.
(* a '?'-prefixed path: item access, get and first alike answer a value or '' - never an exception, never the
   caller's default - for every string after the '?' (ill-formed ones included) *)
Lemma dict_get_core_shape fuel root y rl dflt root' r :
  dict_get_core fuel root y false rl dflt = Ok (root', r) -> r = dflt \/ exists v, r = LVal v.
Proof.
  unfold dict_get_core. destruct (has_path_char y).
  - destruct (find true rl fuel root (tokenize y) (PAt []) root s_root) as [[[r0 m] F]|e0| |] eqn:Ef; try discriminate.
    + destruct (rest_falsy (f_rest F)); [destruct (f_val F); [|discriminate]|]; intros H; inversion H; subst; eauto.
    + rewrite (find_raises_funnelled rl _ _ _ _ _ _ _ Ef). intros H; inversion H; subst; eauto.
  - destruct root; try discriminate. destruct (lookup y kvs); intros H; inversion H; subst; eauto.
Qed.

Theorem dict_qmark_yields_value_or_empty fuel root x re rl root' r :
  dict_get fuel root (63%N :: x) re rl = Ok (root', r) -> r = LEmpty \/ exists v, r = LVal v.
Proof. cbn [dict_get]. apply dict_get_core_shape. Qed.

Lemma list_get_core_shape fuel root y rl dflt root' r :
  list_get_core fuel root y false rl dflt = Ok (root', r) -> r = dflt \/ exists v, r = LVal v.
Proof.
  unfold list_get_core. destruct (has_path_char y).
  - destruct (lfind rl fuel root (tokenize y) (PAt []) root s_root) as [[[r0 m] F]|e0| |] eqn:Ef; try discriminate.
    + destruct (rest_falsy (f_rest F)); [destruct (f_val F); [|discriminate]|]; intros H; inversion H; subst; eauto.
    + rewrite (lfind_raises_funnelled rl _ _ _ _ _ _ _ Ef). intros H; inversion H; subst; eauto.
  - destruct root; try discriminate. destruct (n0eval y); try discriminate.
    + destruct (norm_idx (length xs) z); [destruct (nth_error xs n); [|discriminate]|]; intros H; inversion H; subst; eauto.
    + intros H; inversion H; subst; eauto.
Qed.

Theorem list_qmark_yields_value_or_empty fuel root x re rl root' r :
  list_get fuel root (63%N :: x) re rl = Ok (root', r) -> r = LEmpty \/ exists v, r = LVal v.
Proof. cbn [list_get]. apply list_get_core_shape. Qed.

(* get / first: a value or the caller's default (or '' after a '?'), nothing else *)
Theorem dict_get_value_or_default fuel root x rl root' r :
  dict_get fuel root x false rl = Ok (root', r) -> r = LDefault \/ r = LEmpty \/ exists v, r = LVal v.
Proof.
  unfold dict_get. destruct x as [|c x'].
  - intros H. destruct (dict_get_core_shape _ _ _ _ _ _ _ H); auto.
  - destruct (N.eqb c 63) eqn:Ec.
    + apply N.eqb_eq in Ec. subst c. intros H. destruct (dict_get_core_shape _ _ _ _ _ _ _ H); auto.
    + assert (Hm : match c :: x' with 63%N :: x'0 => dict_get_core fuel root x'0 false rl LEmpty
                                  | _ => dict_get_core fuel root (c :: x') false rl LDefault end
                   = dict_get_core fuel root (c :: x') false rl LDefault).
      { apply N.eqb_neq in Ec. destruct c as [|p]; [reflexivity|].
        repeat (destruct p as [p|p|]; try reflexivity). congruence. }
      rewrite Hm. intros H. destruct (dict_get_core_shape _ _ _ _ _ _ _ H); auto.
Qed.
