(* Xpath/EmptyStepProofs.v — an empty bracket step '[]' (blanks inside allowed) is ill-formed wherever it stands: the
   resolver answers it with ValueError - one of the funnelled classes - whatever the tree, the node reached and the
   remaining steps are; so item access raises ValueError and get / first answer the caller's default. *)
From Coq Require Import List NArith ZArith Bool Lia.
From N0 Require Import Base.PyStr Base.PyVal Xpath.Dec Xpath.Token Xpath.TokenProofs Xpath.BlankBracketProofs Xpath.Find.
Import ListNotations.

Arguments N.eqb : simpl never.
Arguments N.leb : simpl never.

Lemma strip_all_ws bl : Forall (fun c => mem_chr c py_ws = true) bl -> strip bl = [].
Proof. intros H. unfold strip, strip_set. now rewrite (lstrip_all py_ws bl H). Qed.

Lemma sni_empty_brackets bl :
  Forall (fun c => mem_chr c py_ws = true) bl -> split_name_index (c_lb :: bl ++ [c_rb]) = Ok ([], IdxStr []).
Proof.
  intros Hbl. unfold split_name_index.
  assert (E1 : mem_chr c_lb (c_lb :: bl ++ [c_rb]) = true) by (apply mem_chr_In; now left).
  rewrite E1.
  replace (c_lb :: bl ++ [c_rb]) with ((c_lb :: bl) ++ [c_rb]) by reflexivity.
  rewrite last_chr_snoc, N.eqb_refl. cbn [andb]. rewrite removelast_last.
  change (c_lb :: bl) with ([] ++ c_lb :: bl). rewrite (split_once_first c_lb [] bl) by (intros []).
  rewrite (strip_all_ws bl Hbl). reflexivity.
Qed.

Theorem find_empty_step selfok rl f root bl rest par parv fstr :
  Forall (fun c => mem_chr c py_ws = true) bl ->
  find selfok rl (S f) root ((c_lb :: bl ++ [c_rb]) :: rest) par parv fstr = Raise ExValue.
Proof.
  intros Hbl. cbn [find]. rewrite (sni_empty_brackets bl Hbl). reflexivity.
Qed.

(* through the entry points, on a path whose earlier steps resolve: d["a/[]"] raises ValueError, d.get("a/[]", D) is D,
   and '[]' directly behind a fan-out ("r[*]/[]") likewise *)
Definition es_tree : tree :=
  Dict true [([97]%N, Dict true [([98]%N, Leaf (SInt 1))]); ([114]%N, Lst true [Dict true [([98]%N, Leaf (SInt 2))]])].
Definition es_x1 : pstr := [97; 47; 91; 93]%N.                 (* a/[]     *)
Definition es_x2 : pstr := [114; 91; 42; 93; 47; 91; 93]%N.    (* r[*]/[]  *)

Lemma empty_step_example :
  dict_get_core 50 es_tree es_x1 true false LEmpty = Ok (es_tree, LRaise ExValue) /\
  dict_get_core 50 es_tree es_x1 false false (LVal (Leaf (SInt 9))) = Ok (es_tree, LVal (Leaf (SInt 9))) /\
  dict_get_core 50 es_tree es_x2 true false LEmpty = Ok (es_tree, LRaise ExValue) /\
  dict_get_core 50 es_tree es_x2 false false (LVal (Leaf (SInt 9))) = Ok (es_tree, LVal (Leaf (SInt 9))).
Proof. vm_compute. repeat split. Qed.
