(* Xpath/PredOpsProofs.v — the predicate operators != and ~ (besides =): the generated tokens
   [text()!=v] and [text()~~v] re-parse to the text() predicate, and the test they perform. *)
From Coq Require Import List NArith ZArith Bool Lia.
From N0 Require Import Base.PyStr Base.PyVal Xpath.Dec Xpath.DecProofs Xpath.Token Xpath.TokenProofs
  Xpath.Find Xpath.FindProofs Xpath.Write Xpath.SpecProofs Xpath.WalkProofs Xpath.TokenizeProofs Xpath.EnumProofs
  Xpath.FstrProofs Xpath.DeleteProofs Xpath.FanoutProofs Xpath.PredProofs.
Import ListNotations.

Arguments N.eqb : simpl never.

Inductive pop := OpEq | OpNe | OpHas.
Definition op_str (o : pop) : pstr :=
  match o with OpEq => [61; 61]%N | OpNe => [33; 61]%N | OpHas => [126; 126]%N end.

(* ---- substring search: a pattern whose first character does not occur is not found -------------- *)
Lemma find_sub_aux_absent c p : forall s i fuel, ~ In c s -> find_sub_aux fuel s (c :: p) i = None.
Proof.
  induction s as [|x s IH]; intros i fuel Hn.
  - destruct fuel; reflexivity.
  - assert (Hx : N.eqb c x = false) by (apply N.eqb_neq; intros ->; apply Hn; now left).
    destruct fuel as [|f]; cbn [find_sub_aux startswith]; rewrite Hx; cbn [andb]; [reflexivity|].
    apply IH. intros Hi. apply Hn. now right.
Qed.

Lemma split_once_absent c p s : ~ In c s -> split_once s (c :: p) = None.
Proof. intros H. unfold split_once, find_sub. now rewrite find_sub_aux_absent. Qed.

(* "==" does not occur in  pre ++ b :: '=' :: v  when pre and v are free of '=' and b is not '=' *)
Lemma find_eq_then_clean v : forall fuel i, ~ In 61%N v -> find_sub_aux fuel (61%N :: v) [61; 61]%N i = None.
Proof.
  intros fuel i Hv.
  assert (Hsw : startswith (61%N :: v) [61; 61]%N = false).
  { cbn [startswith]. rewrite N.eqb_refl. cbn [andb]. destruct v as [|v0 v1]; [reflexivity|].
    assert (Hv0 : N.eqb 61 v0 = false) by (apply N.eqb_neq; intros <-; apply Hv; now left). now rewrite Hv0. }
  destruct fuel as [|f]; cbn [find_sub_aux]; rewrite Hsw; [reflexivity|].
  now apply find_sub_aux_absent.
Qed.

Lemma find_eqeq_absent pre b v : ~ In 61%N pre -> b <> 61%N -> ~ In 61%N v ->
  split_once (pre ++ b :: 61%N :: v) [61; 61]%N = None.
Proof.
  intros Hp Hb Hv. unfold split_once, find_sub.
  assert (G : forall pre i fuel, ~ In 61%N pre ->
            find_sub_aux fuel (pre ++ b :: 61%N :: v) [61; 61]%N i = None).
  { induction pre0 as [|x pre0 IH]; intros i fuel Hn.
    - cbn [app]. assert (Hb' : N.eqb 61 b = false) by (apply N.eqb_neq; congruence).
      destruct fuel as [|f]; cbn [find_sub_aux startswith]; rewrite Hb'; cbn [andb]; [reflexivity|].
      now apply find_eq_then_clean.
    - assert (Hx : N.eqb 61 x = false) by (apply N.eqb_neq; intros <-; apply Hn; now left).
      cbn [app]. destruct fuel as [|f]; cbn [find_sub_aux startswith]; rewrite Hx; cbn [andb]; [reflexivity|].
      apply IH. intros Hi. apply Hn. now right. }
  now rewrite G.
Qed.

Definition clean_lit_ops (v : pstr) : Prop :=
  clean_lit v /\ ~ In 33%N v.

(* the generated token [text() op v] *)
Lemma sni_text_op o v : clean_lit_ops v ->
  split_name_index (br (s_text ++ op_str o ++ v)) = Ok ([], IdxPred s_text (op_str o) (PvStr v)).
Proof.
  intros [[Hne [Hall Hpv]] Hbang].
  destruct o; [exact (sni_text_eq v (conj Hne (conj Hall Hpv)))| |].
  all: rewrite forallb_forall in Hall.
  all: assert (HF : forall P : N -> Prop, (forall c, idx_chr c = true -> P c) -> Forall P v)
         by (intros P HP; apply Forall_forall; intros c Hin; apply HP, Hall, Hin).
  all: assert (Hnoeq : ~ In 61%N v) by (intros Hin; assert (Hc : idx_chr 61 = true) by (apply Hall, Hin); discriminate Hc).
  all: assert (Hnotil : ~ In 126%N v) by (intros Hin; assert (Hc : idx_chr 126 = true) by (apply Hall, Hin); discriminate Hc).
  - (* != *)
    change (s_text ++ op_str OpNe ++ v) with (116%N :: (tl s_text ++ 33%N :: 61%N :: v)).
    set (bt := tl s_text ++ 33%N :: 61%N :: v).
    assert (Hbody : 116%N :: bt = s_text ++ 33%N :: 61%N :: v) by reflexivity.
    unfold split_name_index, br.
    assert (E1 : mem_chr c_lb (c_lb :: (116%N :: bt) ++ [c_rb]) = true) by reflexivity. rewrite E1.
    change (c_lb :: (116%N :: bt) ++ [c_rb]) with ((c_lb :: 116%N :: bt) ++ [c_rb]).
    rewrite last_chr_snoc, N.eqb_refl. cbn [andb]. rewrite removelast_last.
    change (c_lb :: 116%N :: bt) with ([] ++ c_lb :: 116%N :: bt).
    rewrite (split_once_first c_lb [] (116%N :: bt)) by (intros []).
    replace (strip []) with (@nil N) by reflexivity.
    assert (Hstrip : strip (116%N :: bt) = 116%N :: bt).
    { unfold strip. apply strip_set_id; [reflexivity|]. rewrite Hbody.
      pose proof (HF (fun c => mem_chr c py_ws = false) ltac:(intros c Hc; now destruct (idx_chr_spec c Hc))) as Hws.
      replace (s_text ++ 33%N :: 61%N :: v) with ((s_text ++ [33%N; 61%N]) ++ v) by (now rewrite <- app_assoc).
      rewrite rev_app_distr. apply Forall_rev in Hws. destruct (rev v) as [|c0 rv] eqn:Er.
      - exfalso. apply Hne. rewrite <- (rev_involutive v), Er. reflexivity.
      - cbn [app]. now inversion Hws. }
    rewrite Hstrip.
    assert (Hascii : existsb (fun c => (128 <=? c)%N) (116%N :: bt) = false).
    { rewrite Hbody, existsb_app. replace (existsb (fun c : N => (128 <=? c)%N) s_text) with false by reflexivity.
      cbn [orb existsb]. apply existsb_false_forall. apply HF. intros c Hc. now destruct (idx_chr_spec c Hc) as [_ [? _]]. }
    rewrite Hascii.
    assert (Hcont : startswith (lower (116%N :: bt)) s_contains = false) by reflexivity.
    rewrite Hcont. cbn [andb].
    assert (Heq : mem_chr 61 (116%N :: bt) = true).
    { apply mem_chr_In. rewrite Hbody. apply in_or_app. right. right. now left. }
    rewrite Heq. cbn [orb first_delim delims].
    rewrite Hbody.
    rewrite (find_eqeq_absent s_text 33%N v) by (try assumption; cbv; intuition discriminate).
    rewrite (split_once_first2 33%N 61%N s_text v) by (cbv; intuition discriminate).
    replace (strip s_text) with s_text by reflexivity.
    rewrite (strip_id_forall v) by (apply HF; intros c Hc; now destruct (idx_chr_spec c Hc)).
    cbn [bind]. rewrite Hpv. reflexivity.
  - (* ~~ *)
    change (s_text ++ op_str OpHas ++ v) with (116%N :: (tl s_text ++ 126%N :: 126%N :: v)).
    set (bt := tl s_text ++ 126%N :: 126%N :: v).
    assert (Hbody : 116%N :: bt = s_text ++ 126%N :: 126%N :: v) by reflexivity.
    unfold split_name_index, br.
    assert (E1 : mem_chr c_lb (c_lb :: (116%N :: bt) ++ [c_rb]) = true) by reflexivity. rewrite E1.
    change (c_lb :: (116%N :: bt) ++ [c_rb]) with ((c_lb :: 116%N :: bt) ++ [c_rb]).
    rewrite last_chr_snoc, N.eqb_refl. cbn [andb]. rewrite removelast_last.
    change (c_lb :: 116%N :: bt) with ([] ++ c_lb :: 116%N :: bt).
    rewrite (split_once_first c_lb [] (116%N :: bt)) by (intros []).
    replace (strip []) with (@nil N) by reflexivity.
    assert (Hstrip : strip (116%N :: bt) = 116%N :: bt).
    { unfold strip. apply strip_set_id; [reflexivity|]. rewrite Hbody.
      pose proof (HF (fun c => mem_chr c py_ws = false) ltac:(intros c Hc; now destruct (idx_chr_spec c Hc))) as Hws.
      replace (s_text ++ 126%N :: 126%N :: v) with ((s_text ++ [126%N; 126%N]) ++ v) by (now rewrite <- app_assoc).
      rewrite rev_app_distr. apply Forall_rev in Hws. destruct (rev v) as [|c0 rv] eqn:Er.
      - exfalso. apply Hne. rewrite <- (rev_involutive v), Er. reflexivity.
      - cbn [app]. now inversion Hws. }
    rewrite Hstrip.
    assert (Hascii : existsb (fun c => (128 <=? c)%N) (116%N :: bt) = false).
    { rewrite Hbody, existsb_app. replace (existsb (fun c : N => (128 <=? c)%N) s_text) with false by reflexivity.
      cbn [orb existsb]. apply existsb_false_forall. apply HF. intros c Hc. now destruct (idx_chr_spec c Hc) as [_ [? _]]. }
    rewrite Hascii.
    assert (Hcont : startswith (lower (116%N :: bt)) s_contains = false) by reflexivity.
    rewrite Hcont. cbn [andb].
    assert (Htil : mem_chr 126 (116%N :: bt) = true).
    { apply mem_chr_In. rewrite Hbody. apply in_or_app. right. now left. }
    rewrite Htil, orb_true_r. cbn [first_delim delims].
    rewrite Hbody.
    assert (Hno61 : ~ In 61%N (s_text ++ 126%N :: 126%N :: v)).
    { intros Hin. apply in_app_or in Hin. destruct Hin as [Hin|[Hin|[Hin|Hin]]]; try discriminate; [|contradiction].
      revert Hin. cbv. intuition discriminate. }
    rewrite (split_once_absent 61%N [61%N] _ Hno61).
    assert (Hno33 : ~ In 33%N (s_text ++ 126%N :: 126%N :: v)).
    { intros Hin. apply in_app_or in Hin. destruct Hin as [Hin|[Hin|[Hin|Hin]]]; try discriminate; [|contradiction].
      revert Hin. cbv. intuition discriminate. }
    rewrite (split_once_absent 33%N [61%N] _ Hno33).
    rewrite (split_once_first2 126%N 126%N s_text v) by (cbv; intuition discriminate).
    replace (strip s_text) with s_text by reflexivity.
    rewrite (strip_id_forall v) by (apply HF; intros c Hc; now destruct (idx_chr_spec c Hc)).
    cbn [bind]. rewrite Hpv. reflexivity.
Qed.

(* ---- the test a text() predicate performs, per operator ---------------------------------------------- *)
Definition pred_test (o : pop) (kv : tree) (lit : plit) : res bool :=
  match o with
  | OpEq => Ok (lit_eq kv lit)
  | OpNe => Ok (negb (lit_eq kv lit))
  | OpHas => lit_in kv lit
  end.

Lemma find_text_op o rl f root t rest par kv fstr v lit :
  split_name_index t = Ok ([], IdxPred s_text (op_str o) v) -> pred_literal kv v = Some lit ->
  find true rl (S f) root (t :: rest) par kv fstr =
  (do c <- pred_test o kv lit ;;
   if c : bool then find true rl f root rest par kv fstr
   else Ok (root, false, mkF par kv None None fstr (Some (t :: rest)))).
Proof.
  intros Hs Hl. cbn [find]. rewrite Hs. cbn [bind nonempty negb andb idx_truthy].
  replace (pstr_eqb s_text s_text) with true by reflexivity. rewrite Hl.
  destruct o; cbn [op_str pred_test].
  - replace (N.eqb 61 61) with true by reflexivity. cbn [bind].
    replace (N.eqb 61 33) with false by reflexivity. cbn [orb bind]. reflexivity.
  - replace (N.eqb 61 61) with true by reflexivity. cbn [bind].
    replace (N.eqb 33 33) with true by reflexivity. cbn [bind]. reflexivity.
  - replace (N.eqb 126 61) with false by reflexivity. replace (N.eqb 126 126) with true by reflexivity.
    destruct (lit_in kv lit) as [b| e| |]; cbn [bind]; reflexivity.
Qed.

Section pred_op.
Variable o : pop.
Variable rl : bool.
Variable root : tree.
Hypothesis Hgood : keys_good root.
Variables y fk k f v : pstr.
Hypothesis Hy : split_name_index y = Ok ([], IdxPred k (op_str o) (PvStr v)).
Hypothesis Hkt : pstr_eqb k s_text = false.
Hypothesis Hv : clean_lit_ops v.
Hypothesis Hfk : split_name_index fk = Ok (f, IdxNone).
Hypothesis Hpk : plain_key f.

(* does the record match, and what does it contribute *)
Definition rec_select_op (r : tree) : option (list tree) :=
  match r with
  | Dict _ kvs =>
    match lookup k kvs with
    | None => Some []
    | Some kv =>
      match pred_literal kv (PvStr v) with
      | None => None
      | Some lit => match pred_test o kv lit with Ok true => Some (field_of f r) | Ok false => Some [] | _ => None end
      end
    end
  | _ => None
  end.

Lemma one_pred_record_op toks p c items segs i c' kvs sel fuel :
  walks root toks p (Lst c items) segs ->
  nth_error items i = Some (Dict c' kvs) ->
  rec_select_op (Dict c' kvs) = Some sel ->
  2 * (length segs + 1) + 6 <= fuel ->
  exists F,
    find true rl fuel root (br (dec_of_nat i) :: y :: [fk]) (PAt p) (Lst c items) (s_root ++ render_segs segs)
    = Ok (root, false, F) /\
    match sel with
    | [] => rest_falsy (f_rest F) = false
    | vf :: _ => f_val F = Some vf /\ f_rest F = None /\ sel = [vf]
    end.
Proof.
  intros Hw Hn Hsel Hf.
  destruct fuel as [|[|[|[|[|[|f0]]]]]]; try lia.
  rewrite dec_of_nat_Z.
  rewrite (find_idx_step rl _ root (br (dec_of_Z (Z.of_nat i))) [y; fk] (PAt p) c items _ (dec_of_Z (Z.of_nat i))
             (Z.of_nat i) i (Dict c' kvs));
    [|apply sni_br, clean_idx_dec|apply plain_idx_dec|apply n0eval_dec
     |apply norm_idx_nat; eapply nth_error_Some_lt; eauto|exact Hn].
  cbn [child_idx].
  rewrite (find_pred_at_record rl _ root y [fk] _ c' kvs _ k (op_str o) (PvStr v) Hy Hkt).
  unfold rec_select_op in Hsel.
  destruct (lookup k kvs) as [kv|] eqn:Ek.
  - destruct (pred_literal kv (PvStr v)) as [lit|] eqn:El; [|discriminate].
    cbn [pval_str child_key].
    rewrite (find_text_op o rl _ root _ [s_dotdot; fk] _ kv _ (PvStr v) lit (sni_text_op o v Hv) El).
    destruct (pred_test o kv lit) as [[|]| | |] eqn:Ecmp; try discriminate Hsel; cbn [bind].
    + (* the '..' step re-resolves the found path and lands on the record *)
      rewrite find_dotdot by discriminate.
      set (segs1 := segs ++ [SI (Z.of_nat i)]).
      assert (Hw1 : walks root (toks ++ [br (dec_of_Z (Z.of_nat i))]) (p ++ [PIdx i]) (Dict c' kvs) segs1)
        by (eapply walks_snoc_idx; eauto).
      destruct (seg_path_spells (length segs1) segs1 root _ _ (le_n _) Hgood (walks_seg_path _ _ _ _ _ Hw1)) as [_ Hok1].
      destruct (keys_good_lookup c' kvs k kv) as [[Hsk _] _]; [|exact Ek|].
      { exact (seg_path_keys_good _ _ _ _ (walks_seg_path _ _ _ _ _ Hw1) Hgood). }
      assert (Hfstr : sl ((s_root ++ render_segs segs) ++ br (dec_of_Z (Z.of_nat i))) k
                      = s_root ++ render_segs (segs1 ++ [SK k])).
      { unfold segs1, sl, render_segs. rewrite !map_app, !concat_app. cbn [map concat render_seg].
        rewrite !app_nil_r, <- !app_assoc. reflexivity. }
      rewrite Hfstr.
      rewrite raw_tokens_rendered by (apply segs_ok_app; [exact Hok1|constructor; [exact Hsk|constructor]]).
      rewrite (seg_tokens_snoc_key (length segs1) segs1 k (le_n _)), removelast_last.
      assert (Hne1 : segs1 <> []) by (unfold segs1; destruct segs; discriminate).
      assert (Hlen1 : 2 * length (seg_tokens segs1) <= S (S f0)).
      { pose proof (seg_tokens_length (length segs1) segs1 (le_n _)) as Hl. unfold segs1 in *. rewrite app_length in *. cbn in *. lia. }
      destruct (seg_path_spells (length segs1) segs1 root _ _ (le_n _) Hgood (walks_seg_path _ _ _ _ _ Hw1)) as [Hsp1 _].
      destruct (spells_walk root _ _ Hsp1 (keys_good_ok root Hgood)) as [v' Hw'].
      assert (v' = Dict c' kvs).
      { pose proof (walk_resolve _ _ _ _ Hw') as R1. pose proof (walk_resolve _ _ _ _ (walks_walk _ _ _ _ _ Hw1)) as R2. congruence. }
      subst v'.
      destruct (find_walk rl root (seg_tokens segs1) _ _ Hw' (seg_tokens_nonempty segs1 Hne1) (S (S f0)) root [] s_root Hlen1)
        as [F1 [HF1 Hat]].
      rewrite HF1. cbn [bind].
      destruct Hat as [q [last [slot [Hp [Hpar [Hres [Hsl [Hsn [Hval Hrest]]]]]]]]].
      (* the last step is the index step *)
      assert (Hlast : q = p /\ last = PIdx i).
      { apply app_inj_tail in Hp. destruct Hp as [-> ->]. auto. }
      destruct Hlast as [-> ->]. cbn [slot_names] in Hsn.
      destruct Hsn as [c1 [items1 [z1 [u1 [Epv [-> [Hn1 Hnth1]]]]]]].
      rewrite Hsl. cbn [app] in Hres.
      rewrite (sni_br _ (clean_idx_dec z1)). cbn [bind]. rewrite n0eval_dec, Epv, Hn1, Hnth1. cbn [bind].
      pose proof (walk_resolve _ _ _ _ (walks_walk _ _ _ _ _ Hw)) as Rp. rewrite Rp, Epv in Hres.
      inversion Hres; subst c1 items1.
      rewrite Hn in Hnth1. inversion Hnth1; subst u1. rewrite Hpar. cbn [child_idx app].
      unfold br at 1. cbn [bind].
      destruct (lookup f kvs) as [vf|] eqn:Ef.
      * rewrite (find_key_step rl _ root fk [] _ c' kvs _ f vf Hfk Hpk Ef). cbn [bind orb].
        eexists. split; [reflexivity|]. cbn [field_of] in Hsel. rewrite Ef in Hsel. inversion Hsel; subst sel.
        cbn [f_val f_rest]. auto.
      * rewrite (find_key_missing rl _ root fk [] _ c' kvs _ f IdxNone Hfk Hpk Ef). cbn [bind orb].
        eexists. split; [reflexivity|]. cbn [field_of] in Hsel. rewrite Ef in Hsel. inversion Hsel; subst sel.
        reflexivity.
    + inversion Hsel; subst sel. eexists. split; [reflexivity|]. reflexivity.
  - inversion Hsel; subst sel. eexists. split; [reflexivity|]. reflexivity.
Qed.
End pred_op.

(* ---- the predicate step at the record list -------------------------------------------------------- *)
Definition all_selectable_op (o : pop) (k f v : pstr) (recs : list tree) : Prop :=
  Forall (fun r => exists c' kvs s, r = Dict c' kvs /\ rec_select_op o k f v r = Some s) recs.

Lemma pred_at_list_op o rl root toks p c r0 items segs y fk k f v f' :
  keys_good root ->
  walks root toks p (Lst c (r0 :: items)) segs ->
  split_name_index y = Ok ([], IdxPred k (op_str o) (PvStr v)) -> pstr_eqb k s_text = false -> clean_lit_ops v ->
  split_name_index fk = Ok (f, IdxNone) -> plain_key f ->
  all_selectable_op o k f v (r0 :: items) ->
  2 * (length segs + 1) + 6 <= f' ->
  exists F,
    find true rl (S (S f')) root [y; fk] (PAt p) (Lst c (r0 :: items)) (s_root ++ render_segs segs) = Ok (root, false, F) /\
    match flat_map (sel_list (rec_select_op o k f v)) (r0 :: items) with
    | [] => rest_falsy (f_rest F) = false
    | sel => f_val F = Some (agg rl sel) /\ f_rest F = None
    end.
Proof.
  intros Hg Hw Hy Hkt Hv Hfk Hpk Hall Hf.
  rewrite (find_pred_at_list rl _ root y [fk] (PAt p) c r0 items _ k (op_str o) (PvStr v) Hy Hkt).
  rewrite (find_star_step rl f' root (br s_star) [y; fk] (PAt p) c (r0 :: items) _ sni_star).
  unfold star_cands.
  match goal with
  | |- context [star_loop ?onef (map ?cd (seq 0 (length (r0 :: items)))) [] None] =>
    destruct (star_loop_sel root onef (rec_select_op o k f v) cd (r0 :: items) 0 [] None) as [fst' [HL HN]]
  end.
  { intros j r Hj. unfold all_selectable_op in Hall. rewrite Forall_forall in Hall.
    destruct (Hall r (nth_error_In _ _ Hj)) as [c' [kvs [s [-> Hs]]]].
    destruct (one_pred_record_op o rl root Hg y fk k f v Hy Hkt Hv Hfk Hpk toks p c (r0 :: items) segs j c' kvs s f' Hw Hj Hs ltac:(lia))
      as [F [HF Hshape]].
    exists s, F. cbn [plus]. auto. }
  rewrite HL. cbn [bind rev app].
  destruct (flat_map (sel_list (rec_select_op o k f v)) (r0 :: items)) as [|v0 vs] eqn:Es.
  - assert (fst' = None) by (apply HN; auto). subst fst'. eexists. split; reflexivity.
  - destruct fst' as [F1|].
    + eexists. split; [reflexivity|]. cbn [f_val f_rest]. auto.
    + exfalso. assert (E : @None found = None) by reflexivity. apply HN in E. destruct E as [_ E]. discriminate.
Qed.

(* ---- P/[k=v]/f through the public lookup ------------------------------------------------------------ *)
Theorem pred_lookup_op o fuel root x re rl dflt toks p c r0 items segs y fk k f v :
  keys_good root ->
  has_path_char x = true -> tokenize x = toks ++ [y; fk] ->
  walks root toks p (Lst c (r0 :: items)) segs ->
  split_name_index y = Ok ([], IdxPred k (op_str o) (PvStr v)) -> pstr_eqb k s_text = false -> clean_lit_ops v ->
  split_name_index fk = Ok (f, IdxNone) -> plain_key f ->
  all_selectable_op o k f v (r0 :: items) ->
  2 * length toks + 2 * (length segs + 1) + 10 <= fuel ->
  dict_get_core fuel root x re rl dflt =
  Ok (root, fanout_result re rl dflt (flat_map (sel_list (rec_select_op o k f v)) (r0 :: items))).
Proof.
  intros Hg Hc Ht Hw Hy Hkt Hv Hfk Hpk Hall Hf. unfold dict_get_core. rewrite Hc, Ht.
  destruct (find_walks_prefix rl root toks p _ segs Hw [y; fk] ltac:(congruence) fuel root [] s_root ltac:(lia))
    as [fuel' [H1 [H2 H3]]].
  rewrite H3. cbn [app].
  destruct fuel' as [|[|f']]; try lia.
  destruct (pred_at_list_op o rl root toks p c r0 items segs y fk k f v f' Hg Hw Hy Hkt Hv Hfk Hpk Hall ltac:(lia)) as [F [HF Hsh]].
  rewrite HF. unfold fanout_result.
  destruct (flat_map (sel_list (rec_select_op o k f v)) (r0 :: items)) as [|v0 vs].
  - now rewrite Hsh.
  - destruct Hsh as [Hval Hr]. now rewrite Hr, Hval.
Qed.



(* non-vacuity on the records of [pr_recs]:  r/[k!=a]/f  and  r/[k~a]/f *)
Definition pr_x_ne : pstr := [114; 47; 91; 107; 33; 61; 97; 93; 47; 102]%N.    (* r/[k!=a]/f *)
Definition pr_x_has : pstr := [114; 47; 91; 107; 126; 97; 93; 47; 102]%N.     (* r/[k~a]/f *)
Theorem pred_ops_example :
  clean_lit_ops [97]%N /\
  all_selectable_op OpNe [107]%N [102]%N [97]%N pr_recs /\ all_selectable_op OpHas [107]%N [102]%N [97]%N pr_recs /\
  flat_map (sel_list (rec_select_op OpNe [107]%N [102]%N [97]%N)) pr_recs = [Leaf (SInt 2)] /\
  flat_map (sel_list (rec_select_op OpHas [107]%N [102]%N [97]%N)) pr_recs = [Leaf (SInt 1); Leaf (SInt 3)] /\
  dict_get_core (fuel_for pr_root pr_x_ne) pr_root pr_x_ne true true LDefault = Ok (pr_root, LVal (Lst true [Leaf (SInt 2)])) /\
  dict_get_core (fuel_for pr_root pr_x_has) pr_root pr_x_has true true LDefault
  = Ok (pr_root, LVal (Lst true [Leaf (SInt 1); Leaf (SInt 3)])).
Proof.
  split; [split; [repeat split; try discriminate; reflexivity|cbv; intuition discriminate]|].
  split; [repeat constructor; do 3 eexists; split; reflexivity|].
  split; [repeat constructor; do 3 eexists; split; reflexivity|].
  repeat split; vm_compute; reflexivity.
Qed.
