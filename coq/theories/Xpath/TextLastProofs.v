(* Xpath/TextLastProofs.v — a text() condition as the LAST remaining step: when the node fails it, the resolver hands the
   step back as "not found" (so get / first answer the default and item access raises IndexError); when the node meets
   it, the lookup goes on with no steps left, i.e. it answers the node. *)
From Coq Require Import List NArith ZArith Bool.
From N0 Require Import Base.PyStr Base.PyVal Xpath.Dec Xpath.Token Xpath.Find Xpath.PredOpsProofs.
Import ListNotations.

Theorem text_last_step o rl f root t par kv fstr v lit b :
  split_name_index t = Ok ([], IdxPred s_text (op_str o) v) -> pred_literal kv v = Some lit ->
  pred_test o kv lit = Ok b ->
  find true rl (S f) root [t] par kv fstr =
  if b then find true rl f root [] par kv fstr
  else Ok (root, false, mkF par kv None None fstr (Some [t])).
Proof.
  intros Hs Hl Hb. rewrite (find_text_op o rl f root t [] par kv fstr v lit Hs Hl). rewrite Hb. reflexivity.
Qed.

(* what is handed back is a non-empty rest: the entry points read it as a miss *)
Lemma text_last_rest_is_miss t : rest_falsy (Some [t]) = false.
Proof. reflexivity. Qed.

Theorem text_last_step_full o rl f root t par kv fstr v lit b :
  split_name_index t = Ok ([], IdxPred s_text (op_str o) v) -> pred_literal kv v = Some lit ->
  pred_test o kv lit = Ok b ->
  find true rl (S f) root [t] par kv fstr =
  (if b then find true rl f root [] par kv fstr
   else Ok (root, false, mkF par kv None None fstr (Some [t]))) /\ rest_falsy (Some [t]) = false.
Proof. intros H1 H2 H3. split; [exact (text_last_step o rl f root t par kv fstr v lit b H1 H2 H3)|reflexivity]. Qed.
