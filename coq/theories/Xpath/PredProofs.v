(* Xpath/PredProofs.v — a predicate step [k=v] over a list of dict records selects the
   fields of exactly the records whose k equals v, in order. *)
From Coq Require Import List NArith ZArith Bool Lia.
From N0 Require Import Base.PyStr Base.PyVal Xpath.Dec Xpath.DecProofs Xpath.Token Xpath.TokenProofs
  Xpath.Find Xpath.FindProofs Xpath.Write Xpath.SpecProofs Xpath.WalkProofs Xpath.TokenizeProofs Xpath.EnumProofs
  Xpath.FstrProofs Xpath.DeleteProofs Xpath.FanoutProofs.
Import ListNotations.

Arguments N.eqb : simpl never.

Definition op_eq : pstr := [61; 61]%N.

(* ---- resolver steps for predicates ------------------------------------------------------------ *)
Lemma find_pred_at_list rl f root y rest par c r0 items fstr n op v :
  split_name_index y = Ok ([], IdxPred n op v) -> pstr_eqb n s_text = false ->
  find true rl (S f) root (y :: rest) par (Lst c (r0 :: items)) fstr =
  find true rl f root (br s_star :: y :: rest) par (Lst c (r0 :: items)) fstr.
Proof. intros Hs Hn. cbn [find]. rewrite Hs. cbn [bind nonempty negb andb idx_truthy]. now rewrite Hn. Qed.

Lemma find_pred_at_record rl f root y rest par c kvs fstr n op v :
  split_name_index y = Ok ([], IdxPred n op v) -> pstr_eqb n s_text = false ->
  find true rl (S f) root (y :: rest) par (Dict c kvs) fstr =
  match lookup n kvs with
  | Some kv => find true rl f root (br (s_text ++ op ++ pval_str v) :: s_dotdot :: rest) (child_key par n) kv (sl fstr n)
  | None => Ok (root, false, mkF par (Dict c kvs) None None fstr (Some (y :: rest)))
  end.
Proof. intros Hs Hn. cbn [find]. rewrite Hs. cbn [bind nonempty negb andb idx_truthy]. rewrite Hn. reflexivity. Qed.

Lemma find_text_eq rl f root t rest par kv fstr v lit :
  split_name_index t = Ok ([], IdxPred s_text op_eq v) -> pred_literal kv v = Some lit ->
  find true rl (S f) root (t :: rest) par kv fstr =
  if lit_eq kv lit then find true rl f root rest par kv fstr
  else Ok (root, false, mkF par kv None None fstr (Some (t :: rest))).
Proof.
  intros Hs Hl. cbn [find]. rewrite Hs. cbn [bind nonempty negb andb idx_truthy].
  replace (pstr_eqb s_text s_text) with true by reflexivity. rewrite Hl. unfold op_eq.
  replace (N.eqb 61 61) with true by reflexivity. cbn [bind].
  replace (N.eqb 61 33) with false by reflexivity. cbn [orb]. reflexivity.
Qed.

(* the '..' step with further steps after it *)
Lemma find_dotdot rl f root rest par parv fstr :
  rest <> [] ->
  find true rl (S f) root (s_dotdot :: rest) par parv fstr =
  (do (root1, m1, F1) <- find true rl f root
        (removelast (filter nonempty (split_chr c_slash (replace fstr [c_rb; c_lb] [c_rb; c_slash; c_lb]))))
        (PAt []) root s_root ;;
   do nxt <-
     match f_slot F1 with
     | Some ((_ :: _) as s) =>
       do (cn, ci) <- split_name_index s ;;
       match cn with
       | _ :: _ =>
         match f_parv F1 with
         | Dict _ kvs => match lookup cn kvs with Some v => Ok (child_key (f_par F1) cn, v) | None => Raise ExKey end
         | Lst _ _ => Raise ExType
         | Leaf _ => Raise ExType
         end
       | [] =>
         match ci with
         | IdxStr si =>
           match n0eval si, f_parv F1 with
           | EvUnk, _ => Unmodelled
           | EvInt z, Lst _ items =>
             match norm_idx (length items) z with
             | Some i => match nth_error items i with Some v => Ok (child_idx (f_par F1) i, v) | None => Raise ExIndex end
             | None => Raise ExIndex
             end
           | EvInt _, Dict _ _ => Raise ExKey
           | EvStr _, Lst _ _ => Raise ExType
           | EvStr k, Dict _ kvs => match lookup k kvs with Some v => Ok (child_key (f_par F1) k, v) | None => Raise ExKey end
           | _, Leaf _ => Raise ExType
           end
         | _ => Raise ExType
         end
       end
     | _ => Ok (f_par F1, f_parv F1)
     end ;;
   let '(npar, nval) := nxt in
   do (r2, m2, F2) <- find true rl f root1 rest npar nval (f_str F1) ;; Ok (r2, m1 || m2, F2)).
Proof.
  intros Hne. cbn [find].
  replace (split_name_index s_dotdot) with (@Ok (pstr * idx) (s_dotdot, IdxNone)) by reflexivity.
  cbn [bind nonempty negb andb idx_truthy s_dotdot].
  replace (pstr_eqb [46%N; 46%N] s_dotdot) with true by reflexivity.
  destruct rest as [|r0 rest']; [congruence|]. cbn [nonnil orb]. reflexivity.
Qed.

(* ---- the internally generated token [text()==v] re-parses to the text() predicate ---------------- *)
Lemma find_sub_aux_first2 c1 c2 : forall k r i fuel,
  ~ In c1 k -> (length k <= fuel)%nat ->
  find_sub_aux fuel (k ++ c1 :: c2 :: r) [c1; c2] i = Some (i + length k)%nat.
Proof.
  induction k as [|x k IH]; intros r i fuel Hn Hf.
  - destruct fuel; cbn [find_sub_aux app startswith]; rewrite !N.eqb_refl; cbn [andb length]; f_equal; lia.
  - assert (Hx : N.eqb c1 x = false) by (apply N.eqb_neq; intros ->; apply Hn; now left).
    destruct fuel as [|f]; [cbn in Hf; lia|].
    cbn [find_sub_aux app startswith]. rewrite Hx. cbn [andb].
    rewrite IH by (try (intros Hi; apply Hn; now right); cbn in Hf; lia). cbn [length]. f_equal. lia.
Qed.

Lemma split_once_first2 c1 c2 k r : ~ In c1 k -> split_once (k ++ c1 :: c2 :: r) [c1; c2] = Some (k, r).
Proof.
  intros Hn. unfold split_once, find_sub.
  rewrite find_sub_aux_first2 by (try assumption; rewrite app_length; lia).
  cbn [plus length]. f_equal. f_equal.
  - now rewrite firstn_app, firstn_all, Nat.sub_diag, app_nil_r.
  - replace (length k + 2)%nat with (length (k ++ [c1; c2])) by (rewrite app_length; reflexivity).
    replace (k ++ c1 :: c2 :: r) with ((k ++ [c1; c2]) ++ r) by (now rewrite <- app_assoc).
    now rewrite skipn_app, skipn_all, Nat.sub_diag.
Qed.

Definition clean_lit (v : pstr) : Prop :=
  v <> [] /\ forallb idx_chr v = true /\ pred_value v = Ok (PvStr v).

Lemma sni_text_eq v : clean_lit v ->
  split_name_index (br (s_text ++ op_eq ++ v)) = Ok ([], IdxPred s_text op_eq (PvStr v)).
Proof.
  intros [Hne [Hall Hpv]]. rewrite forallb_forall in Hall.
  assert (HF : forall P : N -> Prop, (forall c, idx_chr c = true -> P c) -> Forall P v).
  { intros P HP. apply Forall_forall. intros c Hin. apply HP, Hall, Hin. }
  change (s_text ++ op_eq ++ v) with (116%N :: (tl s_text ++ op_eq ++ v)).
  set (bt := tl s_text ++ op_eq ++ v).
  assert (Hbody : 116%N :: bt = s_text ++ op_eq ++ v) by reflexivity.
  unfold split_name_index, br.
  assert (E1 : mem_chr c_lb (c_lb :: (116%N :: bt) ++ [c_rb]) = true) by reflexivity. rewrite E1.
  change (c_lb :: (116%N :: bt) ++ [c_rb]) with ((c_lb :: 116%N :: bt) ++ [c_rb]).
  rewrite last_chr_snoc, N.eqb_refl. cbn [andb]. rewrite removelast_last.
  change (c_lb :: 116%N :: bt) with ([] ++ c_lb :: 116%N :: bt).
  rewrite (split_once_first c_lb [] (116%N :: bt)) by (intros []).
  replace (strip []) with (@nil N) by reflexivity.
  assert (Hstrip : strip (116%N :: bt) = 116%N :: bt).
  { unfold strip. apply strip_set_id; [reflexivity|]. rewrite Hbody, !rev_app_distr.
    pose proof (HF (fun c => mem_chr c py_ws = false) ltac:(intros c Hc; now destruct (idx_chr_spec c Hc))) as Hws.
    apply Forall_rev in Hws. destruct (rev v) as [|c0 rv] eqn:Er.
    - exfalso. apply Hne. rewrite <- (rev_involutive v), Er. reflexivity.
    - cbn [app]. now inversion Hws. }
  rewrite Hstrip.
  assert (Hascii : existsb (fun c => (128 <=? c)%N) (116%N :: bt) = false).
  { rewrite Hbody, !existsb_app. replace (existsb (fun c : N => (128 <=? c)%N) s_text) with false by reflexivity.
    replace (existsb (fun c : N => (128 <=? c)%N) op_eq) with false by reflexivity. cbn [orb].
    apply existsb_false_forall. apply HF. intros c Hc. now destruct (idx_chr_spec c Hc) as [_ [? _]]. }
  rewrite Hascii.
  assert (Hcont : startswith (lower (116%N :: bt)) s_contains = false) by reflexivity.
  rewrite Hcont. cbn [andb].
  assert (Heq : mem_chr 61 (116%N :: bt) = true).
  { apply mem_chr_In. rewrite Hbody. unfold op_eq. apply in_or_app. right. now left. }
  rewrite Heq. cbn [orb first_delim delims].
  rewrite Hbody. change (s_text ++ op_eq ++ v) with (s_text ++ 61%N :: 61%N :: v).
  rewrite (split_once_first2 61%N 61%N s_text v) by (cbv; intuition discriminate).
  replace (strip s_text) with s_text by reflexivity.
  rewrite (strip_id_forall v) by (apply HF; intros c Hc; now destruct (idx_chr_spec c Hc)).
  rewrite Hpv. reflexivity.
Qed.

(* ---- extending a walk by one index step ------------------------------------------------------------ *)
Lemma walks_snoc_idx : forall t toks p v segs, walks t toks p v segs ->
  forall c items i child, v = Lst c items -> nth_error items i = Some child ->
  walks t (toks ++ [br (dec_of_Z (Z.of_nat i))]) (p ++ [PIdx i]) child (segs ++ [SI (Z.of_nat i)]).
Proof.
  induction 1 as [t|x toks c0 kvs k ch p v segs Hs Hk Hl Hw IH
                  |x toks c0 items0 si z i0 ch p v segs Hs Hi He Hn Hc Hw IH
                  |x toks c0 kvs k si c' items0 z i0 ch p v segs Hs Hk Hi Hb He Hl Hn Hc Hw IH];
    intros c items i child Hv Hnth; cbn [app].
  - subst t. eapply walks_idx; [apply sni_br, clean_idx_dec|apply plain_idx_dec|apply n0eval_dec| |exact Hnth|constructor].
    apply norm_idx_nat. eapply nth_error_Some_lt; eauto.
  - eapply walks_key; eauto.
  - eapply walks_idx; eauto.
  - eapply walks_keyidx; eauto.
Qed.

Lemma seg_path_keys_good t segs p v : seg_path t segs p v -> keys_good t -> keys_good v.
Proof.
  induction 1 as [t|c0 kvs0 k0 ch segs0 p0 v0 Hl0 Hsp0 IH0|c0 items0 z0 i0 ch segs0 p0 v0 Hn0 Hc0 Hsp0 IH0]; intros Hg.
  - exact Hg.
  - apply IH0. destruct (keys_good_lookup _ _ _ _ Hg Hl0) as [_ H]. exact H.
  - apply IH0. eapply keys_good_nth; eauto.
Qed.

(* ---- one record under a predicate ------------------------------------------------------------------- *)
Section pred.
Variable rl : bool.
Variable root : tree.
Hypothesis Hgood : keys_good root.
Variables y fk k f v : pstr.
Hypothesis Hy : split_name_index y = Ok ([], IdxPred k op_eq (PvStr v)).
Hypothesis Hkt : pstr_eqb k s_text = false.
Hypothesis Hv : clean_lit v.
Hypothesis Hfk : split_name_index fk = Ok (f, IdxNone).
Hypothesis Hpk : plain_key f.

(* does the record match, and what does it contribute *)
Definition rec_select (r : tree) : option (list tree) :=
  match r with
  | Dict _ kvs =>
    match lookup k kvs with
    | None => Some []
    | Some kv =>
      match pred_literal kv (PvStr v) with
      | None => None
      | Some lit => if lit_eq kv lit then Some (field_of f r) else Some []
      end
    end
  | _ => None
  end.

Lemma one_pred_record toks p c items segs i c' kvs sel fuel :
  walks root toks p (Lst c items) segs ->
  nth_error items i = Some (Dict c' kvs) ->
  rec_select (Dict c' kvs) = Some sel ->
  2 * (length segs + 1) + 6 <= fuel ->
  exists F,
    find true rl fuel root (br (dec_of_nat i) :: y :: [fk]) (PAt p) (Lst c items) (s_root ++ render_segs segs)
    = Ok (root, false, F) /\
    match sel with
    | [] => rest_falsy (f_rest F) = false
    | vf :: _ => f_val F = Some vf /\ f_rest F = None /\ sel = [vf]
    end.
Proof.
  intros Hw Hn Hsel Hf.
  destruct fuel as [|[|[|[|[|[|f0]]]]]]; try lia.
  rewrite dec_of_nat_Z.
  rewrite (find_idx_step rl _ root (br (dec_of_Z (Z.of_nat i))) [y; fk] (PAt p) c items _ (dec_of_Z (Z.of_nat i))
             (Z.of_nat i) i (Dict c' kvs));
    [|apply sni_br, clean_idx_dec|apply plain_idx_dec|apply n0eval_dec
     |apply norm_idx_nat; eapply nth_error_Some_lt; eauto|exact Hn].
  cbn [child_idx].
  rewrite (find_pred_at_record rl _ root y [fk] _ c' kvs _ k op_eq (PvStr v) Hy Hkt).
  unfold rec_select in Hsel.
  destruct (lookup k kvs) as [kv|] eqn:Ek.
  - destruct (pred_literal kv (PvStr v)) as [lit|] eqn:El; [|discriminate].
    cbn [pval_str child_key].
    rewrite (find_text_eq rl _ root _ [s_dotdot; fk] _ kv _ (PvStr v) lit (sni_text_eq v Hv) El).
    destruct (lit_eq kv lit) eqn:Ecmp.
    + (* the '..' step re-resolves the found path and lands on the record *)
      rewrite find_dotdot by discriminate.
      set (segs1 := segs ++ [SI (Z.of_nat i)]).
      assert (Hw1 : walks root (toks ++ [br (dec_of_Z (Z.of_nat i))]) (p ++ [PIdx i]) (Dict c' kvs) segs1)
        by (eapply walks_snoc_idx; eauto).
      destruct (seg_path_spells (length segs1) segs1 root _ _ (le_n _) Hgood (walks_seg_path _ _ _ _ _ Hw1)) as [_ Hok1].
      destruct (keys_good_lookup c' kvs k kv) as [[Hsk _] _]; [|exact Ek|].
      { exact (seg_path_keys_good _ _ _ _ (walks_seg_path _ _ _ _ _ Hw1) Hgood). }
      assert (Hfstr : sl ((s_root ++ render_segs segs) ++ br (dec_of_Z (Z.of_nat i))) k
                      = s_root ++ render_segs (segs1 ++ [SK k])).
      { unfold segs1, sl, render_segs. rewrite !map_app, !concat_app. cbn [map concat render_seg].
        rewrite !app_nil_r, <- !app_assoc. reflexivity. }
      rewrite Hfstr.
      rewrite raw_tokens_rendered by (apply segs_ok_app; [exact Hok1|constructor; [exact Hsk|constructor]]).
      rewrite (seg_tokens_snoc_key (length segs1) segs1 k (le_n _)), removelast_last.
      assert (Hne1 : segs1 <> []) by (unfold segs1; destruct segs; discriminate).
      assert (Hlen1 : 2 * length (seg_tokens segs1) <= S (S f0)).
      { pose proof (seg_tokens_length (length segs1) segs1 (le_n _)) as Hl. unfold segs1 in *. rewrite app_length in *. cbn in *. lia. }
      destruct (seg_path_spells (length segs1) segs1 root _ _ (le_n _) Hgood (walks_seg_path _ _ _ _ _ Hw1)) as [Hsp1 _].
      destruct (spells_walk root _ _ Hsp1 (keys_good_ok root Hgood)) as [v' Hw'].
      assert (v' = Dict c' kvs).
      { pose proof (walk_resolve _ _ _ _ Hw') as R1. pose proof (walk_resolve _ _ _ _ (walks_walk _ _ _ _ _ Hw1)) as R2. congruence. }
      subst v'.
      destruct (find_walk rl root (seg_tokens segs1) _ _ Hw' (seg_tokens_nonempty segs1 Hne1) (S (S f0)) root [] s_root Hlen1)
        as [F1 [HF1 Hat]].
      rewrite HF1. cbn [bind].
      destruct Hat as [q [last [slot [Hp [Hpar [Hres [Hsl [Hsn [Hval Hrest]]]]]]]]].
      (* the last step is the index step *)
      assert (Hlast : q = p /\ last = PIdx i).
      { apply app_inj_tail in Hp. destruct Hp as [-> ->]. auto. }
      destruct Hlast as [-> ->]. cbn [slot_names] in Hsn.
      destruct Hsn as [c1 [items1 [z1 [u1 [Epv [-> [Hn1 Hnth1]]]]]]].
      rewrite Hsl. cbn [app] in Hres.
      rewrite (sni_br _ (clean_idx_dec z1)). cbn [bind]. rewrite n0eval_dec, Epv, Hn1, Hnth1. cbn [bind].
      pose proof (walk_resolve _ _ _ _ (walks_walk _ _ _ _ _ Hw)) as Rp. rewrite Rp, Epv in Hres.
      inversion Hres; subst c1 items1.
      rewrite Hn in Hnth1. inversion Hnth1; subst u1. rewrite Hpar. cbn [child_idx app].
      unfold br at 1. cbn [bind].
      destruct (lookup f kvs) as [vf|] eqn:Ef.
      * rewrite (find_key_step rl _ root fk [] _ c' kvs _ f vf Hfk Hpk Ef). cbn [bind orb].
        eexists. split; [reflexivity|]. cbn [field_of] in Hsel. rewrite Ef in Hsel. inversion Hsel; subst sel.
        cbn [f_val f_rest]. auto.
      * rewrite (find_key_missing rl _ root fk [] _ c' kvs _ f IdxNone Hfk Hpk Ef). cbn [bind orb].
        eexists. split; [reflexivity|]. cbn [field_of] in Hsel. rewrite Ef in Hsel. inversion Hsel; subst sel.
        reflexivity.
    + inversion Hsel; subst sel. eexists. split; [reflexivity|]. reflexivity.
  - inversion Hsel; subst sel. eexists. split; [reflexivity|]. reflexivity.
Qed.
End pred.

(* ---- the fan-out loop with an arbitrary per-record outcome ---------------------------------------- *)
Definition sel_list (sel : tree -> option (list tree)) (r : tree) : list tree :=
  match sel r with Some s => s | None => [] end.

Lemma star_loop_sel (root : tree) (onef : list pstr * pref * tree * pstr -> fres) (sel : tree -> option (list tree))
      (cand : nat -> list pstr * pref * tree * pstr) : forall tl_items i0 vals fst,
  (forall j r, nth_error tl_items j = Some r ->
     exists s F, sel r = Some s /\ onef (cand (i0 + j)) = Ok (root, false, F) /\
       match s with
       | [] => rest_falsy (f_rest F) = false
       | vf :: _ => f_val F = Some vf /\ f_rest F = None /\ s = [vf]
       end) ->
  exists fst',
    star_loop onef (map cand (seq i0 (length tl_items))) vals fst
    = Ok (rev vals ++ flat_map (sel_list sel) tl_items, fst') /\
    (fst' = None <-> fst = None /\ flat_map (sel_list sel) tl_items = []).
Proof.
  induction tl_items as [|r rs IH]; intros i0 vals fst H.
  - cbn. exists fst. rewrite app_nil_r. split; [reflexivity|tauto].
  - cbn [length seq map star_loop].
    destruct (H 0 r eq_refl) as [s [F [Hs [HF Hshape]]]]. rewrite Nat.add_0_r in HF. rewrite HF. cbn [bind].
    assert (H' : forall j r0, nth_error rs j = Some r0 ->
              exists s0 F0, sel r0 = Some s0 /\ onef (cand (S i0 + j)) = Ok (root, false, F0) /\
                match s0 with [] => rest_falsy (f_rest F0) = false
                         | vf :: _ => f_val F0 = Some vf /\ f_rest F0 = None /\ s0 = [vf] end).
    { intros j r0 Hj. destruct (H (S j) r0 Hj) as [s0 [F0 [A [B C]]]]. exists s0, F0.
      replace (S i0 + j) with (i0 + S j) by lia. auto. }
    cbn [flat_map]. assert (Esel : sel_list sel r = s) by (unfold sel_list; now rewrite Hs). rewrite Esel.
    destruct s as [|vf s'].
    + rewrite Hshape. destruct (IH (S i0) vals fst H') as [fst' [H1 H2]].
      exists fst'. split; [exact H1|]. cbn [app]. exact H2.
    + destruct Hshape as [Hv [Hr Hone]]. inversion Hone; subst s'. rewrite Hr, Hv. cbn [rest_falsy].
      match goal with |- context [star_loop _ _ (vf :: vals) ?fs] =>
        destruct (IH (S i0) (vf :: vals) fs H') as [fst' [H1 H2]] end.
      exists fst'. split.
      * rewrite H1. cbn [rev app]. now rewrite <- app_assoc.
      * split; [intros E; apply H2 in E; destruct E as [E _]; destruct fst; discriminate|intros [_ E]; discriminate].
Qed.

(* ---- the predicate step at the record list -------------------------------------------------------- *)
Definition all_selectable (k f v : pstr) (recs : list tree) : Prop :=
  Forall (fun r => exists c' kvs s, r = Dict c' kvs /\ rec_select k f v r = Some s) recs.

Lemma pred_at_list rl root toks p c r0 items segs y fk k f v f' :
  keys_good root ->
  walks root toks p (Lst c (r0 :: items)) segs ->
  split_name_index y = Ok ([], IdxPred k op_eq (PvStr v)) -> pstr_eqb k s_text = false -> clean_lit v ->
  split_name_index fk = Ok (f, IdxNone) -> plain_key f ->
  all_selectable k f v (r0 :: items) ->
  2 * (length segs + 1) + 6 <= f' ->
  exists F,
    find true rl (S (S f')) root [y; fk] (PAt p) (Lst c (r0 :: items)) (s_root ++ render_segs segs) = Ok (root, false, F) /\
    match flat_map (sel_list (rec_select k f v)) (r0 :: items) with
    | [] => rest_falsy (f_rest F) = false
    | sel => f_val F = Some (agg rl sel) /\ f_rest F = None
    end.
Proof.
  intros Hg Hw Hy Hkt Hv Hfk Hpk Hall Hf.
  rewrite (find_pred_at_list rl _ root y [fk] (PAt p) c r0 items _ k op_eq (PvStr v) Hy Hkt).
  rewrite (find_star_step rl f' root (br s_star) [y; fk] (PAt p) c (r0 :: items) _ sni_star).
  unfold star_cands.
  match goal with
  | |- context [star_loop ?o (map ?cd (seq 0 (length (r0 :: items)))) [] None] =>
    destruct (star_loop_sel root o (rec_select k f v) cd (r0 :: items) 0 [] None) as [fst' [HL HN]]
  end.
  { intros j r Hj. unfold all_selectable in Hall. rewrite Forall_forall in Hall.
    destruct (Hall r (nth_error_In _ _ Hj)) as [c' [kvs [s [-> Hs]]]].
    destruct (one_pred_record rl root Hg y fk k f v Hy Hkt Hv Hfk Hpk toks p c (r0 :: items) segs j c' kvs s f' Hw Hj Hs ltac:(lia))
      as [F [HF Hshape]].
    exists s, F. cbn [plus]. auto. }
  rewrite HL. cbn [bind rev app].
  destruct (flat_map (sel_list (rec_select k f v)) (r0 :: items)) as [|v0 vs] eqn:Es.
  - assert (fst' = None) by (apply HN; auto). subst fst'. eexists. split; reflexivity.
  - destruct fst' as [F1|].
    + eexists. split; [reflexivity|]. cbn [f_val f_rest]. auto.
    + exfalso. assert (E : @None found = None) by reflexivity. apply HN in E. destruct E as [_ E]. discriminate.
Qed.

(* ---- P/[k=v]/f through the public lookup ------------------------------------------------------------ *)
Theorem pred_lookup fuel root x re rl dflt toks p c r0 items segs y fk k f v :
  keys_good root ->
  has_path_char x = true -> tokenize x = toks ++ [y; fk] ->
  walks root toks p (Lst c (r0 :: items)) segs ->
  split_name_index y = Ok ([], IdxPred k op_eq (PvStr v)) -> pstr_eqb k s_text = false -> clean_lit v ->
  split_name_index fk = Ok (f, IdxNone) -> plain_key f ->
  all_selectable k f v (r0 :: items) ->
  2 * length toks + 2 * (length segs + 1) + 10 <= fuel ->
  dict_get_core fuel root x re rl dflt =
  Ok (root, fanout_result re rl dflt (flat_map (sel_list (rec_select k f v)) (r0 :: items))).
Proof.
  intros Hg Hc Ht Hw Hy Hkt Hv Hfk Hpk Hall Hf. unfold dict_get_core. rewrite Hc, Ht.
  destruct (find_walks_prefix rl root toks p _ segs Hw [y; fk] ltac:(congruence) fuel root [] s_root ltac:(lia))
    as [fuel' [H1 [H2 H3]]].
  rewrite H3. cbn [app].
  destruct fuel' as [|[|f']]; try lia.
  destruct (pred_at_list rl root toks p c r0 items segs y fk k f v f' Hg Hw Hy Hkt Hv Hfk Hpk Hall ltac:(lia)) as [F [HF Hsh]].
  rewrite HF. unfold fanout_result.
  destruct (flat_map (sel_list (rec_select k f v)) (r0 :: items)) as [|v0 vs].
  - now rewrite Hsh.
  - destruct Hsh as [Hval Hr]. now rewrite Hr, Hval.
Qed.

(* ---- the spelling P[k=v]/f : the predicate rides on the name token ------------------------------------ *)
Lemma find_keypred_step rl f root x rest par c kvs fstr name k op v child :
  split_name_index x = Ok (name, IdxPred k op v) -> plain_key name -> lookup name kvs = Some child ->
  find true rl (S f) root (x :: rest) par (Dict c kvs) fstr =
  find true rl f root (br (k ++ op ++ 39%N :: pval_str v ++ [39%N]) :: rest) (child_key par name) child (sl fstr name).
Proof.
  intros Hs [Hne [Hdd Hst]] Hl. cbn [find]. rewrite Hs. cbn [bind].
  destruct name as [|n0 n1]; [congruence|]. cbn [nonempty negb andb idx_truthy].
  rewrite Hdd. cbn [is_list]. rewrite Hst, Hl. destruct rest; reflexivity.
Qed.

Lemma walks_snoc_key : forall t toks p v segs, walks t toks p v segs ->
  forall c kvs name child, v = Dict c kvs -> split_name_index name = Ok (name, IdxNone) -> plain_key name ->
  lookup name kvs = Some child ->
  walks t (toks ++ [name]) (p ++ [PKey name]) child (segs ++ [SK name]).
Proof.
  induction 1 as [t|x toks c0 kvs0 k ch p v segs Hs Hk Hl Hw IH
                  |x toks c0 items0 si z i0 ch p v segs Hs Hi He Hn Hc Hw IH
                  |x toks c0 kvs0 k si c' items0 z i0 ch p v segs Hs Hk Hi Hb He Hl Hn Hc Hw IH];
    intros c kvs name child Hv Hsn Hpn Hln; cbn [app].
  - subst t. eapply walks_key; eauto. constructor.
  - eapply walks_key; eauto.
  - eapply walks_idx; eauto.
  - eapply walks_keyidx; eauto.
Qed.

(* the quoted predicate token the resolver builds re-parses to the same predicate *)
Definition quoted_pred_ok (k v : pstr) : Prop :=
  k <> [] /\ forallb idx_chr k = true /\ v <> [] /\ forallb idx_chr v = true /\
  startswith (lower (k ++ op_eq ++ 39%N :: v ++ [39%N])) s_contains = false /\
  pred_value (39%N :: v ++ [39%N]) = Ok (PvStr v).

Lemma sni_pred_quoted k v : quoted_pred_ok k v ->
  split_name_index (br (k ++ op_eq ++ 39%N :: v ++ [39%N])) = Ok ([], IdxPred k op_eq (PvStr v)).
Proof.
  intros [Hkne [Hkall [Hvne [Hvall [Hcont Hpv]]]]]. rewrite forallb_forall in Hkall, Hvall.
  assert (HFk : forall P : N -> Prop, (forall c, idx_chr c = true -> P c) -> Forall P k)
    by (intros P HP; apply Forall_forall; intros c Hin; apply HP, Hkall, Hin).
  assert (HFv : forall P : N -> Prop, (forall c, idx_chr c = true -> P c) -> Forall P v)
    by (intros P HP; apply Forall_forall; intros c Hin; apply HP, Hvall, Hin).
  assert (Hstripk : strip k = k) by (apply strip_id_forall, HFk; intros c Hc; now destruct (idx_chr_spec c Hc)).
  assert (Hasck : existsb (fun c => (128 <=? c)%N) k = false)
    by (apply existsb_false_forall, HFk; intros c Hc; now destruct (idx_chr_spec c Hc) as [_ [? _]]).
  assert (Hnoeq : ~ In 61%N k).
  { intros Hin. assert (Hc : idx_chr 61 = true) by (apply Hkall, Hin). discriminate Hc. }
  assert (Hk0ws : match k with c :: _ => mem_chr c py_ws = false | [] => True end).
  { destruct k as [|k0 k1]; [exact I|]. assert (Hc : idx_chr k0 = true) by (apply Hkall; now left).
    now destruct (idx_chr_spec k0 Hc). }
  destruct k as [|k0 k1]; [congruence|].
  set (kk := k0 :: k1) in *.
  change (kk ++ op_eq ++ 39%N :: v ++ [39%N]) with (k0 :: (k1 ++ op_eq ++ 39%N :: v ++ [39%N])) in *.
  set (bt := k1 ++ op_eq ++ 39%N :: v ++ [39%N]) in *.
  assert (Hbody : k0 :: bt = kk ++ 61%N :: 61%N :: (39%N :: v ++ [39%N])) by reflexivity.
  unfold split_name_index, br.
  assert (E1 : mem_chr c_lb (c_lb :: (k0 :: bt) ++ [c_rb]) = true) by reflexivity. rewrite E1.
  change (c_lb :: (k0 :: bt) ++ [c_rb]) with ((c_lb :: k0 :: bt) ++ [c_rb]).
  rewrite last_chr_snoc, N.eqb_refl. cbn [andb]. rewrite removelast_last.
  change (c_lb :: k0 :: bt) with ([] ++ c_lb :: k0 :: bt). rewrite (split_once_first c_lb [] (k0 :: bt)) by (intros []).
  replace (strip []) with (@nil N) by reflexivity.
  assert (Hstrip : strip (k0 :: bt) = k0 :: bt).
  { unfold strip. apply strip_set_id; [exact Hk0ws|]. rewrite Hbody.
    replace (kk ++ 61%N :: 61%N :: (39%N :: v ++ [39%N])) with ((kk ++ 61%N :: 61%N :: 39%N :: v) ++ [39%N])
      by (rewrite <- app_assoc; reflexivity).
    rewrite rev_app_distr. reflexivity. }
  rewrite Hstrip.
  assert (Hascii : existsb (fun c => (128 <=? c)%N) (k0 :: bt) = false).
  { rewrite Hbody, existsb_app, Hasck. cbn [existsb orb]. rewrite existsb_app.
    rewrite (existsb_false_forall _ v) by (apply HFv; intros c Hc; now destruct (idx_chr_spec c Hc) as [_ [? _]]).
    reflexivity. }
  rewrite Hascii, Hcont. cbn [andb].
  assert (Heq : mem_chr 61 (k0 :: bt) = true).
  { apply mem_chr_In. rewrite Hbody. apply in_or_app. right. now left. }
  rewrite Heq. cbn [orb first_delim delims].
  rewrite Hbody.
  rewrite (split_once_first2 61%N 61%N kk (39%N :: v ++ [39%N]) Hnoeq).
  rewrite Hstripk.
  assert (Hsq : strip (39%N :: v ++ [39%N]) = 39%N :: v ++ [39%N]).
  { unfold strip. apply strip_set_id; [reflexivity|].
    change (39%N :: v ++ [39%N]) with ((39%N :: v) ++ [39%N]). rewrite rev_app_distr. reflexivity. }
  rewrite Hsq, Hpv. reflexivity.
Qed.

Theorem pred_lookup_name fuel root x re rl dflt toks0 p0 c0 kvs0 segs0 name c r0 items yk fk k f v :
  keys_good root ->
  has_path_char x = true -> tokenize x = toks0 ++ [yk; fk] ->
  walks root toks0 p0 (Dict c0 kvs0) segs0 ->
  split_name_index yk = Ok (name, IdxPred k op_eq (PvStr v)) ->
  split_name_index name = Ok (name, IdxNone) -> plain_key name ->
  lookup name kvs0 = Some (Lst c (r0 :: items)) ->
  pstr_eqb k s_text = false -> clean_lit v -> quoted_pred_ok k v ->
  split_name_index fk = Ok (f, IdxNone) -> plain_key f ->
  all_selectable k f v (r0 :: items) ->
  2 * length toks0 + 2 * (length segs0 + 2) + 12 <= fuel ->
  dict_get_core fuel root x re rl dflt =
  Ok (root, fanout_result re rl dflt (flat_map (sel_list (rec_select k f v)) (r0 :: items))).
Proof.
  intros Hg Hc Ht Hw Hyk Hsn Hpn Hln Hkt Hv Hq Hfk Hpk Hall Hf. unfold dict_get_core. rewrite Hc, Ht.
  destruct (find_walks_prefix rl root toks0 p0 _ segs0 Hw [yk; fk] ltac:(congruence) fuel root [] s_root ltac:(lia))
    as [fuel' [H1 [H2 H3]]].
  rewrite H3. cbn [app].
  destruct fuel' as [|[|[|f']]]; try lia.
  rewrite (find_keypred_step rl _ root yk [fk] (PAt p0) c0 kvs0 _ name k op_eq (PvStr v) _ Hyk Hpn Hln).
  cbn [pval_str child_key].
  pose proof (walks_snoc_key _ _ _ _ _ Hw c0 kvs0 name _ eq_refl Hsn Hpn Hln) as Hw1.
  assert (Hfstr : sl (s_root ++ render_segs segs0) name = s_root ++ render_segs (segs0 ++ [SK name])).
  { unfold sl, render_segs. rewrite map_app, concat_app. cbn [map concat render_seg].
    rewrite app_nil_r, <- app_assoc. reflexivity. }
  rewrite Hfstr.
  destruct (pred_at_list rl root _ _ c r0 items _ _ fk k f v f' Hg Hw1 (sni_pred_quoted k v Hq) Hkt Hv Hfk Hpk Hall) as [F [HF Hsh]].
  { rewrite app_length. cbn. lia. }
  rewrite HF. unfold fanout_result.
  destruct (flat_map (sel_list (rec_select k f v)) (r0 :: items)) as [|v0 vs].
  - now rewrite Hsh.
  - destruct Hsh as [Hval Hr]. now rewrite Hr, Hval.
Qed.

(* non-vacuity: {"r": [{"k": "a", "f": 1}, {"k": "b", "f": 2}, {"k": "a", "f": 3}, {"f": 4}]}  and  r[k=a]/f *)
Definition pr_recs : list tree :=
  [Dict true [([107]%N, Leaf (SStr [97]%N)); ([102]%N, Leaf (SInt 1))];
   Dict true [([107]%N, Leaf (SStr [98]%N)); ([102]%N, Leaf (SInt 2))];
   Dict true [([107]%N, Leaf (SStr [97]%N)); ([102]%N, Leaf (SInt 3))];
   Dict true [([102]%N, Leaf (SInt 4))]].
Definition pr_root : tree := Dict true [([114]%N, Lst true pr_recs)].
Definition pr_x : pstr := [114; 91; 107; 61; 97; 93; 47; 102]%N.     (* r[k=a]/f *)

Theorem pred_example :
  keys_good pr_root /\
  all_selectable [107]%N [102]%N [97]%N pr_recs /\
  flat_map (sel_list (rec_select [107]%N [102]%N [97]%N)) pr_recs = [Leaf (SInt 1); Leaf (SInt 3)] /\
  clean_lit [97]%N /\ quoted_pred_ok [107]%N [97]%N /\
  dict_get_core (fuel_for pr_root pr_x) pr_root pr_x true true LDefault
  = Ok (pr_root, LVal (Lst true [Leaf (SInt 1); Leaf (SInt 3)])).
Proof.
  split; [cbn; repeat split; apply good_key_letter; cbv; congruence|].
  split; [repeat constructor; do 3 eexists; split; reflexivity|].
  split; [reflexivity|].
  split; [repeat split; try discriminate; reflexivity|].
  split; [repeat split; try discriminate; reflexivity|].
  vm_compute. reflexivity.
Qed.

(* A predicate step on an empty list is a miss for that list (after the "fix:" commit 20793f6: before it the
   step raised IndexError, which left an enclosing fan-out loop and lost the selections of the sibling parents). *)
Lemma find_pred_empty rl f root y rest par c fstr k op v :
  split_name_index y = Ok ([], IdxPred k op v) -> pstr_eqb k s_text = false ->
  find true rl (S f) root (y :: rest) par (Lst c []) fstr =
  Ok (root, false, mkF par (Lst c []) None None fstr (Some (y :: rest))).
Proof.
  intros Hy Hk. cbn [find]. rewrite Hy. cbn [bind nonempty negb andb idx_truthy]. rewrite Hk. reflexivity.
Qed.

Theorem pred_lookup_empty fuel root x re rl dflt toks p c segs y rest k op v :
  has_path_char x = true -> tokenize x = toks ++ y :: rest ->
  walks root toks p (Lst c []) segs ->
  split_name_index y = Ok ([], IdxPred k op v) -> pstr_eqb k s_text = false ->
  2 * length toks + 1 <= fuel ->
  dict_get_core fuel root x re rl dflt = Ok (root, if re then LRaise ExIndex else dflt).
Proof.
  intros Hc Ht Hw Hy Hk Hf. unfold dict_get_core. rewrite Hc, Ht.
  destruct (find_walks_prefix rl root toks p _ segs Hw (y :: rest) ltac:(congruence) fuel root [] s_root ltac:(lia))
    as [fuel' [H1 [H2 H3]]].
  rewrite H3. destruct fuel' as [|f']; [lia|].
  rewrite (find_pred_empty rl f' root y rest _ c _ k op v Hy Hk). reflexivity.
Qed.
