(* Xpath/WalkProofs.v — from the structural theorem [find_walk] to the public entry
   points (item access, get, first, assignment to an existing node) and to the
   canonical / negative-index spellings of a path. *)
From Coq Require Import List NArith ZArith Bool Lia.
From N0 Require Import Base.PyStr Base.PyVal Xpath.Dec Xpath.DecProofs Xpath.Token Xpath.TokenProofs
  Xpath.Find Xpath.FindProofs Xpath.Write Xpath.SpecProofs.
Import ListNotations.

Arguments N.eqb : simpl never.

(* ---- lookups ------------------------------------------------------------------------- *)
Theorem dict_get_core_walk fuel root x re rl dflt p v :
  has_path_char x = true -> tokenize x <> [] -> walk root (tokenize x) p v ->
  2 * length (tokenize x) <= fuel ->
  dict_get_core fuel root x re rl dflt = Ok (root, LVal v) /\ resolve root p = Some v.
Proof.
  intros Hc Hne Hw Hf. split; [|eapply walk_resolve; eauto].
  unfold dict_get_core. rewrite Hc.
  destruct (find_walk rl root (tokenize x) p v Hw Hne fuel root [] s_root Hf) as [F [HF Hat]].
  rewrite HF. destruct Hat as [q [last [slot [_ [_ [_ [_ [_ [Hv Hr]]]]]]]]].
  now rewrite Hr, Hv.
Qed.

(* ---- canonical and negative-index spellings -------------------------------------------- *)
(* keys a tokenised path can address one-to-one: non-empty, free of '[', not '..' or '*' *)
Definition key_ok (k : pstr) : Prop := mem_chr c_lb k = false /\ strip k = k /\ plain_key k.

Fixpoint keys_ok (t : tree) : Prop :=
  match t with
  | Leaf _ => True
  | Dict _ kvs =>
    (fix all (l : list (pstr * tree)) := match l with [] => True | (k, v) :: r => key_ok k /\ keys_ok v /\ all r end) kvs
  | Lst _ xs => (fix all (l : list tree) := match l with [] => True | v :: r => keys_ok v /\ all r end) xs
  end.

Lemma keys_ok_lookup c kvs k v : keys_ok (Dict c kvs) -> lookup k kvs = Some v -> key_ok k /\ keys_ok v.
Proof.
  cbn. induction kvs as [|[k' v'] r IH]; cbn; [discriminate|].
  intros [Hk [Hv Hr]]. destruct (pstr_eqb k k') eqn:E.
  - intros H. inversion H; subst. apply pstr_eqb_eq in E. subst. auto.
  - auto.
Qed.

Lemma keys_ok_nth c xs i v : keys_ok (Lst c xs) -> nth_error xs i = Some v -> keys_ok v.
Proof.
  cbn. revert i. induction xs as [|x r IH]; intros [|i]; cbn; try discriminate.
  - intros [Hx _] H. now inversion H; subst.
  - intros [_ Hr]. now apply IH.
Qed.

(* the index of element i of a list of length len, written forwards or backwards *)
Inductive idx_spell (len i : nat) : pstr -> Prop :=
| spell_fwd : idx_spell len i (dec_of_Z (Z.of_nat i))
| spell_back : idx_spell len i (dec_of_Z (Z.of_nat i - Z.of_nat len)).

(* token lists that spell a path: one token per step, the "]/[" form *)
Inductive spells : tree -> path -> list pstr -> Prop :=
| sp_nil t : spells t [] []
| sp_key c kvs k child p toks :
    lookup k kvs = Some child -> spells child p toks -> spells (Dict c kvs) (PKey k :: p) (k :: toks)
| sp_idx c xs i child si p toks :
    nth_error xs i = Some child -> idx_spell (length xs) i si -> spells child p toks ->
    spells (Lst c xs) (PIdx i :: p) (br si :: toks)
| sp_keyidx c kvs k c' xs i child si p toks :
    lookup k kvs = Some (Lst c' xs) -> nth_error xs i = Some child -> idx_spell (length xs) i si ->
    spells child p toks -> spells (Dict c kvs) (PKey k :: PIdx i :: p) ((k ++ br si) :: toks).

Lemma dec_neq_hd z (kw : pstr) :
  (match kw with c :: _ => ~ dec_chr c | [] => True end) -> pstr_eqb (dec_of_Z z) kw = false.
Proof.
  intros Hkw. destruct (dec_of_Z_chars z) as [HF Hne].
  destruct (dec_of_Z z) as [|c l]; [congruence|]. destruct kw as [|k kw]; [reflexivity|].
  cbn [pstr_eqb]. inversion HF as [|? ? Hc Hl]; subst.
  assert (E : N.eqb c k = false) by (apply N.eqb_neq; intros ->; contradiction).
  now rewrite E.
Qed.

Lemma plain_idx_dec z : plain_idx (dec_of_Z z).
Proof.
  destruct (dec_of_Z_chars z) as [_ Hne]. split; [exact Hne|].
  split; apply dec_neq_hd; cbn; unfold dec_chr, digit; intros [[H1 H2]|H]; lia.
Qed.

Lemma idx_spell_norm len i si :
  i < len -> idx_spell len i si ->
  exists z, si = dec_of_Z z /\ norm_idx len z = Some i.
Proof.
  intros Hi [|].
  - exists (Z.of_nat i). split; [reflexivity|]. unfold norm_idx.
    assert (E : (0 <=? Z.of_nat i)%Z && (Z.of_nat i <? Z.of_nat len)%Z = true)
      by (apply andb_true_iff; split; [apply Z.leb_le|apply Z.ltb_lt]; lia).
    rewrite E. f_equal. lia.
  - exists (Z.of_nat i - Z.of_nat len)%Z. split; [reflexivity|]. unfold norm_idx.
    assert (E1 : (0 <=? Z.of_nat i - Z.of_nat len)%Z = false) by (apply Z.leb_gt; lia).
    assert (E2 : (Z.of_nat i - Z.of_nat len <? 0)%Z && (- Z.of_nat len <=? Z.of_nat i - Z.of_nat len)%Z = true)
      by (apply andb_true_iff; split; [apply Z.ltb_lt|apply Z.leb_le]; lia).
    rewrite E1, E2. cbn [andb]. f_equal. lia.
Qed.

Theorem spells_walk : forall t p toks, spells t p toks -> keys_ok t -> exists v, walk t toks p v.
Proof.
  induction 1 as [t|c kvs k child p toks Hl Hs IH|c xs i child si p toks Hn Hi Hs IH
                  |c kvs k c' xs i child si p toks Hl Hn Hi Hs IH]; intros Hok.
  - exists t. constructor.
  - destruct (keys_ok_lookup _ _ _ _ Hok Hl) as [[Hlb [Hst Hpk]] Hchild].
    destruct (IH Hchild) as [v Hw]. exists v.
    eapply walk_key; eauto. now apply sni_plain.
  - pose proof (keys_ok_nth _ _ _ _ Hok Hn) as Hchild.
    destruct (IH Hchild) as [v Hw]. exists v.
    destruct (idx_spell_norm _ _ _ (nth_error_Some_lt _ _ _ Hn) Hi) as [z [-> Hz]].
    eapply walk_idx; eauto using plain_idx_dec, n0eval_dec. apply sni_br, clean_idx_dec.
  - destruct (keys_ok_lookup _ _ _ _ Hok Hl) as [[Hlb [Hst Hpk]] Hlist].
    pose proof (keys_ok_nth _ _ _ _ Hlist Hn) as Hchild.
    destruct (IH Hchild) as [v Hw]. exists v.
    destruct (idx_spell_norm _ _ _ (nth_error_Some_lt _ _ _ Hn) Hi) as [z [-> Hz]].
    eapply walk_keyidx; eauto using plain_idx_dec, n0eval_dec.
    + apply sni_name_idx; auto using clean_idx_dec.
    + apply sni_br, clean_idx_dec.
Qed.

(* ---- assignment to an existing node ------------------------------------------------------ *)
Lemma write_slot_found root sub pos p u F v :
  resolve root pos = Some sub -> found_at sub pos p u F ->
  write_slot root (f_par F) (f_slot F) v = Ok (replace_at root (pos ++ p) v).
Proof.
  intros Hpos [q [last [slot [Hp [Hpar [Hres [Hsl [Hsn [Hv Hrest]]]]]]]]].
  unfold write_slot. rewrite Hsl, Hpar. cbn [pget pset].
  assert (Hq : resolve root (pos ++ q) = Some (f_parv F)) by (now rewrite resolve_app, Hpos).
  rewrite Hq. subst p. rewrite app_assoc.
  destruct last as [k|i]; cbn [slot_names] in Hsn.
  - destruct Hsn as [c [kvs [w [Epv [-> [Hs Hl]]]]]]. rewrite Epv in *. rewrite Hs. cbn [bind idx_truthy].
    now rewrite (replace_at_last_key root (pos ++ q) c kvs k w v Hq Hl).
  - destruct Hsn as [c [items [z [w [Epv [-> [Hn Hnth]]]]]]]. rewrite Epv in *.
    rewrite (sni_br _ (clean_idx_dec z)). cbn [bind nonempty]. rewrite n0eval_dec, Hn.
    now rewrite (replace_at_last_idx root (pos ++ q) c items i w v Hq Hnth).
Qed.

Theorem setitem_core_walk fuel root x v p u :
  has_path_char x = true -> tokenize x <> [] -> walk root (tokenize x) p u ->
  2 * length (tokenize x) <= fuel ->
  setitem_core fuel root x v = Ok (replace_at root p v).
Proof.
  intros Hc Hne Hw Hf. unfold setitem_core. rewrite Hc.
  destruct (find_walk true root (tokenize x) p u Hw Hne fuel root [] s_root Hf) as [F [HF Hat]].
  rewrite HF. cbn [bind].
  assert (Hr : rest_falsy (f_rest F) = true).
  { destruct Hat as [q [last [slot [_ [_ [_ [_ [_ [_ Hr]]]]]]]]]. now rewrite Hr. }
  rewrite Hr. now rewrite (write_slot_found root root [] p u F v eq_refl Hat).
Qed.

(* item access / get / first on a spelled path, through the public entry points *)
Lemma fuel_for_enough root x : 2 * length (tokenize x) <= fuel_for root x.
Proof. unfold fuel_for. lia. Qed.
Lemma wfuel_enough x : 2 * length (tokenize x) <= wfuel x.
Proof. unfold wfuel. lia. Qed.

Definition no_qmark (x : pstr) : Prop := match x with 63%N :: _ => False | _ => True end.

Lemma dict_get_no_qmark fuel root x re rl :
  no_qmark x -> dict_get fuel root x re rl = dict_get_core fuel root x re rl LDefault.
Proof.
  unfold dict_get, no_qmark. destruct x as [|c x']; [reflexivity|].
  destruct c as [|q]; [reflexivity|]. repeat (destruct q as [q|q|]; try reflexivity). intros [].
Qed.

Theorem lookup_walk root x p v :
  has_path_char x = true -> no_qmark x -> tokenize x <> [] -> walk root (tokenize x) p v ->
  resolve root p = Some v /\
  dict_getitem (fuel_for root x) root x = Ok (root, LVal v) /\
  dict_get_pub (fuel_for root x) root x = Ok (root, LVal v) /\
  dict_first (fuel_for root x) root x = Ok (root, unwrap_single (LVal v)).
Proof.
  intros Hc Hq Hne Hw.
  pose proof (fuel_for_enough root x) as Hf.
  destruct (dict_get_core_walk _ root x true true LDefault p v Hc Hne Hw Hf) as [H1 Hr].
  destruct (dict_get_core_walk _ root x false true LDefault p v Hc Hne Hw Hf) as [H2 _].
  destruct (dict_get_core_walk _ root x false false LDefault p v Hc Hne Hw Hf) as [H3 _].
  unfold dict_getitem, dict_get_pub, dict_first. rewrite !dict_get_no_qmark by assumption.
  rewrite H1, H2, H3. auto.
Qed.

(* ---- histories of assignments to existing nodes ------------------------------------------- *)
Inductive hist_ok : tree -> list (pstr * tree) -> list (path * tree) -> Prop :=
| hist_nil t : hist_ok t [] []
| hist_cons t x v p u ops sops :
    has_path_char x = true -> no_qmark x -> tokenize x <> [] -> walk t (tokenize x) p u ->
    hist_ok (replace_at t p v) ops sops -> hist_ok t ((x, v) :: ops) ((p, v) :: sops).

Lemma setitem_no_qmark fuel root x v : no_qmark x -> setitem fuel root x v = setitem_core fuel root x v.
Proof.
  unfold setitem, no_qmark. destruct x as [|c x']; [reflexivity|].
  destruct c as [|q]; [reflexivity|]. repeat (destruct q as [q|q|]; try reflexivity). intros [].
Qed.

Theorem set_sequence t ops sops :
  hist_ok t ops sops ->
  run_ops t (map (fun xv => WSet (fst xv) (snd xv)) ops) =
  Ok (fold_left (fun t pv => replace_at t (fst pv) (snd pv)) sops t).
Proof.
  induction 1 as [t|t x v p u ops sops Hc Hq Hne Hw Hh IH]; cbn [map run_ops fold_left fst snd]; [reflexivity|].
  rewrite setitem_no_qmark by assumption.
  rewrite (setitem_core_walk _ t x v p u Hc Hne Hw (wfuel_enough x)). cbn [bind]. exact IH.
Qed.

(* ---- Python indexing ------------------------------------------------------------------------ *)
Theorem norm_idx_spec len z i :
  norm_idx len z = Some i <->
  ((0 <= z < Z.of_nat len)%Z /\ Z.of_nat i = z) \/ ((- Z.of_nat len <= z < 0)%Z /\ Z.of_nat i = (z + Z.of_nat len)%Z).
Proof.
  unfold norm_idx.
  destruct (Z.leb_spec 0 z); destruct (Z.ltb_spec z (Z.of_nat len)); cbn [andb].
  - split; [intros H'; inversion H'; subst; left; lia|intros [[_ E]|[? _]]; [f_equal; lia|lia]].
  - destruct (Z.ltb_spec z 0); [lia|]. cbn [andb]. split; [discriminate|intros [[? _]|[? _]]; lia].
  - destruct (Z.ltb_spec z 0); [|lia]. destruct (Z.leb_spec (- Z.of_nat len) z); cbn [andb].
    + split; [intros H'; inversion H'; subst; right; lia|intros [[? _]|[_ E]]; [lia|f_equal; lia]].
    + split; [discriminate|intros [[? _]|[? _]]; lia].
  - destruct (Z.ltb_spec z 0); [|lia]. destruct (Z.leb_spec (- Z.of_nat len) z); cbn [andb].
    + split; [intros H'; inversion H'; subst; right; lia|intros [[? _]|[_ E]]; [lia|f_equal; lia]].
    + split; [discriminate|intros [[? _]|[? _]]; lia].
Qed.

Theorem norm_idx_none len z :
  norm_idx len z = None <-> (Z.of_nat len <= z \/ z < - Z.of_nat len)%Z.
Proof.
  unfold norm_idx.
  destruct (Z.leb_spec 0 z); destruct (Z.ltb_spec z (Z.of_nat len)); cbn [andb];
    destruct (Z.ltb_spec z 0); destruct (Z.leb_spec (- Z.of_nat len) z); cbn [andb];
    split; try discriminate; try lia; try reflexivity.
Qed.

(* ---- misses ------------------------------------------------------------------------------------ *)
Theorem lookup_index_out_of_range fuel root x re rl dflt toks p c items y rest si z :
  has_path_char x = true -> tokenize x = toks ++ y :: rest ->
  walk root toks p (Lst c items) ->
  split_name_index y = Ok ([], IdxStr si) -> plain_idx si -> n0eval si = EvInt z ->
  norm_idx (length items) z = None ->
  2 * length toks + 1 <= fuel ->
  dict_get_core fuel root x re rl dflt = Ok (root, if re then LRaise ExIndex else dflt).
Proof.
  intros Hc Ht Hw Hs Hi He Hn Hf. unfold dict_get_core. rewrite Hc, Ht.
  destruct (find_walk_prefix rl root toks p (Lst c items) Hw (y :: rest) ltac:(congruence) fuel root [] s_root ltac:(lia))
    as [fstr' [fuel' [H1 [H2 H3]]]].
  rewrite H3. destruct fuel' as [|f']; [lia|].
  rewrite (find_idx_oob rl f' root y rest (PAt ([] ++ p)) c items fstr' si z Hs Hi He Hn). reflexivity.
Qed.

Theorem lookup_unknown_key fuel root x re rl dflt toks p c kvs y rest k ix :
  has_path_char x = true -> tokenize x = toks ++ y :: rest ->
  walk root toks p (Dict c kvs) ->
  split_name_index y = Ok (k, ix) -> plain_key k -> lookup k kvs = None ->
  2 * length toks + 1 <= fuel ->
  dict_get_core fuel root x re rl dflt = Ok (root, if re then LRaise ExIndex else dflt).
Proof.
  intros Hc Ht Hw Hs Hk Hl Hf. unfold dict_get_core. rewrite Hc, Ht.
  destruct (find_walk_prefix rl root toks p (Dict c kvs) Hw (y :: rest) ltac:(congruence) fuel root [] s_root ltac:(lia))
    as [fstr' [fuel' [H1 [H2 H3]]]].
  rewrite H3. destruct fuel' as [|f']; [lia|].
  rewrite (find_key_missing rl f' root y rest (PAt ([] ++ p)) c kvs fstr' k ix Hs Hk Hl). reflexivity.
Qed.

(* ---- statements as used by Props/C01.v --------------------------------------------------------- *)
Theorem spelled_path_resolves :
  forall root x p, keys_ok root -> has_path_char x = true -> no_qmark x -> tokenize x <> [] ->
  spells root p (tokenize x) ->
  exists v, resolve root p = Some v /\
    dict_getitem (fuel_for root x) root x = Ok (root, LVal v) /\
    dict_get_pub (fuel_for root x) root x = Ok (root, LVal v) /\
    dict_first (fuel_for root x) root x = Ok (root, unwrap_single (LVal v)).
Proof.
  intros root x p Hok Hc Hq Hne Hs. destruct (spells_walk root p (tokenize x) Hs Hok) as [v Hw].
  exists v. now apply lookup_walk.
Qed.

Theorem index_token_roundtrip :
  forall z, split_name_index (br (dec_of_Z z)) = Ok ([], IdxStr (dec_of_Z z)) /\ n0eval (dec_of_Z z) = EvInt z.
Proof. intros z. split; [apply sni_br, clean_idx_dec|apply n0eval_dec]. Qed.

Theorem out_of_range_is_miss :
  forall fuel root x re rl dflt toks p c items y rest si z,
  has_path_char x = true -> tokenize x = toks ++ y :: rest ->
  walk root toks p (Lst c items) ->
  split_name_index y = Ok ([], IdxStr si) -> plain_idx si -> n0eval si = EvInt z ->
  (Z.of_nat (length items) <= z \/ z < - Z.of_nat (length items))%Z ->
  2 * length toks + 1 <= fuel ->
  dict_get_core fuel root x re rl dflt = Ok (root, if re then LRaise ExIndex else dflt).
Proof.
  intros. eapply lookup_index_out_of_range; eauto. now apply norm_idx_none.
Qed.

(* a concrete instance: {"a": {"b": [[1, 7], 2]}} and the path a/b[0][-1] *)
Definition ex_root : tree :=
  Dict true [([97]%N, Dict true [([98]%N, Lst true [Lst true [Leaf (SInt 1); Leaf (SInt 7)]; Leaf (SInt 2)])])].
Definition ex_x : pstr := [97; 47; 98; 91; 48; 93; 91; 45; 49; 93]%N.   (* a/b[0][-1] *)
Definition ex_p : path := [PKey [97]%N; PKey [98]%N; PIdx 0; PIdx 1].

Lemma ex_tokens : tokenize ex_x = [[97]%N; [98]%N ++ br (dec_of_Z 0); br (dec_of_Z (Z.of_nat 1 - Z.of_nat 2))].
Proof. vm_compute. reflexivity. Qed.

Theorem c01_example :
  exists root x p, keys_ok root /\ has_path_char x = true /\ no_qmark x /\ tokenize x <> [] /\
                   spells root p (tokenize x) /\ resolve root p = Some (Leaf (SInt 7)).
Proof.
  exists ex_root, ex_x, ex_p. split; [|split; [reflexivity|split; [exact I|split]]].
  - cbn. unfold key_ok, plain_key. repeat split; try reflexivity; try discriminate.
  - rewrite ex_tokens. discriminate.
  - split; [|reflexivity]. rewrite ex_tokens. unfold ex_root, ex_p.
    eapply sp_key; [reflexivity|].
    eapply sp_keyidx with (si := dec_of_Z (Z.of_nat 0)); [reflexivity|reflexivity|apply spell_fwd|].
    eapply sp_idx; [reflexivity|apply spell_back|]. constructor.
Qed.

Theorem set_existing :
  forall root x v p, keys_ok root -> has_path_char x = true -> no_qmark x -> tokenize x <> [] ->
  spells root p (tokenize x) ->
  setitem (wfuel x) root x v = Ok (replace_at root p v).
Proof.
  intros root x v p Hok Hc Hq Hne Hs. destruct (spells_walk root p (tokenize x) Hs Hok) as [u Hw].
  rewrite setitem_no_qmark by assumption.
  exact (setitem_core_walk _ root x v p u Hc Hne Hw (wfuel_enough x)).
Qed.
