(* Xpath/TildeListProofs.v — a '~' condition on a list-valued field asks for an ELEMENT equal to the literal
   (Python's `literal in list`), not for the literal's characters: on a list of texts the condition holds iff the
   literal is one of them.  Together with pred_lookup_op (PredOpsProofs) this fixes which records `r[tags~v]/f`
   selects when `tags` holds a list. *)
From Coq Require Import List NArith ZArith Bool.
From N0 Require Import Base.PyStr Base.PyVal Xpath.Dec Xpath.Token Xpath.Find Xpath.PredOpsProofs.
Import ListNotations.

Definition text_items (ss : list pstr) : list tree := map (fun s => Leaf (SStr s)) ss.

Lemma tilde_literal_on_list c xs v : pred_literal (Lst c xs) (PvStr v) = Some (LitStr v).
Proof. reflexivity. Qed.

Theorem tilde_on_text_list c ss v :
  pred_test OpHas (Lst c (text_items ss)) (LitStr v) = Ok true <-> In v ss.
Proof.
  cbn [pred_test lit_in]. unfold text_items. split.
  - intros H. injection H as H. apply existsb_exists in H as [x [Hin Hx]].
    apply in_map_iff in Hin as [s [<- Hs]]. cbn [lit_eq] in Hx. apply pstr_eqb_eq in Hx. now subst.
  - intros H. f_equal. apply existsb_exists. exists (Leaf (SStr v)). split.
    + apply in_map_iff. now exists v.
    + cbn [lit_eq]. apply pstr_eqb_refl.
Qed.

(* ... and it never raises there: the answer is a plain yes / no *)
Theorem tilde_on_list_total c xs l : exists b, pred_test OpHas (Lst c xs) l = Ok b.
Proof. cbn [pred_test lit_in]. eauto. Qed.

(* tags == ['x', 'y']: "xy" is no element although both its letters are; "x" is *)
Example tilde_list_example :
  pred_test OpHas (Lst true (text_items [[120]; [121]]%N)) (LitStr [120; 121]%N) = Ok false /\
  pred_test OpHas (Lst true (text_items [[120]; [121]]%N)) (LitStr [120]%N) = Ok true.
Proof. split; reflexivity. Qed.
