(* Xpath/TextSpellProofs.v — the explicit spelling  P/k[text()=v]/../f : the same selection as P[k=v]/f. *)
From Coq Require Import List NArith ZArith Bool Lia.
From N0 Require Import Base.PyStr Base.PyVal Xpath.Dec Xpath.DecProofs Xpath.Token Xpath.TokenProofs
  Xpath.Find Xpath.FindProofs Xpath.Write Xpath.SpecProofs Xpath.WalkProofs Xpath.TokenizeProofs Xpath.EnumProofs
  Xpath.FstrProofs Xpath.DeleteProofs Xpath.FanoutProofs Xpath.PredProofs.
Import ListNotations.

Arguments N.eqb : simpl never.

(* a name step applied to a list: the resolver inserts [*] *)
Lemma find_name_on_list rl f root y rest par c items fstr name ix :
  split_name_index y = Ok (name, ix) -> plain_key name ->
  find true rl (S f) root (y :: rest) par (Lst c items) fstr =
  find true rl f root (br s_star :: y :: rest) par (Lst c items) fstr.
Proof.
  intros Hs [Hne [Hdd Hst]]. cbn [find]. rewrite Hs. cbn [bind].
  destruct name as [|n0 n1]; [congruence|]. cbn [nonempty negb andb].
  rewrite Hdd. reflexivity.
Qed.

Section text.
Variable rl : bool.
Variable root : tree.
Hypothesis Hgood : keys_good root.
Variables yk fk k f v : pstr.
Hypothesis Hyk : split_name_index yk = Ok (k, IdxPred s_text op_eq (PvStr v)).
Hypothesis Hpkk : plain_key k.
Hypothesis Hq : quoted_pred_ok s_text v.
Hypothesis Hfk : split_name_index fk = Ok (f, IdxNone).
Hypothesis Hpk : plain_key f.

Lemma one_text_record toks p c items segs i c' kvs sel fuel :
  walks root toks p (Lst c items) segs ->
  nth_error items i = Some (Dict c' kvs) ->
  rec_select k f v (Dict c' kvs) = Some sel ->
  2 * (length segs + 1) + 6 <= fuel ->
  exists F,
    find true rl fuel root (br (dec_of_nat i) :: yk :: s_dotdot :: [fk]) (PAt p) (Lst c items) (s_root ++ render_segs segs)
    = Ok (root, false, F) /\
    match sel with
    | [] => rest_falsy (f_rest F) = false
    | vf :: _ => f_val F = Some vf /\ f_rest F = None /\ sel = [vf]
    end.
Proof.
  intros Hw Hn Hsel Hf.
  destruct fuel as [|[|[|[|[|[|f0]]]]]]; try lia.
  rewrite dec_of_nat_Z.
  rewrite (find_idx_step rl _ root (br (dec_of_Z (Z.of_nat i))) [yk; s_dotdot; fk] (PAt p) c items _ (dec_of_Z (Z.of_nat i))
             (Z.of_nat i) i (Dict c' kvs));
    [|apply sni_br, clean_idx_dec|apply plain_idx_dec|apply n0eval_dec
     |apply norm_idx_nat; eapply nth_error_Some_lt; eauto|exact Hn].
  cbn [child_idx].
  unfold rec_select in Hsel.
  destruct (lookup k kvs) as [kv|] eqn:Ek.
  - rewrite (find_keypred_step rl _ root yk [s_dotdot; fk] _ c' kvs _ k s_text op_eq (PvStr v) kv Hyk Hpkk Ek).
    destruct (pred_literal kv (PvStr v)) as [lit|] eqn:El; [|discriminate].
    cbn [pval_str child_key].
    rewrite (find_text_eq rl _ root _ [s_dotdot; fk] _ kv _ (PvStr v) lit (sni_pred_quoted s_text v Hq) El).
    destruct (lit_eq kv lit) eqn:Ecmp.
    + rewrite find_dotdot by discriminate.
      set (segs1 := segs ++ [SI (Z.of_nat i)]).
      assert (Hw1 : walks root (toks ++ [br (dec_of_Z (Z.of_nat i))]) (p ++ [PIdx i]) (Dict c' kvs) segs1)
        by (eapply walks_snoc_idx; eauto).
      destruct (seg_path_spells (length segs1) segs1 root _ _ (le_n _) Hgood (walks_seg_path _ _ _ _ _ Hw1)) as [_ Hok1].
      destruct (keys_good_lookup c' kvs k kv) as [[Hsk _] _]; [|exact Ek|].
      { exact (seg_path_keys_good _ _ _ _ (walks_seg_path _ _ _ _ _ Hw1) Hgood). }
      assert (Hfstr : sl ((s_root ++ render_segs segs) ++ br (dec_of_Z (Z.of_nat i))) k
                      = s_root ++ render_segs (segs1 ++ [SK k])).
      { unfold segs1, sl, render_segs. rewrite !map_app, !concat_app. cbn [map concat render_seg].
        rewrite !app_nil_r, <- !app_assoc. reflexivity. }
      rewrite Hfstr.
      rewrite raw_tokens_rendered by (apply segs_ok_app; [exact Hok1|constructor; [exact Hsk|constructor]]).
      rewrite (seg_tokens_snoc_key (length segs1) segs1 k (le_n _)), removelast_last.
      assert (Hne1 : segs1 <> []) by (unfold segs1; destruct segs; discriminate).
      assert (Hlen1 : 2 * length (seg_tokens segs1) <= S (S f0)).
      { pose proof (seg_tokens_length (length segs1) segs1 (le_n _)) as Hl. unfold segs1 in *. rewrite app_length in *. cbn in *. lia. }
      destruct (seg_path_spells (length segs1) segs1 root _ _ (le_n _) Hgood (walks_seg_path _ _ _ _ _ Hw1)) as [Hsp1 _].
      destruct (spells_walk root _ _ Hsp1 (keys_good_ok root Hgood)) as [v' Hw'].
      assert (v' = Dict c' kvs).
      { pose proof (walk_resolve _ _ _ _ Hw') as R1. pose proof (walk_resolve _ _ _ _ (walks_walk _ _ _ _ _ Hw1)) as R2. congruence. }
      subst v'.
      destruct (find_walk rl root (seg_tokens segs1) _ _ Hw' (seg_tokens_nonempty segs1 Hne1) (S (S f0)) root [] s_root Hlen1)
        as [F1 [HF1 Hat]].
      rewrite HF1. cbn [bind].
      destruct Hat as [q [last [slot [Hp [Hpar [Hres [Hsl [Hsn [Hval Hrest]]]]]]]]].
      assert (Hlast : q = p /\ last = PIdx i).
      { apply app_inj_tail in Hp. destruct Hp as [-> ->]. auto. }
      destruct Hlast as [-> ->]. cbn [slot_names] in Hsn.
      destruct Hsn as [c1 [items1 [z1 [u1 [Epv [-> [Hn1 Hnth1]]]]]]].
      rewrite Hsl. cbn [app] in Hres.
      rewrite (sni_br _ (clean_idx_dec z1)). cbn [bind]. rewrite n0eval_dec, Epv, Hn1, Hnth1. cbn [bind].
      pose proof (walk_resolve _ _ _ _ (walks_walk _ _ _ _ _ Hw)) as Rp. rewrite Rp, Epv in Hres.
      inversion Hres; subst c1 items1.
      rewrite Hn in Hnth1. inversion Hnth1; subst u1. rewrite Hpar. cbn [child_idx app].
      unfold br at 1. cbn [bind].
      destruct (lookup f kvs) as [vf|] eqn:Ef.
      * rewrite (find_key_step rl _ root fk [] _ c' kvs _ f vf Hfk Hpk Ef). cbn [bind orb].
        eexists. split; [reflexivity|]. cbn [field_of] in Hsel. rewrite Ef in Hsel. inversion Hsel; subst sel.
        cbn [f_val f_rest]. auto.
      * rewrite (find_key_missing rl _ root fk [] _ c' kvs _ f IdxNone Hfk Hpk Ef). cbn [bind orb].
        eexists. split; [reflexivity|]. cbn [field_of] in Hsel. rewrite Ef in Hsel. inversion Hsel; subst sel.
        reflexivity.
    + inversion Hsel; subst sel. eexists. split; [reflexivity|]. reflexivity.
  - rewrite (find_key_missing rl _ root yk [s_dotdot; fk] _ c' kvs _ k _ Hyk Hpkk Ek).
    inversion Hsel; subst sel. eexists. split; [reflexivity|]. reflexivity.
Qed.
End text.

Lemma text_at_list rl root toks p c r0 items segs yk fk k f v f' :
  keys_good root ->
  walks root toks p (Lst c (r0 :: items)) segs ->
  split_name_index yk = Ok (k, IdxPred s_text op_eq (PvStr v)) -> plain_key k -> quoted_pred_ok s_text v ->
  split_name_index fk = Ok (f, IdxNone) -> plain_key f ->
  all_selectable k f v (r0 :: items) ->
  2 * (length segs + 1) + 6 <= f' ->
  exists F,
    find true rl (S (S f')) root [yk; s_dotdot; fk] (PAt p) (Lst c (r0 :: items)) (s_root ++ render_segs segs) = Ok (root, false, F) /\
    match flat_map (sel_list (rec_select k f v)) (r0 :: items) with
    | [] => rest_falsy (f_rest F) = false
    | sel => f_val F = Some (agg rl sel) /\ f_rest F = None
    end.
Proof.
  intros Hg Hw Hyk Hpkk Hq Hfk Hpk Hall Hf.
  rewrite (find_name_on_list rl _ root yk [s_dotdot; fk] (PAt p) c (r0 :: items) _ k _ Hyk Hpkk).
  rewrite (find_star_step rl f' root (br s_star) [yk; s_dotdot; fk] (PAt p) c (r0 :: items) _ sni_star).
  unfold star_cands.
  match goal with
  | |- context [star_loop ?o (map ?cd (seq 0 (length (r0 :: items)))) [] None] =>
    destruct (star_loop_sel root o (rec_select k f v) cd (r0 :: items) 0 [] None) as [fst' [HL HN]]
  end.
  { intros j r Hj. unfold all_selectable in Hall. rewrite Forall_forall in Hall.
    destruct (Hall r (nth_error_In _ _ Hj)) as [c' [kvs [s [-> Hs]]]].
    destruct (one_text_record rl root Hg yk fk k f v Hyk Hpkk Hq Hfk Hpk toks p c (r0 :: items) segs j c' kvs s f' Hw Hj Hs ltac:(lia))
      as [F [HF Hshape]].
    exists s, F. cbn [plus]. auto. }
  rewrite HL. cbn [bind rev app].
  destruct (flat_map (sel_list (rec_select k f v)) (r0 :: items)) as [|v0 vs] eqn:Es.
  - assert (fst' = None) by (apply HN; auto). subst fst'. eexists. split; reflexivity.
  - destruct fst' as [F1|].
    + eexists. split; [reflexivity|]. cbn [f_val f_rest]. auto.
    + exfalso. assert (E : @None found = None) by reflexivity. apply HN in E. destruct E as [_ E]. discriminate.
Qed.

(* P/k[text()=v]/../f through the public lookup: exactly the selection of P[k=v]/f *)
Theorem text_spelling_lookup fuel root x re rl dflt toks p c r0 items segs yk fk k f v :
  keys_good root ->
  has_path_char x = true -> tokenize x = toks ++ [yk; s_dotdot; fk] ->
  walks root toks p (Lst c (r0 :: items)) segs ->
  split_name_index yk = Ok (k, IdxPred s_text op_eq (PvStr v)) -> plain_key k -> quoted_pred_ok s_text v ->
  split_name_index fk = Ok (f, IdxNone) -> plain_key f ->
  all_selectable k f v (r0 :: items) ->
  2 * length toks + 2 * (length segs + 1) + 10 <= fuel ->
  dict_get_core fuel root x re rl dflt =
  Ok (root, fanout_result re rl dflt (flat_map (sel_list (rec_select k f v)) (r0 :: items))).
Proof.
  intros Hg Hc Ht Hw Hyk Hpkk Hq Hfk Hpk Hall Hf. unfold dict_get_core. rewrite Hc, Ht.
  destruct (find_walks_prefix rl root toks p _ segs Hw [yk; s_dotdot; fk] ltac:(congruence) fuel root [] s_root ltac:(lia))
    as [fuel' [H1 [H2 H3]]].
  rewrite H3. cbn [app].
  destruct fuel' as [|[|f']]; try lia.
  destruct (text_at_list rl root toks p c r0 items segs yk fk k f v f' Hg Hw Hyk Hpkk Hq Hfk Hpk Hall ltac:(lia)) as [F [HF Hsh]].
  rewrite HF. unfold fanout_result.
  destruct (flat_map (sel_list (rec_select k f v)) (r0 :: items)) as [|v0 vs].
  - now rewrite Hsh.
  - destruct Hsh as [Hval Hr]. now rewrite Hr, Hval.
Qed.

(* non-vacuity:  r/k[text()=a]/../f  on the records of [pr_recs] *)
Definition pr_x_text : pstr :=
  [114; 47; 107; 91; 116; 101; 120; 116; 40; 41; 61; 97; 93; 47; 46; 46; 47; 102]%N.   (* r/k[text()=a]/../f *)
Theorem text_spelling_example :
  quoted_pred_ok s_text [97]%N /\
  split_name_index [107; 91; 116; 101; 120; 116; 40; 41; 61; 97; 93]%N = Ok ([107]%N, IdxPred s_text op_eq (PvStr [97]%N)) /\
  dict_get_core (fuel_for pr_root pr_x_text) pr_root pr_x_text true true LDefault
  = Ok (pr_root, LVal (Lst true [Leaf (SInt 1); Leaf (SInt 3)])).
Proof.
  split; [|split].
  - repeat split; try discriminate; reflexivity.
  - vm_compute. reflexivity.
  - vm_compute. reflexivity.
Qed.

(* ---- a predicate after a predicate (example) --------------------------------------------------------- *)
Definition ch_str1 (c : N) : tree := Leaf (SStr [c]).
Definition ch_orders : tree :=
  Dict true [([111;114;100;101;114;115]%N, Lst true
    [Dict true [([105;100]%N, ch_str1 49); ([105;116;101;109;115]%N, Lst true [Dict true [([107;49]%N, ch_str1 65); ([102]%N, ch_str1 49)]])];
     Dict true [([105;100]%N, ch_str1 50); ([105;116;101;109;115]%N, Lst true [Dict true [([107;49]%N, ch_str1 66); ([102]%N, ch_str1 51)]])]])].
(* orders[id=2]/items[k1=B]/f *)
Definition ch_xp : pstr :=
  [111;114;100;101;114;115]%N ++ [91;105;100;61;50;93;47]%N ++ [105;116;101;109;115]%N ++ [91;107;49;61;66;93;47;102]%N.
Theorem chained_example :
  dict_get_pub (fuel_for ch_orders ch_xp) ch_orders ch_xp = Ok (ch_orders, LVal (Lst true [Lst true [Leaf (SStr [51%N])]])).
Proof. vm_compute. reflexivity. Qed.
