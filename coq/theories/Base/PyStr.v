(* Base/PyStr.v — Python str / bytes as lists of code points, and the str methods
   the anchored code uses.  Model only (no property theorems here); lemmas that
   characterise the functions live next to them so later proofs use the interface. *)
From Coq Require Import List NArith ZArith Bool Lia.
Import ListNotations.

Definition pstr := list N.

Fixpoint pstr_eqb (a b : pstr) : bool :=
  match a, b with
  | [], [] => true
  | x :: a', y :: b' => N.eqb x y && pstr_eqb a' b'
  | _, _ => false
  end.

Lemma pstr_eqb_refl a : pstr_eqb a a = true.
Proof. induction a as [|x a IH]; simpl; [reflexivity|]. now rewrite N.eqb_refl, IH. Qed.

Lemma pstr_eqb_eq a b : pstr_eqb a b = true <-> a = b.
Proof.
  revert b; induction a as [|x a IH]; intros [|y b]; simpl; split; intros H; try congruence; try reflexivity.
  - apply andb_true_iff in H as [H1 H2]. apply N.eqb_eq in H1. apply IH in H2. congruence.
  - inversion H; subst. now rewrite N.eqb_refl, pstr_eqb_refl.
Qed.

Lemma pstr_eqb_neq a b : pstr_eqb a b = false <-> a <> b.
Proof.
  split; intros H.
  - intros E. apply pstr_eqb_eq in E. congruence.
  - destruct (pstr_eqb a b) eqn:E; [|reflexivity]. apply pstr_eqb_eq in E. contradiction.
Qed.

Definition mem_str (k : pstr) (l : list pstr) : bool := existsb (pstr_eqb k) l.
Definition mem_chr (c : N) (s : pstr) : bool := existsb (N.eqb c) s.

Lemma mem_chr_In c s : mem_chr c s = true <-> In c s.
Proof.
  unfold mem_chr. rewrite existsb_exists. split.
  - intros [x [Hx E]]. apply N.eqb_eq in E. now subst.
  - intros H. exists c. split; [assumption|apply N.eqb_refl].
Qed.

Lemma mem_chr_false c s : mem_chr c s = false <-> ~ In c s.
Proof.
  rewrite <- mem_chr_In. destruct (mem_chr c s); split; intros; congruence.
Qed.

(* ---- prefix / suffix ------------------------------------------------------ *)
Fixpoint startswith (s p : pstr) {struct p} : bool :=
  match p, s with
  | [], _ => true
  | c :: p', d :: s' => N.eqb c d && startswith s' p'
  | _ :: _, [] => false
  end.

Definition endswith (s p : pstr) : bool := startswith (rev s) (rev p).

Lemma startswith_app p s : startswith (p ++ s) p = true.
Proof. induction p as [|c p IH]; simpl; [reflexivity|]. now rewrite N.eqb_refl, IH. Qed.

Lemma startswith_spec s p : startswith s p = true <-> exists r, s = p ++ r.
Proof.
  revert s; induction p as [|c p IH]; intros s; simpl.
  - split; [intros _; now exists s|reflexivity].
  - destruct s as [|d s]; [split; [discriminate|intros [r H]; discriminate]|].
    rewrite andb_true_iff, N.eqb_eq, IH. split.
    + intros [-> [r ->]]. now exists r.
    + intros [r H]. inversion H; subst. split; [reflexivity|now exists r].
Qed.

(* ---- split on a one-character delimiter (str.split(d), len(d)=1) ---------- *)
(* acc holds the current piece reversed. *)
Fixpoint split_chr_aux (d : N) (s : pstr) (cur : pstr) : list pstr :=
  match s with
  | [] => [rev cur]
  | c :: s' => if N.eqb c d then rev cur :: split_chr_aux d s' [] else split_chr_aux d s' (c :: cur)
  end.
Definition split_chr (d : N) (s : pstr) : list pstr := split_chr_aux d s [].

(* str.split(d, maxsplit) for one-character d; maxsplit < 0 means unlimited
   (Python's -1); Some n = at most n splits. *)
Fixpoint split_chr_max_aux (d : N) (s : pstr) (cur : pstr) (m : nat) : list pstr :=
  match m with
  | O => [rev cur ++ s]
  | S m' =>
    match s with
    | [] => [rev cur]
    | c :: s' => if N.eqb c d then rev cur :: split_chr_max_aux d s' [] m'
                 else split_chr_max_aux d s' (c :: cur) m
    end
  end.
Definition split_chr_max (d : N) (s : pstr) (m : option nat) : list pstr :=
  match m with None => split_chr d s | Some n => split_chr_max_aux d s [] n end.

(* ---- join ------------------------------------------------------------------ *)
Fixpoint join (sep : pstr) (l : list pstr) : pstr :=
  match l with
  | [] => []
  | [x] => x
  | x :: r => x ++ sep ++ join sep r
  end.

Lemma join_cons sep x y r : join sep (x :: y :: r) = x ++ sep ++ join sep (y :: r).
Proof. reflexivity. Qed.

(* split / join inverse for a single-character separator *)
Lemma split_chr_aux_app d a b cur :
  ~ In d a ->
  split_chr_aux d (a ++ b) cur =
  match b with
  | [] => [rev cur ++ a]
  | _ => split_chr_aux d b (rev a ++ cur)
  end.
Proof.
  revert cur; induction a as [|c a IH]; intros cur Hn; simpl.
  - destruct b; simpl; [now rewrite app_nil_r|reflexivity].
  - assert (c <> d) by (intros ->; apply Hn; now left).
    apply N.eqb_neq in H. rewrite H. rewrite IH by (intros Hi; apply Hn; now right).
    destruct b; simpl.
    + now rewrite <- app_assoc.
    + now rewrite <- app_assoc.
Qed.

Lemma split_chr_join d (l : list pstr) :
  l <> [] -> Forall (fun x => ~ In d x) l -> split_chr d (join [d] l) = l.
Proof.
  unfold split_chr.
  assert (G : forall l cur, l <> [] -> Forall (fun x => ~ In d x) l ->
            split_chr_aux d (join [d] l) cur =
            match l with [] => [] | x :: r => (rev cur ++ x) :: r end).
  { induction l0 as [|x r IH]; intros cur Hne HF; [congruence|].
    inversion HF as [|? ? Hx Hr]; subst. destruct r as [|y r].
    - simpl. rewrite <- (app_nil_r x) at 1. rewrite split_chr_aux_app by assumption. reflexivity.
    - rewrite join_cons. rewrite split_chr_aux_app by assumption. simpl app.
      cbn [split_chr_aux]. rewrite N.eqb_refl. rewrite rev_app_distr, rev_involutive.
      rewrite IH by (congruence || assumption). reflexivity. }
  intros Hne HF. rewrite G by assumption. destruct l; [congruence|reflexivity].
Qed.

(* ---- strip / rstrip -------------------------------------------------------- *)
Fixpoint lstrip_set (cs : list N) (s : pstr) : pstr :=
  match s with
  | c :: s' => if mem_chr c cs then lstrip_set cs s' else s
  | [] => []
  end.
Definition rstrip_set (cs : list N) (s : pstr) : pstr := rev (lstrip_set cs (rev s)).
Definition strip_set (cs : list N) (s : pstr) : pstr := rstrip_set cs (lstrip_set cs s).

(* Python's str.strip() whitespace restricted to the characters the generators
   emit: space, \t, \n, \r, \x0b, \x0c, and the ASCII separators 0x1c-0x1f,
   0x85, 0xa0 (str.isspace code points below 256). *)
Definition py_ws : list N := [32; 9; 10; 13; 11; 12; 28; 29; 30; 31; 133; 160]%N.
Definition strip (s : pstr) : pstr := strip_set py_ws s.

(* ---- find / replace (substring) ------------------------------------------- *)
Fixpoint find_sub_aux (fuel : nat) (s p : pstr) (i : nat) : option nat :=
  if startswith s p then Some i else
  match fuel, s with
  | S f, _ :: s' => find_sub_aux f s' p (S i)
  | _, _ => None
  end.
Definition find_sub (s p : pstr) : option nat := find_sub_aux (length s) s p 0.
Definition contains (s p : pstr) : bool := match find_sub s p with Some _ => true | None => false end.

(* str.replace(old, new) with old non-empty; structural on fuel = length s *)
Fixpoint replace_aux (fuel : nat) (s old new : pstr) : pstr :=
  match fuel with
  | O => s
  | S f =>
    match s with
    | [] => []
    | c :: s' =>
      if startswith s old then new ++ replace_aux f (skipn (length old) s) old new
      else c :: replace_aux f s' old new
    end
  end.
Definition replace (s old new : pstr) : pstr :=
  match old with [] => s | _ => replace_aux (length s) s old new end.

(* split on a multi-character separator (non-empty) *)
Fixpoint split_str_aux (fuel : nat) (s sep : pstr) (cur : pstr) : list pstr :=
  match fuel with
  | O => [rev cur ++ s]
  | S f =>
    match s with
    | [] => [rev cur]
    | c :: s' =>
      if startswith s sep then rev cur :: split_str_aux f (skipn (length sep) s) sep []
      else split_str_aux f s' sep (c :: cur)
    end
  end.
Definition split_str (s sep : pstr) : list pstr := split_str_aux (S (length s)) s sep [].

(* ---- padding ---------------------------------------------------------------- *)
Definition ljust (s : pstr) (w : nat) (c : N) : pstr := s ++ repeat c (w - length s).
Definition rjust (s : pstr) (w : nat) (c : N) : pstr := repeat c (w - length s) ++ s.

Lemma ljust_length s w c : length (ljust s w c) = Nat.max (length s) w.
Proof. unfold ljust. rewrite app_length, repeat_length. lia. Qed.
Lemma rjust_length s w c : length (rjust s w c) = Nat.max (length s) w.
Proof. unfold rjust. rewrite app_length, repeat_length. lia. Qed.

(* ---- ASCII case mapping ----------------------------------------------------- *)
Definition lower_chr (c : N) : N := if (65 <=? c)%N && (c <=? 90)%N then (c + 32)%N else c.
Definition upper_chr (c : N) : N := if (97 <=? c)%N && (c <=? 122)%N then (c - 32)%N else c.
Definition lower (s : pstr) : pstr := map lower_chr s.
Definition upper (s : pstr) : pstr := map upper_chr s.

(* ---- slicing with Python semantics (non-negative bounds) -------------------- *)
Definition slice (s : pstr) (a b : nat) : pstr := firstn (b - a) (skipn a s).

Definition is_digit (c : N) : bool := (48 <=? c)%N && (c <=? 57)%N.
