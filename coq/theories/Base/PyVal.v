(* Base/PyVal.v — Python values as the models see them: scalars, nested
   dict/list trees with a class tag (true = n0dict/n0list, false = dict/list),
   exceptions as values, and the universal observation type [out] used by the
   correspondence check. *)
From Coq Require Import List NArith ZArith Bool Lia.
From N0 Require Import Base.PyStr.
Import ListNotations.

Inductive scalar :=
| SNone
| SBool (b : bool)
| SInt (z : Z)
| SFlt (h : Z)          (* the float h/2 *)
| SStr (s : pstr)
| SBytes (s : pstr).

Inductive tree :=
| Leaf (s : scalar)
| Dict (c : bool) (kvs : list (pstr * tree))
| Lst (c : bool) (xs : list tree).

Definition scalar_eqb (a b : scalar) : bool :=
  match a, b with
  | SNone, SNone => true
  | SBool x, SBool y => Bool.eqb x y
  | SInt x, SInt y => Z.eqb x y
  | SFlt x, SFlt y => Z.eqb x y
  | SStr x, SStr y => pstr_eqb x y
  | SBytes x, SBytes y => pstr_eqb x y
  | _, _ => false
  end.

Lemma scalar_eqb_eq a b : scalar_eqb a b = true <-> a = b.
Proof.
  destruct a, b; simpl; split; intros H; try congruence; try reflexivity.
  - apply Bool.eqb_prop in H. congruence.
  - inversion H. apply Bool.eqb_reflx.
  - apply Z.eqb_eq in H. congruence.
  - inversion H. apply Z.eqb_refl.
  - apply Z.eqb_eq in H. congruence.
  - inversion H. apply Z.eqb_refl.
  - apply pstr_eqb_eq in H. congruence.
  - inversion H. apply pstr_eqb_refl.
  - apply pstr_eqb_eq in H. congruence.
  - inversion H. apply pstr_eqb_refl.
Qed.

(* exact structural equality including class tags and key order *)
Definition list_eqb {A} (f : A -> A -> bool) : list A -> list A -> bool :=
  fix go (l l' : list A) : bool :=
    match l, l' with
    | [], [] => true
    | x :: r, y :: r' => f x y && go r r'
    | _, _ => false
    end.

Fixpoint tree_eqb (a b : tree) : bool :=
  match a, b with
  | Leaf x, Leaf y => scalar_eqb x y
  | Dict c kvs, Dict c' kvs' =>
    Bool.eqb c c' && list_eqb (fun kv kv' => pstr_eqb (fst kv) (fst kv') && tree_eqb (snd kv) (snd kv')) kvs kvs'
  | Lst c xs, Lst c' xs' => Bool.eqb c c' && list_eqb tree_eqb xs xs'
  | _, _ => false
  end.

Lemma list_eqb_eq {A} (f : A -> A -> bool) (l : list A) :
  Forall (fun x => forall y, f x y = true <-> x = y) l ->
  forall l', list_eqb f l l' = true <-> l = l'.
Proof.
  induction 1 as [|x r Hx Hr IH]; intros [|y r']; simpl; try (split; intros H; congruence).
  rewrite andb_true_iff, Hx, IH. split.
  - intros [-> ->]. reflexivity.
  - intros H. inversion H. auto.
Qed.

(* nested-inductive induction principle *)
Section ind.
Variable P : tree -> Prop.
Hypothesis HL : forall s, P (Leaf s).
Hypothesis HD : forall c kvs, Forall (fun kv => P (snd kv)) kvs -> P (Dict c kvs).
Hypothesis HS : forall c xs, Forall P xs -> P (Lst c xs).
Fixpoint tree_ind' (t : tree) : P t :=
  match t with
  | Leaf s => HL s
  | Dict c kvs =>
    HD c kvs ((fix go l : Forall (fun kv => P (snd kv)) l :=
                 match l with
                 | [] => Forall_nil _
                 | (k, v) :: r => Forall_cons (k, v) (tree_ind' v) (go r)
                 end) kvs)
  | Lst c xs =>
    HS c xs ((fix go l : Forall P l :=
                match l with [] => Forall_nil _ | v :: r => Forall_cons v (tree_ind' v) (go r) end) xs)
  end.
End ind.

Lemma tree_eqb_eq : forall a b, tree_eqb a b = true <-> a = b.
Proof.
  induction a as [s|c kvs IH|c xs IH] using tree_ind'; intros b; destruct b as [s'|c' kvs'|c' xs'];
    simpl; try (split; intros H; congruence).
  - rewrite scalar_eqb_eq. split; congruence.
  - rewrite andb_true_iff, list_eqb_eq.
    + split.
      * intros [H ->]. apply Bool.eqb_prop in H. congruence.
      * intros H. inversion H. split; [apply Bool.eqb_reflx|reflexivity].
    + eapply Forall_impl; [|exact IH]. intros [k v] Hv [k' v']. simpl in *.
      rewrite andb_true_iff, pstr_eqb_eq, Hv. split.
      * intros [-> ->]. reflexivity.
      * intros H. inversion H. auto.
  - rewrite andb_true_iff, list_eqb_eq by exact IH. split.
    + intros [H ->]. apply Bool.eqb_prop in H. congruence.
    + intros H. inversion H. split; [apply Bool.eqb_reflx|reflexivity].
Qed.

Lemma tree_eqb_refl a : tree_eqb a a = true.
Proof. now apply tree_eqb_eq. Qed.

(* ---- association-list helpers --------------------------------------------- *)
Fixpoint lookup {A} (k : pstr) (kvs : list (pstr * A)) : option A :=
  match kvs with
  | [] => None
  | (k', v) :: r => if pstr_eqb k k' then Some v else lookup k r
  end.

Fixpoint update {A} (k : pstr) (v : A) (kvs : list (pstr * A)) : list (pstr * A) :=
  match kvs with
  | [] => [(k, v)]
  | (k', v') :: r => if pstr_eqb k k' then (k', v) :: r else (k', v') :: update k v r
  end.

Fixpoint remove_key {A} (k : pstr) (kvs : list (pstr * A)) : list (pstr * A) :=
  match kvs with
  | [] => []
  | (k', v') :: r => if pstr_eqb k k' then r else (k', v') :: remove_key k r
  end.

Fixpoint set_nth {A} (n : nat) (v : A) (l : list A) : list A :=
  match l, n with
  | [], _ => []
  | _ :: r, O => v :: r
  | x :: r, S n' => x :: set_nth n' v r
  end.

Fixpoint del_nth {A} (n : nat) (l : list A) : list A :=
  match l, n with
  | [], _ => []
  | _ :: r, O => r
  | x :: r, S n' => x :: del_nth n' r
  end.

Lemma lookup_update_same {A} k (v : A) kvs : lookup k (update k v kvs) = Some v.
Proof.
  induction kvs as [|[k' v'] r IH]; simpl.
  - now rewrite pstr_eqb_refl.
  - destruct (pstr_eqb k k') eqn:E; simpl; rewrite E; [reflexivity|exact IH].
Qed.

Lemma lookup_update_other {A} k k2 (v : A) kvs : k2 <> k -> lookup k2 (update k v kvs) = lookup k2 kvs.
Proof.
  intros Hne. induction kvs as [|[k' v'] r IH]; simpl.
  - apply pstr_eqb_neq in Hne. now rewrite Hne.
  - destruct (pstr_eqb k k') eqn:E; simpl.
    + apply pstr_eqb_eq in E; subst. apply pstr_eqb_neq in Hne. now rewrite Hne.
    + destruct (pstr_eqb k2 k'); [reflexivity|exact IH].
Qed.

Lemma nth_error_set_nth_same {A} n (v : A) l : n < length l -> nth_error (set_nth n v l) n = Some v.
Proof.
  revert n; induction l as [|x r IH]; intros [|n] H; simpl in *; try lia; [reflexivity|].
  apply IH. lia.
Qed.

Lemma nth_error_set_nth_other {A} n m (v : A) l : n <> m -> nth_error (set_nth n v l) m = nth_error l m.
Proof.
  revert n m; induction l as [|x r IH]; intros [|n] [|m] H; simpl; try reflexivity; try congruence.
  apply IH. congruence.
Qed.

Lemma set_nth_length {A} n (v : A) l : length (set_nth n v l) = length l.
Proof. revert n; induction l as [|x r IH]; intros [|n]; simpl; auto. Qed.

(* ---- Spec: positions, resolve, replace, delete ------------------------------ *)
Inductive pstep := PKey (k : pstr) | PIdx (i : nat).
Definition path := list pstep.

Fixpoint resolve (t : tree) (p : path) : option tree :=
  match p with
  | [] => Some t
  | PKey k :: r =>
    match t with
    | Dict _ kvs => match lookup k kvs with Some v => resolve v r | None => None end
    | _ => None
    end
  | PIdx i :: r =>
    match t with
    | Lst _ xs => match nth_error xs i with Some v => resolve v r | None => None end
    | _ => None
    end
  end.

Fixpoint replace_at (t : tree) (p : path) (v : tree) : tree :=
  match p with
  | [] => v
  | PKey k :: r =>
    match t with
    | Dict c kvs =>
      match lookup k kvs with
      | Some u => Dict c (update k (replace_at u r v) kvs)
      | None => t
      end
    | _ => t
    end
  | PIdx i :: r =>
    match t with
    | Lst c xs =>
      match nth_error xs i with
      | Some u => Lst c (set_nth i (replace_at u r v) xs)
      | None => t
      end
    | _ => t
    end
  end.

Fixpoint delete_at (t : tree) (p : path) : tree :=
  match p with
  | [] => t
  | [PKey k] => match t with Dict c kvs => Dict c (remove_key k kvs) | _ => t end
  | [PIdx i] => match t with Lst c xs => Lst c (del_nth i xs) | _ => t end
  | PKey k :: r =>
    match t with
    | Dict c kvs =>
      match lookup k kvs with
      | Some u => Dict c (update k (delete_at u r) kvs)
      | None => t
      end
    | _ => t
    end
  | PIdx i :: r =>
    match t with
    | Lst c xs =>
      match nth_error xs i with
      | Some u => Lst c (set_nth i (delete_at u r) xs)
      | None => t
      end
    | _ => t
    end
  end.

Lemma resolve_app t p q :
  resolve t (p ++ q) = match resolve t p with Some u => resolve u q | None => None end.
Proof.
  revert t; induction p as [|s p IH]; intros t; simpl; auto.
  destruct s, t; auto.
  - destruct (lookup k kvs); auto.
  - destruct (nth_error xs i); auto.
Qed.

(* well-formed: keys unique at every level *)
Fixpoint wf (t : tree) : Prop :=
  match t with
  | Leaf _ => True
  | Dict _ kvs =>
    NoDup (map fst kvs) /\
    (fix all (l : list (pstr * tree)) := match l with [] => True | (_, v) :: r => wf v /\ all r end) kvs
  | Lst _ xs => (fix all (l : list tree) := match l with [] => True | v :: r => wf v /\ all r end) xs
  end.

Fixpoint nodup_keys (l : list pstr) : bool :=
  match l with [] => true | k :: r => negb (mem_str k r) && nodup_keys r end.

Fixpoint wfb (t : tree) : bool :=
  match t with
  | Leaf _ => true
  | Dict _ kvs =>
    nodup_keys (map fst kvs) &&
    (fix all (l : list (pstr * tree)) := match l with [] => true | (_, v) :: r => wfb v && all r end) kvs
  | Lst _ xs => (fix all (l : list tree) := match l with [] => true | v :: r => wfb v && all r end) xs
  end.

Lemma lookup_in_nodup {A} (kvs : list (pstr * A)) k v :
  NoDup (map fst kvs) -> In (k, v) kvs -> lookup k kvs = Some v.
Proof.
  induction kvs as [|[k' v'] r IH]; intros Hnd Hin; [destruct Hin|].
  simpl in *. inversion Hnd; subst. destruct Hin as [H|H].
  - inversion H; subst. now rewrite pstr_eqb_refl.
  - destruct (pstr_eqb k k') eqn:E.
    + apply pstr_eqb_eq in E; subst. exfalso. apply H1. apply (in_map fst) in H. exact H.
    + apply IH; auto.
Qed.

(* ---- exceptions and the observation type ------------------------------------ *)
Inductive exn :=
| ExIndex | ExKey | ExType | ExValue | ExSyntax | ExAttribute | ExAssertion | ExUnbound
| ExRecursion | ExOther.

Definition exn_eqb (a b : exn) : bool :=
  match a, b with
  | ExIndex, ExIndex | ExKey, ExKey | ExType, ExType | ExValue, ExValue | ExSyntax, ExSyntax
  | ExAttribute, ExAttribute | ExAssertion, ExAssertion | ExUnbound, ExUnbound
  | ExRecursion, ExRecursion | ExOther, ExOther => true
  | _, _ => false
  end.

Inductive res (A : Type) :=
| Ok (a : A)
| Raise (e : exn)
| OutOfFuel
| Unmodelled.
Arguments Ok {A} a.
Arguments Raise {A} e.
Arguments OutOfFuel {A}.
Arguments Unmodelled {A}.

Definition bind {A B} (r : res A) (f : A -> res B) : res B :=
  match r with
  | Ok a => f a
  | Raise e => Raise e
  | OutOfFuel => OutOfFuel
  | Unmodelled => Unmodelled
  end.
Notation "'do' x <- r ;; k" := (bind r (fun x => k)) (at level 200, x pattern, r at level 100, k at level 200).

(* what the harness compares: the implementation's canonical observation is
   printed as a literal of this type; the model's result is mapped into it. *)
Definition out := res tree.

Definition out_eqb (a b : out) : bool :=
  match a, b with
  | Ok x, Ok y => tree_eqb x y
  | Raise e, Raise e' => exn_eqb e e'
  | OutOfFuel, OutOfFuel => true
  | Unmodelled, Unmodelled => true
  | _, _ => false
  end.

(* The correspondence driver: indices of cases on which [model] and the
   recorded observation of the implementation differ; cases on which the model
   says Unmodelled are counted separately, never counted as agreement. *)
Section corr.
Context {I : Type}.
Variable model : I -> out.
Fixpoint corr_go (cases : list (I * out)) (i : nat) (bad unm : list nat) : list nat * list nat :=
  match cases with
  | [] => (rev bad, rev unm)
  | (x, e) :: r =>
    match model x with
    | Unmodelled => corr_go r (S i) bad (i :: unm)
    | m => if out_eqb m e then corr_go r (S i) bad unm else corr_go r (S i) (i :: bad) unm
    end
  end.
Definition corr (cases : list (I * out)) : (list nat * list nat) * nat :=
  (corr_go cases 0 [] [], length cases).
End corr.

(* encoders used by models to build observations *)
Definition t_str (s : pstr) : tree := Leaf (SStr s).
Definition t_int (z : Z) : tree := Leaf (SInt z).
Definition t_bool (b : bool) : tree := Leaf (SBool b).
Definition t_none : tree := Leaf SNone.
Definition t_list (l : list tree) : tree := Lst false l.
Definition t_strs (l : list pstr) : tree := Lst false (map t_str l).
