(* Refuted/C11.v — the export as it was before the "fix:" commits for C11: each piece of
   the old n0pretty that a fix replaced is restated here, and for each a witness is
   given on which the old text denotes NO value at all (it fails the necessary condition
   Export/JsonScan.json_scan, which every text of the grammar passes).  The witnesses are
   regression cases replayed on the implementation on every run (corpus/C11/). *)
From Coq Require Import List NArith ZArith Bool.
From N0 Require Import Base.PyStr Base.PyVal Export.Util Export.Json Export.JsonGrammar Export.JsonScan.
Import ListNotations.
Local Open Scope N_scope.

(* values: item.replace(quote, backslash quote) between quotes — nothing else was escaped *)
Definition quote_old (s : pstr) : pstr :=
  34 :: flat_map (fun c => if c =? 34 then [92; 34] else [c]) s ++ [34].

Theorem C11_backslash_refuted : exists s, forall t, ~ json_denotes (quote_old s) t.
Proof. exists [92]. apply scan_rejects. reflexivity. Qed.
Print Assumptions C11_backslash_refuted.

Theorem C11_newline_refuted : exists s, forall t, ~ json_denotes (quote_old s) t.
Proof. exists [110; 10; 108]. apply scan_rejects. reflexivity. Qed.
Print Assumptions C11_newline_refuted.

Theorem C11_tab_refuted : exists s, forall t, ~ json_denotes (quote_old s) t.
Proof. exists [9]. apply scan_rejects. reflexivity. Qed.
Print Assumptions C11_tab_refuted.

Theorem C11_control_char_refuted : exists s, forall t, ~ json_denotes (quote_old s) t.
Proof. exists [1]. apply scan_rejects. reflexivity. Qed.
Print Assumptions C11_control_char_refuted.

(* keys in the generic layout were put between quotes as they are *)
Definition key_old (k : pstr) : pstr := 34 :: k ++ [34].
Definition dict1_old (k : pstr) (v : pstr) : pstr := [123] ++ key_old k ++ [58] ++ v ++ [125].

Theorem C11_key_quote_refuted : exists k, forall t, ~ json_denotes (dict1_old k [49]) t.
Proof. exists [107; 34; 113]. apply scan_rejects. reflexivity. Qed.
Print Assumptions C11_key_quote_refuted.

(* pair layout: "if sub_result: sub_result += ','" — also when only blanks were there *)
Definition pair_cell_old (kvs : list (pstr * tree)) (sub : pstr) (nm : pstr * nat) : pstr :=
  let '(k, w) := nm in
  match lookup k kvs with
  | Some v => sub ++ (if is_nil sub then [] else [44]) ++ [32] ++ quote k ++ [58; 32] ++ ljust (cell_text v) w 32
  | None => sub ++ (if is_nil sub then [] else [32]) ++ repeat 32 (1 + 1 + length k + 1 + 2 + w)%nat
  end.
Definition render_record_old (names : list (pstr * nat)) (kvs : list (pstr * tree)) : pstr :=
  [123] ++ fold_left (pair_cell_old kvs) names [] ++ [32; 125].

(* [{"x":1},{"y":2}]: the second record is written  {       , "y": 2 }  *)
Theorem C11_pair_leading_comma_refuted :
  exists names kvs, forall t, ~ json_denotes (render_record_old names kvs) t.
Proof.
  exists [([120], 1%nat); ([121], 1%nat)], [([121], Leaf (SInt 2))]. apply scan_rejects. reflexivity.
Qed.
Print Assumptions C11_pair_leading_comma_refuted.

(* skip_empty_arrays: the entry of an empty container was written with an empty value *)
Definition dict_entry_old (o : opts) (kr : pstr * pstr) : pstr := quote (fst kr) ++ [58] ++ sp o ++ snd kr.

(* {"a":[]} with skip_empty_arrays:  { "a":  }  *)
Theorem C11_skip_empty_value_refuted :
  exists o, o_skip o = true /\
    forall t, ~ json_denotes (wrap o 0 123 125 (dict_entry_old o ([97], pretty o 1 (Lst true [])))) t.
Proof.
  exists {| o_indent := 4; o_pairs := true; o_compress := false; o_skip := true |}.
  split; [reflexivity|]. apply scan_rejects. reflexivity.
Qed.
Print Assumptions C11_skip_empty_value_refuted.

(* ... and a tree of nothing but empty containers was exported as the empty text *)
Theorem C11_skip_empty_root_refuted :
  exists o t, pretty o 0 t = [] /\ forall v, ~ json_denotes (pretty o 0 t) v.
Proof.
  exists {| o_indent := 4; o_pairs := true; o_compress := false; o_skip := true |}, (Dict true [([97], Lst true [])]).
  split; [reflexivity|]. apply scan_rejects. reflexivity.
Qed.
Print Assumptions C11_skip_empty_root_refuted.

(* below 111 levels the debug placeholder was printed *)
Theorem C11_depth_placeholder_refuted :
  forall t, ~ json_denotes [91; 91; 46; 46; 46; 46; 46; 46; 46; 93; 93] t.
Proof. apply scan_rejects. reflexivity. Qed.
Print Assumptions C11_depth_placeholder_refuted.
