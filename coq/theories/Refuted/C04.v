(* Refuted/C04.v — "no lookup modifies the tree" is false of the faithful model:
   a [new()] step applied to an existing non-list node rewrites it (known finding
   C04/new-in-lookup; the witness is replayed on the implementation on every run). *)
From Coq Require Import List NArith ZArith.
From N0 Require Import Base.PyStr Base.PyVal Xpath.Dec Xpath.Token Xpath.Find Xpath.StarKeyProofs.
Import ListNotations.

Theorem C04_lookup_pure_refuted :
  exists root x root' r, dict_get_pub (fuel_for root x) root x = Ok (root', r) /\ root' <> root.
Proof.
  exists (Dict true [([97]%N, Leaf (SInt 1))]), ([97; 91; 110; 101; 119; 40; 41; 93]%N).
  eexists. eexists. split; [vm_compute; reflexivity|]. discriminate.
Qed.
Print Assumptions C04_lookup_pure_refuted.

(* "get and first never raise": false of the faithful model on a dictionary whose first key is the text "*" when the
   path has a '*' name step there - the fan-out hands the key "*" back to the step parser in front of the remaining
   steps (the '*' step included), so it is read as the wildcard again on the same dictionary: no amount of fuel is
   enough (the real code ends in RecursionError, which the funnel of get / first does not convert).  Known finding
   C04/star-key-recursion; the witness is replayed on the implementation on every run. *)
Theorem C04_star_key_never_returns_refuted :
  forall rl c v others fuel rest par fstr root,
  find true rl fuel root (s_star :: rest) par (Dict c ((s_star, v) :: others)) fstr = OutOfFuel.
Proof. exact star_key_never_returns. Qed.
Print Assumptions C04_star_key_never_returns_refuted.

Theorem C04_star_key_witness :
  dict_get_pub (fuel_for sk_tree sk_x) sk_tree sk_x = OutOfFuel /\
  dict_getitem (fuel_for sk_tree sk_x) sk_tree sk_x = OutOfFuel.
Proof. exact star_key_example. Qed.
Print Assumptions C04_star_key_witness.
