(* Refuted/C04.v — "no lookup modifies the tree" is false of the faithful model:
   a [new()] step applied to an existing non-list node rewrites it (known finding
   C04/new-in-lookup; the witness is replayed on the implementation on every run). *)
From Coq Require Import List NArith ZArith.
From N0 Require Import Base.PyStr Base.PyVal Xpath.Dec Xpath.Token Xpath.Find.
Import ListNotations.

Theorem C04_lookup_pure_refuted :
  exists root x root' r, dict_get_pub (fuel_for root x) root x = Ok (root', r) /\ root' <> root.
Proof.
  exists (Dict true [([97]%N, Leaf (SInt 1))]), ([97; 91; 110; 101; 119; 40; 41; 93]%N).
  eexists. eexists. split; [vm_compute; reflexivity|]. discriminate.
Qed.
Print Assumptions C04_lookup_pure_refuted.
