(* Refuted/C13.v — the machine as it was before the "fix:" commit d93401e
   (begin-of-field decided by len(field_value)==0) loses a leading quote; kept
   so that the witness stays a regression case replayed on the implementation. *)
From Coq Require Import List NArith Bool.
From N0 Require Import Base.PyStr Base.PyVal Codec.Csv.
Import ListNotations.

Definition stepc_prefix (d : N) (s : st) (ch : N) : option st :=
  if N.eqb ch d && (negb (quoted s) || expect s) then
    Some {| fld := []; quoted := false; expect := false; started := false; acc := acc s ++ [fld s] |}
  else if N.eqb ch Q then
    match fld s with
    | [] => Some {| fld := []; quoted := true; expect := expect s; started := true; acc := acc s |}
    | _ => if quoted s then
             if negb (expect s) then Some {| fld := fld s; quoted := true; expect := true; started := true; acc := acc s |}
             else Some {| fld := fld s ++ [ch]; quoted := true; expect := false; started := true; acc := acc s |}
           else Some {| fld := fld s ++ [ch]; quoted := quoted s; expect := expect s; started := true; acc := acc s |}
    end
  else if expect s then None
  else Some {| fld := fld s ++ [ch]; quoted := quoted s; expect := expect s; started := true; acc := acc s |}.
Fixpoint run_prefix (d : N) (s : st) (l : pstr) : option st :=
  match l with [] => Some s | c :: t => match stepc_prefix d s c with Some s' => run_prefix d s' t | None => None end end.

Theorem C13_prefix_machine_refuted :
  exists row, match run_prefix 44 init (gen 44 row) with Some s => finish s <> row | None => True end.
Proof. exists [[34; 97]]%N. vm_compute. congruence. Qed.
Print Assumptions C13_prefix_machine_refuted.
