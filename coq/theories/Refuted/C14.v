(* Refuted/C14.v — statements the faithful model falsifies outside the guards of
   Props/C14.v; each witness is a case of corpus/C14 (replayed on the
   implementation on every run). *)
From Coq Require Import List NArith.
From N0 Require Import Base.PyStr Base.PyVal Codec.Csv Files.Bytes Files.SaveLoad Files.CsvFile.
Import ListNotations.
Local Open Scope N_scope.

Definition o_bin (cn : option (list tstr)) (him : option bool) : opts :=
  {| o_cn := cn; o_delim := 44; o_ch := ChNone; o_him := him; o_skip := true;
     o_strip_line := false; o_strip_field := false; o_binary := true; o_codec := 1 |}.

(* binary read mode with str column names: str never equals bytes, so the
   header line "A,B" is not recognised and is returned as a data record
   (outside the assumption "in binary mode the caller passes bytes names") *)
Theorem C14_binary_str_names_refuted :
  exists recs, load_csv (Some [65; 44; 66; 10; 49; 44; 50; 10]) (o_bin (Some [(false, [65]); (false, [66])]) None) = Ok recs
               /\ length recs = 2%nat.
Proof. eexists. split; [vm_compute; reflexivity|reflexivity]. Qed.
Print Assumptions C14_binary_str_names_refuted.

(* ... while bytes names select the columns as in text mode *)
Theorem C14_binary_bytes_names :
  load_csv (Some [65; 44; 66; 10; 49; 44; 50; 10]) (o_bin (Some [(true, [66]); (true, [65])]) None)
  = Ok [[(KT (true, [66]), Some (true, [50])); (KT (true, [65]), Some (true, [49]))]].
Proof. vm_compute. reflexivity. Qed.
Print Assumptions C14_binary_bytes_names.

(* a file whose lines end in CR alone is one line in binary mode but several in
   text mode (the property speaks about LF and CRLF files only) *)
Theorem C14_cr_only_refuted :
  let file := Some [65; 44; 66; 13; 49; 44; 50; 13] in
  let o (b : bool) := {| o_cn := None; o_delim := 44; o_ch := ChNone; o_him := Some true; o_skip := true;
                         o_strip_line := false; o_strip_field := false; o_binary := b; o_codec := 1 |} in
  exists r1 r2, load_csv file (o false) = Ok r1 /\ load_csv file (o true) = Ok r2 /\ length r1 <> length r2.
Proof. cbv zeta. eexists. eexists. split; [vm_compute; reflexivity|split; [vm_compute; reflexivity|discriminate]]. Qed.
Print Assumptions C14_cr_only_refuted.
