(* Refuted/C03.v — creation witnesses on which the faithful model (like the code)
   does not create exactly the missing chain (known findings of C03). *)
From Coq Require Import List NArith ZArith.
From N0 Require Import Base.PyStr Base.PyVal Xpath.Dec Xpath.Token Xpath.Find Xpath.Write.
Import ListNotations.

Definition z (c : N) : pstr := [122; c]%N.
(* z0[0]/z1[0]/z2 = 7 on {} : the value lands at z0[0]/z1[0], no exception *)
Definition xp1 : pstr := z 48 ++ [91;48;93;47]%N ++ z 49 ++ [91;48;93;47]%N ++ z 50.
Theorem C03_value_lands_elsewhere_refuted :
  exists t, obs_set (Dict true []) xp1 (Leaf (SInt 7)) = Ok t /\
            t = Dict true [(z 48, Lst true [Dict true [(z 49, Lst true [Leaf (SInt 7)])]])].
Proof. eexists. split; vm_compute; reflexivity. Qed.
Print Assumptions C03_value_lands_elsewhere_refuted.

(* a[1] = 7 on a scalar a: neither raises nor stores *)
Theorem C03_index_on_scalar_refuted :
  obs_set (Dict true [([97]%N, Leaf (SInt 0))]) [97;91;49;93]%N (Leaf (SInt 7)) = Ok (Dict true [([97]%N, Leaf (SInt 0))]).
Proof. vm_compute. reflexivity. Qed.
Print Assumptions C03_index_on_scalar_refuted.
