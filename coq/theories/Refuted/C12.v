(* Refuted/C12.v — the XML writer as it was before the "fix:" commits for C12, kept so
   that each witness stays a regression case replayed on the implementation
   (corpus/C12/). *)
From Coq Require Import List NArith ZArith Bool.
From N0 Require Import Base.PyStr Base.PyVal Export.Util Export.Xml Export.XmlGrammar Export.XmlProofs.
Import ListNotations.

(* value.translate(html_entities): the euro sign became the HTML name &euro; *)
Definition old_escape_euro : pstr := [38; 101; 117; 114; 111; 59]%N.

(* ... which is not character data of XML: no text at all is denoted (the entity is undefined) *)
Theorem C12_html_entity_refuted : forall s, ~ chardata old_escape_euro s.
Proof. intros s H. apply chardata_unescape in H. vm_compute in H. discriminate. Qed.
Print Assumptions C12_html_entity_refuted.

(* the old CDATA pass-through test: upper-cased start, no look at what lies between *)
Definition is_cdata_old (s : pstr) : bool :=
  startswith (upper (lstrip_all s)) cd_open && endswith (rstrip_all s) cd_close.

(* it let a value through unescaped that contains an element between two CDATA sections,
   and a lower-case pseudo section that XML does not know; the repaired test refuses both *)
Theorem C12_cdata_passthrough_refuted :
  exists s1 s2,
    is_cdata_old s1 = true /\ is_cdata s1 = false /\ contains s1 [60; 98; 47; 62]%N = true /\
    is_cdata_old s2 = true /\ is_cdata s2 = false /\ startswith s2 cd_open = false.
Proof.
  exists [60;33;91;67;68;65;84;65;91;97;93;93;62;60;98;47;62;60;33;91;67;68;65;84;65;91;99;93;93;62]%N,
         [60;33;91;99;100;97;116;97;91;120;93;93;62]%N.
  vm_compute. repeat split.
Qed.
Print Assumptions C12_cdata_passthrough_refuted.
