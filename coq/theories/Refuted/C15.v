(* Refuted/C15.v — statements the faithful model falsifies, each with a witness
   that is also replayed on the implementation (findings/C15.json, corpus/C15). *)
From Coq Require Import List NArith.
From N0 Require Import Base.PyStr Base.PyVal Files.Bytes Files.Util Files.SaveLoad.
Import ListNotations.
Local Open Scope N_scope.

(* before the repair (close referenced, not called): the file is empty when
   save_file returns although a text was written.  Fixed by 76d2a39; regression
   case corpus/C15/close_not_called.json. *)
Theorem C15_unclosed_refuted :
  exists d, save_file_gen false None (PStr [104; 105; 10]) [ch_w; ch_t] utf8 [10] = Ok d /\ d <> Some [104; 105; 10].
Proof. eexists. split; [vm_compute; reflexivity|discriminate]. Qed.
Print Assumptions C15_unclosed_refuted.

(* known finding C15/bom-per-chunk: a list of lines written through the binary
   path with utf-8-sig is not "one line per EOL" in that encoding: every line
   and every EOL carries its own BOM, and load_lines does not return the lines *)
Theorem C15_bom_per_chunk_refuted :
  exists d, save_file None (PList [IStr [97]; IStr [98]]) [ch_b] utf8sig [10] = Ok (Some d) /\
            encode utf8sig [97; 10; 98; 10] <> Some d /\
            load_lines (Some d) [ch_t] utf8sig [10] <> Ok (LLStr [[97]; [98]]).
Proof. eexists. split; [vm_compute; reflexivity|split; vm_compute; discriminate]. Qed.
Print Assumptions C15_bom_per_chunk_refuted.

(* outside the guard of C15_save_load_text: a CR in the text does not survive a
   text-mode round trip (universal newlines), and a text containing the custom
   EOL does not load back *)
Theorem C15_cr_in_text_refuted :
  exists d, save_file None (PStr [97; 13; 98]) [ch_w; ch_t] utf8 [10] = Ok (Some d) /\
            load_file (Some d) [ch_t] utf8 [10] <> Ok (LStr [97; 13; 98]).
Proof. eexists. split; [vm_compute; reflexivity|vm_compute; discriminate]. Qed.
Print Assumptions C15_cr_in_text_refuted.

Theorem C15_eol_in_text_refuted :
  exists d, save_file None (PStr [97; 124; 124; 98]) [ch_w; ch_t] utf8 [124; 124] = Ok (Some d) /\
            load_file (Some d) [ch_t] utf8 [124; 124] <> Ok (LStr [97; 124; 124; 98]).
Proof. eexists. split; [vm_compute; reflexivity|vm_compute; discriminate]. Qed.
Print Assumptions C15_eol_in_text_refuted.
