(* Refuted/C07.v — the default-compare verdict outside the guard keys_ok: the three
   witnesses of the known finding C07/str-keys (replayed on the implementation on
   every run) are equal up to the order of non-record list items and reported
   different by the faithful model. *)
From Coq Require Import List NArith ZArith Bool.
From N0 Require Import Base.PyStr Base.PyVal Compare.Util Compare.Flags Compare.Match Compare.Model
  Compare.Spec Compare.VerdictProofs Compare.DefaultProofs.
Import ListNotations.

(* [1,"1"] vs ["1",1]: str(1) = str("1") *)
Theorem C07_str_collision_refuted : refutes w1_a w1_b.
Proof. repeat split; try reflexivity. eexists. split; [vm_compute; reflexivity|discriminate]. Qed.
Print Assumptions C07_str_collision_refuted.

(* ["",{"k":1}] vs [{"k":1},""]: the empty string is the key of every record *)
Theorem C07_empty_string_next_to_record_refuted : refutes w2_a w2_b.
Proof. repeat split; try reflexivity. eexists. split; [vm_compute; reflexivity|discriminate]. Qed.
Print Assumptions C07_empty_string_next_to_record_refuted.

(* [[{"k":1,"n":2}]] vs [[{"n":2,"k":1}]]: str() of a non-record item shows dict key order *)
Theorem C07_key_order_in_item_refuted : refutes w3_a w3_b.
Proof. repeat split; try reflexivity. eexists. split; [vm_compute; reflexivity|discriminate]. Qed.
Print Assumptions C07_key_order_in_item_refuted.
