(* Refuted/C17.v — statements the code falsified before the "fix:" commits; the
   pre-fix behaviour is kept here as a small model so that the witnesses stay
   regression cases (corpus/C17) replayed on the implementation on every run. *)
From Coq Require Import List NArith ZArith Bool.
From N0 Require Import Base.PyStr Base.PyVal Codec.Util Codec.Split.
Import ListNotations.

(* split_with_escape before the fix: the else-branch of the for loop counted the
   trailing escape run on the loop variable `item` - unbound when the loop body
   never ran (a single item), the previous item otherwise. *)
Definition finish_last_prefix (e : N) (trim : bool) (loopvar : option pstr) (cur : pstr) : res pstr :=
  if trim && (0 <? trail e cur) then
    match loopvar with
    | None => Raise ExUnbound
    | Some it => Ok (trim_item cur (trail e it))
    end
  else Ok cur.

(* "a\" with trimming on: UnboundLocalError *)
Theorem C17_split_total_refuted :
  exists s, finish_last_prefix 92 true None s = Raise ExUnbound.
Proof. exists [97; 92]%N. vm_compute. reflexivity. Qed.
Print Assumptions C17_split_total_refuted.

(* "a;b\\": the last item kept both backslashes because the run was counted on "a" *)
Theorem C17_split_last_item_trim_refuted :
  exists it s, finish_last_prefix 92 true (Some it) s <> Ok (finish_last 92 true s).
Proof. exists [97]%N, [98; 92; 92]%N. vm_compute. congruence. Qed.
Print Assumptions C17_split_last_item_trim_refuted.

(* serialize_dict before the fix: the recursion received the key-transform
   lambda in place of the integer capitalize_key; int(<function>) is a TypeError
   for every nested container (leaves return before the int() call). *)
Definition ser_nested_prefix (t : tree) : res unit :=
  match t with
  | Dict _ kvs => if existsb (fun kv => match snd kv with Leaf _ => false | _ => true end) kvs then Raise ExType else Ok tt
  | _ => Ok tt
  end.
Theorem C17_serialize_nested_refuted :
  exists t, ser_nested_prefix t = Raise ExType.
Proof. exists (Dict false [([97]%N, Dict false [([98]%N, Leaf (SStr [99]%N))])]). reflexivity. Qed.
Print Assumptions C17_serialize_nested_refuted.
