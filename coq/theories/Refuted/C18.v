(* Refuted/C18.v — the three defects of n0struct_xml.py found by this check, as the
   code was before their "fix:" commits; kept so that the witnesses stay
   regression cases (corpus/C18) replayed on the implementation on every run. *)
From Coq Require Import List NArith ZArith Bool.
From N0 Require Import Base.PyStr Base.PyVal N0xml.Util N0xml.Model N0xml.Proofs.
Import ListNotations.

(* __contains__ before the repair: '/'.join(found[0]) on a (path, value) tuple
   raises TypeError whenever the search succeeds *)
Definition contains_old (root : list item) (xp : pstr) : res bool :=
  do r <- findall_str true root xp ;;
  match fst r with Some (_ :: _) => Raise ExType | _ => Ok false end.

Theorem C18_contains_prefix_refuted :
  exists root xp l, findall_m root xp = Ok (Some l) /\ l <> [] /\ contains_old root xp = Raise ExType.
Proof.
  exists (parse_node ex_doc), [97]%N. eexists. split; [vm_compute; reflexivity|].
  split; [discriminate|vm_compute; reflexivity].
Qed.
Print Assumptions C18_contains_prefix_refuted.

(* _get before the repair: below a leaf the loop iterated over the characters of
   the text (item[1] of a one-character string: IndexError) or over None
   (TypeError) *)
Fixpoint chars_hit (name : pstr) (idx : Z) (s : pstr) : bool :=
  match s with
  | [] => false
  | c :: r => if pstr_eqb [c] name then (if (idx =? 0)%Z then true else chars_hit name (idx - 1)%Z r)
              else chars_hit name idx r
  end.
Fixpoint xget_old (v : oval) (parts : list pstr) : res (option oval) :=
  match parts with
  | [] => Ok (Some v)
  | p :: rest =>
    do ni <- parse_part p ;;
    match v with
    | VText None => Raise ExType
    | VText (Some s) => if chars_hit (fst ni) (snd ni) s then Raise ExIndex else Ok None
    | VItems items =>
      match sib (fst ni) (snd ni) items with
      | Some c => xget_old c rest
      | None => Ok None
      end
    end
  end.

(* b[0]/d[0]/a[0] in ex_doc: d is an empty element, ElementTree has no node
   below it, the old code raises TypeError instead of returning the default *)
Theorem C18_get_below_leaf_prefix_refuted :
  exists e steps,
    Forall (fun s => no_lb (fst s) = true) steps /\ et_nav e steps = None /\
    xget_old (VItems (parse_node e)) (map render_step steps) = Raise ExType.
Proof.
  exists ex_doc, [([98]%N, 0%nat); ([100]%N, 0%nat); ([97]%N, 0%nat)].
  split; [repeat constructor|]. split; vm_compute; reflexivity.
Qed.
Print Assumptions C18_get_below_leaf_prefix_refuted.

(* a[0]/b[0] in <r><a>bc</a></r>: the text of a starts with the letter b, the
   old code raises IndexError *)
Theorem C18_get_below_text_prefix_refuted :
  exists e steps,
    Forall (fun s => no_lb (fst s) = true) steps /\ et_nav e steps = None /\
    xget_old (VItems (parse_node e)) (map render_step steps) = Raise ExIndex.
Proof.
  exists (El [114] [] None [El [97] [] (Some [98; 99]) []])%N, [([97]%N, 0%nat); ([98]%N, 0%nat)].
  split; [repeat constructor|]. split; vm_compute; reflexivity.
Qed.
Print Assumptions C18_get_below_text_prefix_refuted.

(* findfirst before the repair: found[0] of findall(find_first=True).  With a '..'
   step the early exit can return a node the complete search discards:
   <r><a><b>1</b><b>2</b></a><a>3</a></r>, expression **[1]/..  *)
Definition findfirst_old (root : list item) (xp : pstr) : res (option (list pstr * oval)) :=
  do r <- findall_str true root xp ;;
  Ok (match fst r with Some (x :: _) => Some x | _ => None end).
Definition doc_early : elem :=
  El [114]%N [] None
     [El [97]%N [] None [El [98]%N [] (Some [49]%N) []; El [98]%N [] (Some [50]%N) []];
      El [97]%N [] (Some [51]%N) []].
Definition xp_early : pstr := [42; 42; 91; 49; 93; 47; 46; 46]%N.

Theorem C18_findfirst_early_exit_refuted :
  exists root xp l x, findall_m root xp = Ok (Some l) /\ findfirst_old root xp = Ok (Some x) /\ hd_error l <> Some x.
Proof.
  exists (parse_node doc_early), xp_early. eexists. eexists.
  split; [vm_compute; reflexivity|]. split; [vm_compute; reflexivity|]. vm_compute. discriminate.
Qed.
Print Assumptions C18_findfirst_early_exit_refuted.

(* the same witness refutes the unguarded form of C18_find_first_prefix *)
Theorem C18_find_first_prefix_refuted :
  exists root xp l lt ft,
    findall_m root xp = Ok (Some l) /\ findall_str true root xp = Ok (Some lt, ft) /\ hd_error lt <> hd_error l.
Proof.
  exists (parse_node doc_early), xp_early. eexists. eexists. eexists.
  split; [vm_compute; reflexivity|]. split; [vm_compute; reflexivity|]. vm_compute. discriminate.
Qed.
Print Assumptions C18_find_first_prefix_refuted.
