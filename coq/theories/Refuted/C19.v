(* Refuted/C19.v — the unguarded form of C19_findall_keys_resolve is false of the
   faithful model: a '..' step directly after a name step returns the
   grand-parent's node under the parent's key (known finding C19/dotdot-grandparent;
   the witness is replayed on the implementation on every run). *)
From Coq Require Import List NArith ZArith Bool.
From N0 Require Import Base.PyStr Base.PyVal N0xml.Util Findall.Util Findall.Model Findall.Proofs.
Import ListNotations.

(* //Root/N1/S/.. on ex_tree: the key //Root/N1 is returned with Root's value *)
Theorem C19_dotdot_refuted :
  exists root expr d c,
    tree_ok root = true /\
    findall_top init_cell root expr = (Ok (Some d), c) /\
    exists kv, In kv d /\ resolve_key root (fst kv) <> Some (snd kv).
Proof.
  exists ex_tree, ex_up. eexists. eexists. split; [vm_compute; reflexivity|].
  split; [vm_compute; reflexivity|].
  eexists. split; [left; reflexivity|]. vm_compute. discriminate.
Qed.
Print Assumptions C19_dotdot_refuted.
