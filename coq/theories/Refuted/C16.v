(* Refuted/C16.v — statements the code falsified before the "fix:" commits; the
   pre-fix step functions are kept here so that the witnesses stay regression
   cases (corpus/C16) replayed on the implementation on every run. *)
From Coq Require Import List NArith ZArith Bool.
From N0 Require Import Base.PyStr Base.PyVal Codec.Util.
Import ListNotations.

(* parse_tlv before the fix: one loop iteration on an absolute offset, without
   the negative-length test.  Python slicing s[a:b] with 0 <= a, any b. *)
Definition py_slice (s : pstr) (a b : Z) : pstr :=
  let n := Z.of_nat (length s) in
  let b' := if (b <? 0)%Z then Z.max 0 (n + b) else b in
  firstn (Z.to_nat (b' - a)) (skipn (Z.to_nat a) s).

Definition tlv_step_prefix (s : pstr) (tw lw : Z) (off : Z) : res ((pstr * Z * pstr) * Z) :=
  let tag := py_slice s off (off + tw) in
  let o1 := (off + tw)%Z in
  do n <- py_int (py_slice s o1 (o1 + lw));;
  let o2 := (o1 + lw)%Z in
  Ok ((tag, n, py_slice s o2 (o2 + n)), (o2 + n)%Z).

(* "01-05": the offset after the first triplet is again 0 < len, so the
   generator yields the same triplet forever. *)
Theorem C16_tlv_negative_length_no_progress_refuted :
  exists s, s <> [] /\ exists x, tlv_step_prefix s 2 3 0 = Ok (x, 0%Z).
Proof. exists [48; 49; 45; 48; 53]%N. split; [discriminate|]. eexists. vm_compute. reflexivity. Qed.
Print Assumptions C16_tlv_negative_length_no_progress_refuted.

(* load_fwf before the fix: `failed_rows.append(i, *parsed_row)` is a call of
   list.append with three arguments - TypeError - as soon as a row that has a
   successor is rejected.  The pre-fix filing step: *)
Definition file_reject_prefix (idx : option nat) (rej : list tree) (row msg : pstr) : res (list tree) :=
  match idx with
  | Some _ => Raise ExType
  | None => Ok (rej ++ [t_list [t_str row; t_str msg]])
  end.

Theorem C16_load_fwf_partition_refuted :
  exists idx row msg, file_reject_prefix idx [] row msg = Raise ExType.
Proof. exists (Some 1), [97]%N, [69]%N. reflexivity. Qed.
Print Assumptions C16_load_fwf_partition_refuted.
