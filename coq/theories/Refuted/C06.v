(* Refuted/C06.v — chained predicates: the faithful model selects from the first
   parent for every parent (known finding C06/chained-selection). *)
From Coq Require Import List NArith ZArith.
From N0 Require Import Base.PyStr Base.PyVal Xpath.Dec Xpath.Token Xpath.Find.
Import ListNotations.

Definition s (l : list N) : pstr := l.
Definition k_orders := s [111;114;100;101;114;115]%N.
Definition k_id := s [105;100]%N.
Definition k_items := s [105;116;101;109;115]%N.
Definition k_k1 := s [107;49]%N.
Definition k_f := s [102]%N.
Definition str1 (c : N) : tree := Leaf (SStr [c]).
Definition orders : tree :=
  Dict true [(k_orders, Lst true
    [Dict true [(k_id, str1 49); (k_items, Lst true [Dict true [(k_k1, str1 65); (k_f, str1 49)]])];
     Dict true [(k_id, str1 50); (k_items, Lst true [Dict true [(k_k1, str1 66); (k_f, str1 51)]])]])].
(* orders[id=2]/items[k1=B]/f *)
Definition xp : pstr :=
  k_orders ++ [91;105;100;61;50;93;47]%N ++ k_items ++ [91;107;49;61;66;93;47;102]%N.

(* the per-parent selection is [["3"]]; the model (like the code) reports a miss *)
Theorem C06_chained_refuted :
  exists r, dict_get_pub (fuel_for orders xp) orders xp = Ok (orders, r) /\ r <> LVal (Lst true [Lst true [str1 51]]).
Proof. eexists. split; [vm_compute; reflexivity|]. discriminate. Qed.
Print Assumptions C06_chained_refuted.
