(* Scope/Sem.v — the executable semantics the C20 statements refer to:
   (1) the import-time evolution of the module namespaces of a package
       ([run_imports]: module bodies executed in order, partially initialised
       modules visible to import cycles, star imports expanded through the
       target's *current* [__all__] or public names, submodules bound in their
       parent package when their import completes);
   (2) the class table: base-class resolution, linearised ancestors ([mro],
       as a set: the order is irrelevant for "does the attribute exist"),
       and the attributes a class gives its instances.
   These are model definitions (validated against the running interpreter on
   every run: [dir(module)] and [symtable]); Spec.v states the property on top
   of them and Checker.v decides it. *)
From Coq Require Import List String Bool NArith.
From N0 Require Import Scope.Lang.
Import ListNotations.
Open Scope string_scope.
Open Scope list_scope.

(* ------------------------------------------------------------ violations -- *)

Inductive violation :=
| VUnbound (m : mname) (path : list name) (line : N) (n : name)
    (* scope [path] (starting at line [line]) of module [m] reads [n]; [n] is neither
       local, nor bound in an enclosing function, nor in the module namespace, nor a builtin *)
| VSelfAttr (m : mname) (target : name) (def : name) (meth : name) (line : N) (x : name)
    (* instances of class [target] inherit method [meth] of class [def], which reads
       self.[x]; no ancestor of [target] defines or assigns [x] *)
| VAttr (m : mname) (path : list name) (line : N) (b : name) (x : name)
    (* scope [path] reads [b.x] where the global [b] is a class or module of the
       package that has no attribute [x] *)
| VAllEntry (m : mname) (n : name)              (* [n] in m.__all__ but not bound in m *)
| VNotExposed (m : mname) (n : name)            (* [n] in m.__all__ but not in the package namespace *)
| VImportName (m : mname) (target : mname) (n : name)   (* from target import n: no such name at that moment *)
| VStarEntry (m : mname) (target : mname) (n : name)    (* from target import *: target.__all__ lists a missing name *)
| VModuleUse (m : mname) (n : name)             (* module-level statement reads [n] before anything binds it *)
| VAllUnknown (m : mname)                       (* __all__ of m is not statically evaluable *)
| VExternalStar (m : mname) (target : mname)    (* star import from outside the package: names unknown *)
| VBase (m : mname) (cid : name)                (* a base class of [cid] cannot be resolved statically *)
| VFuel (m : mname).                            (* import nesting deeper than the number of modules (cannot happen) *)

(* ------------------------------------------------- import-time semantics -- *)

Record mstate := MState { ms_ns : list (name * origin); ms_all : option (list name) }.
Record state := State { st_mods : list (mname * mstate); st_errs : list violation }.

Fixpoint set_assoc {A} (k : name) (v : A) (l : list (name * A)) : list (name * A) :=
  match l with
  | [] => [(k, v)]
  | (k', v') :: r => if String.eqb k k' then (k, v) :: r else (k', v') :: set_assoc k v r
  end.

Fixpoint del_assoc {A} (k : name) (l : list (name * A)) : list (name * A) :=
  match l with
  | [] => []
  | (k', v') :: r => if String.eqb k k' then r else (k', v') :: del_assoc k r
  end.

Definition get_ms (st : state) (m : mname) : option mstate := lookup m (st_mods st).
Definition started (st : state) (m : mname) : bool :=
  match get_ms st m with Some _ => true | None => false end.
Definition ns_of (st : state) (m : mname) : list (name * origin) :=
  match get_ms st m with Some ms => ms_ns ms | None => [] end.
Definition all_of (st : state) (m : mname) : option (list name) :=
  match get_ms st m with Some ms => ms_all ms | None => None end.
Definition set_ms (st : state) (m : mname) (ms : mstate) : state :=
  State (set_assoc m ms (st_mods st)) (st_errs st).
Definition add_err (st : state) (v : violation) : state :=
  State (st_mods st) (st_errs st ++ [v]).
Definition bind (st : state) (m : mname) (n : name) (o : origin) : state :=
  match get_ms st m with
  | Some ms => set_ms st m (MState (set_assoc n o (ms_ns ms)) (ms_all ms))
  | None => st
  end.
Definition unbind (st : state) (m : mname) (n : name) : state :=
  match get_ms st m with
  | Some ms => set_ms st m (MState (del_assoc n (ms_ns ms)) (ms_all ms))
  | None => st
  end.
Definition set_all (st : state) (m : mname) (a : option (list name)) : state :=
  match get_ms st m with
  | Some ms => set_ms st m (MState (ms_ns ms) a)
  | None => st
  end.

Definition is_lib (p : program) (m : mname) : bool :=
  match find_module p m with Some _ => true | None => false end.

Fixpoint eval_all (st : state) (m : mname) (e : allexpr) : option (list name) :=
  match e with
  | ALit l => Some l
  | ARef v => match lookup v (ns_of st m) with
              | Some (OMod lm) => all_of st lm
              | _ => None
              end
  | ACat a b => match eval_all st m a, eval_all st m b with
                | Some x, Some y => Some (x ++ y)
                | _, _ => None
                end
  | AUnknown => None
  end.

Definition dot (a b : string) : string := String.append a (String.append "." b).

Section Exec.
  Variable p : program.
  Variable rec : mname -> state -> state.     (* "import this module" *)

  Definition import_item (m target : mname) (st : state) (ab : name * name) : state :=
    let (a, b) := ab in
    match lookup a (ns_of st target) with
    | Some o => bind st m b o
    | None =>
        let sub := dot target a in
        if is_lib p sub then bind (rec sub st) m b (OMod sub)
        else add_err (bind st m b OVal) (VImportName m target a)
    end.

  Definition exec_stmt (m : mname) (st : state) (s : mstmt) : state :=
    match s with
    | MUse loads =>
        fold_left (fun st n =>
                     if mem n (map fst (ns_of st m)) || mem n (p_builtins p) then st
                     else add_err st (VModuleUse m n)) loads st
    | MBind n => bind st m n OVal
    | MClass n cid => bind st m n (OClass cid)
    | MImport b bound execs =>
        let st1 := fold_left (fun st x => rec x st) execs st in
        bind st1 m b (if is_lib p bound then OMod bound else OExtMod bound)
    | MFrom target items =>
        let st1 := rec target st in
        if is_lib p target then fold_left (import_item m target) items st1
        else fold_left (fun st ab => bind st m (snd ab) (OExt (dot target (fst ab)))) items st1
    | MStar target =>
        let st1 := rec target st in
        if is_lib p target then
          let src := ns_of st1 target in
          match all_of st1 target with
          | Some l =>
              fold_left (fun st n => match lookup n src with
                                     | Some o => bind st m n o
                                     | None => add_err st (VStarEntry m target n)
                                     end) l st1
          | None =>
              fold_left (fun st no => if starts_with_underscore (fst no) then st
                                      else bind st m (fst no) (snd no)) src st1
          end
        else add_err st1 (VExternalStar m target)
    | MAll e =>
        match eval_all st m e with
        | Some l => set_all (bind st m "__all__" OVal) m (Some l)
        | None => add_err (set_all (bind st m "__all__" OVal) m None) (VAllUnknown m)
        end
    | MAllAdd e =>
        match all_of st m, eval_all st m e with
        | Some l0, Some l => set_all st m (Some (l0 ++ l))
        | _, _ => add_err (set_all st m None) (VAllUnknown m)
        end
    | MDel n => unbind st m n
    end.
End Exec.

(* Importing module [m]: nothing if it is outside the package or already in
   sys.modules (possibly partially initialised); otherwise the parent package
   first, then the body in order, then the parent gets the submodule attribute. *)
Fixpoint exec_module (fuel : nat) (p : program) (m : mname) (st : state) : state :=
  match find_module p m with
  | None => st
  | Some md =>
      if started st m then st else
      match fuel with
      | 0 => add_err st (VFuel m)
      | S f =>
          let st0 := match m_parent md with Some par => exec_module f p par st | None => st end in
          if started st0 m then st0 else
          let st1 := set_ms st0 m (MState (map (fun n => (n, OVal)) (p_mod_implicit p)) None) in
          let st2 := fold_left (exec_stmt p (exec_module f p) m) (m_body md) st1 in
          match m_parent md with
          | Some par => bind st2 par (m_short md) (OMod m)
          | None => st2
          end
      end
  end.

Definition import_fuel (p : program) : nat := S (S (List.length (p_modules p))).

(* the whole package imported: the root package first, then every module *)
Definition run_imports (p : program) : state :=
  fold_left (fun st md => exec_module (import_fuel p) p (m_name md) st) (p_modules p) (State [] []).

(* --------------------------------------------------------------- LEGB ---- *)

Definition class_implicit : list name := ["__module__"; "__qualname__"].

(* [n] is a local variable of the function-like scope [s] *)
Definition funlocal (s : scope) (n : name) : bool :=
  (mem n (sc_params s) || mem n (sc_binds s))
  && negb (mem n (sc_globals s)) && negb (mem n (sc_nonlocals s)).

(* search of the enclosing scopes, innermost first: is [n] a closure variable *)
Fixpoint lookup_free (env : list scope) (n : name) : bool :=
  match env with
  | [] => false
  | s :: rest =>
      if is_class s then String.eqb n "__class__" || lookup_free rest n
      else if mem n (sc_globals s) then false
      else funlocal s n || lookup_free rest n
  end.

Definition localb (s : scope) (n : name) : bool :=
  (mem n (sc_params s) || mem n (sc_binds s) || (is_class s && mem n class_implicit))
  && negb (mem n (sc_nonlocals s)).

(* a read of [b] in scope [s] goes to the module namespace / builtins *)
Definition global_read (env : list scope) (s : scope) (b : name) : bool :=
  mem b (sc_globals s) || negb (localb s b || lookup_free env b).

(* ------------------------------------------------------------- classes --- *)

Record cinfo := CInfo { ci_mod : mname; ci_env : list scope; ci_scope : scope }.
Definition ci_id (ci : cinfo) : name := sc_cid (ci_scope ci).

Fixpoint classes_of (m : mname) (env : list scope) (s : scope) : list cinfo :=
  (if is_class s then [CInfo m env s] else [])
  ++ flat_map (classes_of m (s :: env)) (sc_children s).

Definition all_classes (p : program) : list cinfo :=
  flat_map (fun md => flat_map (classes_of (m_name md) []) (m_scopes md)) (p_modules p).

Definition class_info (cs : list cinfo) (cid : name) : option cinfo :=
  find (fun ci => String.eqb (ci_id ci) cid) cs.

(* is [n], read in the scope that encloses a class statement, a local or
   closure variable there (then what it denotes is not known statically) *)
Fixpoint enclosing_fun_binds (env : list scope) (n : name) : bool :=
  match env with
  | [] => false
  | s :: rest =>
      if is_class s then enclosing_fun_binds rest n
      else if mem n (sc_globals s) then false
      else funlocal s n || enclosing_fun_binds rest n
  end.

Definition base_is_local (env : list scope) (n : name) : bool :=
  match env with
  | [] => false
  | s :: rest =>
      if mem n (sc_globals s) then false
      else if is_class s then mem n (sc_binds s) || enclosing_fun_binds rest n
      else enclosing_fun_binds env n
  end.

Definition origin_of_global (p : program) (st : state) (m : mname) (n : name) : option origin :=
  match lookup n (ns_of st m) with
  | Some o => Some o
  | None => if mem n (p_builtins p) then Some (OExt (dot "builtins" n)) else None
  end.

Definition resolve_base (p : program) (st : state) (m : mname) (env : list scope) (b : bexpr)
  : option origin :=
  match b with
  | BName n => if base_is_local env n then None else origin_of_global p st m n
  | BDotted (a :: rest) =>
      if base_is_local env a then None else
      match origin_of_global p st m a, rest with
      | Some (OExtMod e), _ :: _ => Some (OExt (dot e (String.concat "." rest)))
      | Some (OMod lm), [x] => lookup x (ns_of st lm)
      | _, _ => None
      end
  | _ => None
  end.

(* the class itself and all its ancestors; None when a base is not a class the
   model knows (package class, or outside class with a recorded attribute table) *)
Fixpoint mro (fuel : nat) (p : program) (st : state) (cs : list cinfo) (cid : name)
  : option (list origin) :=
  match fuel with
  | 0 => None
  | S f =>
      match class_info cs cid with
      | None => None
      | Some ci =>
          fold_left
            (fun acc b =>
               match acc with
               | None => None
               | Some l =>
                   match resolve_base p st (ci_mod ci) (ci_env ci) b with
                   | Some (OClass d) =>
                       match mro f p st cs d with
                       | Some l' => Some (l ++ l')
                       | None => None
                       end
                   | Some (OExt e) =>
                       match lookup e (p_ext_classes p) with
                       | Some _ => Some (l ++ [OExt e])
                       | None => None
                       end
                   | _ => None
                   end
               end)
            (sc_bases (ci_scope ci)) (Some [OClass cid])
      end
  end.

Definition object_origin : origin := OExt "builtins.object".

Definition class_mro (p : program) (st : state) (cs : list cinfo) (cid : name) : option (list origin) :=
  match mro (S (List.length cs)) p st cs cid with
  | Some l => Some (l ++ [object_origin])
  | None => None
  end.

(* --- what a method reads from / writes to its instance -------------------- *)

(* in the function-like scope [c] the name [self] no longer denotes the
   enclosing method's first parameter *)
Definition shadows (self : name) (c : scope) : bool :=
  mem self (sc_globals c)
  || ((mem self (sc_params c) || mem self (sc_binds c)) && negb (mem self (sc_nonlocals c))).

Definition attrs_on (self : name) (l : list (name * name)) : list name :=
  map snd (filter (fun bx => String.eqb (fst bx) self) l).

(* attributes read as [self.x] in scope [s] and in the scopes nested in it that
   still see the same [self] (class bodies do not hide it from their methods) *)
Fixpoint self_uses (self : name) (s : scope) : list name :=
  (if is_class s && mem self (sc_binds s) then [] else attrs_on self (sc_attrs s))
  ++ flat_map (fun c => if negb (is_class c) && shadows self c then [] else self_uses self c)
              (sc_children s).

Fixpoint self_stores (self : name) (s : scope) : list name :=
  (if is_class s && mem self (sc_binds s) then [] else attrs_on self (sc_attr_stores s))
  ++ flat_map (fun c => if negb (is_class c) && shadows self c then [] else self_stores self c)
              (sc_children s).

Definition is_instance_method (s : scope) : bool :=
  match sc_kind s with
  | KFun => negb (mem "staticmethod" (sc_decos s)) && negb (mem "classmethod" (sc_decos s))
            && match sc_params s with [] => false | _ => true end
  | _ => false
  end.

Definition self_name (s : scope) : name := hd "" (sc_params s).
Definition methods (c : scope) : list scope := filter is_instance_method (sc_children c).

(* names an instance gets from class [c]: class-body bindings and every
   [self.x = ...] in one of its methods *)
Definition class_attrs (c : scope) : list name :=
  sc_binds c ++ flat_map (fun mt => self_stores (self_name mt) mt) (methods c).

Definition origin_attrs (p : program) (cs : list cinfo) (o : origin) : list name :=
  match o with
  | OClass d => match class_info cs d with Some ci => class_attrs (ci_scope ci) | None => [] end
  | OExt e => match lookup e (p_ext_classes p) with Some l => l | None => [] end
  | _ => []
  end.

Definition cids_of (l : list origin) : list name :=
  flat_map (fun o => match o with OClass d => [d] | _ => [] end) l.

Lemma cids_of_In : forall l d, In d (cids_of l) <-> In (OClass d) l.
Proof.
  intros l d. unfold cids_of. rewrite in_flat_map. split.
  - intros [o [Ho Hd]]. destruct o; simpl in Hd; try tauto.
    destruct Hd as [Hd|[]]. subst. exact Ho.
  - intros H. exists (OClass d). split; [exact H | simpl; auto].
Qed.

Definition ext_attrs (p : program) (e : name) : list name :=
  match lookup e (p_ext_classes p) with Some l => l | None => [] end.

Definition mro_attrs (p : program) (cs : list cinfo) (l : list origin) : list name :=
  p_inst_implicit p ++ flat_map (origin_attrs p cs) l.
