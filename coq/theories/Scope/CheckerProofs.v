(* Scope/CheckerProofs.v — soundness of the C20 checker, for ALL programs:
   every place where Spec.program_ok can fail is listed by [check p]
   ([check_lists_all]); hence [check p = []] implies [program_ok p]
   ([check_sound]).  Independent of the repository. *)
From Coq Require Import List String Bool NArith.
From N0 Require Import Scope.Lang Scope.Sem Scope.Spec Scope.Checker.
Import ListNotations.
Open Scope string_scope.
Open Scope list_scope.

(* ------------------------------------------------------------------ LEGB -- *)

Lemma funlocal_true : forall s n,
  funlocal s n = true ->
  ~ In n (sc_globals s) /\ ~ In n (sc_nonlocals s) /\ (In n (sc_params s) \/ In n (sc_binds s)).
Proof.
  intros s n H. unfold funlocal in H.
  apply andb_true_iff in H. destruct H as [H Hnl].
  apply andb_true_iff in H. destruct H as [Hb Hg].
  apply negb_true_iff in Hnl. apply negb_true_iff in Hg.
  apply mem_false in Hnl. apply mem_false in Hg.
  apply orb_true_iff in Hb. repeat rewrite mem_In in Hb. tauto.
Qed.

Lemma lookup_free_sound : forall env n, lookup_free env n = true -> free_in env n.
Proof.
  induction env as [|s rest IH]; intros n H; simpl in H; [discriminate|].
  destruct (is_class s) eqn:Hc.
  - apply orb_true_iff in H. destruct H as [H|H].
    + apply String.eqb_eq in H. subst. apply free_class_cell. exact Hc.
    + apply free_up_class; [exact Hc | apply IH; exact H].
  - destruct (mem n (sc_globals s)) eqn:Hg; [discriminate|].
    apply mem_false in Hg.
    apply orb_true_iff in H. destruct H as [H|H].
    + apply funlocal_true in H. destruct H as [_ [Hnl Hb]].
      apply free_here; auto.
    + apply free_up_fun; [exact Hc | exact Hg | apply IH; exact H].
Qed.

Lemma localb_true : forall s n,
  localb s n = true -> ~ In n (sc_nonlocals s) /\ binds_here s n.
Proof.
  intros s n H. unfold localb in H.
  apply andb_true_iff in H. destruct H as [Hb Hnl].
  apply negb_true_iff in Hnl. apply mem_false in Hnl. split; [exact Hnl|].
  unfold binds_here.
  apply orb_true_iff in Hb. destruct Hb as [Hb|Hb].
  - apply orb_true_iff in Hb. repeat rewrite mem_In in Hb. tauto.
  - apply andb_true_iff in Hb. rewrite mem_In in Hb. tauto.
Qed.

Section Sound.
  Variable p : program.

  Lemma globalb_sound : forall m n,
    globalb p (fin p) m n = true -> bound_in_module p m n \/ is_builtin p n.
  Proof.
    intros m n H. unfold globalb in H. apply orb_true_iff in H.
    repeat rewrite mem_In in H. exact H.
  Qed.

  Lemma resolvesb_sound : forall m env s n,
    resolvesb (globalb p (fin p) m) env s n = true -> resolves p m env s n.
  Proof.
    intros m env s n H. unfold resolvesb in H.
    assert (G : globalb p (fin p) m n = true -> resolves p m env s n).
    { intros Hg. apply globalb_sound in Hg. destruct Hg; [apply res_global | apply res_builtin]; assumption. }
    destruct (mem n (sc_globals s)) eqn:Hg; [exact (G H)|].
    apply mem_false in Hg.
    apply orb_true_iff in H. destruct H as [H|H]; [|exact (G H)].
    apply orb_true_iff in H. destruct H as [H|H].
    - apply localb_true in H. destruct H. apply res_local; assumption.
    - apply res_free; [exact Hg | apply lookup_free_sound; exact H].
  Qed.

  (* ------------------------------------------------- traversal is complete -- *)

  Lemma check_scope_eq : forall gl m env s,
    check_scope gl m env s =
    map (fun n => VUnbound m (path_of env s) (sc_line s) n)
        (filter (fun n => negb (resolvesb gl env s n)) (sc_loads s))
    ++ flat_map (check_scope gl m (s :: env)) (sc_children s).
  Proof. intros gl m env s. destruct s; reflexivity. Qed.

  Lemma check_scope_complete : forall gl m env0 r env s,
    reach env0 r env s ->
    forall n, In n (sc_loads s) -> resolvesb gl env s n = false ->
    In (VUnbound m (path_of env s) (sc_line s) n) (check_scope gl m env0 r).
  Proof.
    intros gl m env0 r env s Hr. induction Hr as [env s | env s c env' s' Hc Hr IH]; intros n Hn Hb.
    - rewrite check_scope_eq. apply in_or_app. left.
      apply in_map. apply filter_In. split; [exact Hn|]. rewrite Hb. reflexivity.
    - rewrite check_scope_eq. apply in_or_app. right.
      apply in_flat_map. exists c. split; [exact Hc|]. apply IH; assumption.
  Qed.

  Lemma in_check_loads : forall v, In v (check_loads p (fin p)) -> In v (check p).
  Proof.
    intros v H. unfold check. fold (fin p).
    apply in_or_app. right. apply in_or_app. right. apply in_or_app. left. exact H.
  Qed.

  Lemma in_check_exports : forall v, In v (check_exports p (fin p)) -> In v (check p).
  Proof.
    intros v H. unfold check. fold (fin p).
    apply in_or_app. right. apply in_or_app. left. exact H.
  Qed.

  Lemma in_check_classes : forall v, In v (check_classes p (fin p)) -> In v (check p).
  Proof.
    intros v H. unfold check. fold (fin p).
    apply in_or_app. right. apply in_or_app. right. apply in_or_app. right.
    apply in_or_app. left. exact H.
  Qed.

  Lemma in_check_attr_reads : forall v, In v (check_attr_reads p (fin p)) -> In v (check p).
  Proof.
    intros v H. unfold check. fold (fin p).
    apply in_or_app. right. apply in_or_app. right. apply in_or_app. right.
    apply in_or_app. right. exact H.
  Qed.

  Lemma in_import_errs : forall v, In v (st_errs (fin p)) -> In v (check p).
  Proof.
    intros v H. unfold check. fold (fin p). apply in_or_app. left. exact H.
  Qed.

  (* every read that does not resolve is reported, with its location *)
  Theorem loads_listed : forall md env s n,
    load_site p md env s n ->
    resolves p (m_name md) env s n
    \/ In (VUnbound (m_name md) (path_of env s) (sc_line s) n) (check p).
  Proof.
    intros md env s n [Hmd [[r [Hr Hreach]] Hn]].
    destruct (resolvesb (globalb p (fin p) (m_name md)) env s n) eqn:Hb.
    - left. apply resolvesb_sound. exact Hb.
    - right. apply in_check_loads. unfold check_loads.
      apply in_flat_map. exists md. split; [exact Hmd|].
      unfold check_module. apply in_flat_map. exists r. split; [exact Hr|].
      apply check_scope_complete with (1 := Hreach); assumption.
  Qed.

  (* ---------------------------------------------------------------- exports -- *)

  Theorem exports_listed : forall md l n,
    In md (p_modules p) -> module_all p (m_name md) = Some l -> In n l ->
    (bound_in_module p (m_name md) n \/ In (VAllEntry (m_name md) n) (check p))
    /\ (bound_in_module p (p_pkg p) n \/ In (VNotExposed (m_name md) n) (check p)).
  Proof.
    intros md l n Hmd Hall Hn.
    assert (E : forall v,
      In v (check_exports_of p (fin p) (map fst (ns_of (fin p) (p_pkg p))) md) -> In v (check p)).
    { intros v Hv. apply in_check_exports. unfold check_exports.
      apply in_flat_map. exists md. split; assumption. }
    unfold module_all in Hall. unfold check_exports_of in E. rewrite Hall in E.
    split.
    - destruct (mem n (map fst (ns_of (fin p) (m_name md)))) eqn:Hm.
      + left. apply mem_In in Hm. exact Hm.
      + right. apply E. apply in_or_app. left. apply in_map. apply filter_In.
        split; [exact Hn | rewrite Hm; reflexivity].
    - destruct (mem n (map fst (ns_of (fin p) (p_pkg p)))) eqn:Hm.
      + left. apply mem_In in Hm. exact Hm.
      + right. apply E. apply in_or_app. right. apply in_map. apply filter_In.
        split; [exact Hn | rewrite Hm; reflexivity].
  Qed.

  (* ---------------------------------------------------------------- classes -- *)

  Definition mros_of : list (name * option (list origin)) :=
    map (fun ci => (ci_id ci, class_mro p (fin p) (classes p) (ci_id ci))) (classes p).

  Lemma in_check_class : forall ci v,
    In ci (classes p) -> In v (check_class p (fin p) (classes p) mros_of ci) -> In v (check p).
  Proof.
    intros ci v Hci Hv. apply in_check_classes. unfold check_classes.
    apply in_flat_map. exists ci. split; [exact Hci | exact Hv].
  Qed.

  Theorem bases_listed : forall ci,
    In ci (classes p) ->
    (exists l, mro_of p (ci_id ci) = Some l) \/ In (VBase (ci_mod ci) (ci_id ci)) (check p).
  Proof.
    intros ci Hci. unfold mro_of.
    destruct (class_mro p (fin p) (classes p) (ci_id ci)) as [l|] eqn:Hm.
    - left. exists l. reflexivity.
    - right. apply (in_check_class ci _ Hci). unfold check_class. rewrite Hm. left. reflexivity.
  Qed.

  Lemma target_b : forall cid,
    target p cid -> leafb mros_of cid || exportedb p (fin p) cid = true.
  Proof.
    intros cid [Hl|He]; apply orb_true_iff.
    - left. unfold leafb. apply forallb_forall. intros e He.
      unfold mros_of in He. apply in_map_iff in He. destruct He as [ci' [Heq Hci']]. subst e. simpl.
      destruct (String.eqb (ci_id ci') cid) eqn:E; [reflexivity|]. simpl.
      apply String.eqb_neq in E.
      destruct (class_mro p (fin p) (classes p) (ci_id ci')) as [l'|] eqn:Hm; [|reflexivity].
      apply negb_true_iff. apply mem_false. rewrite cids_of_In.
      exact (Hl ci' l' Hci' E Hm).
    - right. destruct He as [l [n [Hall [Hn Hlk]]]].
      unfold exportedb. unfold module_all in Hall. rewrite Hall.
      apply existsb_exists. exists n. split; [exact Hn|].
      unfold module_ns in Hlk. rewrite Hlk. apply String.eqb_refl.
  Qed.

  Theorem self_listed : forall ci l di mt x,
    self_site p ci l di mt x ->
    attr_resolves p l x
    \/ In (VSelfAttr (ci_mod ci) (ci_id ci) (ci_id di) (sc_name mt) (sc_line mt) x) (check p).
  Proof.
    intros ci l di mt x [Hci [Ht [Hm [Hd [Hdi [Hmt [Him Hx]]]]]]].
    unfold mro_of in Hm.
    destruct (mem x (mro_attrs p (classes p) l)) eqn:Hmem.
    { left. apply mem_In in Hmem. unfold mro_attrs in Hmem. apply in_app_or in Hmem.
      destruct Hmem as [Hi|Hc]; [left; exact Hi|].
      right. apply in_flat_map in Hc. destruct Hc as [o [Ho Hxo]]. exists o. auto. }
    destruct (mem "__getattr__" (flat_map (origin_attrs p (classes p)) l)) eqn:Hdyn.
    { left. right. apply mem_In in Hdyn. apply in_flat_map in Hdyn.
      destruct Hdyn as [o [Ho Hxo]]. exists o. auto. }
    right. apply (in_check_class ci _ Hci). unfold check_class. rewrite Hm.
    rewrite (target_b _ Ht). rewrite Hdyn.
    apply in_flat_map. exists (ci_id di). split; [apply cids_of_In; exact Hd|].
    rewrite Hdi. unfold check_methods_of.
    apply in_flat_map. exists mt. split.
    - unfold methods. apply filter_In. split; assumption.
    - apply in_map. apply filter_In. split; [exact Hx | rewrite Hmem; reflexivity].
  Qed.

  (* ------------------------------------- attributes of package classes/modules -- *)

  Lemma check_attr_scope_eq : forall ok m env s,
    check_attr_scope ok m env s =
    map (fun bx => VAttr m (path_of env s) (sc_line s) (fst bx) (snd bx))
        (filter (fun bx => global_read env s (fst bx) && negb (ok (fst bx) (snd bx))) (sc_attrs s))
    ++ flat_map (check_attr_scope ok m (s :: env)) (sc_children s).
  Proof. intros ok m env s. destruct s; reflexivity. Qed.

  Lemma check_attr_scope_complete : forall ok m env0 r env s,
    reach env0 r env s ->
    forall b x, In (b, x) (sc_attrs s) -> global_read env s b = true -> ok b x = false ->
    In (VAttr m (path_of env s) (sc_line s) b x) (check_attr_scope ok m env0 r).
  Proof.
    intros ok m env0 r env s Hr. induction Hr as [env s | env s c env' s' Hc Hr IH]; intros b x Hn Hg Hb.
    - rewrite check_attr_scope_eq. apply in_or_app. left.
      apply (in_map (fun bx => VAttr m (path_of env s) (sc_line s) (fst bx) (snd bx)) _ (b, x)).
      apply filter_In. split; [exact Hn|]. simpl. rewrite Hg, Hb. reflexivity.
    - rewrite check_attr_scope_eq. apply in_or_app. right.
      apply in_flat_map. exists c. split; [exact Hc|]. apply IH; assumption.
  Qed.

  Lemma object_hasb_sound : forall o x,
    object_hasb p (fin p) (classes p) o x = true -> object_has p o x.
  Proof.
    intros o x H. destruct o as [m'|e|c|e|]; simpl in *; try exact I.
    - apply orb_true_iff in H. destruct H as [H|H].
      + apply orb_true_iff in H. destruct H as [H|H]; apply mem_In in H; [left | right; left]; exact H.
      + apply mem_In in H. right. right. exact H.
    - intros l Hl. unfold mro_of in Hl. rewrite Hl in H.
      apply orb_true_iff in H. destruct H as [H|H].
      + left. apply orb_true_iff in H. destruct H as [H|H]; apply mem_In in H.
        * unfold mro_attrs in H. apply in_app_or in H. destruct H as [H|H]; [left; exact H|].
          right. apply in_flat_map in H. destruct H as [o [Ho Hx]]. exists o. auto.
        * right. apply in_flat_map in H. destruct H as [o [Ho Hx]]. exists o. auto.
      + right. apply mem_In in H. exact H.
  Qed.

  Theorem attrs_listed : forall md env s b x o,
    attr_site p md env s b x -> global_read env s b = true ->
    lookup b (module_ns p (m_name md)) = Some o ->
    object_has p o x \/ In (VAttr (m_name md) (path_of env s) (sc_line s) b x) (check p).
  Proof.
    intros md env s b x o [Hmd [[r [Hr Hreach]] Hn]] Hg Hlk.
    destruct (attr_okb p (fin p) (classes p) (m_name md) b x) eqn:Hb.
    - left. unfold attr_okb in Hb. unfold module_ns in Hlk. rewrite Hlk in Hb.
      apply object_hasb_sound. exact Hb.
    - right. apply in_check_attr_reads. unfold check_attr_reads.
      apply in_flat_map. exists md. split; [exact Hmd|].
      apply in_flat_map. exists r. split; [exact Hr|].
      apply check_attr_scope_complete with (1 := Hreach); assumption.
  Qed.

  (* ------------------------------------------------------------- main theorems -- *)

  (* the property up to a list of recorded violations *)
  Record ok_modulo (known : list violation) : Prop := {
    km_import : forall v, In v (st_errs (fin p)) -> In v known;
    km_exports : forall md l n,
      In md (p_modules p) -> module_all p (m_name md) = Some l -> In n l ->
      (bound_in_module p (m_name md) n \/ In (VAllEntry (m_name md) n) known)
      /\ (bound_in_module p (p_pkg p) n \/ In (VNotExposed (m_name md) n) known);
    km_loads : forall md env s n,
      load_site p md env s n ->
      resolves p (m_name md) env s n
      \/ In (VUnbound (m_name md) (path_of env s) (sc_line s) n) known;
    km_bases : forall ci,
      In ci (classes p) ->
      (exists l, mro_of p (ci_id ci) = Some l) \/ In (VBase (ci_mod ci) (ci_id ci)) known;
    km_self : forall ci l di mt x,
      self_site p ci l di mt x ->
      attr_resolves p l x
      \/ In (VSelfAttr (ci_mod ci) (ci_id ci) (ci_id di) (sc_name mt) (sc_line mt) x) known;
    km_attrs : forall md env s b x o,
      attr_site p md env s b x -> global_read env s b = true ->
      lookup b (module_ns p (m_name md)) = Some o ->
      object_has p o x \/ In (VAttr (m_name md) (path_of env s) (sc_line s) b x) known
  }.

  Theorem check_lists_all : ok_modulo (check p).
  Proof.
    constructor.
    - exact in_import_errs.
    - exact exports_listed.
    - exact loads_listed.
    - exact bases_listed.
    - exact self_listed.
    - exact attrs_listed.
  Qed.

  Theorem ok_modulo_nil : ok_modulo [] -> program_ok p.
  Proof.
    intros [Hi He Hl Hb Hs Ha]. constructor.
    - unfold import_clean. destruct (st_errs (fin p)) as [|v r] eqn:E; [reflexivity|].
      exfalso. apply (Hi v). left. reflexivity.
    - intros md l n Hmd Hall Hn. destruct (He md l n Hmd Hall Hn) as [[A|[]] [B|[]]]. split; assumption.
    - intros md env s n Hsite. destruct (Hl md env s n Hsite) as [A|[]]. exact A.
    - intros ci Hci. destruct (Hb ci Hci) as [A|[]]. exact A.
    - intros ci l di mt x Hsite. destruct (Hs ci l di mt x Hsite) as [A|[]]. exact A.
    - intros md env s b x o Hsite Hg Hlk. destruct (Ha md env s b x o Hsite Hg Hlk) as [A|[]]. exact A.
  Qed.

  Theorem check_sound : check p = [] -> program_ok p.
  Proof.
    intros H. apply ok_modulo_nil. rewrite <- H. exact check_lists_all.
  Qed.
End Sound.

Theorem loads_listed_unfolded :
  forall (p : program) (md : module) (env : list scope) (s : scope) (n : name),
  In md (p_modules p) ->
  (exists r, In r (m_scopes md) /\ reach [] r env s) ->
  In n (sc_loads s) ->
  resolves p (m_name md) env s n
  \/ In (VUnbound (m_name md) (path_of env s) (sc_line s) n) (check p).
Proof. intros p md env s n H1 H2 H3. apply loads_listed. repeat split; assumption. Qed.

(* --------------------------------------------- no false alarms for reads -- *)

Lemma lookup_free_complete : forall env n, free_in env n -> lookup_free env n = true.
Proof.
  intros env n H. induction H as [s env n Hf Hg Hnl Hb | s env Hc | s env n Hf Hg H IH | s env n Hc H IH]; simpl.
  - unfold funlike in Hf. rewrite Hf.
    apply mem_false in Hg. rewrite Hg.
    apply orb_true_iff. left. unfold funlocal. rewrite Hg.
    apply mem_false in Hnl. rewrite Hnl. simpl.
    rewrite andb_true_r. rewrite andb_true_r. apply orb_true_iff. repeat rewrite mem_In. exact Hb.
  - rewrite Hc. reflexivity.
  - unfold funlike in Hf. rewrite Hf. apply mem_false in Hg. rewrite Hg. rewrite IH. apply orb_true_r.
  - rewrite Hc. rewrite IH. apply orb_true_r.
Qed.

Lemma resolvesb_complete : forall p m env s n,
  resolves p m env s n -> resolvesb (globalb p (fin p) m) env s n = true.
Proof.
  intros p m env s n H. unfold resolvesb.
  assert (G : bound_in_module p m n \/ is_builtin p n -> globalb p (fin p) m n = true).
  { intros HG. unfold globalb. apply orb_true_iff. repeat rewrite mem_In. exact HG. }
  destruct H as [Hg Hnl Hb | Hg Hf | Hb | Hb].
  - apply mem_false in Hg. rewrite Hg. apply orb_true_iff. left. apply orb_true_iff. left.
    unfold localb. apply mem_false in Hnl. rewrite Hnl. rewrite andb_true_r.
    destruct Hb as [Hb|[Hb|[Hc Hb]]].
    + apply mem_In in Hb. rewrite Hb. reflexivity.
    + apply mem_In in Hb. rewrite Hb. rewrite orb_true_r. reflexivity.
    + rewrite Hc. apply mem_In in Hb. rewrite Hb. apply orb_true_r.
  - apply mem_false in Hg. rewrite Hg. apply orb_true_iff. left. apply orb_true_iff. right.
    apply lookup_free_complete. exact Hf.
  - rewrite (G (or_introl Hb)). destruct (mem n (sc_globals s)); [reflexivity | apply orb_true_r].
  - rewrite (G (or_intror Hb)). destruct (mem n (sc_globals s)); [reflexivity | apply orb_true_r].
Qed.

Lemma check_scope_exact : forall gl m r env0 v,
  In v (check_scope gl m env0 r) ->
  exists env s n, reach env0 r env s /\ In n (sc_loads s) /\ resolvesb gl env s n = false
                  /\ v = VUnbound m (path_of env s) (sc_line s) n.
Proof.
  intros gl m r. induction r as [r IH] using scope_ind'. intros env0 v Hv.
  rewrite check_scope_eq in Hv. apply in_app_or in Hv. destruct Hv as [Hv|Hv].
  - apply in_map_iff in Hv. destruct Hv as [n [Hv Hn]]. apply filter_In in Hn. destruct Hn as [Hn Hb].
    exists env0, r, n. repeat split; auto.
    + apply reach_here.
    + apply negb_true_iff in Hb. exact Hb.
  - apply in_flat_map in Hv. destruct Hv as [c [Hc Hv]].
    rewrite Forall_forall in IH. destruct (IH c Hc _ _ Hv) as [env [s [n [Hr [Hn [Hb He]]]]]].
    exists env, s, n. repeat split; auto. apply reach_child with (c := c); assumption.
Qed.

(* every reported unbound read is a read that does not resolve *)
Theorem loads_exact : forall p v,
  In v (check_loads p (fin p)) ->
  exists md env s n, load_site p md env s n /\ ~ resolves p (m_name md) env s n
                     /\ v = VUnbound (m_name md) (path_of env s) (sc_line s) n.
Proof.
  intros p v Hv. unfold check_loads in Hv. apply in_flat_map in Hv. destruct Hv as [md [Hmd Hv]].
  unfold check_module in Hv. apply in_flat_map in Hv. destruct Hv as [r [Hr Hv]].
  apply check_scope_exact in Hv. destruct Hv as [env [s [n [Hreach [Hn [Hb He]]]]]].
  exists md, env, s, n. split; [|split].
  - split; [exact Hmd|]. split; [exists r; split; assumption | exact Hn].
  - intros Hres. apply resolvesb_complete in Hres. congruence.
  - exact He.
Qed.

(* ----------------------------------------------------- the relation is not void -- *)

(* LEGB facts about [resolves]/[free_in] that do not involve the checker: a name
   that only a class body binds is NOT visible from a method of that class *)
Lemma free_in_inv_class_only : forall c n,
  is_class c = true -> n <> "__class__" -> ~ free_in [c] n.
Proof.
  intros c n Hc Hn H. inversion H; subst.
  - unfold funlike in *. congruence.
  - congruence.
  - unfold funlike in *. congruence.
  - match goal with X : free_in [] _ |- _ => inversion X end.
Qed.
