(* Scope/Spec.v — what property C20 says about a [program], declaratively.

   "every reference in every function body resolves when the package is
   imported; every name in an export list exists and the package namespace
   exposes it" — over the module namespaces that [Sem.run_imports] produces.

   [resolves] is Python's scoping rule (local / enclosing function / module
   global / builtin, class bodies invisible to the functions nested in them,
   [global] declarations cutting the search) as an inductive relation; it does
   not mention the checker. *)
From Coq Require Import List String Bool NArith.
From N0 Require Import Scope.Lang Scope.Sem.
Import ListNotations.
Open Scope string_scope.
Open Scope list_scope.

(* [reach env0 r env s]: scope [s] occurs in the tree rooted at [r] (whose own
   enclosing scopes are [env0]) and [env] is the list of the scopes enclosing
   [s], innermost first. *)
Inductive reach : list scope -> scope -> list scope -> scope -> Prop :=
| reach_here : forall env s, reach env s env s
| reach_child : forall env s c env' s',
    In c (sc_children s) -> reach (s :: env) c env' s' -> reach env s env' s'.

Definition funlike (s : scope) : Prop := is_class s = false.

(* the scope binds [n] itself: parameter, assignment/def/import/for/with/except
   target ... (flow-insensitive), or one of the implicit class-body names *)
Definition binds_here (s : scope) (n : name) : Prop :=
  In n (sc_params s) \/ In n (sc_binds s) \/ (is_class s = true /\ In n class_implicit).

(* [n] is a closure variable: an enclosing *function-like* scope binds it, and
   no scope in between declares it global.  Class bodies are skipped; they only
   provide the implicit [__class__] cell. *)
Inductive free_in : list scope -> name -> Prop :=
| free_here : forall s env n,
    funlike s -> ~ In n (sc_globals s) -> ~ In n (sc_nonlocals s) ->
    In n (sc_params s) \/ In n (sc_binds s) ->
    free_in (s :: env) n
| free_class_cell : forall s env,
    is_class s = true -> free_in (s :: env) "__class__"
| free_up_fun : forall s env n,
    funlike s -> ~ In n (sc_globals s) -> free_in env n -> free_in (s :: env) n
| free_up_class : forall s env n,
    is_class s = true -> free_in env n -> free_in (s :: env) n.

Section Spec.
  Variable p : program.

  Definition fin : state := run_imports p.
  Definition module_ns (m : mname) : list (name * origin) := ns_of fin m.
  Definition module_all (m : mname) : option (list name) := all_of fin m.

  (* the name exists in the module's namespace once the package is imported *)
  Definition bound_in_module (m : mname) (n : name) : Prop := In n (map fst (module_ns m)).
  Definition is_builtin (n : name) : Prop := In n (p_builtins p).

  (* a read of [n] in scope [s] of module [m] (enclosing scopes [env]) finds a binding *)
  Inductive resolves (m : mname) (env : list scope) (s : scope) (n : name) : Prop :=
  | res_local : ~ In n (sc_globals s) -> ~ In n (sc_nonlocals s) -> binds_here s n -> resolves m env s n
  | res_free : ~ In n (sc_globals s) -> free_in env n -> resolves m env s n
  | res_global : bound_in_module m n -> resolves m env s n
  | res_builtin : is_builtin n -> resolves m env s n.

  (* a "load site": module, root scope, enclosing scopes, scope, name *)
  Definition load_site (md : module) (env : list scope) (s : scope) (n : name) : Prop :=
    In md (p_modules p) /\ (exists r, In r (m_scopes md) /\ reach [] r env s) /\ In n (sc_loads s).

  Definition all_loads_resolve : Prop :=
    forall md env s n, load_site md env s n -> resolves (m_name md) env s n.

  (* --- own methods / attributes through self ------------------------------ *)

  Definition classes : list cinfo := all_classes p.
  Definition mro_of (cid : name) : option (list origin) := class_mro p fin classes cid.

  (* some class among [l] gives its instances the attribute [x] (or a
     __getattr__ hook), or every instance has it *)
  Definition attr_resolves (l : list origin) (x : name) : Prop :=
    In x (p_inst_implicit p)
    \/ exists o, In o l /\ (In x (origin_attrs p classes o) \/ In "__getattr__" (origin_attrs p classes o)).

  (* classes whose instances users get: exported by the package, or without a
     subclass in the package (a base class that relies on what its subclasses
     add is judged through those subclasses) *)
  Definition leaf (cid : name) : Prop :=
    forall ci' l', In ci' classes -> ci_id ci' <> cid -> mro_of (ci_id ci') = Some l' -> ~ In (OClass cid) l'.
  Definition exported (cid : name) : Prop :=
    exists l n, module_all (p_pkg p) = Some l /\ In n l
                /\ lookup n (module_ns (p_pkg p)) = Some (OClass cid).
  Definition target (cid : name) : Prop := leaf cid \/ exported cid.

  (* a "self site": target class, its ancestors, defining class, method, attribute *)
  Definition self_site (ci : cinfo) (l : list origin) (di : cinfo) (mt : scope) (x : name) : Prop :=
    In ci classes /\ target (ci_id ci) /\ mro_of (ci_id ci) = Some l
    /\ In (OClass (ci_id di)) l /\ class_info classes (ci_id di) = Some di
    /\ In mt (sc_children (ci_scope di)) /\ is_instance_method mt = true
    /\ In x (self_uses (self_name mt) mt).

  Definition all_bases_known : Prop :=
    forall ci, In ci classes -> exists l, mro_of (ci_id ci) = Some l.

  Definition all_self_resolve : Prop :=
    forall ci l di mt x, self_site ci l di mt x -> attr_resolves l x.

  (* --- attributes of package classes and modules named directly ------------- *)

  (* the object has the attribute: a class through its ancestors (or [type]),
     a module through its namespace after import; other objects are not judged *)
  Definition object_has (o : origin) (x : name) : Prop :=
    match o with
    | OClass c => forall l, mro_of c = Some l -> attr_resolves l x \/ In x (ext_attrs p "builtins.type")
    | OMod m' => bound_in_module m' x \/ In x (p_mod_implicit p) \/ In x (ext_attrs p "builtins.module")
    | _ => True
    end.

  Definition attr_site (md : module) (env : list scope) (s : scope) (b x : name) : Prop :=
    In md (p_modules p) /\ (exists r, In r (m_scopes md) /\ reach [] r env s) /\ In (b, x) (sc_attrs s).

  (* [b.x] with [b] looked up as a global that the module namespace binds to [o] *)
  Definition all_attr_reads_resolve : Prop :=
    forall md env s b x o,
      attr_site md env s b x -> global_read env s b = true ->
      lookup b (module_ns (m_name md)) = Some o -> object_has o x.

  (* --- export lists --------------------------------------------------------- *)

  Definition all_exports_ok : Prop :=
    forall md l n, In md (p_modules p) -> module_all (m_name md) = Some l -> In n l ->
                   bound_in_module (m_name md) n /\ bound_in_module (p_pkg p) n.

  (* nothing went wrong while the module bodies ran (a name imported from a
     sibling that lacks it, a module-level read of an unbound name, ...) *)
  Definition import_clean : Prop := st_errs fin = [].

  Record program_ok : Prop := {
    ok_import : import_clean;
    ok_exports : all_exports_ok;
    ok_loads : all_loads_resolve;
    ok_bases : all_bases_known;
    ok_self : all_self_resolve;
    ok_attrs : all_attr_reads_resolve
  }.
End Spec.
