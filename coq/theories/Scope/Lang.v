(* Scope/Lang.v — the name-binding skeleton of a Python package (C20).

   A term of type [program] is NOT written by hand: it is regenerated from the
   source files of the repository on every run by the fail-closed translator
   harness/n0v_scope (Python [ast]).  It keeps only what matters for the question
   "does every reference to a global name, an imported helper or an own method
   resolve": per module the ordered list of import-time events (bindings, imports,
   star imports, [__all__] assignments, module-level uses) and per function /
   lambda / comprehension / class body a [scope] record with the names it binds,
   declares global/nonlocal, loads, and the [base.attr] pairs it reads and writes.

   Everything semantic (Python's import-time evolution of module namespaces,
   star-import expansion through [__all__], the LEGB rule, class ancestors and
   attribute tables) is defined in Gallina (this file and Checker.v), not in the
   translator. *)
From Coq Require Import List Ascii String Bool NArith.
Import ListNotations.
Open Scope string_scope.
Open Scope list_scope.

Definition name := string.
Definition mname := string.      (* dotted absolute module name *)

(* ---------------------------------------------------------------- scopes -- *)

Inductive kind := KFun | KLambda | KComp | KClass.

(* a base-class expression *)
Inductive bexpr :=
| BName (n : name)               (* class C(n) *)
| BDotted (path : list name)     (* class C(a.b.c) *)
| BOther.                        (* anything else: not decidable statically *)

Inductive scope := Scope {
  sc_kind : kind;
  sc_name : name;                        (* def/class name, "lambda", "listcomp", ... *)
  sc_line : N;
  sc_cid : name;                         (* KClass: unique class id "module:qualname"; "" otherwise *)
  sc_bases : list bexpr;                 (* KClass *)
  sc_decos : list name;                  (* decorators that are plain names ("?" for others) *)
  sc_params : list name;
  sc_binds : list name;                  (* names bound by statements/expressions directly in this scope *)
  sc_globals : list name;                (* [global] declarations *)
  sc_nonlocals : list name;              (* [nonlocal] declarations *)
  sc_loads : list name;                  (* names read directly in this scope *)
  sc_attrs : list (name * name);         (* reads  b.x  with b a plain name *)
  sc_attr_stores : list (name * name);   (* writes b.x = ... *)
  sc_children : list scope               (* nested functions, lambdas, comprehensions, classes *)
}.

(* induction principle for the nested inductive *)
Section ScopeInd.
  Variable P : scope -> Prop.
  Hypothesis H : forall s, Forall P (sc_children s) -> P s.
  Fixpoint scope_ind' (s : scope) : P s :=
    H s ((fix go (l : list scope) : Forall P l :=
            match l with
            | [] => Forall_nil P
            | c :: r => Forall_cons c (scope_ind' c) (go r)
            end) (sc_children s)).
End ScopeInd.

Definition is_class (s : scope) : bool :=
  match sc_kind s with KClass => true | _ => false end.

(* ---------------------------------------------------------------- modules -- *)

(* what a module-namespace entry denotes *)
Inductive origin :=
| OMod (m : mname)        (* a module of the package itself *)
| OExtMod (m : mname)     (* a module outside the package *)
| OClass (cid : name)     (* a class defined in the package *)
| OExt (path : name)      (* an object imported from outside: "collections.abc.MutableSet", "builtins.dict" *)
| OVal.                   (* a function or any other value *)

(* the right-hand side of  __all__ = ...  *)
Inductive allexpr :=
| ALit (l : list name)            (* ('a', 'b') / ['a', 'b'] *)
| ARef (modvar : name)            (* modvar.__all__ *)
| ACat (a b : allexpr)            (* a + b *)
| AUnknown.                       (* not statically evaluable *)

(* import-time events of a module body, in source order (compound statements
   flattened: every branch is taken) *)
Inductive mstmt :=
| MUse (loads : list name)                          (* names read by a module-level statement at this point *)
| MBind (n : name)                                  (* assignment / def / for target / ... *)
| MClass (n : name) (cid : name)                    (* class statement *)
| MImport (bind : name) (bound : mname) (execs : list mname)
                                                    (* import a.b.c [as x]: runs a, a.b, a.b.c; binds [bind] to module [bound] *)
| MFrom (target : mname) (items : list (name * name))  (* from target import a as b, ... *)
| MStar (target : mname)                            (* from target import * *)
| MAll (e : allexpr)                                (* __all__ = e *)
| MAllAdd (e : allexpr)                             (* __all__ += e *)
| MDel (n : name).

Record module := Module {
  m_name : mname;
  m_parent : option mname;          (* the package a submodule lives in *)
  m_short : name;                   (* attribute name under which the parent package gets it *)
  m_body : list mstmt;
  m_scopes : list scope             (* top-level functions, classes, lambdas, comprehensions *)
}.

Record program := Program {
  p_pkg : mname;                               (* the root package *)
  p_modules : list module;                     (* root package first *)
  p_builtins : list name;                      (* dir(builtins) *)
  p_mod_implicit : list name;                  (* __name__, __file__, ... : present in every module *)
  p_inst_implicit : list name;                 (* attributes every instance of a Python class has *)
  p_ext_classes : list (name * list name)      (* dir() of the outside classes used as bases *)
}.

(* ------------------------------------------------------------- utilities -- *)

Definition mem (n : name) (l : list name) : bool := existsb (String.eqb n) l.

Lemma mem_In : forall n l, mem n l = true <-> In n l.
Proof.
  intros n l. unfold mem. rewrite existsb_exists. split.
  - intros [x [Hx He]]. apply String.eqb_eq in He. subst. exact Hx.
  - intros Hin. exists n. split; [exact Hin | apply String.eqb_refl].
Qed.

Lemma mem_false : forall n l, mem n l = false <-> ~ In n l.
Proof.
  intros n l. rewrite <- mem_In. destruct (mem n l); split; intro H; try discriminate; auto.
  exfalso. apply H. reflexivity.
Qed.

Fixpoint lookup {A} (n : name) (l : list (name * A)) : option A :=
  match l with
  | [] => None
  | (k, v) :: r => if String.eqb n k then Some v else lookup n r
  end.

Lemma lookup_In : forall A n (l : list (name * A)) v, lookup n l = Some v -> In (n, v) l.
Proof.
  induction l as [|[k w] r IH]; simpl; intros v Hl; [discriminate|].
  destruct (String.eqb n k) eqn:E.
  - apply String.eqb_eq in E. inversion Hl. subst. left. reflexivity.
  - right. apply IH. exact Hl.
Qed.

Lemma lookup_In_fst : forall A n (l : list (name * A)) v, lookup n l = Some v -> In n (map fst l).
Proof.
  intros A n l v Hl. apply lookup_In in Hl. apply (in_map fst) in Hl. exact Hl.
Qed.

Lemma lookup_None : forall A n (l : list (name * A)), lookup n l = None -> ~ In n (map fst l).
Proof.
  induction l as [|[k w] r IH]; simpl; intros Hl; [tauto|].
  destruct (String.eqb n k) eqn:E; [discriminate|].
  intros [Hk|Hr].
  - subst. rewrite String.eqb_refl in E. discriminate.
  - exact (IH Hl Hr).
Qed.

Definition starts_with_underscore (n : name) : bool :=
  match n with
  | String c _ => Ascii.eqb c "_"%char
  | EmptyString => false
  end.

Definition find_module (p : program) (m : mname) : option module :=
  find (fun md => String.eqb (m_name md) m) (p_modules p).
