(* Scope/Checker.v — the decision procedure for C20: [check p] is the list of all
   violations of Spec.program_ok in [p].  Executable; run by [vm_compute] on the
   program regenerated from the repository on every run. *)
From Coq Require Import List String Bool NArith.
From N0 Require Import Scope.Lang Scope.Sem.
Import ListNotations.
Open Scope string_scope.
Open Scope list_scope.

(* --------------------------------------------------------------- LEGB ---- *)

(* [gl n]: n is in the module namespace or a builtin *)
Definition resolvesb (gl : name -> bool) (env : list scope) (s : scope) (n : name) : bool :=
  if mem n (sc_globals s) then gl n
  else localb s n || lookup_free env n || gl n.

Definition path_of (env : list scope) (s : scope) : list name :=
  rev (map sc_name env) ++ [sc_name s].

Fixpoint check_scope (gl : name -> bool) (m : mname) (env : list scope) (s : scope) : list violation :=
  map (fun n => VUnbound m (path_of env s) (sc_line s) n)
      (filter (fun n => negb (resolvesb gl env s n)) (sc_loads s))
  ++ flat_map (check_scope gl m (s :: env)) (sc_children s).

Definition globalb (p : program) (st : state) (m : mname) : name -> bool :=
  let names := map fst (ns_of st m) in
  fun n => mem n names || mem n (p_builtins p).

Definition check_module (p : program) (st : state) (md : module) : list violation :=
  let gl := globalb p st (m_name md) in
  flat_map (check_scope gl (m_name md) []) (m_scopes md).

Definition check_loads (p : program) (st : state) : list violation :=
  flat_map (check_module p st) (p_modules p).

(* ------------------------------- attribute reads on package classes/modules -- *)

(* does the object a global name denotes have attribute [x]?  Only decided for
   classes and modules of the package (everything else: true) *)
Definition object_hasb (p : program) (st : state) (cs : list cinfo) (o : origin) (x : name) : bool :=
  match o with
  | OClass c =>
      match class_mro p st cs c with
      | Some l => mem x (mro_attrs p cs l)
                  || mem "__getattr__" (flat_map (origin_attrs p cs) l)
                  || mem x (ext_attrs p "builtins.type")
      | None => true
      end
  | OMod m' => mem x (map fst (ns_of st m')) || mem x (p_mod_implicit p)
               || mem x (ext_attrs p "builtins.module")
  | _ => true
  end.

Definition attr_okb (p : program) (st : state) (cs : list cinfo) (m : mname) (b x : name) : bool :=
  match lookup b (ns_of st m) with
  | Some o => object_hasb p st cs o x
  | None => true
  end.

Fixpoint check_attr_scope (ok : name -> name -> bool) (m : mname) (env : list scope) (s : scope)
  : list violation :=
  map (fun bx => VAttr m (path_of env s) (sc_line s) (fst bx) (snd bx))
      (filter (fun bx => global_read env s (fst bx) && negb (ok (fst bx) (snd bx))) (sc_attrs s))
  ++ flat_map (check_attr_scope ok m (s :: env)) (sc_children s).

Definition check_attr_reads (p : program) (st : state) : list violation :=
  let cs := all_classes p in
  flat_map (fun md => flat_map (check_attr_scope (attr_okb p st cs (m_name md)) (m_name md) [])
                               (m_scopes md)) (p_modules p).

(* ------------------------------------------------------------ exports ---- *)

Definition check_exports_of (p : program) (st : state) (pkg_names : list name) (md : module)
  : list violation :=
  match all_of st (m_name md) with
  | None => []
  | Some l =>
      let own := map fst (ns_of st (m_name md)) in
      map (VAllEntry (m_name md)) (filter (fun n => negb (mem n own)) l)
      ++ map (VNotExposed (m_name md)) (filter (fun n => negb (mem n pkg_names)) l)
  end.

Definition check_exports (p : program) (st : state) : list violation :=
  let pkg_names := map fst (ns_of st (p_pkg p)) in
  flat_map (check_exports_of p st pkg_names) (p_modules p).

(* ------------------------------------------------------------ classes ---- *)

Definition leafb (mros : list (name * option (list origin))) (cid : name) : bool :=
  forallb (fun e => String.eqb (fst e) cid
                    || match snd e with
                       | Some l => negb (mem cid (cids_of l))
                       | None => true
                       end) mros.

Definition exportedb (p : program) (st : state) (cid : name) : bool :=
  match all_of st (p_pkg p) with
  | Some l => existsb (fun n => match lookup n (ns_of st (p_pkg p)) with
                                | Some (OClass d) => String.eqb d cid
                                | _ => false
                                end) l
  | None => false
  end.

Definition check_methods_of (m : mname) (target : name) (attrs : list name) (di : cinfo)
  : list violation :=
  flat_map (fun mt =>
              map (fun x => VSelfAttr m target (ci_id di) (sc_name mt) (sc_line mt) x)
                  (filter (fun x => negb (mem x attrs)) (self_uses (self_name mt) mt)))
           (methods (ci_scope di)).

Definition check_class (p : program) (st : state) (cs : list cinfo)
           (mros : list (name * option (list origin))) (ci : cinfo) : list violation :=
  match class_mro p st cs (ci_id ci) with
  | None => [VBase (ci_mod ci) (ci_id ci)]
  | Some l =>
      if leafb mros (ci_id ci) || exportedb p st (ci_id ci) then
        let attrs := mro_attrs p cs l in
        if mem "__getattr__" (flat_map (origin_attrs p cs) l) then [] else
        flat_map (fun d => match class_info cs d with
                           | Some di => check_methods_of (ci_mod ci) (ci_id ci) attrs di
                           | None => []
                           end) (cids_of l)
      else []
  end.

Definition check_classes (p : program) (st : state) : list violation :=
  let cs := all_classes p in
  let mros := map (fun ci => (ci_id ci, class_mro p st cs (ci_id ci))) cs in
  flat_map (check_class p st cs mros) cs.

(* ---------------------------------------------------------------- check -- *)

Definition check (p : program) : list violation :=
  let st := run_imports p in
  st_errs st ++ check_exports p st ++ check_loads p st ++ check_classes p st ++ check_attr_reads p st.

(* ---- read-outs used by the harness to cross-validate the translator and the
   semantics against the running interpreter (dir(module), symtable) -------- *)

Definition dump_namespaces (p : program) : list (mname * (list name * option (list name))) :=
  let st := run_imports p in
  map (fun md => (m_name md, (map fst (ns_of st (m_name md)), all_of st (m_name md)))) (p_modules p).

(* classification of every read: "L" local, "F" closure, "G" global/builtin lookup *)
Definition classify (env : list scope) (s : scope) (n : name) : string :=
  if mem n (sc_globals s) then "G"
  else if localb s n then "L"
  else if lookup_free env n then "F" else "G".

Inductive dtree := DNode (nm : name) (line : N) (k : kind) (loads : list (name * string)) (kids : list dtree).

Fixpoint dump_scope (env : list scope) (s : scope) : dtree :=
  DNode (sc_name s) (sc_line s) (sc_kind s)
        (map (fun n => (n, classify env s n)) (sc_loads s))
        (map (dump_scope (s :: env)) (sc_children s)).

Definition dump_scopes (p : program) : list (mname * list dtree) :=
  map (fun md => (m_name md, map (dump_scope []) (m_scopes md))) (p_modules p).

Definition dump_classes (p : program) : list (name * (option (list origin) * bool * list name)) :=
  let st := run_imports p in
  let cs := all_classes p in
  let mros := map (fun ci => (ci_id ci, class_mro p st cs (ci_id ci))) cs in
  map (fun ci => (ci_id ci, (class_mro p st cs (ci_id ci),
                             leafb mros (ci_id ci) || exportedb p st (ci_id ci),
                             class_attrs (ci_scope ci)))) cs.

(* the [b.x] reads that [check_attr_reads] judges: [b] a global naming a package class or module *)
Fixpoint attr_sites_scope (ns : list (name * origin)) (env : list scope) (s : scope) : list (name * name) :=
  filter (fun bx => global_read env s (fst bx)
                    && match lookup (fst bx) ns with
                       | Some (OClass _) | Some (OMod _) => true
                       | _ => false
                       end) (sc_attrs s)
  ++ flat_map (attr_sites_scope ns (s :: env)) (sc_children s).

Definition dump_attr_sites (p : program) : list (mname * list (name * name)) :=
  let st := run_imports p in
  map (fun md => (m_name md, flat_map (attr_sites_scope (ns_of st (m_name md)) []) (m_scopes md))) (p_modules p).
