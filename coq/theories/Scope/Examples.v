(* Scope/Examples.v — two small hand-written programs showing that the C20
   statements are neither vacuous nor trivially true:
   [demo_ok]  (star imports through __all__, a closure, a comprehension, a class
              that relies on an inherited method, an instance attribute and a
              dict method) satisfies [program_ok];
   [demo_bad] (the same package with one import deleted and one method renamed)
              has exactly two violations, and the unbound read really does not
              satisfy the declarative [resolves]. *)
From Coq Require Import List String Bool NArith.
From N0 Require Import Scope.Lang Scope.Sem Scope.Spec Scope.Checker Scope.CheckerProofs.
Import ListNotations.
Open Scope string_scope.
Open Scope N_scope.
Open Scope list_scope.

Definition sc0 (k : kind) (nm : name) (line : N) : scope :=
  Scope k nm line "" [] [] [] [] [] [] [] [] [] [].

(* pkg/a.py:
     import os
     def helper(x): return os.sep + x
     def outer(y):
         z = 1
         def inner(): return z + len([q + z for q in y]) + helper(y)
         return inner
     __all__ = ('helper', 'outer')                                               *)
Definition a_helper : scope :=
  Scope KFun "helper" 2 "" [] [] ["x"] [] [] [] ["os"; "x"] [("os", "sep")] [] [].
Definition a_comp : scope :=
  Scope KComp "listcomp" 6 "" [] [] [] ["q"] [] [] ["q"; "z"] [] [] [].
Definition a_inner : scope :=
  Scope KFun "inner" 6 "" [] [] [] [] [] [] ["z"; "len"; "y"; "helper"] [] [] [a_comp].
Definition a_outer : scope :=
  Scope KFun "outer" 3 "" [] [] ["y"] ["z"; "inner"] [] [] ["inner"] [] [] [a_inner].
Definition mod_a : module :=
  Module "pkg.a" (Some "pkg") "a"
    [MImport "os" "os" ["os"]; MBind "helper"; MBind "outer"; MAll (ALit ["helper"; "outer"])]
    [a_helper; a_outer].

(* pkg/b.py:
     from .a import helper
     class Base(dict):
         def __init__(self): self.v = 1
         def get2(self): return self.extra()
     class Child(Base):
         def extra(self): return helper(self.v) + len(self.keys()) + Base.get2(self)
     __all__ = ('Child',)                                                          *)
Definition b_init : scope :=
  Scope KFun "__init__" 3 "" [] [] ["self"] [] [] [] ["self"] [] [("self", "v")] [].
Definition b_get2 : scope :=
  Scope KFun "get2" 4 "" [] [] ["self"] [] [] [] ["self"] [("self", "extra")] [] [].
Definition b_Base : scope :=
  Scope KClass "Base" 2 "pkg.b:Base" [BName "dict"] [] [] ["__init__"; "get2"] [] [] [] [] [] [b_init; b_get2].
Definition b_extra_with (nm ca : name) : scope :=
  Scope KFun nm 6 "" [] [] ["self"] [] [] [] ["helper"; "self"; "len"; "Base"]
        [("self", "v"); ("self", "keys"); ("Base", ca)] [] [].
Definition b_Child_with (nm ca : name) : scope :=
  Scope KClass "Child" 5 "pkg.b:Child" [BName "Base"] [] [] [nm] [] [] [] [] [] [b_extra_with nm ca].
Definition mod_b_with (with_import : bool) (nm ca : name) : module :=
  Module "pkg.b" (Some "pkg") "b"
    ((if with_import then [MFrom "pkg.a" [("helper", "helper")]] else [])
     ++ [MUse ["dict"]; MClass "Base" "pkg.b:Base"; MUse ["Base"]; MClass "Child" "pkg.b:Child";
         MAll (ALit ["Child"])])
    [b_Base; b_Child_with nm ca].
Definition b_extra (nm : name) : scope := b_extra_with nm "get2".
Definition b_Child (nm : name) : scope := b_Child_with nm "get2".
Definition mod_b (with_import : bool) (nm : name) : module := mod_b_with with_import nm "get2".

(* pkg/__init__.py:
     from .a import *
     from .b import *
     __all__ = list(a.__all__ + b.__all__)                                         *)
Definition mod_pkg : module :=
  Module "pkg" None "pkg"
    [MBind "__path__"; MStar "pkg.a"; MStar "pkg.b"; MUse ["list"; "a"; "b"];
     MAll (ACat (ARef "a") (ARef "b"))]
    [].

Definition demo_with (with_import : bool) (nm ca : name) : program :=
  Program "pkg" [mod_pkg; mod_a; mod_b_with with_import nm ca]
    ["len"; "dict"; "list"; "object"]
    ["__name__"; "__file__"]
    ["__dict__"; "__class__"]
    [("builtins.dict", ["keys"; "items"; "get"]); ("builtins.object", ["__init__"; "__repr__"])].

Definition demo_ok : program := demo_with true "extra" "get2".
Definition demo_bad : program := demo_with false "extra2" "get2".
Definition demo_bad_attr : program := demo_with true "extra" "get3".

Lemma demo_ok_check : check demo_ok = [].
Proof. vm_compute. reflexivity. Qed.

Lemma demo_ok_program_ok : program_ok demo_ok.
Proof. apply check_sound. exact demo_ok_check. Qed.

(* the package namespace of the model: star imports went through __all__, the
   submodules are attributes of the package, private/implicit names are there *)
Lemma demo_ok_namespace :
  map fst (module_ns demo_ok "pkg")
  = ["__name__"; "__file__"; "__path__"; "a"; "helper"; "outer"; "b"; "Child"; "__all__"]
  /\ module_all demo_ok "pkg" = Some ["helper"; "outer"; "Child"].
Proof. vm_compute. split; reflexivity. Qed.

Lemma demo_bad_check :
  check demo_bad =
  [VUnbound "pkg.b" ["Child"; "extra2"] 6 "helper";
   VSelfAttr "pkg.b" "pkg.b:Child" "pkg.b:Base" "get2" 4 "extra"].
Proof. vm_compute. reflexivity. Qed.

(* ... and the declarative relation agrees: that read has no binding *)
Lemma demo_bad_unresolved :
  load_site demo_bad (mod_b false "extra2") [b_Child "extra2"] (b_extra "extra2") "helper"
  /\ ~ resolves demo_bad "pkg.b" [b_Child "extra2"] (b_extra "extra2") "helper".
Proof.
  split.
  - split; [simpl; tauto|]. split; [|simpl; tauto].
    exists (b_Child "extra2"). split; [simpl; tauto|].
    apply reach_child with (c := b_extra "extra2"); [simpl; tauto | apply reach_here].
  - intros H. apply resolvesb_complete in H. vm_compute in H. discriminate.
Qed.

(* a name bound only in a class body is invisible to the methods: LEGB skips classes *)
Lemma class_body_not_enclosing :
  ~ resolves demo_ok "pkg.b" [b_Base] b_get2 "get2".
Proof. intros H. apply resolvesb_complete in H. vm_compute in H. discriminate. Qed.

(* a method of a package class named through the class: Base.get3 does not exist *)
Lemma demo_bad_attr_check :
  check demo_bad_attr = [VAttr "pkg.b" ["Child"; "extra"] 6 "Base" "get3"].
Proof. vm_compute. reflexivity. Qed.
