(* Export/XmlProofs.v — the XML writer (Export/Xml.v) against the XML grammar
   (Export/XmlGrammar.v): the translation of text values leaves no markup
   character, is undone by a reference reader and is character data for every
   text XML can carry; the document written for a single-root tree of valid names
   is well-formed and its element tree is the one the tree stands for, whatever
   the layout options.  Unbounded: induction over strings and trees, invariants of
   the two loops of the writer. *)
From Coq Require Import List NArith ZArith Bool Lia.
From N0 Require Import Base.PyStr Base.PyVal Export.Util Export.Xml Export.XmlGrammar.
Import ListNotations.
Local Open Scope N_scope.

(* ---- escaping ---------------------------------------------------------------------------------- *)
Lemma table_chars_xml c : mem_chr c table_chars = true -> xml_char c = true.
Proof.
  intros H. apply mem_chr_In in H. revert c H. apply Forall_forall.
  repeat (constructor; [vm_compute; reflexivity|]). constructor.
Qed.

Lemma digits_plain ds : forallb is_dig ds = true -> forallb plain_char ds = true.
Proof.
  induction ds as [|d r IH]; [reflexivity|]. cbn [forallb]. intros H. apply andb_true_iff in H as [H1 H2].
  rewrite (IH H2), andb_true_r. unfold is_dig in H1. apply andb_true_iff in H1 as [A B].
  apply N.leb_le in A, B. unfold plain_char, xml_char.
  replace (32 <=? d) with true by (symmetry; apply N.leb_le; lia).
  replace (d <=? 55295) with true by (symmetry; apply N.leb_le; lia).
  replace (d =? 60) with false by (symmetry; apply N.eqb_neq; lia).
  replace (d =? 38) with false by (symmetry; apply N.eqb_neq; lia).
  replace (d =? 62) with false by (symmetry; apply N.eqb_neq; lia).
  cbn [andb orb negb]. now rewrite !orb_true_r.
Qed.

Lemma escape_chr_chardata c b s :
  xml_char c = true -> chardata b s -> chardata (xml_escape_chr c ++ b) (c :: s).
Proof.
  intros Hc H. unfold xml_escape_chr.
  destruct (c =? 34) eqn:E1; [apply N.eqb_eq in E1; subst; exact (cdt_ent [113; 117; 111; 116] 34 b s eq_refl H)|].
  destruct (c =? 38) eqn:E2; [apply N.eqb_eq in E2; subst; exact (cdt_ent [97; 109; 112] 38 b s eq_refl H)|].
  destruct (c =? 60) eqn:E3; [apply N.eqb_eq in E3; subst; exact (cdt_ent [108; 116] 60 b s eq_refl H)|].
  destruct (c =? 62) eqn:E4; [apply N.eqb_eq in E4; subst; exact (cdt_ent [103; 116] 62 b s eq_refl H)|].
  destruct (mem_chr c table_chars) eqn:E5.
  - replace (([38; 35] ++ dec_N c ++ [59]) ++ b) with (38 :: 35 :: dec_N c ++ 59 :: b)
      by (cbn [app]; now rewrite <- app_assoc).
    apply cdt_dec; [apply dec_N_spec|exact Hc|exact H].
  - cbn [app]. apply cdt_char; [|exact H]. unfold plain_char. now rewrite Hc, E2, E3, E4.
Qed.

Lemma escape_chardata s : forallb xml_char s = true -> chardata (xml_escape s) s.
Proof.
  induction s as [|c s IH]; [constructor|]. cbn [forallb]. intros H. apply andb_true_iff in H as [H1 H2].
  unfold xml_escape. cbn [flat_map]. apply escape_chr_chardata; auto.
Qed.

Lemma plain_chardata s : forallb plain_char s = true -> chardata s s.
Proof.
  induction s as [|c s IH]; [constructor|]. cbn [forallb]. intros H. apply andb_true_iff in H as [H1 H2].
  apply cdt_char; auto.
Qed.

(* no markup character survives the translation *)
Definition markup_free (c : N) : bool := negb (c =? 60) && negb (c =? 62) && negb (c =? 34).

Lemma dec_N_digits n : forallb is_dig (dec_N n) = true.
Proof. destruct (dec_N_spec n) as [_ [H _]]. exact H. Qed.

Lemma digits_markup_free ds : forallb is_dig ds = true -> forallb markup_free ds = true.
Proof.
  induction ds as [|d r IH]; [reflexivity|]. cbn [forallb]. intros H. apply andb_true_iff in H as [H1 H2].
  rewrite (IH H2), andb_true_r. unfold is_dig in H1. apply andb_true_iff in H1 as [A B].
  apply N.leb_le in A, B. unfold markup_free.
  replace (d =? 60) with false by (symmetry; apply N.eqb_neq; lia).
  replace (d =? 62) with false by (symmetry; apply N.eqb_neq; lia).
  replace (d =? 34) with false by (symmetry; apply N.eqb_neq; lia). reflexivity.
Qed.

Lemma escape_markup_free s : forallb markup_free (xml_escape s) = true.
Proof.
  induction s as [|c s IH]; [reflexivity|]. unfold xml_escape. cbn [flat_map]. rewrite forallb_app.
  fold (xml_escape s). rewrite IH, andb_true_r. unfold xml_escape_chr.
  destruct (c =? 34) eqn:E1; [reflexivity|]. destruct (c =? 38) eqn:E2; [reflexivity|].
  destruct (c =? 60) eqn:E3; [reflexivity|]. destruct (c =? 62) eqn:E4; [reflexivity|].
  destruct (mem_chr c table_chars).
  - rewrite !forallb_app. rewrite (digits_markup_free _ (dec_N_digits c)). reflexivity.
  - cbn [forallb]. unfold markup_free. now rewrite E1, E3, E4.
Qed.

(* ---- unescape . escape = id ------------------------------------------------------------------------ *)
Lemma unesc_in_ref cs : forall acc r, ~ In 59 cs ->
  unesc (cs ++ 59 :: r) (Some acc) =
  match decode_ref (rev acc ++ cs) with
  | Some x => option_map (cons x) (unesc r None)
  | None => None
  end.
Proof.
  induction cs as [|c cs IH]; intros acc r Hn.
  - cbn [app unesc]. rewrite N.eqb_refl, app_nil_r. reflexivity.
  - cbn [app unesc]. assert (c <> 59) by (intros ->; apply Hn; now left). apply N.eqb_neq in H. rewrite H.
    rewrite IH by (intros Hin; apply Hn; now right). cbn [rev]. rewrite <- app_assoc. reflexivity.
Qed.

Lemma digits_no_semicolon ds : forallb is_dig ds = true -> ~ In 59 ds.
Proof.
  intros H Hin. rewrite forallb_forall in H. specialize (H _ Hin). unfold is_dig in H.
  apply andb_true_iff in H as [_ B]. apply N.leb_le in B. lia.
Qed.

Lemma unesc_escape_chr c r : unesc (xml_escape_chr c ++ r) None = option_map (cons c) (unesc r None).
Proof.
  unfold xml_escape_chr.
  destruct (c =? 34) eqn:E1.
  { apply N.eqb_eq in E1; subst. change (s_quot ++ r) with (38 :: [113; 117; 111; 116] ++ 59 :: r).
    cbn [unesc]. change (38 =? 38) with true. cbv iota. rewrite unesc_in_ref; [reflexivity|].
    intros [H|[H|[H|[H|[]]]]]; discriminate. }
  destruct (c =? 38) eqn:E2.
  { apply N.eqb_eq in E2; subst. change (s_amp ++ r) with (38 :: [97; 109; 112] ++ 59 :: r).
    cbn [unesc]. change (38 =? 38) with true. cbv iota. rewrite unesc_in_ref; [reflexivity|].
    intros [H|[H|[H|[]]]]; discriminate. }
  destruct (c =? 60) eqn:E3.
  { apply N.eqb_eq in E3; subst. change (s_lt ++ r) with (38 :: [108; 116] ++ 59 :: r).
    cbn [unesc]. change (38 =? 38) with true. cbv iota. rewrite unesc_in_ref; [reflexivity|].
    intros [H|[H|[]]]; discriminate. }
  destruct (c =? 62) eqn:E4.
  { apply N.eqb_eq in E4; subst. change (s_gt ++ r) with (38 :: [103; 116] ++ 59 :: r).
    cbn [unesc]. change (38 =? 38) with true. cbv iota. rewrite unesc_in_ref; [reflexivity|].
    intros [H|[H|[]]]; discriminate. }
  destruct (mem_chr c table_chars) eqn:E5.
  - replace (([38; 35] ++ dec_N c ++ [59]) ++ r) with (38 :: (35 :: dec_N c) ++ 59 :: r)
      by (cbn [app]; now rewrite <- app_assoc).
    cbn [unesc]. change (38 =? 38) with true. cbv iota. rewrite unesc_in_ref.
    + cbn [rev app decode_ref]. destruct (dec_N_spec c) as [Hne [Hd [_ Hv]]].
      rewrite Hd. apply is_nil_false in Hne. rewrite Hne. cbn [negb andb]. now rewrite Hv.
    + intros [H|H]; [discriminate|]. revert H. apply digits_no_semicolon, dec_N_digits.
  - cbn [app unesc]. now rewrite E2, E3.
Qed.

Lemma unescape_escape s : xml_unescape (xml_escape s) = Some s.
Proof.
  unfold xml_unescape. induction s as [|c s IH]; [reflexivity|].
  unfold xml_escape. cbn [flat_map]. rewrite unesc_escape_chr. fold (xml_escape s). now rewrite IH.
Qed.

(* ---- content: white space, concatenation --------------------------------------------------------- *)
Lemma xws_nil : xws [].
Proof. reflexivity. Qed.
Lemma xws_app a b : xws a -> xws b -> xws (a ++ b).
Proof. unfold xws. intros. rewrite forallb_app. now rewrite H, H0. Qed.

(* blanks and newlines: white space both for XML and for str.lstrip *)
Definition blank (w : pstr) : Prop := forallb (fun c => (c =? 32) || (c =? 10)) w = true.
Lemma blank_nil : blank [].
Proof. reflexivity. Qed.
Lemma blank_app a b : blank a -> blank b -> blank (a ++ b).
Proof. unfold blank. intros. rewrite forallb_app. now rewrite H, H0. Qed.
Lemma blank_spaces z : blank (spaces z).
Proof. unfold blank, spaces. induction (Z.to_nat z); simpl; auto. Qed.
Lemma blank_nl_if res : blank (nl_if res).
Proof. unfold nl_if. destruct (is_nil res); reflexivity. Qed.
Lemma blank_xws w : blank w -> xws w.
Proof.
  unfold blank, xws. induction w as [|c w IH]; [auto|]. cbn [forallb]. intros H. apply andb_true_iff in H as [H1 H2].
  rewrite (IH H2), andb_true_r. unfold is_xws. apply orb_true_iff in H1 as [H1|H1]; rewrite H1; cbn [orb]; auto using orb_true_r.
  now rewrite !orb_true_r.
Qed.
#[global] Hint Resolve blank_nil blank_app blank_spaces blank_nl_if xws_nil xws_app blank_xws : xws.

Lemma lstrip_blank w r : blank w -> lstrip_all (w ++ 60 :: r) = 60 :: r.
Proof.
  unfold lstrip_all, blank. induction w as [|c w IH]; intros H.
  - reflexivity.
  - cbn [forallb] in H. apply andb_true_iff in H as [H1 H2]. cbn [app lstrip_set].
    assert (E : mem_chr c py_ws_all = true).
    { apply orb_true_iff in H1 as [H1|H1]; apply N.eqb_eq in H1; subst; reflexivity. }
    rewrite E. now apply IH.
Qed.

Lemma content_app a ns b ms : content a ns -> content b ms -> content (a ++ b) (ns ++ ms).
Proof.
  intros Ha Hb. induction Ha.
  - exact Hb.
  - rewrite <- app_assoc. now apply ct_ws.
  - rewrite <- app_assoc. cbn [app]. now apply ct_text.
  - repeat rewrite <- app_assoc. now apply ct_cdata.
  - rewrite <- app_assoc. cbn [app]. now apply ct_elem.
Qed.

Lemma content_ws w : xws w -> content w [].
Proof. intros H. rewrite <- (app_nil_r w). apply ct_ws; [exact H|constructor]. Qed.

Lemma content_ws_r s ns w : content s ns -> xws w -> content (s ++ w) ns.
Proof. intros H Hw. rewrite <- (app_nil_r ns). apply content_app; [exact H|now apply content_ws]. Qed.

Lemma content_elem e n : element e n -> content e [n].
Proof. intros H. rewrite <- (app_nil_r e). apply ct_elem; [exact H|constructor]. Qed.

Lemma content_nil_inv s ns : content s ns -> s = [] -> ns = [].
Proof.
  induction 1; intros E; auto.
  - apply app_eq_nil in E as [_ E]. auto.
  - apply app_eq_nil in E as [E _]. contradiction.
  - discriminate.
  - destruct H; discriminate.
Qed.

(* ---- elements ---------------------------------------------------------------------------------------- *)
Lemma elem_full k body ns :
  name_ok k = true -> content body ns -> element (tag_open k ++ body ++ tag_close k) (XElem k ns).
Proof.
  intros Hk Hb. unfold tag_open, tag_close.
  replace (([60] ++ k ++ [62]) ++ body ++ [60; 47] ++ k ++ [62]) with (60 :: k ++ 62 :: body ++ 60 :: 47 :: k ++ [62])
    by (cbn [app]; rewrite <- !app_assoc; reflexivity).
  now apply el_full.
Qed.
Lemma elem_empty k : name_ok k = true -> element (tag_empty k) (XElem k []).
Proof. intros Hk. unfold tag_empty. cbn [app]. now apply el_empty. Qed.

Lemma elem_text k b s :
  name_ok k = true -> chardata b s -> s <> [] -> b <> [] -> element (tag_open k ++ b ++ tag_close k) (XElem k [XText s]).
Proof.
  intros Hk Hc Hs Hb. apply elem_full; [exact Hk|]. rewrite <- (app_nil_r b). apply ct_text; [exact Hb|exact Hc|constructor].
Qed.

(* ---- the shape of trees the theorem covers ----------------------------------------------------------- *)
Fixpoint shaped_val (v : tree) : bool :=
  match v with
  | Leaf (SStr s) => forallb xml_char s
  | Leaf (SBytes _) => false
  | Leaf _ => true
  | Dict _ kvs => (fix all (l : list (pstr * tree)) := match l with [] => true | (k, v) :: r => name_ok k && shaped_val v && all r end) kvs
  | Lst _ xs => (fix all (l : list tree) := match l with [] => true | v :: r => shaped_val v && all r end) xs
  end.

Lemma shaped_dict c kvs : shaped_val (Dict c kvs) = forallb (fun kv => name_ok (fst kv) && shaped_val (snd kv)) kvs.
Proof. cbn [shaped_val]. induction kvs as [|[k v] r IH]; [reflexivity|]. cbn [forallb fst snd]. now rewrite IH. Qed.
Lemma shaped_lst c xs : shaped_val (Lst c xs) = forallb shaped_val xs.
Proof. reflexivity. Qed.

Lemma xml_put_dict inc indent k c kvs res :
  xml_put inc indent k (Dict c kvs) res =
  res ++ prefix indent k res ++ dict_elem indent k (xml_items inc (indent + inc) kvs).
Proof.
  cbn [xml_put]. do 3 f_equal. unfold xml_items. generalize (@nil N) as acc.
  induction kvs as [|[k' v'] r IH]; intros acc; [reflexivity|]. cbn [fold_left fst snd]. apply IH.
Qed.
Lemma xml_put_lst inc indent k c x xs res :
  xml_put inc indent k (Lst c (x :: xs)) res =
  fold_left (fun r y => r ++ nl_if r ++ xml_put inc indent k y []) (x :: xs) res.
Proof.
  cbn [xml_put fold_left]. generalize (res ++ nl_if res ++ xml_put inc indent k x []) as acc.
  induction xs as [|y r IH]; intros acc; [reflexivity|]. cbn [fold_left]. apply IH.
Qed.
Lemma nodes_of_dict k c kvs :
  nodes_of k (Dict c kvs) = [XElem k (flat_map (fun kv => nodes_of (fst kv) (snd kv)) kvs)].
Proof. cbn [nodes_of]. do 2 f_equal. induction kvs as [|[k' v'] r IH]; [reflexivity|]. cbn [flat_map fst snd]. now rewrite IH. Qed.
Lemma nodes_of_lst k c x xs : nodes_of k (Lst c (x :: xs)) = flat_map (nodes_of k) (x :: xs).
Proof. reflexivity. Qed.

(* what one entry adds to the result: blanks, then text that starts with '<' and is content *)
Definition piece (D : pstr) (ns : list xnode) : Prop :=
  exists w r, D = w ++ 60 :: r /\ blank w /\ content (60 :: r) ns.

Lemma piece_content D ns : piece D ns -> content D ns.
Proof. intros [w [r [-> [Hw Hc]]]]. apply ct_ws; auto with xws. Qed.

Lemma piece_app D ns D' ms : piece D ns -> content D' ms -> piece (D ++ D') (ns ++ ms).
Proof.
  intros [w [r [-> [Hw Hc]]]] H'. exists w, (r ++ D'). split; [now rewrite <- app_assoc|]. split; [exact Hw|].
  change (60 :: r ++ D') with ((60 :: r) ++ D'). now apply content_app.
Qed.

Lemma piece_blank_l w D ns : blank w -> piece D ns -> piece (w ++ D) ns.
Proof.
  intros Hw [w' [r [-> [Hw' Hc]]]]. exists (w ++ w'), r. split; [now rewrite app_assoc|]. split; auto with xws.
Qed.

Lemma piece_elem w e n : blank w -> element e n -> piece (w ++ e) [n].
Proof.
  intros Hw He. assert (exists r, e = 60 :: r) as [r ->] by (destruct He; eauto).
  exists w, r. split; [reflexivity|]. split; [exact Hw|]. now apply content_elem.
Qed.

Lemma prefix_blank indent k res : blank (prefix indent k res).
Proof. unfold prefix. destruct (special k); auto with xws. Qed.

Lemma num_text_plain s :
  match s with SInt _ | SFlt _ | SBool _ => True | _ => False end ->
  forallb plain_char (num_text s) = true /\ num_text s <> [].
Proof.
  destruct s as [|[|]|z|h|t|t]; intros H; try contradiction; cbn [num_text].
  - split; [reflexivity|discriminate].
  - split; [reflexivity|discriminate].
  - unfold dec_Z. destruct (z <? 0)%Z; cbn [forallb]; rewrite (digits_plain _ (dec_N_digits _)); split; try reflexivity; try discriminate.
    apply dec_N_nonempty.
  - unfold dec_half. rewrite !forallb_app, (digits_plain _ (dec_N_digits _)).
    split; [destruct (h <? 0)%Z, (N.odd (Z.abs_N h)); reflexivity|].
    destruct (h <? 0)%Z; [discriminate|]. cbn [app]. pose proof (dec_N_nonempty (Z.abs_N h / 2)). destruct (dec_N (Z.abs_N h / 2)); [congruence|discriminate].
Qed.
(* ---- strip / startswith / endswith / find as decompositions ------------------------------------------ *)
Lemma lstrip_split cs s : exists w, s = w ++ lstrip_set cs s /\ forallb (fun c => mem_chr c cs) w = true.
Proof.
  induction s as [|c s [w [E H]]]; [exists []; split; reflexivity|]. cbn [lstrip_set].
  destruct (mem_chr c cs) eqn:M.
  - exists (c :: w). cbn [app forallb]. rewrite M, H. split; [now rewrite <- E|reflexivity].
  - exists []. split; reflexivity.
Qed.

Lemma rstrip_split cs s : exists w, s = rstrip_set cs s ++ w /\ forallb (fun c => mem_chr c cs) w = true.
Proof.
  unfold rstrip_set. destruct (lstrip_split cs (rev s)) as [w [E H]].
  exists (rev w). split.
  - rewrite <- (rev_involutive s), E at 1. now rewrite rev_app_distr.
  - rewrite forallb_forall in *. intros x Hx. apply H. now apply in_rev.
Qed.

Lemma endswith_spec s p : endswith s p = true -> exists r, s = r ++ p.
Proof.
  unfold endswith. intros H. apply startswith_spec in H as [r E].
  exists (rev r). rewrite <- (rev_involutive s), E, rev_app_distr, rev_involutive. reflexivity.
Qed.

(* find_sub: the first occurrence *)
Lemma find_sub_aux_spec p fuel : forall s i n,
  find_sub_aux fuel s p i = Some n -> (length s <= fuel)%nat ->
  exists a b, s = a ++ p ++ b /\ n = (i + length a)%nat /\
              forall a' b', s = a' ++ p ++ b' -> (length a <= length a')%nat.
Proof.
  induction fuel as [|f IH]; intros s i n H Hl.
  - cbn [find_sub_aux] in H. destruct (startswith s p) eqn:E; [|destruct s; discriminate].
    inversion H; subst. apply startswith_spec in E as [r ->]. exists [], r. repeat split; auto. intros; cbn; lia.
  - cbn [find_sub_aux] in H. destruct (startswith s p) eqn:E.
    + inversion H; subst. apply startswith_spec in E as [r ->]. exists [], r. repeat split; auto. intros; cbn; lia.
    + destruct s as [|c s]; [discriminate|]. cbn [length] in Hl.
      destruct (IH s (S i) n H ltac:(lia)) as [a [b [Es [En Hmin]]]].
      exists (c :: a), b. split; [now rewrite Es|]. split; [cbn [length]; lia|].
      intros a' b' E'. destruct a' as [|c' a'].
      * exfalso. cbn [app] in E'. assert (startswith (c :: s) p = true) by (apply startswith_spec; eauto). congruence.
      * cbn [app] in E'. injection E' as _ E''. cbn [length]. specialize (Hmin a' b' E''). lia.
Qed.

Lemma find_sub_spec s p n : find_sub s p = Some n ->
  exists a b, s = a ++ p ++ b /\ n = length a /\ forall a' b', s = a' ++ p ++ b' -> (length a <= length a')%nat.
Proof. unfold find_sub. intros H. apply find_sub_aux_spec in H; [|lia]. exact H. Qed.

Lemma app_split_le {A} (a b c d : list A) :
  a ++ b = c ++ d -> (length a <= length c)%nat -> exists m, c = a ++ m /\ b = m ++ d.
Proof.
  revert c; induction a as [|x a IH]; intros c E Hl.
  - exists c. split; [reflexivity|exact E].
  - destruct c as [|y c]; [cbn in Hl; lia|]. cbn [app] in E. inversion E; subst.
    destruct (IH c H1 ltac:(cbn in Hl; lia)) as [m [-> ->]]. exists m. split; reflexivity.
Qed.

Lemma app_same_length {A} (a b c d : list A) : a ++ b = c ++ d -> length a = length c -> a = c /\ b = d.
Proof.
  intros E Hl. destruct (app_split_le a b c d E ltac:(lia)) as [m [-> ->]].
  rewrite app_length in Hl. destruct m; [|cbn in Hl; lia]. now rewrite app_nil_r.
Qed.

(* the characters str.strip() removes never are ']' *)
Definition pyws (w : pstr) : Prop := forallb (fun c => mem_chr c py_ws_all) w = true.

Lemma nth_app_l' {A} (a b : list A) n d : (n < length a)%nat -> nth n (a ++ b) d = nth n a d.
Proof. intros. now apply app_nth1. Qed.

(* ---- the pass-through test decomposes the value -------------------------------------------------------- *)
Lemma is_cdata_split s : is_cdata s = true ->
  exists w1 inner w2, s = w1 ++ cds_open ++ inner ++ cds_close ++ w2 /\ pyws w1 /\ pyws w2 /\
                      contains inner cds_close = false.
Proof.
  unfold is_cdata. intros H. apply andb_true_iff in H as [H H3]. apply andb_true_iff in H as [H1 H2].
  destruct (lstrip_split py_ws_all s) as [w1 [E1 Hw1]]. fold (lstrip_all s) in E1.
  destruct (rstrip_split py_ws_all s) as [w2 [E2 Hw2]]. fold (rstrip_all s) in E2.
  apply startswith_spec in H1 as [r1 Hr1]. apply endswith_spec in H2 as [r2 Hr2].
  unfold opt_nat_eqb in H3. destruct (find_sub s cds_close) as [n|] eqn:Ef; [|discriminate].
  apply Nat.eqb_eq in H3. destruct (find_sub_spec _ _ _ Ef) as [a [b [Es [En Hmin]]]].
  rewrite Hr2 in E2, H3. rewrite app_length in H3. cbn [length cds_close] in H3.
  assert (Hla : length a = length r2) by lia.
  (* s = a ++ ]]> ++ b = r2 ++ ]]> ++ w2 *)
  assert (Ea : a = r2 /\ cds_close ++ b = cds_close ++ w2).
  { apply app_same_length; [|exact Hla]. rewrite <- Es, E2, <- app_assoc. reflexivity. }
  destruct Ea as [-> Eb]. apply app_inv_head in Eb. subst b.
  (* the opening lies before the first ]]> *)
  rewrite Hr1 in E1.
  assert (Hpos : (length (w1 ++ cds_open) <= length r2)%nat).
  { destruct (le_lt_dec (length (w1 ++ cds_open)) (length r2)) as [|Hlt]; [assumption|exfalso].
    (* the character at position |r2| is ']' but lies inside w1 ++ cds_open *)
    assert (Hn : nth (length r2) s 0 = 93).
    { rewrite Es. rewrite app_nth2 by lia. now rewrite Nat.sub_diag. }
    rewrite E1, app_assoc, nth_app_l' in Hn by exact Hlt.
    assert (Hall : forallb (fun c => negb (c =? 93)) (w1 ++ cds_open) = true).
    { rewrite forallb_app. apply andb_true_iff. split; [|reflexivity].
      rewrite forallb_forall in *. intros x Hx. specialize (Hw1 x Hx).
      destruct (x =? 93) eqn:E; [|reflexivity]. apply N.eqb_eq in E. subst. discriminate. }
    rewrite forallb_forall in Hall. specialize (Hall _ (nth_In _ 0 Hlt)). rewrite Hn in Hall. discriminate. }
  assert (Esplit : (w1 ++ cds_open) ++ r1 = r2 ++ cds_close ++ w2) by (rewrite <- app_assoc, <- E1; exact Es).
  destruct (app_split_le _ _ _ _ Esplit Hpos) as [inner [Er2 Er1]].
  exists w1, inner, w2. split; [|split; [exact Hw1|split; [exact Hw2|]]].
  - rewrite Es, Er2, <- !app_assoc. reflexivity.
  - (* an occurrence of ]]> inside inner would be an earlier one *)
    unfold contains. destruct (find_sub inner cds_close) as [m|] eqn:Ei; [exfalso|reflexivity].
    destruct (find_sub_spec _ _ _ Ei) as [a' [b' [Einner _]]].
    specialize (Hmin ((w1 ++ cds_open) ++ a') (b' ++ cds_close ++ w2)).
    rewrite Es, Er2, Einner in Hmin. rewrite <- !app_assoc in Hmin. specialize (Hmin eq_refl).
    rewrite !app_length in Hmin. cbn [length cds_close] in Hmin. lia.
Qed.

(* ---- the parts of a CDATA value ------------------------------------------------------------------------- *)
Lemma lstrip_pyws w x c : pyws w -> mem_chr c py_ws_all = false -> lstrip_all (w ++ c :: x) = c :: x.
Proof.
  unfold pyws, lstrip_all. induction w as [|d w IH]; intros Hw Hc.
  - cbn [app lstrip_set]. now rewrite Hc.
  - cbn [forallb] in Hw. apply andb_true_iff in Hw as [H1 H2]. cbn [app lstrip_set]. rewrite H1. now apply IH.
Qed.

Lemma rstrip_pyws w x c : pyws w -> mem_chr c py_ws_all = false -> rstrip_all ((x ++ [c]) ++ w) = x ++ [c].
Proof.
  intros Hw Hc. unfold rstrip_all, rstrip_set. rewrite rev_app_distr, rev_app_distr. cbn [rev app].
  fold (lstrip_all (rev w ++ c :: rev x)). rewrite lstrip_pyws; [|  |exact Hc].
  - cbn [rev]. now rewrite rev_involutive.
  - unfold pyws in *. rewrite forallb_forall in *. intros y Hy. apply Hw. now apply in_rev.
Qed.

Lemma strip_pyws w1 m w2 : pyws w1 -> pyws w2 -> strip_all (w1 ++ m ++ w2) = strip_all m.
Proof.
  intros H1 H2. unfold strip_all, strip_set.
  assert (L : forall w x, pyws w -> lstrip_set py_ws_all (w ++ x) = lstrip_set py_ws_all x).
  { clear. unfold pyws. induction w as [|d w IH]; intros x Hw; [reflexivity|]. cbn [forallb] in Hw.
    apply andb_true_iff in Hw as [A B]. cbn [app lstrip_set]. rewrite A. now apply IH. }
  rewrite L by exact H1.
  (* rstrip (lstrip (m ++ w2)) : two cases, m all blank or not *)
  assert (R : forall x w, pyws w -> rstrip_set py_ws_all (x ++ w) = rstrip_set py_ws_all x).
  { intros x w Hw. unfold rstrip_set. rewrite rev_app_distr. rewrite L; [reflexivity|].
    unfold pyws in *. rewrite forallb_forall in *. intros y Hy. apply Hw. now apply in_rev. }
  destruct (lstrip_split py_ws_all m) as [v [Em Hv]].
  destruct (lstrip_set py_ws_all m) as [|c r] eqn:El.
  - (* m is all blank *)
    rewrite app_nil_r in Em. subst v. rewrite L by exact Hv.
    assert (lstrip_set py_ws_all w2 = []) as ->.
    { destruct (lstrip_split py_ws_all w2) as [u [Eu Hu]]. destruct (lstrip_set py_ws_all w2) as [|d q] eqn:E2; [reflexivity|].
      exfalso. assert (mem_chr d py_ws_all = true).
      { unfold pyws in H2. rewrite forallb_forall in H2. apply H2. rewrite Eu. apply in_or_app. right. now left. }
      assert (mem_chr d py_ws_all = false).
      { clear - E2. induction w2 as [|e w2 IH]; [discriminate|]. cbn [lstrip_set] in E2.
        destruct (mem_chr e py_ws_all) eqn:M; [now apply IH|]. now inversion E2; subst. }
      congruence. }
    reflexivity.
  - assert (Hc : mem_chr c py_ws_all = false).
    { clear - El. induction m as [|e m IH]; [discriminate|]. cbn [lstrip_set] in El.
      destruct (mem_chr e py_ws_all) eqn:M; [now apply IH|]. now inversion El; subst. }
    rewrite Em at 1. rewrite <- app_assoc, L by exact Hv. cbn [app lstrip_set]. rewrite Hc.
    change (c :: r ++ w2) with ((c :: r) ++ w2). now rewrite R.
Qed.

Lemma firstn_app_exact {A} (a b : list A) : firstn (length a) (a ++ b) = a.
Proof. induction a; cbn; [now destruct b|]. now f_equal. Qed.
Lemma skipn_app_exact {A} (a b : list A) : skipn (length a) (a ++ b) = b.
Proof. induction a; cbn; auto. Qed.

Lemma is_cdata_parts s : is_cdata s = true ->
  s = cdata_pre s ++ cds_open ++ cdata_inner s ++ cds_close ++ cdata_post s /\
  pyws (cdata_pre s) /\ pyws (cdata_post s) /\ contains (cdata_inner s) cds_close = false.
Proof.
  intros H. destruct (is_cdata_split s H) as [w1 [inner [w2 [E [H1 [H2 Hc]]]]]].
  assert (El : lstrip_all s = cds_open ++ inner ++ cds_close ++ w2).
  { rewrite E. change (cds_open ++ inner ++ cds_close ++ w2) with (60 :: [33; 91; 67; 68; 65; 84; 65; 91] ++ inner ++ cds_close ++ w2).
    now apply lstrip_pyws. }
  assert (Er : rstrip_all s = w1 ++ cds_open ++ inner ++ [93; 93; 62]).
  { rewrite E. replace (w1 ++ cds_open ++ inner ++ cds_close ++ w2) with (((w1 ++ cds_open ++ inner ++ [93; 93]) ++ [62]) ++ w2)
      by (unfold cds_close; rewrite <- !app_assoc; reflexivity).
    rewrite rstrip_pyws by (exact H2 || reflexivity). now rewrite <- !app_assoc. }
  assert (Hlen : length s = (length w1 + (9 + (length inner + (3 + length w2))))%nat).
  { rewrite E at 1. rewrite !app_length. reflexivity. }
  assert (Hll : length (lstrip_all s) = (9 + (length inner + (3 + length w2)))%nat).
  { rewrite El, !app_length. reflexivity. }
  assert (Hlr : length (rstrip_all s) = (length w1 + (9 + (length inner + 3)))%nat).
  { rewrite Er, !app_length. reflexivity. }
  assert (Ep : cdata_pre s = w1).
  { unfold cdata_pre. replace (length s - length (lstrip_all s))%nat with (length w1) by lia.
    rewrite E. apply firstn_app_exact. }
  assert (Eq : cdata_post s = w2).
  { unfold cdata_post. rewrite Hlr.
    replace (length w1 + (9 + (length inner + 3)))%nat with (length (w1 ++ cds_open ++ inner ++ [93; 93; 62]))
      by (rewrite !app_length; reflexivity).
    rewrite E.
    replace (w1 ++ cds_open ++ inner ++ cds_close ++ w2) with ((w1 ++ cds_open ++ inner ++ [93; 93; 62]) ++ w2)
      by (unfold cds_close; rewrite <- !app_assoc; reflexivity).
    apply skipn_app_exact. }
  assert (Ei : cdata_inner s = inner).
  { unfold cdata_inner. replace (length s - length (lstrip_all s))%nat with (length w1) by lia.
    rewrite Hlr. replace (length w1 + (9 + (length inner + 3)) - 3 - length w1 - 9)%nat with (length inner) by lia.
    replace (length w1 + 9)%nat with (length (w1 ++ cds_open)) by (rewrite app_length; reflexivity).
    rewrite E.
    replace (w1 ++ cds_open ++ inner ++ cds_close ++ w2) with ((w1 ++ cds_open) ++ inner ++ cds_close ++ w2) by now rewrite <- app_assoc.
    rewrite skipn_app_exact. apply firstn_app_exact. }
  rewrite Ep, Eq, Ei. auto.
Qed.

(* blanks of str.strip() that XML can carry are plain characters *)
Lemma pyws_plain w : pyws w -> forallb xml_char w = true -> forallb plain_char w = true.
Proof.
  unfold pyws. induction w as [|c w IH]; [reflexivity|]. cbn [forallb]. intros H1 H2.
  apply andb_true_iff in H1 as [A1 B1]. apply andb_true_iff in H2 as [A2 B2]. rewrite (IH B1 B2), andb_true_r.
  unfold plain_char. rewrite A2. apply mem_chr_In in A1.
  assert (G : Forall (fun c => negb (c =? 60) && negb (c =? 38) && negb (c =? 62) = true) py_ws_all)
    by (repeat constructor).
  rewrite Forall_forall in G. specialize (G c A1). apply andb_true_iff in G as [G G3]. apply andb_true_iff in G as [G1 G2].
  now rewrite G1, G2, G3.
Qed.

Lemma opt_text_content w : forallb plain_char w = true -> content w (opt_text w).
Proof.
  intros H. destruct w as [|c w]; [constructor|]. cbn [opt_text]. rewrite <- (app_nil_r (c :: w)) at 1.
  apply ct_text; [discriminate|now apply plain_chardata|constructor].
Qed.

Lemma cdata_body_content a b s :
  is_cdata s = true -> forallb xml_char s = true ->
  content ([10] ++ spaces a ++ s ++ [10] ++ spaces b)
          (opt_text (cdata_pre s) ++ [XText (cdata_inner s)] ++ opt_text (cdata_post s)).
Proof.
  intros Hc Hx. destruct (is_cdata_parts s Hc) as [E [H1 [H2 Hn]]].
  set (w1 := cdata_pre s) in *. set (inner := cdata_inner s) in *. set (w2 := cdata_post s) in *.
  rewrite E in Hx. rewrite !forallb_app in Hx.
  apply andb_true_iff in Hx as [X1 Hx]. apply andb_true_iff in Hx as [_ Hx]. apply andb_true_iff in Hx as [Xi Hx].
  apply andb_true_iff in Hx as [_ X2].
  rewrite E at 1.
  replace ([10] ++ spaces a ++ (w1 ++ cds_open ++ inner ++ cds_close ++ w2) ++ [10] ++ spaces b)
    with (([10] ++ spaces a) ++ w1 ++ (cds_open ++ inner ++ cds_close ++ (w2 ++ ([10] ++ spaces b))))
    by (rewrite <- !app_assoc; reflexivity).
  apply ct_ws; [apply xws_app; [reflexivity|auto with xws]|].
  apply content_app; [apply opt_text_content; now apply pyws_plain|].
  apply ct_cdata; [unfold cdata_ok; now rewrite Xi, Hn|].
  rewrite <- (app_nil_r (opt_text w2)). apply content_app; [apply opt_text_content; now apply pyws_plain|].
  apply content_ws. apply xws_app; [reflexivity|auto with xws].
Qed.

(* ---- the writer produces content -------------------------------------------------------------------- *)
Definition acc_inv (acc : pstr) (ns : list xnode) : Prop := (acc = [] /\ ns = []) \/ piece acc ns.

Lemma piece_nonempty D ns : piece D ns -> D <> [].
Proof. intros [w [r [-> _]]]. destruct w; discriminate. Qed.

Lemma escape_nonempty t : t <> [] -> xml_escape t <> [].
Proof.
  destruct t as [|c t]; [congruence|]. intros _. unfold xml_escape. cbn [flat_map]. unfold xml_escape_chr.
  destruct (c =? 34); [discriminate|]. destruct (c =? 38); [discriminate|]. destruct (c =? 60); [discriminate|].
  destruct (c =? 62); [discriminate|]. destruct (mem_chr c table_chars); discriminate.
Qed.

Definition put_ok (v : tree) : Prop :=
  forall inc indent k res, name_ok k = true -> shaped_val v = true ->
  exists D, xml_put inc indent k v res = res ++ D /\ piece D (nodes_of k v).

Lemma empty_elem_piece indent k res :
  name_ok k = true -> piece (prefix indent k res ++ tag_empty k) [XElem k []].
Proof. intros Hk. apply piece_elem; [apply prefix_blank|now apply elem_empty]. Qed.

Lemma items_content inc indent kvs :
  Forall (fun kv => put_ok (snd kv)) kvs ->
  forallb (fun kv => name_ok (fst kv) && shaped_val (snd kv)) kvs = true ->
  forall acc ns, acc_inv acc ns ->
  acc_inv (fold_left (fun acc kv => xml_put inc indent (fst kv) (snd kv) acc) kvs acc)
          (ns ++ flat_map (fun kv => nodes_of (fst kv) (snd kv)) kvs).
Proof.
  induction 1 as [|[k v] r Hv Hr IH]; intros Hs acc ns Ha.
  - cbn [fold_left flat_map]. now rewrite app_nil_r.
  - cbn [forallb fst snd] in Hs. apply andb_true_iff in Hs as [Hs1 Hs2]. apply andb_true_iff in Hs1 as [Hk Hsv].
    cbn [fold_left flat_map fst snd]. rewrite (app_assoc ns). apply IH; [exact Hs2|].
    cbn [snd] in Hv. destruct (Hv inc indent k acc Hk Hsv) as [D [-> HD]]. right. destruct Ha as [[-> ->]|Ha].
    + exact HD.
    + apply piece_app; [exact Ha|now apply piece_content].
Qed.

Lemma list_content inc indent k items res :
  Forall put_ok items -> name_ok k = true -> forallb shaped_val items = true ->
  forall D ns, piece D ns ->
  exists D', fold_left (fun r y => r ++ nl_if r ++ xml_put inc indent k y []) items (res ++ D) = res ++ D' /\
             piece D' (ns ++ flat_map (nodes_of k) items).
Proof.
  intros HF Hk. induction HF as [|y r Hy Hr IH]; intros Hs D ns Ha.
  - exists D. cbn [fold_left flat_map]. now rewrite app_nil_r.
  - cbn [forallb] in Hs. apply andb_true_iff in Hs as [Hs1 Hs2]. cbn [fold_left flat_map].
    destruct (Hy inc indent k [] Hk Hs1) as [D1 [E1 H1]]. cbn [app] in E1. rewrite E1.
    replace ((res ++ D) ++ nl_if (res ++ D) ++ D1) with (res ++ (D ++ nl_if (res ++ D) ++ D1)) by now rewrite <- app_assoc.
    rewrite (app_assoc ns). apply IH; [exact Hs2|].
    apply piece_app; [exact Ha|]. apply piece_content. apply piece_blank_l; auto with xws.
Qed.

Lemma xml_put_piece v : put_ok v.
Proof.
  induction v as [s|c kvs IH|c xs IH] using tree_ind'; intros inc indent k res Hk Hs.
  - destruct s as [|b|z|h|t|t].
    + eexists. split; [reflexivity|]. now apply empty_elem_piece.
    + destruct (num_text_plain (SBool b) I) as [Hp Hn].
      eexists. split; [reflexivity|]. cbn [nodes_of]. change (scalar_text (SBool b)) with (num_text (SBool b)).
      destruct (num_text (SBool b)) eqn:E; [congruence|]. rewrite <- E in *.
      apply piece_elem; [apply prefix_blank|]. apply elem_text; auto. now apply plain_chardata.
    + destruct (num_text_plain (SInt z) I) as [Hp Hn].
      eexists. split; [reflexivity|]. cbn [nodes_of]. change (scalar_text (SInt z)) with (num_text (SInt z)).
      destruct (num_text (SInt z)) eqn:E; [congruence|]. rewrite <- E in *.
      apply piece_elem; [apply prefix_blank|]. apply elem_text; auto. now apply plain_chardata.
    + destruct (num_text_plain (SFlt h) I) as [Hp Hn].
      eexists. split; [reflexivity|]. cbn [nodes_of]. change (scalar_text (SFlt h)) with (num_text (SFlt h)).
      destruct (num_text (SFlt h)) eqn:E; [congruence|]. rewrite <- E in *.
      apply piece_elem; [apply prefix_blank|]. apply elem_text; auto. now apply plain_chardata.
    + cbn [shaped_val] in Hs. eexists. split; [reflexivity|]. unfold text_body. cbn [nodes_of].
      destruct (is_cdata t) eqn:Hcd.
      * apply piece_elem; [apply prefix_blank|]. apply elem_full; [exact Hk|]. now apply cdata_body_content.
      * destruct t as [|c0 t].
        -- apply piece_elem; [apply prefix_blank|]. apply elem_full; [exact Hk|constructor].
        -- apply piece_elem; [apply prefix_blank|].
           apply elem_text; auto; [now apply escape_chardata|discriminate|now apply escape_nonempty].
    + discriminate.
  - rewrite shaped_dict in Hs. rewrite xml_put_dict, nodes_of_dict.
    pose proof (items_content inc (indent + inc)%Z kvs IH Hs [] [] (or_introl (conj eq_refl eq_refl))) as Hsub.
    cbn [app] in Hsub. fold (xml_items inc (indent + inc)%Z kvs) in Hsub.
    set (sub := xml_items inc (indent + inc)%Z kvs) in *.
    set (ns := flat_map (fun kv => nodes_of (fst kv) (snd kv)) kvs) in *.
    eexists. split; [reflexivity|]. unfold dict_elem. destruct (is_nil sub) eqn:En.
    + apply is_nil_true in En. destruct Hsub as [[_ ->]|Hp]; [|apply piece_nonempty in Hp; congruence].
      apply piece_elem; [apply prefix_blank|now apply elem_empty].
    + apply is_nil_false in En. destruct Hsub as [[E _]|Hp]; [congruence|].
      destruct (mem_chr 10 sub).
      * apply piece_elem; [apply prefix_blank|].
        replace (tag_open k ++ [10] ++ sub ++ [10] ++ spaces indent ++ tag_close k)
          with (tag_open k ++ ([10] ++ sub ++ [10] ++ spaces indent) ++ tag_close k) by (now rewrite <- !app_assoc).
        apply elem_full; [exact Hk|]. apply ct_ws; [reflexivity|].
        apply content_ws_r; [now apply piece_content|]. apply xws_app; [reflexivity|auto with xws].
      * destruct Hp as [w [r [Esub [Hw Hc]]]]. rewrite Esub, (lstrip_blank w r Hw).
        rewrite app_assoc. apply piece_elem.
        -- apply blank_app; [apply prefix_blank|]. destruct (pstr_eqb k k_parm); auto with xws.
        -- now apply elem_full.
  - destruct xs as [|x xs].
    + eexists. split; [reflexivity|]. now apply empty_elem_piece.
    + rewrite shaped_lst in Hs. rewrite xml_put_lst, nodes_of_lst.
      inversion IH as [|? ? Hx Hxs]; subst. cbn [forallb] in Hs. apply andb_true_iff in Hs as [Hs1 Hs2].
      cbn [fold_left flat_map]. destruct (Hx inc indent k [] Hk Hs1) as [D1 [E1 H1]]. cbn [app] in E1. rewrite E1.
      assert (Hp : piece (nl_if res ++ D1) (nodes_of k x)) by (apply piece_blank_l; auto with xws).
      destruct (list_content inc indent k xs res Hxs Hk Hs2 _ _ Hp) as [D' [E HD]].
      exists D'. split; [exact E|exact HD].
Qed.

(* ---- the document ---------------------------------------------------------------------------------------- *)
Definition single_root (v : tree) : bool := match v with Lst _ (_ :: _) => false | _ => true end.

Definition decl_ok (o : xopts) : Prop :=
  x_encoding o = [] \/ (enc_name_ok (x_encoding o) = true /\ (x_quote o = [34] \/ x_quote o = [39])).

Lemma decl_declaration o : decl_ok o -> xml_declaration (xml_decl o).
Proof.
  unfold decl_ok, xml_decl. intros [H|[He Hq]].
  - rewrite H. constructor.
  - destruct (is_nil (x_encoding o)) eqn:En; [constructor|].
    assert (exists q, x_quote o = [q] /\ (q = 34 \/ q = 39)) as [q [-> Hq']] by (destruct Hq as [->| ->]; eauto).
    replace ([60; 63; 120; 109; 108; 32; 118; 101; 114; 115; 105; 111; 110; 61] ++ [q] ++ [49; 46; 48] ++ [q] ++
             [32; 101; 110; 99; 111; 100; 105; 110; 103; 61] ++ [q] ++ x_encoding o ++ [q] ++ [63; 62; 10])
      with ([60; 63; 120; 109; 108; 32; 118; 101; 114; 115; 105; 111; 110; 61] ++ [q] ++ [49; 46; 48] ++ [q] ++
            [32; 101; 110; 99; 111; 100; 105; 110; 103; 61] ++ [q] ++ x_encoding o ++ [q] ++ [63; 62] ++ [10]) by reflexivity.
    apply xd_some; auto. reflexivity.
Qed.

Lemma single_root_node k v :
  shaped_val v = true -> single_root v = true -> exists name kids, nodes_of k v = [XElem name kids].
Proof.
  destruct v as [s|c kvs|c [|x xs]]; intros Hs Hr; try discriminate.
  - destruct s as [|b|z|h|t|t]; cbn [nodes_of]; try (destruct (scalar_text _); eauto); eauto; [|discriminate].
    destruct (is_cdata t); [eauto|]. destruct t; eauto.
  - rewrite nodes_of_dict. eauto.
  - cbn [nodes_of]. eauto.
Qed.

Theorem to_xml_wellformed o k v :
  decl_ok o -> name_ok k = true -> shaped_val v = true -> single_root v = true ->
  exists name kids, nodes_of k v = [XElem name kids] /\ document (to_xml o [(k, v)]) (XElem name kids).
Proof.
  intros Hd Hk Hs Hr. destruct (single_root_node k v Hs Hr) as [name [kids E]].
  exists name, kids. split; [exact E|]. unfold to_xml, xml_items. cbn [fold_left fst snd].
  destruct (xml_put_piece v (x_indent o) 0%Z k [] Hk Hs) as [D [ED HD]]. cbn [app] in ED. rewrite ED.
  apply doc_intro; [now apply decl_declaration|]. rewrite <- E. now apply piece_content.
Qed.

(* indent, encoding and quote change the layout only *)
Corollary xml_options_layout_only o1 o2 k v :
  decl_ok o1 -> decl_ok o2 -> name_ok k = true -> shaped_val v = true -> single_root v = true ->
  exists n, document (to_xml o1 [(k, v)]) n /\ document (to_xml o2 [(k, v)]) n.
Proof.
  intros H1 H2 Hk Hs Hr.
  destruct (to_xml_wellformed o1 k v H1 Hk Hs Hr) as [n1 [k1 [E1 D1]]].
  destruct (to_xml_wellformed o2 k v H2 Hk Hs Hr) as [n2 [k2 [E2 D2]]].
  rewrite E1 in E2. inversion E2; subst. eauto.
Qed.

(* on the domain of the theorem the writer refuses nothing *)
Lemma name_not_attr k : name_ok k = true -> is_attr k = false.
Proof.
  destruct k as [|c r]; [reflexivity|]. cbn [name_ok is_attr]. intros H. apply andb_true_iff in H as [H _].
  destruct (c =? 64) eqn:E; [|reflexivity]. apply N.eqb_eq in E. subst. discriminate.
Qed.

Lemma shaped_check v : forall k, name_ok k = true -> shaped_val v = true -> xml_check k v = VOk.
Proof.
  induction v as [s|c kvs IH|c xs IH] using tree_ind'; intros k Hk Hs.
  - cbn [xml_check]. rewrite (name_not_attr k Hk). destruct s; try reflexivity. discriminate.
  - cbn [xml_check]. rewrite (name_not_attr k Hk). rewrite shaped_dict in Hs.
    assert (E : (fix go (l : list (pstr * tree)) : verdict :=
                   match l with [] => VOk | (k', v') :: r => vseq (xml_check k' v') (go r) end) kvs = VOk).
    { induction IH as [|[k' v'] r Hv Hr IHr]; [reflexivity|]. cbn [forallb fst snd] in Hs.
      apply andb_true_iff in Hs as [Hs1 Hs2]. apply andb_true_iff in Hs1 as [Hk' Hsv]. cbn [snd] in Hv.
      rewrite (Hv k' Hk' Hsv). cbn [vseq]. now apply IHr. }
    rewrite E. reflexivity.
  - destruct xs as [|x xs]; [cbn [xml_check]; now rewrite (name_not_attr k Hk)|].
    rewrite shaped_lst in Hs. cbn [xml_check forallb] in *. apply andb_true_iff in Hs as [Hs1 Hs2].
    inversion IH as [|? ? Hx Hxs]; subst. rewrite (Hx k Hk Hs1). cbn [vseq]. clear Hx Hs1 IH.
    induction Hxs as [|y r Hy Hr IHr]; [reflexivity|]. cbn [forallb] in Hs2.
    apply andb_true_iff in Hs2 as [Hs1 Hs2]. rewrite (Hy k Hk Hs1). cbn [vseq]. now apply IHr.
Qed.

(* ---- the reader agrees with the relation --------------------------------------------------------------- *)
Lemma predefined_cases e c : predefined e = Some c ->
  (e = [108; 116] /\ c = 60) \/ (e = [103; 116] /\ c = 62) \/ (e = [97; 109; 112] /\ c = 38) \/
  (e = [113; 117; 111; 116] /\ c = 34) \/ (e = [97; 112; 111; 115] /\ c = 39).
Proof.
  unfold predefined.
  destruct (pstr_eqb e [108; 116]) eqn:E1; [apply pstr_eqb_eq in E1; intros H; inversion H; auto|].
  destruct (pstr_eqb e [103; 116]) eqn:E2; [apply pstr_eqb_eq in E2; intros H; inversion H; auto|].
  destruct (pstr_eqb e [97; 109; 112]) eqn:E3; [apply pstr_eqb_eq in E3; intros H; inversion H; auto|].
  destruct (pstr_eqb e [113; 117; 111; 116]) eqn:E4; [apply pstr_eqb_eq in E4; intros H; inversion H; auto 6|].
  destruct (pstr_eqb e [97; 112; 111; 115]) eqn:E5; [apply pstr_eqb_eq in E5; intros H; inversion H; auto 6|].
  discriminate.
Qed.

Lemma chardata_unescape b s : chardata b s -> xml_unescape b = Some s.
Proof.
  unfold xml_unescape. induction 1 as [|c b s Hp H IH|e c b s He H IH|ds c b s Hl Hc H IH].
  - reflexivity.
  - cbn [unesc]. unfold plain_char in Hp. apply andb_true_iff in Hp as [Hp H62]. apply andb_true_iff in Hp as [Hp H38].
    apply andb_true_iff in Hp as [_ H60]. apply negb_true_iff in H38, H60. now rewrite H38, H60, IH.
  - cbn [unesc]. change (38 =? 38) with true. cbv iota.
    destruct (predefined_cases e c He) as [[-> ->]|[[-> ->]|[[-> ->]|[[-> ->]|[-> ->]]]]];
      (rewrite unesc_in_ref; [cbn [rev app]; rewrite IH; reflexivity|cbn [In]; intuition discriminate]).
  - cbn [unesc]. change (38 =? 38) with true. cbv iota.
    change (35 :: ds ++ 59 :: b) with ((35 :: ds) ++ 59 :: b).
    destruct Hl as [Hne [Hd [_ Hv]]]. rewrite unesc_in_ref.
    + cbn [rev app decode_ref]. rewrite Hd. apply is_nil_false in Hne. rewrite Hne. cbn [negb andb]. now rewrite Hv, IH.
    + now apply digits_no_semicolon.
Qed.

(* ---- loading back: xmltodict's value of the element tree is the normalised tree ------------------------- *)
Fixpoint txt_of (l : list xnode) : pstr :=
  match l with [] => [] | XText s :: r => s ++ txt_of r | _ :: r => txt_of r end.
Fixpoint items_of (l : list xnode) (acc : option (list (pstr * tree))) : option (list (pstr * tree)) :=
  match l with
  | [] => acc
  | (XElem nm _ as kid) :: r =>
    items_of r (Some (push nm (elem_value kid) (match acc with Some i => i | None => [] end)))
  | _ :: r => items_of r acc
  end.

Lemma elem_value_elem nm kids :
  elem_value (XElem nm kids) =
  match items_of kids None with
  | None => if is_nil (strip_all (txt_of kids)) then Leaf SNone else Leaf (SStr (strip_all (txt_of kids)))
  | Some i => Dict false (if is_nil (strip_all (txt_of kids)) then i else push k_text (Leaf (SStr (strip_all (txt_of kids)))) i)
  end.
Proof. reflexivity. Qed.

Definition named (k : pstr) (n : xnode) : Prop := exists kids, n = XElem k kids.

Lemma nodes_named v : forall k, Forall (named k) (nodes_of k v).
Proof.
  induction v as [s|c kvs IH|c xs IH] using tree_ind'; intros k.
  - destruct s as [|b|z|h|t|t]; cbn [nodes_of]; try (destruct (scalar_text _)); try (destruct (is_cdata t); [|destruct t]);
      repeat constructor; try (eexists; reflexivity).
  - rewrite nodes_of_dict. repeat constructor. eexists; reflexivity.
  - destruct xs as [|x xs]; [repeat constructor; eexists; reflexivity|].
    rewrite nodes_of_lst. induction IH as [|y r Hy Hr IHr]; [constructor|]. cbn [flat_map].
    apply Forall_app. split; [apply Hy|apply IHr].
Qed.

Lemma txt_named k ns : Forall (named k) ns -> txt_of ns = [].
Proof. induction 1 as [|n r [kids ->] Hr IH]; [reflexivity|exact IH]. Qed.

Lemma txt_of_app a b : txt_of (a ++ b) = txt_of a ++ txt_of b.
Proof. induction a as [|[s|nm ks] a IH]; cbn [app txt_of]; [reflexivity| |exact IH]. now rewrite IH, app_assoc. Qed.

Lemma items_of_app a b acc : items_of (a ++ b) acc = items_of b (items_of a acc).
Proof. revert acc; induction a as [|[s|nm ks] a IH]; intros acc; cbn [app items_of]; auto. Qed.

Definition acc_items (acc : option (list (pstr * tree))) : list (pstr * tree) :=
  match acc with Some i => i | None => [] end.

Lemma push_fresh k v item : ~ In k (map fst item) -> push k v item = item ++ [(k, v)].
Proof.
  induction item as [|[k' u] r IH]; intros H; [reflexivity|]. cbn [push map fst In] in *.
  destruct (pstr_eqb k k') eqn:E; [apply pstr_eqb_eq in E; subst; exfalso; auto|].
  cbn [app]. rewrite IH; auto.
Qed.

Definition merge (u v : tree) : tree := match u with Lst c xs => Lst c (xs ++ [v]) | _ => Lst false [u; v] end.

Lemma push_last k u v item : ~ In k (map fst item) -> push k v (item ++ [(k, u)]) = item ++ [(k, merge u v)].
Proof.
  induction item as [|[k' w] r IH]; intros H.
  - cbn [app push]. now rewrite pstr_eqb_refl.
  - cbn [push map fst In app] in *. destruct (pstr_eqb k k') eqn:E; [apply pstr_eqb_eq in E; subst; exfalso; auto|].
    rewrite IH; auto.
Qed.

Lemma elem_value_not_list n : match elem_value n with Lst _ _ => False | _ => True end.
Proof.
  destruct n as [s|nm kids]; [exact I|]. rewrite elem_value_elem.
  destruct (items_of kids None); [exact I|]. destruct (is_nil _); exact I.
Qed.

(* further items of a repeated element extend the list *)
Lemma items_repeat k ns : Forall (named k) ns -> forall item es, ~ In k (map fst item) ->
  items_of ns (Some (item ++ [(k, Lst false es)])) = Some (item ++ [(k, Lst false (es ++ map elem_value ns))]).
Proof.
  induction 1 as [|n r [kids ->] Hr IH]; intros item es Hk.
  - cbn [items_of map]. now rewrite app_nil_r.
  - cbn [items_of map acc_items]. rewrite push_last by exact Hk. cbn [merge].
    rewrite IH by exact Hk. now rewrite <- app_assoc.
Qed.

Definition is_lst (t : tree) : bool := match t with Lst _ _ => true | _ => false end.

(* no list directly inside a list (XML has no notation for it) *)
Fixpoint flat (v : tree) : bool :=
  match v with
  | Leaf _ => true
  | Dict _ kvs => (fix all (l : list (pstr * tree)) := match l with [] => true | (_, v) :: r => flat v && all r end) kvs
  | Lst _ xs => (fix all (l : list tree) := match l with [] => true | v :: r => negb (is_lst v) && flat v && all r end) xs
  end.
Lemma flat_dict c kvs : flat (Dict c kvs) = forallb (fun kv => flat (snd kv)) kvs.
Proof. cbn [flat]. induction kvs as [|[k v] r IH]; [reflexivity|]. cbn [forallb snd]. now rewrite IH. Qed.
Lemma flat_lst c xs : flat (Lst c xs) = forallb (fun v => negb (is_lst v) && flat v) xs.
Proof. reflexivity. Qed.

Lemma xml_norm_dict c kv kvs :
  xml_norm (Dict c (kv :: kvs)) = Dict false (map (fun kv => (fst kv, xml_norm (snd kv))) (kv :: kvs)).
Proof.
  destruct kv as [k0 v0]. cbn [xml_norm map fst snd]. do 2 f_equal.
  induction kvs as [|[k v] r IH]; [reflexivity|]. cbn [map fst snd]. now rewrite IH.
Qed.
Lemma xml_norm_lst c x y xs : xml_norm (Lst c (x :: y :: xs)) = Lst false (map xml_norm (x :: y :: xs)).
Proof. reflexivity. Qed.

Lemma wf_dict' c kvs : wf (Dict c kvs) <-> NoDup (map fst kvs) /\ Forall (fun kv => wf (snd kv)) kvs.
Proof.
  cbn [wf]. apply and_iff_compat_l. induction kvs as [|[k v] r IH]; [split; auto|].
  split; intros H.
  - destruct H as [H1 H2]. constructor; [exact H1|now apply IH].
  - inversion H; subst. split; [assumption|now apply IH].
Qed.
Lemma wf_lst' c xs : wf (Lst c xs) <-> Forall wf xs.
Proof.
  cbn [wf]. induction xs as [|v r IH]; [split; auto|].
  split; intros H.
  - destruct H as [H1 H2]. constructor; [exact H1|now apply IH].
  - inversion H; subst. split; [assumption|now apply IH].
Qed.

(* A: a value that is not a non-empty list is one element whose value is the normalised value;
   B: an entry (any flat value) adds exactly  name -> normalised value  to the mapping *)
Definition loads_back (v : tree) : Prop :=
  wf v -> flat v = true -> shaped_val v = true ->
  (single_root v = true -> forall k, exists kids, nodes_of k v = [XElem k kids] /\ elem_value (XElem k kids) = xml_norm v) /\
  (forall k acc, ~ In k (map fst (acc_items acc)) ->
     items_of (nodes_of k v) acc = Some (acc_items acc ++ [(k, xml_norm v)])).

Lemma one_node_entry k kids acc v :
  elem_value (XElem k kids) = v -> ~ In k (map fst (acc_items acc)) ->
  items_of [XElem k kids] acc = Some (acc_items acc ++ [(k, v)]).
Proof. intros E Hk. cbn [items_of]. fold (acc_items acc). rewrite E. now rewrite push_fresh. Qed.

Lemma dict_items kvs :
  Forall (fun kv => loads_back (snd kv)) kvs ->
  NoDup (map fst kvs) -> Forall (fun kv => wf (snd kv)) kvs ->
  forallb (fun kv => flat (snd kv)) kvs = true ->
  forallb (fun kv => name_ok (fst kv) && shaped_val (snd kv)) kvs = true ->
  forall item, (forall k, In k (map fst kvs) -> ~ In k (map fst item)) ->
  forall acc, acc_items acc = item ->
  items_of (flat_map (fun kv => nodes_of (fst kv) (snd kv)) kvs) acc =
  match kvs with [] => acc | _ => Some (item ++ map (fun kv => (fst kv, xml_norm (snd kv))) kvs) end.
Proof.
  induction 1 as [|[k v] r Hv Hr IH]; intros Hnd Hwf Hfl Hsh item Hfresh acc Hacc; [reflexivity|].
  cbn [map fst] in Hnd. inversion Hnd as [|? ? Hk Hnd']; subst. inversion Hwf as [|? ? Hwv Hwr]; subst.
  cbn [forallb fst snd] in Hfl, Hsh. apply andb_true_iff in Hfl as [Hf1 Hf2]. apply andb_true_iff in Hsh as [Hs1 Hs2].
  apply andb_true_iff in Hs1 as [_ Hs1]. cbn [snd] in Hv.
  destruct (Hv Hwv Hf1 Hs1) as [_ HB]. cbn [flat_map fst snd]. rewrite items_of_app.
  rewrite (HB k acc) by (apply Hfresh; now left).
  specialize (IH Hnd' Hwr Hf2 Hs2 (acc_items acc ++ [(k, xml_norm v)])).
  rewrite (IH) with (acc := Some (acc_items acc ++ [(k, xml_norm v)])); [|  |reflexivity].
  - cbn [map fst snd]. destruct r; [reflexivity|]. now rewrite <- app_assoc.
  - intros k' Hin. rewrite map_app, in_app_iff. cbn [map fst In]. intros [H|[H|[]]].
    + revert H. apply Hfresh. now right.
    + subst k'. contradiction.
Qed.

Lemma strip_all_nil : strip_all [] = [].
Proof. reflexivity. Qed.

Lemma leaf_value k t :
  elem_value (XElem k (match t with [] => [] | c :: r => [XText (c :: r)] end)) =
  (if is_nil (strip_all t) then Leaf SNone else Leaf (SStr (strip_all t))).
Proof.
  rewrite elem_value_elem. destruct t as [|c t]; [reflexivity|].
  cbn [items_of txt_of]. now rewrite app_nil_r.
Qed.

Lemma leaf_nodes k s : s <> SNone -> (forall b, s <> SBytes b) -> (forall t, s <> SStr t) ->
  nodes_of k (Leaf s) = [XElem k (match scalar_text s with [] => [] | c :: r => [XText (c :: r)] end)] /\
  xml_norm (Leaf s) = (if is_nil (strip_all (scalar_text s)) then Leaf SNone else Leaf (SStr (strip_all (scalar_text s)))).
Proof.
  intros H1 H2 H3. destruct s; try congruence; try (exfalso; eapply H2; reflexivity); try (exfalso; eapply H3; reflexivity);
    (split; [cbn [nodes_of]; destruct (scalar_text _); reflexivity|reflexivity]).
Qed.

Lemma items_repeat' k ns e item :
  Forall (named k) ns -> ns <> [] -> match e with Lst _ _ => False | _ => True end -> ~ In k (map fst item) ->
  items_of ns (Some (item ++ [(k, e)])) = Some (item ++ [(k, Lst false (e :: map elem_value ns))]).
Proof.
  intros Hn Hne He Hk. destruct Hn as [|n r [kids ->] Hr]; [congruence|].
  cbn [items_of]. rewrite push_last by exact Hk.
  replace (merge e (elem_value (XElem k kids))) with (Lst false [e; elem_value (XElem k kids)]) by (destruct e; try reflexivity; contradiction).
  rewrite items_repeat by assumption. reflexivity.
Qed.

Lemma txt_opt w : txt_of (opt_text w) = w.
Proof. destruct w; [reflexivity|]. cbn [opt_text txt_of]. now rewrite app_nil_r. Qed.
Lemma items_opt w acc : items_of (opt_text w) acc = acc.
Proof. destruct w; reflexivity. Qed.

Lemma cdata_value k t : is_cdata t = true ->
  elem_value (XElem k (opt_text (cdata_pre t) ++ [XText (cdata_inner t)] ++ opt_text (cdata_post t))) =
  (if is_nil (strip_all (cdata_inner t)) then Leaf SNone else Leaf (SStr (strip_all (cdata_inner t)))).
Proof.
  intros H. destruct (is_cdata_parts t H) as [_ [H1 [H2 _]]]. rewrite elem_value_elem.
  rewrite !items_of_app, items_opt. cbn [items_of]. rewrite items_opt.
  rewrite !txt_of_app, !txt_opt. cbn [txt_of]. rewrite app_nil_r.
  now rewrite (strip_pyws _ _ _ H1 H2).
Qed.

Lemma all_loads_back v : loads_back v.
Proof.
  induction v as [s|c kvs IH|c xs IH] using tree_ind'; intros Hwf Hfl Hsh.
  - (* leaves *)
    assert (A : forall k, exists kids, nodes_of k (Leaf s) = [XElem k kids] /\ elem_value (XElem k kids) = xml_norm (Leaf s)).
    { intros k. destruct s as [|b|z|h|t|t]; try discriminate.
      - exists []. split; reflexivity.
      - destruct (leaf_nodes k (SBool b)) as [E1 E2]; try discriminate. eexists. split; [exact E1|]. now rewrite leaf_value, E2.
      - destruct (leaf_nodes k (SInt z)) as [E1 E2]; try discriminate. eexists. split; [exact E1|]. now rewrite leaf_value, E2.
      - destruct (leaf_nodes k (SFlt h)) as [E1 E2]; try discriminate. eexists. split; [exact E1|]. now rewrite leaf_value, E2.
      - cbn [nodes_of xml_norm]. destruct (is_cdata t) eqn:Hcd.
        + eexists. split; [reflexivity|]. now apply cdata_value.
        + exists (match t with [] => [] | c :: r => [XText (c :: r)] end). split; [destruct t; reflexivity|].
          now rewrite leaf_value. }
    split; [intros _; exact A|]. intros k acc Hk. destruct (A k) as [kids [E1 E2]]. rewrite E1.
    now apply one_node_entry.
  - (* dictionaries *)
    apply wf_dict' in Hwf as [Hnd Hwf]. rewrite flat_dict in Hfl. rewrite shaped_dict in Hsh.
    assert (A : forall k, exists kids, nodes_of k (Dict c kvs) = [XElem k kids] /\ elem_value (XElem k kids) = xml_norm (Dict c kvs)).
    { intros k. eexists. split; [apply nodes_of_dict|]. rewrite elem_value_elem.
      set (kids := flat_map (fun kv => nodes_of (fst kv) (snd kv)) kvs).
      assert (Ht : txt_of kids = []).
      { unfold kids. clear. induction kvs as [|[k' v'] r IHr]; [reflexivity|]. cbn [flat_map fst snd].
        rewrite txt_of_app, IHr, app_nil_r. apply (txt_named k'), nodes_named. }
      rewrite Ht, strip_all_nil. cbn [is_nil]. unfold kids.
      rewrite (dict_items kvs IH Hnd Hwf Hfl Hsh [] (fun _ _ H => H) None eq_refl).
      destruct kvs as [|kv kvs']; [reflexivity|]. now rewrite xml_norm_dict. }
    split; [intros _; exact A|]. intros k acc Hk. destruct (A k) as [kids [E1 E2]]. rewrite E1.
    now apply one_node_entry.
  - (* lists *)
    apply wf_lst' in Hwf. rewrite flat_lst in Hfl. rewrite shaped_lst in Hsh.
    destruct xs as [|x xs].
    + split; [intros _ k; exists []; split; reflexivity|].
      intros k acc Hk. cbn [nodes_of]. now apply one_node_entry.
    + split; [discriminate|]. intros k acc Hk. rewrite nodes_of_lst.
      (* every item is a single element whose value is the normalised item *)
      assert (Hit : Forall (fun y => exists kids, nodes_of k y = [XElem k kids] /\ elem_value (XElem k kids) = xml_norm y) (x :: xs)).
      { clear Hk acc. induction IH as [|y r Hy Hr IHr]; [constructor|].
        inversion Hwf as [|? ? Hwy Hwr]; subst. cbn [forallb] in Hfl, Hsh.
        apply andb_true_iff in Hfl as [Hf1 Hf2]. apply andb_true_iff in Hf1 as [Hnl Hf1]. apply andb_true_iff in Hsh as [Hs1 Hs2].
        constructor; [|now apply IHr]. destruct (Hy Hwy Hf1 Hs1) as [HA _]. apply HA.
        destruct y as [|? ?|? [|? ?]]; try reflexivity. discriminate. }
      assert (Hall : forall l, Forall (fun y => exists kids, nodes_of k y = [XElem k kids] /\ elem_value (XElem k kids) = xml_norm y) l ->
                     Forall (named k) (flat_map (nodes_of k) l) /\ map elem_value (flat_map (nodes_of k) l) = map xml_norm l /\
                     (l <> [] -> flat_map (nodes_of k) l <> [])).
      { induction 1 as [|z r [kz [Ez Vz]] Hr [IH1 [IH2 IH3]]]; [repeat split; [constructor|congruence]|].
        cbn [flat_map map]. rewrite Ez. cbn [app map]. repeat split; [constructor; [eexists; reflexivity|exact IH1]| |discriminate].
        now rewrite Vz, IH2. }
      inversion Hit as [|? ? [kids1 [E1 V1]] Hit']; subst. cbn [flat_map]. rewrite E1. cbn [app items_of].
      fold (acc_items acc). rewrite V1, push_fresh by exact Hk.
      destruct xs as [|y ys]; [reflexivity|].
      destruct (Hall (y :: ys) Hit') as [Hn [Hm Hne]].
      rewrite items_repeat'; [|exact Hn|apply Hne; discriminate|rewrite <- V1; apply elem_value_not_list|exact Hk].
      rewrite Hm. reflexivity.
Qed.

(* ---- the round trip ------------------------------------------------------------------------------------ *)
Theorem to_xml_loads_back o k v :
  decl_ok o -> name_ok k = true -> shaped_val v = true -> single_root v = true -> wf v -> flat v = true ->
  exists n, document (to_xml o [(k, v)]) n /\ x2d_root n = Dict false [(k, xml_norm v)].
Proof.
  intros Hd Hk Hs Hr Hwf Hfl.
  destruct (to_xml_wellformed o k v Hd Hk Hs Hr) as [name [kids [E D]]].
  destruct (all_loads_back v Hwf Hfl Hs) as [HA _]. destruct (HA Hr k) as [kids' [E' V]].
  rewrite E in E'. inversion E'; subst. exists (XElem k kids'). split; [exact D|].
  cbn [x2d_root]. now rewrite V.
Qed.

(* ---- non-vacuity ----------------------------------------------------------------------------------------- *)
Lemma to_xml_example :
  let v := Dict true
    [([97], Lst true [Leaf (SStr [60; 38; 62; 34; 39; 233; 8364; 8195]); Leaf SNone; Dict true [([98], Leaf (SInt (-7)))]]);
     ([80; 97; 114; 109], Dict true [([80; 97; 114; 109; 67; 111; 100; 101], Leaf (SStr [65])); ([86; 97; 108; 117; 101], Leaf (SFlt 3))]);
     ([99], Leaf (SStr [120; 10; 121]));
     ([100], Leaf (SStr [32; 60; 33; 91; 67; 68; 65; 84; 65; 91; 60; 113; 62; 38; 93; 93; 62; 10]))]%N in
  let o := {| x_indent := 2; x_encoding := [117; 116; 102; 45; 56]; x_quote := [39] |}%N in
  decl_ok o /\ name_ok [114]%N = true /\ shaped_val v = true /\ single_root v = true /\ wf v /\ flat v = true /\
  to_xml o [([114]%N, v)] =
    [60;63;120;109;108;32;118;101;114;115;105;111;110;61;39;49;46;48;39;32;101;110;99;111;100;105;110;103;61;39;117;116;102;45;56;39;63;62;10;60;114;62;10;32;32;60;97;62;38;108;116;59;38;97;109;112;59;38;103;116;59;38;113;117;111;116;59;39;233;38;35;56;51;54;52;59;38;35;56;49;57;53;59;60;47;97;62;10;32;32;60;97;47;62;10;32;32;60;97;62;60;98;62;45;55;60;47;98;62;60;47;97;62;32;32;60;80;97;114;109;62;60;80;97;114;109;67;111;100;101;62;65;60;47;80;97;114;109;67;111;100;101;62;60;86;97;108;117;101;62;49;46;53;60;47;86;97;108;117;101;62;60;47;80;97;114;109;62;10;32;32;60;99;62;120;10;121;60;47;99;62;10;32;32;60;100;62;10;32;32;32;32;32;60;33;91;67;68;65;84;65;91;60;113;62;38;93;93;62;10;10;32;32;60;47;100;62;10;60;47;114;62]%N.
Proof.
  intros v o. split; [right; split; [reflexivity|now right]|]. split; [reflexivity|]. split; [vm_compute; reflexivity|].
  split; [reflexivity|]. split; [|split; vm_compute; reflexivity].
  apply wf_dict'. split; [repeat constructor; cbn [In]; intuition discriminate|].
  repeat constructor; cbn [snd wf]; auto.
  repeat constructor; cbn [In]; intuition discriminate.
Qed.
