(* Export/Json.v — model of n0dict_.to_json / n0list_.to_json, i.e. of
   n0struct_logging.n0pretty specialised to the arguments to_json passes
   (show_type=False, auto_quotes=False, __quotes = the double quote, show_item_count=False,
   skip_simple_types=True, json_convention=True), character for character,
   as repaired by the six "fix:" commits for C11 (JSON string escaping of
   values and keys; pair layout: comma only between emitted pairs;
   skip_empty_arrays drops the entry/item of an empty container; to_json never
   returns empty text; entries are read by key, not through the xpath lookup of
   n0dict; no '{.......}' cut-off at 111 levels in JSON output), and of the JSON branch of the n0dict / n0list text
   constructors (json.loads itself is an oracle: its result is an input).

   Python                                   here
   ------                                   ----
   indent_ (recursion depth)                lvl : nat
   __indent_size (after "if compress")      eff_size o : Z  (any int; " " * negative = "")
   indent(), indent(indent_-1)              ind o (S lvl), ind o lvl
   (" " if __indent_size else "")           sp o
   is_list_with_pairs(item)                 list_pairs xs  (None / Some names, {} = Some [])
   the pair layout loop                     render_pairs / render_record / pair_cell
   the generic loop ("if result: ...")      fold_left (join_step sep) entries []
   brackets / "\n" in result                wrap
   depth guard "indent_ < 111 or json_convention"   always true on this path                 *)
From Coq Require Import List NArith ZArith Bool Lia.
From N0 Require Import Base.PyStr Base.PyVal Export.Util.
Import ListNotations.
Local Open Scope N_scope.

Record opts := { o_indent : Z; o_pairs : bool; o_compress : bool; o_skip : bool }.

(* to_json: "if compress: indent = 0";  n0pretty: "if not __indent_size: pairs_in_one_line = False" *)
Definition eff_size (o : opts) : Z := if o_compress o then 0%Z else o_indent o.
Definition has_ind (o : opts) : bool := negb (Z.eqb (eff_size o) 0).
Definition eff_pairs (o : opts) : bool := has_ind o && o_pairs o.

Definition sp (o : opts) : pstr := if has_ind o then [32] else [].
Definition ind (o : opts) (lvl : nat) : pstr :=
  if has_ind o then 10 :: repeat 32 (Z.to_nat (Z.of_nat lvl * eff_size o)) else [].

(* ---- scalars ---------------------------------------------------------------------- *)
Definition hex_digit (n : N) : N := if n <? 10 then 48 + n else 87 + n.   (* f"{code:04x}": lower case *)

(* str.translate(json_escapes) *)
Definition json_escape_chr (c : N) : pstr :=
  if c =? 34 then [92; 34]
  else if c =? 92 then [92; 92]
  else if c =? 8 then [92; 98]
  else if c =? 12 then [92; 102]
  else if c =? 10 then [92; 110]
  else if c =? 13 then [92; 114]
  else if c =? 9 then [92; 116]
  else if c <? 32 then [92; 117; 48; 48; hex_digit (c / 16); hex_digit (c mod 16)]
  else [c].
Definition json_escape (s : pstr) : pstr := flat_map json_escape_chr s.
Definition quote (s : pstr) : pstr := 34 :: json_escape s ++ [34].

Definition s_null : pstr := [110; 117; 108; 108].
Definition s_true : pstr := [116; 114; 117; 101].
Definition s_false : pstr := [102; 97; 108; 115; 101].

Definition render_scalar (s : scalar) : pstr :=
  match s with
  | SNone => s_null
  | SBool true => s_true
  | SBool false => s_false
  | SInt z => dec_Z z
  | SFlt h => dec_half h
  | SStr s => quote s
  | SBytes _ => []          (* not a JSON value: excluded by json_tree, the observation says Unmodelled *)
  end.

(* ---- is_list_with_pairs -------------------------------------------------------------- *)
(* len(presentation_string): the value is quoted but NOT escaped there; str(True) and
   "true" have the same length.  None (the Python None) and containers are "complex". *)
Definition pres_len (s : scalar) : option nat :=
  match s with
  | SStr s => Some (length s + 2)%nat
  | SInt z => Some (length (dec_Z z))
  | SFlt h => Some (length (dec_half h))
  | SBool true => Some 4%nat
  | SBool false => Some 5%nat
  | _ => None
  end.

Fixpoint names_upd (k : pstr) (n : nat) (names : list (pstr * nat)) : list (pstr * nat) :=
  match names with
  | [] => [(k, n)]
  | (k', m) :: r => if pstr_eqb k k' then (k', Nat.max m n) :: r else (k', m) :: names_upd k n r
  end.

Fixpoint scan_record (kvs : list (pstr * tree)) (names : list (pstr * nat)) : option (list (pstr * nat)) :=
  match kvs with
  | [] => Some names
  | (k, Leaf s) :: r =>
    match pres_len s with
    | Some n =>
      let names' := names_upd k n names in
      if (2 <? length names')%nat then None else scan_record r names'
    | None => None
    end
  | _ :: _ => None
  end.

Fixpoint scan_items (xs : list tree) (names : list (pstr * nat)) : option (list (pstr * nat)) :=
  match xs with
  | [] => Some names
  | Dict _ kvs :: r =>
    if (2 <? length kvs)%nat then None
    else match scan_record kvs names with Some names' => scan_items r names' | None => None end
  | _ :: _ => None
  end.
Definition list_pairs (xs : list tree) : option (list (pstr * nat)) := scan_items xs [].

(* ---- the pair layout -------------------------------------------------------------------- *)
(* state: sub_result and "sub_result.strip() != ''" (an emitted pair contains a quote and a
   colon, absent pairs contribute blanks only) *)
Definition cell_text (v : tree) : pstr := match v with Leaf s => render_scalar s | _ => [] end.

Definition pair_cell (kvs : list (pstr * tree)) (st : pstr * bool) (nm : pstr * nat) : pstr * bool :=
  let '(sub, emitted) := st in
  let '(k, w) := nm in
  match lookup k kvs with
  | Some v =>
    (sub ++ (if emitted then [44] else if is_nil sub then [] else [32])
         ++ [32] ++ quote k ++ [58; 32] ++ ljust (cell_text v) w 32, true)
  | None =>
    (sub ++ (if is_nil sub then [] else [32]) ++ repeat 32 (1 + 1 + length k + 1 + 2 + w)%nat, emitted)
  end.

Definition render_record (names : list (pstr * nat)) (kvs : list (pstr * tree)) : pstr :=
  [123] ++ fst (fold_left (pair_cell kvs) names ([], false)) ++ [32; 125].

Definition pairs_step (o : opts) (lvl : nat) (names : list (pstr * nat)) (res : pstr) (x : tree) : pstr :=
  match x with
  | Dict _ kvs =>
    if o_skip o && is_nil kvs then res
    else (if is_nil res then [] else res ++ [44] ++ ind o (S lvl)) ++ render_record names kvs
  | _ => res
  end.
Definition render_pairs (o : opts) (lvl : nat) (names : list (pstr * nat)) (xs : list tree) : pstr :=
  fold_left (pairs_step o lvl names) xs [].

(* ---- the generic layout ------------------------------------------------------------------- *)
(* "if result: result += ',' + sep" then "result += entry" *)
Definition join_step (sep : pstr) (res e : pstr) : pstr :=
  if is_nil res then e else res ++ [44] ++ sep ++ e.

Definition dict_entry (o : opts) (kr : pstr * pstr) : option pstr :=
  if o_skip o && is_nil (snd kr) then None else Some (quote (fst kr) ++ [58] ++ sp o ++ snd kr).
Definition list_entry (o : opts) (r : pstr) : option pstr :=
  if o_skip o && is_nil r then None else Some r.

Definition is_str_leaf (t : tree) : bool := match t with Leaf (SStr _) => true | _ => false end.
Definition condense (kvs : list (pstr * tree)) : bool :=
  (length kvs <=? 2)%nat && forallb (fun kv => is_str_leaf (snd kv)) kvs.

Definition wrap (o : opts) (lvl : nat) (b0 b1 : N) (res : pstr) : pstr :=
  if negb (is_nil res) || negb (o_skip o) then
    if mem_chr 10 res then [b0] ++ ind o (S lvl) ++ res ++ ind o lvl ++ [b1]
    else [b0] ++ sp o ++ res ++ sp o ++ [b1]
  else res.

(* "if indent_ < 111 or json_convention": always true on the to_json path (the cut-off of
   the debug printer, '{.......}', no longer applies to JSON output) *)
Fixpoint pretty (o : opts) (lvl : nat) (t : tree) : pstr :=
  match t with
  | Leaf s => render_scalar s
  | Dict _ kvs =>
    let rs := (fix go (l : list (pstr * tree)) : list (pstr * pstr) :=
                 match l with
                 | [] => []
                 | (k, v) :: r => (k, pretty o (S lvl) v) :: go r
                 end) kvs in
    let sep := if condense kvs then sp o else ind o (S lvl) in
    wrap o lvl 123 125 (fold_left (join_step sep) (filter_map (dict_entry o) rs) [])
  | Lst _ xs =>
    match (if eff_pairs o then list_pairs xs else None) with
    | Some (nm :: names) => wrap o lvl 91 93 (render_pairs o lvl (nm :: names) xs)
    | _ =>
      let rs := (fix go (l : list tree) : list pstr :=
                   match l with
                   | [] => []
                   | v :: r => pretty o (S lvl) v :: go r
                   end) xs in
      wrap o lvl 91 93 (fold_left (join_step (ind o (S lvl))) (filter_map (list_entry o) rs) [])
    end
  end.

(* n0dict_.to_json / n0list_.to_json: n0pretty(self, ...) or "{}" / "[]" *)
Definition to_json (o : opts) (t : tree) : pstr :=
  let r := pretty o 0 t in
  if is_nil r then match t with Dict _ _ => [123; 125] | _ => [91; 93] end else r.

(* ---- the domain of the theorems: trees without bytes leaves ----------------------------------- *)
Definition not_bytes (s : scalar) : bool := match s with SBytes _ => false | _ => true end.

Fixpoint no_bytes (t : tree) : bool :=
  match t with
  | Leaf s => not_bytes s
  | Dict _ kvs => (fix all (l : list (pstr * tree)) := match l with [] => true | (_, v) :: r => no_bytes v && all r end) kvs
  | Lst _ xs => (fix all (l : list tree) := match l with [] => true | v :: r => no_bytes v && all r end) xs
  end.

(* ---- the domain of the model: JSON-representable trees --------------------------------------- *)
(* no bytes leaves; floats are halves below 2^53 (repr is positional and exact there) *)
Definition json_scalar (s : scalar) : bool :=
  match s with
  | SBytes _ => false
  | SFlt h => (Z.abs h <? 2 ^ 53)%Z
  | _ => true
  end.
Fixpoint json_tree (t : tree) : bool :=
  match t with
  | Leaf s => json_scalar s
  | Dict _ kvs => (fix all (l : list (pstr * tree)) := match l with [] => true | (_, v) :: r => json_tree v && all r end) kvs
  | Lst _ xs => (fix all (l : list tree) := match l with [] => true | v :: r => json_tree v && all r end) xs
  end.

(* observation of the export stream: the text *)
Definition obs_to_json (x : opts * tree) : out :=
  let '(o, t) := x in
  if json_tree t && wfb t then
    match t with
    | Leaf _ => Unmodelled          (* to_json is a method of n0dict / n0list *)
    | _ => Ok (t_str (to_json o t))
    end
  else Unmodelled.

(* ---- the text constructors (JSON branch) ---------------------------------------------------- *)
(* json.loads(text, object_pairs_hook=n0dict): every object becomes an n0dict, arrays stay list *)
Fixpoint hook (t : tree) : tree :=
  match t with
  | Leaf s => Leaf s
  | Dict _ kvs => Dict true ((fix go (l : list (pstr * tree)) := match l with [] => [] | (k, v) :: r => (k, hook v) :: go r end) kvs)
  | Lst _ xs => Lst false ((fix go (l : list tree) := match l with [] => [] | v :: r => hook v :: go r end) xs)
  end.

(* n0dict(text) (isdict = true) / n0list(text) (isdict = false).  [parsed] is what the
   standard parser returns for the stripped text (None = it raises JSONDecodeError, a
   ValueError).  The XML branch of n0dict(text) belongs to C12. *)
Definition load_text (isdict : bool) (text : pstr) (parsed : option tree) : out :=
  match text with
  | [] => Ok (if isdict then Dict true [] else Lst true [])          (* "if not _incoming" *)
  | _ =>
    match strip text with
    | [] => Raise ExType                                              (* blank text: neither '{' nor '<' / '[' *)
    | c :: _ =>
      if isdict then
        if c =? 60 then Unmodelled
        else if c =? 123 then
          match parsed with
          | Some (Dict _ kvs) => Ok (hook (Dict true kvs))
          | Some _ => Unmodelled
          | None => Raise ExValue
          end
        else Raise ExType
      else
        if c =? 91 then
          match parsed with
          | Some (Lst _ xs) => match hook (Lst true xs) with Lst _ ys => Ok (Lst true ys) | t => Ok t end
          | Some _ => Unmodelled
          | None => Raise ExValue
          end
        else Raise ExType
    end
  end.

Definition obs_load (x : (bool * pstr) * option tree) : out :=
  let '((isdict, text), parsed) := x in load_text isdict text parsed.
