(* Export/JsonScan.v — a necessary condition for being a JSON text, as an executable
   one-pass scanner, with the proof that every text of the grammar relation passes it:
   json_denotes s t -> json_scan s = true.  Used contrapositively (Refuted/C11.v): a
   text the scanner rejects denotes no value at all.

   The scanner tracks whether it is inside a string (escapes must be one of
   quote backslash slash b f n r t or u + four hex digits; no character below U+0020) and,
   outside strings, the class of the previous significant character: a value may
   only start at the beginning or after an opening bracket, a comma or a colon and
   must start like one (a quotation mark, '[', '{', '-', a digit, t, f, n); a comma or colon needs a
   value before it; a closing bracket needs a value or the opening bracket before it;
   the text must end after a value.  It does not match brackets or check the words. *)
From Coq Require Import List NArith ZArith Bool Lia Permutation.
From N0 Require Import Base.PyStr Base.PyVal Export.Util Export.JsonGrammar.
Import ListNotations.
Local Open Scope N_scope.

Inductive prev := PStart | POpen | PComma | PColon | PVal.
Inductive mode := Out (p : prev) | InStr | InEsc | InU (n : nat).

Definition pre (p : prev) : bool := match p with PVal => false | _ => true end.

Definition is_hex (c : N) : bool := match hex_val c with Some _ => true | None => false end.
Definition is_simple (c : N) : bool := match simple_escape c with Some _ => true | None => false end.
Definition atom_start (c : N) : bool := is_dig c || (c =? 45) || (c =? 116) || (c =? 102) || (c =? 110).
Definition atom_char (c : N) : bool :=
  is_dig c || (c =? 45) || (c =? 43) || (c =? 46) || ((65 <=? c) && (c <=? 90)) || ((97 <=? c) && (c <=? 122)).

Definition step (m : mode) (c : N) : option mode :=
  match m with
  | InStr => if c =? 34 then Some (Out PVal) else if c =? 92 then Some InEsc else if c <? 32 then None else Some InStr
  | InEsc => if c =? 117 then Some (InU 4) else if is_simple c then Some InStr else None
  | InU O => None
  | InU (S n) => if is_hex c then Some (match n with O => InStr | _ => InU n end) else None
  | Out p =>
    if is_ws c then Some (Out p)
    else if c =? 34 then (if pre p then Some InStr else None)
    else if (c =? 91) || (c =? 123) then (if pre p then Some (Out POpen) else None)
    else if (c =? 93) || (c =? 125) then (match p with POpen | PVal => Some (Out PVal) | _ => None end)
    else if c =? 44 then (match p with PVal => Some (Out PComma) | _ => None end)
    else if c =? 58 then (match p with PVal => Some (Out PColon) | _ => None end)
    else if pre p then (if atom_start c then Some (Out PVal) else None)
    else (if atom_char c then Some (Out PVal) else None)
  end.

Fixpoint run (m : mode) (s : pstr) : option mode :=
  match s with
  | [] => Some m
  | c :: r => match step m c with Some m' => run m' r | None => None end
  end.

Definition json_scan (s : pstr) : bool :=
  match run (Out PStart) s with Some (Out PVal) => true | _ => false end.

(* ---- every JSON text passes ----------------------------------------------------------------------- *)
Lemma run_app m a b : run m (a ++ b) = match run m a with Some m' => run m' b | None => None end.
Proof. revert m; induction a as [|c a IH]; intros m; [reflexivity|]. cbn [app run]. destruct (step m c); auto. Qed.

Lemma run_ws p w : ws w -> run (Out p) w = Some (Out p).
Proof.
  unfold ws. induction w as [|c w IH]; [reflexivity|]. cbn [forallb]. intros H. apply andb_true_iff in H as [H1 H2].
  cbn [run step]. rewrite H1. now apply IH.
Qed.

Lemma hex4_is_hex a b c d x : hex4 a b c d = Some x -> is_hex a = true /\ is_hex b = true /\ is_hex c = true /\ is_hex d = true.
Proof.
  unfold hex4, is_hex. destruct (hex_val a), (hex_val b), (hex_val c), (hex_val d); try discriminate. auto.
Qed.

Lemma run_u a b c d x r : hex4 a b c d = Some x -> run (InU 4) (a :: b :: c :: d :: r) = run InStr r.
Proof.
  intros H. apply hex4_is_hex in H as [Ha [Hb [Hc Hd]]].
  cbn [run step]. rewrite Ha. cbn [run step]. rewrite Hb. cbn [run step]. rewrite Hc. cbn [run step]. now rewrite Hd.
Qed.

Lemma run_chars b s : chars_denote b s -> run InStr b = Some InStr.
Proof.
  induction 1 as [|c b s H1 H2 H3 H IH|e c b s He H IH|h1 h2 h3 h4 c b s Hh Hr H IH|h1 h2 h3 h4 l1 l2 l3 l4 hi lo b s Hh Hr Hl Hr' H IH].
  - reflexivity.
  - cbn [run step]. apply N.eqb_neq in H2, H3. rewrite H2, H3.
    replace (c <? 32) with false by (symmetry; apply N.ltb_ge; lia). exact IH.
  - change (run InStr (92 :: e :: b)) with (run InEsc (e :: b)). cbn [run step].
    destruct (e =? 117) eqn:E; [apply N.eqb_eq in E; subst; discriminate|].
    unfold is_simple. now rewrite He.
  - change (run InStr (92 :: 117 :: h1 :: h2 :: h3 :: h4 :: b)) with (run (InU 4) (h1 :: h2 :: h3 :: h4 :: b)).
    rewrite (run_u _ _ _ _ _ _ Hh). exact IH.
  - change (run InStr (92 :: 117 :: h1 :: h2 :: h3 :: h4 :: 92 :: 117 :: l1 :: l2 :: l3 :: l4 :: b))
      with (run (InU 4) (h1 :: h2 :: h3 :: h4 :: 92 :: 117 :: l1 :: l2 :: l3 :: l4 :: b)).
    rewrite (run_u _ _ _ _ _ _ Hh).
    change (run InStr (92 :: 117 :: l1 :: l2 :: l3 :: l4 :: b)) with (run (InU 4) (l1 :: l2 :: l3 :: l4 :: b)).
    rewrite (run_u _ _ _ _ _ _ Hl). exact IH.
Qed.

Lemma dig_facts c : is_dig c = true ->
  is_ws c = false /\ (c =? 34) = false /\ ((c =? 91) || (c =? 123)) = false /\ ((c =? 93) || (c =? 125)) = false /\
  (c =? 44) = false /\ (c =? 58) = false.
Proof.
  unfold is_dig. intros H. apply andb_true_iff in H as [A B]. apply N.leb_le in A, B. unfold is_ws.
  repeat split; repeat (apply orb_false_iff; split); apply N.eqb_neq; lia.
Qed.

Lemma step_dig p c : is_dig c = true -> step (Out p) c = Some (Out PVal).
Proof.
  intros H. destruct (dig_facts c H) as [A [B [C [D [E F]]]]]. cbn [step]. rewrite A, B, C, D, E, F.
  unfold atom_start, atom_char. rewrite H. cbn [orb]. destruct (pre p); reflexivity.
Qed.

Lemma run_digits ds : forallb is_dig ds = true -> forall p, ds <> [] \/ p = PVal -> run (Out p) ds = Some (Out PVal).
Proof.
  induction ds as [|d r IH]; intros H p Hp.
  - destruct Hp as [Hp|Hp]; [congruence|now subst].
  - cbn [forallb] in H. apply andb_true_iff in H as [H1 H2]. cbn [run]. rewrite (step_dig p d H1). apply IH; auto.
Qed.

Lemma run_nat_lit ds n p : nat_lit ds n -> run (Out p) ds = Some (Out PVal).
Proof. intros [Hne [Hd _]]. apply run_digits; auto. Qed.

Lemma run_int s z p : pre p = true -> int_lit s z -> run (Out p) s = Some (Out PVal).
Proof.
  intros Hp [ds n H|ds n H]; [now apply run_nat_lit with n|].
  cbn [run step]. change (is_ws 45) with false. change (45 =? 34) with false. cbv iota. cbn [N.eqb Pos.eqb orb].
  rewrite Hp. change (atom_start 45) with true. cbv iota. now apply run_nat_lit with n.
Qed.

Lemma run_frac f : f = 48 \/ f = 53 -> run (Out PVal) [46; f] = Some (Out PVal).
Proof. intros [-> | ->]; reflexivity. Qed.

Lemma run_half s h p : pre p = true -> half_lit s h -> run (Out p) s = Some (Out PVal).
Proof.
  intros Hp [ds n f H Hf|ds n f H Hf].
  - rewrite run_app, (run_nat_lit ds n p H). now apply run_frac.
  - cbn [run step]. change (is_ws 45) with false. change (45 =? 34) with false. cbv iota. cbn [N.eqb Pos.eqb orb].
    rewrite Hp. change (atom_start 45) with true. cbv iota.
    rewrite run_app, (run_nat_lit ds n PVal H). now apply run_frac.
Qed.

Scheme jd_min := Minimality for json_denotes Sort Prop
  with jv_min := Minimality for json_value Sort Prop
  with je_min := Minimality for json_elems Sort Prop
  with jms_min := Minimality for json_members Sort Prop
  with jm_min := Minimality for json_member Sort Prop.
Combined Scheme json_mutind from jd_min, jv_min, je_min, jms_min, jm_min.

Definition passes (s : pstr) : Prop := forall p, pre p = true -> run (Out p) s = Some (Out PVal).

Lemma open_step p c : pre p = true -> c = 91 \/ c = 123 -> step (Out p) c = Some (Out POpen).
Proof. intros Hp [-> | ->]; cbn [step]; cbn [is_ws N.eqb Pos.eqb orb]; now rewrite Hp. Qed.

Lemma all_pass :
  (forall s t, json_denotes s t -> passes s) /\
  (forall s t, json_value s t -> passes s) /\
  (forall s xs, json_elems s xs -> passes s) /\
  (forall s kvs, json_members s kvs -> passes s) /\
  (forall m k v, json_member m k v -> passes m).
Proof.
  apply json_mutind; unfold passes.
  - (* jd_pad *) intros w1 s w2 t H1 H2 _ IH p Hp. rewrite run_app, (run_ws p w1 H1), run_app, (IH p Hp). now apply run_ws.
  - intros p Hp. destruct p; try discriminate; reflexivity.
  - intros p Hp. destruct p; try discriminate; reflexivity.
  - intros p Hp. destruct p; try discriminate; reflexivity.
  - intros s z H p Hp. now apply run_int with z.
  - intros s h H p Hp. now apply run_half with h.
  - (* string *) intros b s H p Hp. cbn [run step]. change (is_ws 34) with false. change (34 =? 34) with true. cbv iota.
    rewrite Hp, run_app, (run_chars b s H). reflexivity.
  - (* [] *) intros w Hw p Hp. cbn [run]. rewrite (open_step p 91 Hp (or_introl eq_refl)), run_app, (run_ws POpen w Hw). reflexivity.
  - (* [ elems ] *) intros body xs _ IH p Hp. cbn [run]. rewrite (open_step p 91 Hp (or_introl eq_refl)), run_app, (IH POpen eq_refl). reflexivity.
  - (* {} *) intros w Hw p Hp. cbn [run]. rewrite (open_step p 123 Hp (or_intror eq_refl)), run_app, (run_ws POpen w Hw). reflexivity.
  - (* { members } *) intros body kvs kvs' _ IH _ _ p Hp. cbn [run]. rewrite (open_step p 123 Hp (or_intror eq_refl)), run_app, (IH POpen eq_refl). reflexivity.
  - (* one element *) intros s x _ IH p Hp. now apply IH.
  - (* elems , value *) intros body xs s x _ IH1 _ IH2 p Hp. rewrite run_app, (IH1 p Hp). cbn [run step]. cbn [is_ws N.eqb Pos.eqb orb]. now apply IH2.
  - intros m k v _ IH p Hp. now apply IH.
  - intros body kvs m k v _ IH1 _ IH2 p Hp. rewrite run_app, (IH1 p Hp). cbn [run step]. cbn [is_ws N.eqb Pos.eqb orb]. now apply IH2.
  - (* member *) intros w1 kb k w2 s v H1 H2 Hk _ IH p Hp.
    rewrite run_app, (run_ws p w1 H1). cbn [run step]. change (is_ws 34) with false. change (34 =? 34) with true. cbv iota.
    rewrite Hp, run_app, (run_chars kb k Hk). cbn [run step]. change (34 =? 34) with true. cbv iota.
    rewrite run_app, (run_ws PVal w2 H2). cbn [run step]. cbn [is_ws N.eqb Pos.eqb orb]. now apply IH.
Qed.

Theorem denotes_scan s t : json_denotes s t -> json_scan s = true.
Proof.
  intros H. destruct all_pass as [A _]. unfold json_scan. now rewrite (A s t H PStart eq_refl).
Qed.

Corollary scan_rejects s : json_scan s = false -> forall t, ~ json_denotes s t.
Proof. intros H t Hd. apply denotes_scan in Hd. congruence. Qed.
