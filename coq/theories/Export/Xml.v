(* Export/Xml.v — model of n0dict_.to_xml and of the private recursive writer
   n0dict_.__xml (n0struct_n0dict_.py), character for character, as repaired by
   the three "fix:" commits for C12 (a list is written as repeated elements, one
   per item; the characters of the html_entities table that XML does not
   predefine are written as numeric character references; a text value is passed
   through as CDATA only when it is exactly one CDATA section).

   Python                                        here
   ------                                        ----
   result (accumulated in the loop over items)   res, threaded through xml_put
   __xml({key: subitm}, indent, inc_indent)      xml_put inc indent key subitm []
   ' ' * indent  (any int)                       spaces indent
   value.translate(xml_entities)                 xml_escape
   attribute keys ("@..."), unknown leaf types   xml_check: the first offending entry in
                                                 document order decides (NotImplementedError ->
                                                 ExOther, TypeError); the text is only built
                                                 for trees that pass                          *)
From Coq Require Import List NArith ZArith Bool Lia.
From N0 Require Import Base.PyStr Base.PyVal Export.Util Export.XmlGrammar.
Import ListNotations.
Local Open Scope N_scope.

Definition spaces (z : Z) : pstr := repeat 32 (Z.to_nat z).

(* ---- xml_entities: html_entities with the non-XML names replaced by &#code; ------------- *)
Definition s_quot : pstr := [38; 113; 117; 111; 116; 59].
Definition s_amp : pstr := [38; 97; 109; 112; 59].
Definition s_lt : pstr := [38; 108; 116; 59].
Definition s_gt : pstr := [38; 103; 116; 59].

(* the code points of html_entities other than the four above *)
Definition table_chars : list N :=
  [338; 339; 352; 353; 376; 710; 732; 8194; 8195; 8201; 8204; 8205; 8206; 8207; 8211; 8212; 8216; 8217;
   8218; 8220; 8221; 8222; 8224; 8225; 8240; 8249; 8250; 8364].

Definition xml_escape_chr (c : N) : pstr :=
  if c =? 34 then s_quot
  else if c =? 38 then s_amp
  else if c =? 60 then s_lt
  else if c =? 62 then s_gt
  else if mem_chr c table_chars then [38; 35] ++ dec_N c ++ [59]
  else [c].
Definition xml_escape (s : pstr) : pstr := flat_map xml_escape_chr s.

(* ---- CDATA pass-through test ----------------------------------------------------------------- *)
(* value.lstrip().startswith("<![CDATA[") and value.rstrip().endswith("]]>")
   and value.find("]]>") == len(value.rstrip()) - 3 : the predicate is_cdata lives in
   Export/XmlGrammar.v because the Spec, too, has to say which values stand for a CDATA section *)
Notation cd_open := cds_open.
Notation cd_close := cds_close.

(* ---- leaves ------------------------------------------------------------------------------------ *)
Definition s_True : pstr := [84; 114; 117; 101].
Definition s_False : pstr := [70; 97; 108; 115; 101].

Definition k_parm : pstr := [80; 97; 114; 109].
Definition k_parmcode : pstr := [80; 97; 114; 109; 67; 111; 100; 101].
Definition k_value : pstr := [86; 97; 108; 117; 101].
Definition special (k : pstr) : bool := pstr_eqb k k_parm || pstr_eqb k k_parmcode || pstr_eqb k k_value.

Definition tag_open (k : pstr) : pstr := [60] ++ k ++ [62].              (* <k> *)
Definition tag_close (k : pstr) : pstr := [60; 47] ++ k ++ [62].         (* </k> *)
Definition tag_empty (k : pstr) : pstr := [60] ++ k ++ [47; 62].         (* <k/> *)

Definition nl_if (res : pstr) : pstr := if is_nil res then [] else [10].

(* "if key not in (Parm, ParmCode, Value): if result: result += '\n' ; result += ' ' * indent" *)
Definition prefix (indent : Z) (k : pstr) (res : pstr) : pstr :=
  if special k then [] else nl_if res ++ spaces indent.

Definition text_body (inc indent : Z) (s : pstr) : pstr :=
  if is_cdata s then [10] ++ spaces (indent + inc) ++ s ++ [10] ++ spaces indent
  else xml_escape s.

(* f"{value}" of int / float / bool *)
Definition num_text (s : scalar) : pstr :=
  match s with
  | SInt z => dec_Z z
  | SFlt h => dec_half h
  | SBool true => s_True
  | SBool false => s_False
  | _ => []
  end.

(* the element written for a dictionary value whose content was rendered to sub *)
Definition dict_elem (indent : Z) (k : pstr) (sub : pstr) : pstr :=
  if is_nil sub then tag_empty k
  else if mem_chr 10 sub then tag_open k ++ [10] ++ sub ++ [10] ++ spaces indent ++ tag_close k
  else (if pstr_eqb k k_parm then spaces indent else []) ++ tag_open k ++ lstrip_all sub ++ tag_close k.

(* one iteration of "for key, value in parent.items()": the new result *)
Fixpoint xml_put (inc indent : Z) (k : pstr) (v : tree) (res : pstr) : pstr :=
  match v with
  | Lst _ [] => res ++ prefix indent k res ++ tag_empty k
  | Lst _ items =>
    (fix go (l : list tree) (res : pstr) : pstr :=
       match l with
       | [] => res
       | x :: r => go r (res ++ nl_if res ++ xml_put inc indent k x [])
       end) items res
  | Leaf SNone => res ++ prefix indent k res ++ tag_empty k
  | Leaf (SStr s) => res ++ prefix indent k res ++ tag_open k ++ text_body inc indent s ++ tag_close k
  | Leaf s => res ++ prefix indent k res ++ tag_open k ++ num_text s ++ tag_close k
  | Dict _ kvs =>
    let sub := (fix go (l : list (pstr * tree)) (acc : pstr) : pstr :=
                  match l with
                  | [] => acc
                  | (k', v') :: r => go r (xml_put inc (indent + inc) k' v' acc)
                  end) kvs [] in
    res ++ prefix indent k res ++ dict_elem indent k sub
  end.

(* __xml(parent, indent, inc_indent) for a dictionary *)
Definition xml_items (inc indent : Z) (kvs : list (pstr * tree)) : pstr :=
  fold_left (fun acc kv => xml_put inc indent (fst kv) (snd kv) acc) kvs [].

(* ---- what raises ------------------------------------------------------------------------------- *)
Inductive verdict := VOk | VRaise (e : exn) | VUnm.
Definition vseq (a : verdict) (b : verdict) : verdict := match a with VOk => b | _ => a end.

Definition is_attr (k : pstr) : bool := match k with c :: _ => c =? 64 | [] => false end.   (* key.startswith("@") *)

(* entries are visited in document order; a dictionary value is rendered before its own
   element is written; an attribute key with a text or number value is refused, with None /
   a container the writer emits something this model does not describe *)
Fixpoint xml_check (k : pstr) (v : tree) : verdict :=
  match v with
  | Lst _ [] => if is_attr k then VUnm else VOk
  | Lst _ items => (fix go (l : list tree) : verdict := match l with [] => VOk | x :: r => vseq (xml_check k x) (go r) end) items
  | Leaf SNone => if is_attr k then VUnm else VOk
  | Leaf (SBytes _) => VRaise ExType
  | Leaf _ => if is_attr k then VRaise ExOther else VOk
  | Dict _ kvs =>
    vseq ((fix go (l : list (pstr * tree)) : verdict :=
             match l with [] => VOk | (k', v') :: r => vseq (xml_check k' v') (go r) end) kvs)
         (if is_attr k then VUnm else VOk)
  end.

(* ---- to_xml --------------------------------------------------------------------------------------- *)
Record xopts := { x_indent : Z; x_encoding : pstr; x_quote : pstr }.   (* encoding None / '' = [] *)

Definition xml_decl (o : xopts) : pstr :=
  if is_nil (x_encoding o) then []
  else [60; 63; 120; 109; 108; 32; 118; 101; 114; 115; 105; 111; 110; 61] ++ x_quote o ++ [49; 46; 48] ++ x_quote o ++
       [32; 101; 110; 99; 111; 100; 105; 110; 103; 61] ++ x_quote o ++ x_encoding o ++ x_quote o ++ [63; 62; 10].

Definition to_xml (o : xopts) (kvs : list (pstr * tree)) : pstr :=
  xml_decl o ++ xml_items (x_indent o) 0 kvs.

Fixpoint floats_ok (t : tree) : bool :=
  match t with
  | Leaf (SFlt h) => (Z.abs h <? 2 ^ 53)%Z
  | Leaf _ => true
  | Dict _ kvs => (fix all (l : list (pstr * tree)) := match l with [] => true | (_, v) :: r => floats_ok v && all r end) kvs
  | Lst _ xs => (fix all (l : list tree) := match l with [] => true | v :: r => floats_ok v && all r end) xs
  end.

Definition obs_to_xml (x : xopts * tree) : out :=
  let '(o, t) := x in
  match t with
  | Dict _ kvs =>
    if floats_ok t && wfb t then
      match (fix go (l : list (pstr * tree)) : verdict :=
               match l with [] => VOk | (k', v') :: r => vseq (xml_check k' v') (go r) end) kvs with
      | VOk => Ok (t_str (to_xml o kvs))
      | VRaise e => Raise e
      | VUnm => Unmodelled
      end
    else Unmodelled
  | _ => Unmodelled
  end.

(* the escaping alone (text values) *)
Definition obs_escape (s : pstr) : out := Ok (t_str (xml_escape s)).

(* ---- the XML branch of the n0dict text constructor ----------------------------------------------- *)
(* xmltodict.parse(text, dict_constructor=n0dict): every mapping becomes an n0dict, repeated
   elements stay a plain list.  [parsed] is what xmltodict returns for the stripped text
   (None = expat rejects it: ExpatError, no class of the model's enumeration). *)
Fixpoint xhook (t : tree) : tree :=
  match t with
  | Leaf s => Leaf s
  | Dict _ kvs => Dict true ((fix go (l : list (pstr * tree)) := match l with [] => [] | (k, v) :: r => (k, xhook v) :: go r end) kvs)
  | Lst _ xs => Lst false ((fix go (l : list tree) := match l with [] => [] | v :: r => xhook v :: go r end) xs)
  end.

Definition obs_load_xml (x : pstr * option tree) : out :=
  let '(text, parsed) := x in
  match text with
  | [] => Ok (Dict true [])
  | _ =>
    match strip_all text with
    | [] => Raise ExType
    | c :: _ =>
      if c =? 60 then
        match parsed with
        | Some (Dict c' kvs) => Ok (xhook (Dict c' kvs))
        | Some _ => Unmodelled
        | None => Raise ExOther
        end
      else if c =? 123 then Unmodelled      (* JSON text: C11 *)
      else Raise ExType
    end
  end.
