(* Export/XmlGrammar.v — Spec: well-formed XML 1.0 for the subset a data writer
   needs, as inductive relations (no parser is written), and xmltodict's mapping
   of an element tree to nested dictionaries.

     document   ::= [ XMLDecl ] S* element S*
     element    ::= '<' Name '/>'  |  '<' Name '>' content '</' Name '>'
     content    ::= ( CharData | Reference | CDSect | element )*
     CharData   :   characters other than '<' and '&' (and, more strictly than XML, '>')
     Reference  ::= '&lt;' | '&gt;' | '&amp;' | '&quot;' | '&apos;' | '&#' decimal ';'
     CDSect     ::= '<![CDATA[' characters without ']]>' ']]>'

   [content s ns] reads "s is element content and its items are ns"; white space
   (S) between items may be left out of ns (rule ct_ws): this is the reading "up
   to surrounding white space" the property uses.  Under-approximations (whatever
   is accepted is well-formed XML): no attributes, comments or processing
   instructions, no hexadecimal references, '>' never raw, names over a reduced
   alphabet, declaration exactly in the form the writer produces. *)
From Coq Require Import List NArith ZArith Bool Lia.
From N0 Require Import Base.PyStr Base.PyVal Export.Util.
Import ListNotations.
Local Open Scope N_scope.

(* Char ::= #x9 | #xA | #xD | [#x20-#xD7FF] | [#xE000-#xFFFD] | [#x10000-#x10FFFF] *)
Definition xml_char (c : N) : bool :=
  (c =? 9) || (c =? 10) || (c =? 13) || ((32 <=? c) && (c <=? 55295)) ||
  ((57344 <=? c) && (c <=? 65533)) || ((65536 <=? c) && (c <=? 1114111)).

(* S ::= (#x20 | #x9 | #xD | #xA)+ *)
Definition is_xws (c : N) : bool := (c =? 32) || (c =? 9) || (c =? 10) || (c =? 13).
Definition xws (s : pstr) : Prop := forallb is_xws s = true.

(* Name (reduced): ASCII letter, '_' or a Latin-1/Latin Extended letter first;
   then also digits, '-', '.', middle dot *)
Definition name_start (c : N) : bool :=
  ((65 <=? c) && (c <=? 90)) || ((97 <=? c) && (c <=? 122)) || (c =? 95) ||
  ((192 <=? c) && (c <=? 214)) || ((216 <=? c) && (c <=? 246)) || ((248 <=? c) && (c <=? 767)).
Definition name_char (c : N) : bool :=
  name_start c || ((48 <=? c) && (c <=? 57)) || (c =? 45) || (c =? 46) || (c =? 183).
Definition name_ok (k : pstr) : bool :=
  match k with
  | [] => false
  | c :: r => name_start c && forallb name_char r
  end.

(* a character that stands for itself in character data *)
Definition plain_char (c : N) : bool :=
  xml_char c && negb (c =? 60) && negb (c =? 38) && negb (c =? 62).

(* the predefined entities *)
Definition predefined (e : pstr) : option N :=
  if pstr_eqb e [108; 116] then Some 60                 (* lt *)
  else if pstr_eqb e [103; 116] then Some 62            (* gt *)
  else if pstr_eqb e [97; 109; 112] then Some 38        (* amp *)
  else if pstr_eqb e [113; 117; 111; 116] then Some 34  (* quot *)
  else if pstr_eqb e [97; 112; 111; 115] then Some 39   (* apos *)
  else None.

(* [chardata b s]: the character data and references b stand for the text s *)
Inductive chardata : pstr -> pstr -> Prop :=
| cdt_nil : chardata [] []
| cdt_char c b s : plain_char c = true -> chardata b s -> chardata (c :: b) (c :: s)
| cdt_ent e c b s : predefined e = Some c -> chardata b s -> chardata (38 :: e ++ 59 :: b) (c :: s)
| cdt_dec ds c b s : nat_lit ds c -> xml_char c = true -> chardata b s -> chardata (38 :: 35 :: ds ++ 59 :: b) (c :: s).

Definition cds_open : pstr := [60; 33; 91; 67; 68; 65; 84; 65; 91].
Definition cds_close : pstr := [93; 93; 62].
Definition cdata_ok (c : pstr) : bool := forallb xml_char c && negb (contains c cds_close).

(* A text value that is, blanks apart, exactly one CDATA section is written as such (the writer's
   convention; str.strip() decides what a blank is): the section starts the stripped value, ends
   it, and its end is the first "]]>" of the value. *)
Definition opt_nat_eqb (a : option nat) (b : nat) : bool :=
  match a with Some x => Nat.eqb x b | None => false end.
Definition is_cdata (s : pstr) : bool :=
  startswith (lstrip_all s) cds_open && endswith (rstrip_all s) cds_close &&
  opt_nat_eqb (find_sub s cds_close) (length (rstrip_all s) - 3).
(* blanks before, the content of the section, blanks after *)
Definition cdata_pre (s : pstr) : pstr := firstn (length s - length (lstrip_all s)) s.
Definition cdata_inner (s : pstr) : pstr :=
  let n1 := (length s - length (lstrip_all s))%nat in
  firstn (length (rstrip_all s) - 3 - n1 - 9) (skipn (n1 + 9) s).
Definition cdata_post (s : pstr) : pstr := skipn (length (rstrip_all s)) s.

Inductive xnode := XText (s : pstr) | XElem (name : pstr) (kids : list xnode).

Inductive content : pstr -> list xnode -> Prop :=
| ct_nil : content [] []
| ct_ws w r ns : xws w -> content r ns -> content (w ++ r) ns
| ct_text b s r ns : b <> [] -> chardata b s -> content r ns -> content (b ++ r) (XText s :: ns)
| ct_cdata c r ns : cdata_ok c = true -> content r ns -> content (cds_open ++ c ++ cds_close ++ r) (XText c :: ns)
| ct_elem e n r ns : element e n -> content r ns -> content (e ++ r) (n :: ns)

with element : pstr -> xnode -> Prop :=
| el_empty name : name_ok name = true -> element (60 :: name ++ [47; 62]) (XElem name [])
| el_full name body ns :
    name_ok name = true -> content body ns ->
    element (60 :: name ++ 62 :: body ++ 60 :: 47 :: name ++ [62]) (XElem name ns).

(* XMLDecl in the form  <?xml version=Q1.0Q encoding=QnameQ?>  followed by white space *)
Definition enc_start (c : N) : bool := ((65 <=? c) && (c <=? 90)) || ((97 <=? c) && (c <=? 122)).
Definition enc_char (c : N) : bool := enc_start c || ((48 <=? c) && (c <=? 57)) || (c =? 46) || (c =? 95) || (c =? 45).
Definition enc_name_ok (e : pstr) : bool := match e with [] => false | c :: r => enc_start c && forallb enc_char r end.

Inductive xml_declaration : pstr -> Prop :=
| xd_none : xml_declaration []
| xd_some q enc w :
    (q = 34 \/ q = 39) -> enc_name_ok enc = true -> xws w ->
    xml_declaration ([60; 63; 120; 109; 108; 32; 118; 101; 114; 115; 105; 111; 110; 61] ++ [q] ++ [49; 46; 48] ++ [q] ++
                     [32; 101; 110; 99; 111; 100; 105; 110; 103; 61] ++ [q] ++ enc ++ [q] ++ [63; 62] ++ w).

(* document ::= XMLDecl? S* element S* : the content after the declaration is one element,
   white space apart *)
Inductive document : pstr -> xnode -> Prop :=
| doc_intro d body name kids :
    xml_declaration d -> content body [XElem name kids] -> document (d ++ body) (XElem name kids).

(* ---- the element structure an XML-shaped tree stands for ---------------------------------------- *)
(* numbers become text: str(int), repr(float), str(bool) *)
Definition scalar_text (s : scalar) : pstr :=
  match s with
  | SInt z => dec_Z z
  | SFlt h => dec_half h
  | SBool true => [84; 114; 117; 101]
  | SBool false => [70; 97; 108; 115; 101]
  | SStr t => t
  | _ => []
  end.

Definition opt_text (s : pstr) : list xnode := match s with [] => [] | _ => [XText s] end.

(* the entry  name -> value  of a dictionary: one element, or one element per item of a list;
   None, '' and an empty list are an element without content; a CDATA value is its parts *)
Fixpoint nodes_of (k : pstr) (v : tree) : list xnode :=
  match v with
  | Lst _ [] => [XElem k []]
  | Lst _ items => (fix go (l : list tree) : list xnode := match l with [] => [] | x :: r => nodes_of k x ++ go r end) items
  | Leaf SNone => [XElem k []]
  | Leaf (SBytes _) => []
  | Leaf (SStr s) =>
    if is_cdata s then
      [XElem k (opt_text (cdata_pre s) ++ [XText (cdata_inner s)] ++ opt_text (cdata_post s))]
    else match s with [] => [XElem k []] | _ => [XElem k [XText s]] end
  | Leaf s => match scalar_text s with [] => [XElem k []] | t => [XElem k [XText t]] end
  | Dict _ kvs =>
    [XElem k ((fix go (l : list (pstr * tree)) : list xnode :=
                 match l with [] => [] | (k', v') :: r => nodes_of k' v' ++ go r end) kvs)]
  end.

(* ---- an executable reader of character data with references --------------------------------------- *)
(* state: None = in character data, Some buf = after '&' (buf reversed); the result is None when
   a '<' is met, a reference is unknown or left open *)
Definition decode_ref (buf : pstr) : option N :=
  match buf with
  | 35 :: ds => if forallb is_dig ds && negb (is_nil ds) then Some (digits_val ds 0) else None
  | _ => predefined buf
  end.

Fixpoint unesc (s : pstr) (st : option pstr) : option pstr :=
  match s with
  | [] => match st with None => Some [] | Some _ => None end
  | c :: r =>
    match st with
    | None =>
      if c =? 38 then unesc r (Some [])
      else if c =? 60 then None
      else option_map (cons c) (unesc r None)
    | Some buf =>
      if c =? 59 then
        match decode_ref (rev buf) with
        | Some x => option_map (cons x) (unesc r None)
        | None => None
        end
      else unesc r (Some (c :: buf))
    end
  end.
Definition xml_unescape (s : pstr) : option pstr := unesc s None.

(* ---- xmltodict: the value of an element tree ----------------------------------------------------- *)
(* push_data(item, key, data): a repeated name turns the entry into a list, in place *)
Fixpoint push (k : pstr) (v : tree) (item : list (pstr * tree)) : list (pstr * tree) :=
  match item with
  | [] => [(k, v)]
  | (k', u) :: r =>
    if pstr_eqb k k' then (k', match u with Lst c xs => Lst c (xs ++ [v]) | _ => Lst false [u; v] end) :: r
    else (k', u) :: push k v r
  end.

Definition k_text : pstr := [35; 116; 101; 120; 116].      (* #text *)

(* endElement: data = strip(join of the character chunks directly inside) or None; item = the
   mapping built from the child elements, or None; with an item the text (if any) goes under
   '#text', without one the value is the text *)
Fixpoint elem_value (n : xnode) : tree :=
  match n with
  | XText s => Leaf (SStr s)
  | XElem _ kids =>
    let text := strip_all ((fix txt (l : list xnode) : pstr :=
                              match l with [] => [] | XText s :: r => s ++ txt r | _ :: r => txt r end) kids) in
    let item := (fix go (l : list xnode) (acc : option (list (pstr * tree))) : option (list (pstr * tree)) :=
                   match l with
                   | [] => acc
                   | (XElem nm _ as kid) :: r =>
                     go r (Some (push nm (elem_value kid) (match acc with Some i => i | None => [] end)))
                   | _ :: r => go r acc
                   end) kids None in
    match item with
    | None => if is_nil text then Leaf SNone else Leaf (SStr text)
    | Some i => Dict false (if is_nil text then i else push k_text (Leaf (SStr text)) i)
    end
  end.

(* xmltodict.parse(document) *)
Definition x2d_root (n : xnode) : tree :=
  match n with
  | XElem name _ => Dict false [(name, elem_value n)]
  | XText s => Leaf (SStr s)
  end.

(* ---- XML's own normalisations of a tree ------------------------------------------------------------ *)
(* numbers become text, '' and None coincide, surrounding white space is dropped, a CDATA value
   is its content; an element without content is None whatever it came from ({} or []), a single
   item is not a list *)
Fixpoint xml_norm (t : tree) : tree :=
  match t with
  | Leaf SNone => Leaf SNone
  | Leaf s =>
    let t := match s with SStr u => if is_cdata u then cdata_inner u else u | _ => scalar_text s end in
    let x := strip_all t in if is_nil x then Leaf SNone else Leaf (SStr x)
  | Dict _ [] => Leaf SNone
  | Dict _ kvs => Dict false ((fix go (l : list (pstr * tree)) := match l with [] => [] | (k, v) :: r => (k, xml_norm v) :: go r end) kvs)
  | Lst _ [] => Leaf SNone
  | Lst _ [x] => xml_norm x
  | Lst _ xs => Lst false ((fix go (l : list tree) := match l with [] => [] | v :: r => xml_norm v :: go r end) xs)
  end.
