(* Export/JsonProofs.v — to_json (Export/Json.v) refines the JSON grammar
   (Export/JsonGrammar.v): for every option record and every well-formed tree
   without bytes leaves the exported text denotes the tree (with
   skip_empty_arrays: the tree with its empty containers dropped).  Unbounded:
   induction over the tree, invariants over the two layout loops. *)
From Coq Require Import List NArith ZArith Bool Lia Permutation.
From N0 Require Import Base.PyStr Base.PyVal Export.Util Export.Json Export.JsonGrammar.
Import ListNotations.
Local Open Scope N_scope.

(* ---- whitespace ---------------------------------------------------------------- *)
Lemma ws_nil : ws [].
Proof. reflexivity. Qed.
Lemma ws_app a b : ws a -> ws b -> ws (a ++ b).
Proof. unfold ws. intros. rewrite forallb_app. now rewrite H, H0. Qed.
Lemma ws_spaces n : ws (repeat 32 n).
Proof. unfold ws. induction n; simpl; auto. Qed.
Lemma ws_sp o : ws (sp o).
Proof. unfold sp. destruct (has_ind o); reflexivity. Qed.
Lemma ws_ind o l : ws (ind o l).
Proof. unfold ind. destruct (has_ind o); [|reflexivity]. unfold ws. simpl. apply ws_spaces. Qed.
Lemma ws_one : ws [32].
Proof. reflexivity. Qed.
#[global] Hint Resolve ws_nil ws_app ws_spaces ws_sp ws_ind ws_one : ws.

(* ---- strings ----------------------------------------------------------------------- *)
Lemma small_in c : c < 32 -> In c (map N.of_nat (seq 0 32)).
Proof.
  intros H. replace c with (N.of_nat (N.to_nat c)) by apply Nnat.N2Nat.id.
  apply in_map, in_seq. lia.
Qed.

Lemma hex_small c : c < 32 -> hex4 48 48 (hex_digit (c / 16)) (hex_digit (c mod 16)) = Some c.
Proof.
  intros H. apply small_in in H. revert c H. apply Forall_forall.
  repeat (constructor; [vm_compute; reflexivity|]). constructor.
Qed.

Lemma escape_chr_denotes c b s :
  chars_denote b s -> chars_denote (json_escape_chr c ++ b) (c :: s).
Proof.
  intros H. unfold json_escape_chr.
  destruct (c =? 34) eqn:E1; [apply N.eqb_eq in E1; subst; now apply (cd_esc 34 34)|].
  destruct (c =? 92) eqn:E2; [apply N.eqb_eq in E2; subst; now apply (cd_esc 92 92)|].
  destruct (c =? 8) eqn:E3; [apply N.eqb_eq in E3; subst; now apply (cd_esc 98 8)|].
  destruct (c =? 12) eqn:E4; [apply N.eqb_eq in E4; subst; now apply (cd_esc 102 12)|].
  destruct (c =? 10) eqn:E5; [apply N.eqb_eq in E5; subst; now apply (cd_esc 110 10)|].
  destruct (c =? 13) eqn:E6; [apply N.eqb_eq in E6; subst; now apply (cd_esc 114 13)|].
  destruct (c =? 9) eqn:E7; [apply N.eqb_eq in E7; subst; now apply (cd_esc 116 9)|].
  destruct (c <? 32) eqn:E8.
  - apply N.ltb_lt in E8. cbn [app]. apply cd_u; [now apply hex_small|lia|exact H].
  - apply N.ltb_ge in E8. apply N.eqb_neq in E1, E2. cbn [app]. now apply cd_plain.
Qed.

Lemma escape_denotes s : chars_denote (json_escape s) s.
Proof.
  induction s as [|c s IH]; [constructor|].
  unfold json_escape. cbn [flat_map]. now apply escape_chr_denotes.
Qed.

Lemma quote_value s : json_value (quote s) (Leaf (SStr s)).
Proof. unfold quote. apply jv_str, escape_denotes. Qed.

(* ---- numbers ------------------------------------------------------------------------ *)
Lemma dec_Z_lit z : int_lit (dec_Z z) z.
Proof.
  unfold dec_Z. destruct (z <? 0)%Z eqn:E.
  - apply Z.ltb_lt in E. replace z with (- Z.of_N (Z.abs_N z))%Z at 2 by (rewrite N2Z.inj_abs_N; lia).
    apply il_neg, dec_N_spec.
  - apply Z.ltb_ge in E. replace z with (Z.of_N (Z.abs_N z)) at 2 by (rewrite N2Z.inj_abs_N; lia).
    apply il_pos, dec_N_spec.
Qed.

Lemma half_split a : 2 * (a / 2) + (if (if N.odd a then 53 else 48) =? 53 then 1 else 0) = a.
Proof.
  rewrite <- N.div2_div. rewrite (N.div2_odd a) at 3.
  destruct (N.odd a); simpl N.b2n; cbn [N.eqb Pos.eqb]; lia.
Qed.

Lemma dec_half_lit h : half_lit (dec_half h) h.
Proof.
  unfold dec_half. set (a := Z.abs_N h). set (f := if N.odd a then 53 else 48).
  assert (Hf : f = 48 \/ f = 53) by (unfold f; destruct (N.odd a); auto).
  pose proof (half_split a) as Hs. fold f in Hs.
  destruct (h <? 0)%Z eqn:E.
  - apply Z.ltb_lt in E. cbn [app].
    refine (eq_ind _ (half_lit _) (hl_neg _ _ _ (dec_N_spec _) Hf) _ _).
    rewrite Hs. unfold a. rewrite N2Z.inj_abs_N. lia.
  - apply Z.ltb_ge in E. cbn [app].
    refine (eq_ind _ (half_lit _) (hl_pos _ _ _ (dec_N_spec _) Hf) _ _).
    rewrite Hs. unfold a. rewrite N2Z.inj_abs_N. lia.
Qed.

Lemma scalar_value s : not_bytes s = true -> json_value (render_scalar s) (Leaf s).
Proof.
  destruct s as [|[|]|z|h|s|s]; simpl; intros H; try discriminate.
  - constructor.
  - constructor.
  - constructor.
  - apply jv_int, dec_Z_lit.
  - apply jv_half, dec_half_lit.
  - apply quote_value.
Qed.

(* ---- padding and non-emptiness ------------------------------------------------------- *)
Lemma jd_of_value s t : json_value s t -> json_denotes s t.
Proof. intros H. rewrite <- (app_nil_r s). apply (jd_pad [] s [] t); auto with ws. Qed.

Lemma jd_pad_l w s t : ws w -> json_denotes s t -> json_denotes (w ++ s) t.
Proof.
  intros Hw H. destruct H as [w1 s w2 t H1 H2 Hv].
  rewrite app_assoc. apply jd_pad; auto with ws.
Qed.

Lemma jd_pad_r w s t : ws w -> json_denotes s t -> json_denotes (s ++ w) t.
Proof.
  intros Hw H. destruct H as [w1 s w2 t H1 H2 Hv].
  rewrite <- !app_assoc. apply jd_pad; auto with ws.
Qed.

Lemma nat_lit_nonempty ds n : nat_lit ds n -> ds <> [].
Proof. intros [H _]. exact H. Qed.

Lemma value_nonempty s t : json_value s t -> s <> [].
Proof.
  intros H. destruct H; try discriminate.
  - destruct H as [ds n H|ds n H]; [now apply nat_lit_nonempty in H|discriminate].
  - destruct H as [ds n f H _|ds n f H _]; [|discriminate].
    apply nat_lit_nonempty in H. destruct ds; [congruence|discriminate].
Qed.

Lemma denotes_nonempty s t : json_denotes s t -> s <> [].
Proof.
  intros H. destruct H as [w1 s w2 t _ _ Hv]. apply value_nonempty in Hv.
  destruct w1; [|discriminate]. destruct s; [congruence|discriminate].
Qed.

Lemma elems_nonempty body xs : json_elems body xs -> body <> [] /\ xs <> [].
Proof.
  intros H. destruct H.
  - split; [now apply denotes_nonempty in H|discriminate].
  - split; [destruct body; discriminate|destruct xs; discriminate].
Qed.

Lemma member_pad_l w m k v : ws w -> json_member m k v -> json_member (w ++ m) k v.
Proof.
  intros Hw H. destruct H as [w1 kb k w2 s v H1 H2 Hk Hv].
  rewrite app_assoc. apply jm_intro; auto with ws.
Qed.

Lemma member_pad_r w m k v : ws w -> json_member m k v -> json_member (m ++ w) k v.
Proof.
  intros Hw H. destruct H as [w1 kb k w2 s v H1 H2 Hk Hv].
  replace ((w1 ++ 34 :: kb ++ 34 :: w2 ++ 58 :: s) ++ w) with (w1 ++ 34 :: kb ++ 34 :: w2 ++ 58 :: (s ++ w)).
  - apply jm_intro; auto. now apply jd_pad_r.
  - rewrite <- !app_assoc. cbn [app]. rewrite <- !app_assoc. cbn [app]. rewrite <- !app_assoc. reflexivity.
Qed.

Lemma member_nonempty m k v : json_member m k v -> m <> [].
Proof. intros H. destruct H. destruct w1; discriminate. Qed.

Lemma members_nonempty body kvs : json_members body kvs -> body <> [] /\ kvs <> [].
Proof.
  intros H. destruct H.
  - split; [now apply member_nonempty in H|discriminate].
  - split; [destruct body; discriminate|destruct kvs; discriminate].
Qed.

Lemma elems_pad_l w body xs : ws w -> json_elems body xs -> json_elems (w ++ body) xs.
Proof.
  intros Hw H. induction H.
  - apply je_one. now apply jd_pad_l.
  - rewrite app_assoc. now apply je_snoc.
Qed.

Lemma elems_pad_r w body xs : ws w -> json_elems body xs -> json_elems (body ++ w) xs.
Proof.
  intros Hw H. destruct H.
  - apply je_one. now apply jd_pad_r.
  - rewrite <- app_assoc. cbn [app]. apply je_snoc; [assumption|now apply jd_pad_r].
Qed.

Lemma members_pad_l w body kvs : ws w -> json_members body kvs -> json_members (w ++ body) kvs.
Proof.
  intros Hw H. induction H.
  - apply jm_one. now apply member_pad_l.
  - rewrite app_assoc. now apply jm_snoc.
Qed.

Lemma members_pad_r w body kvs : ws w -> json_members body kvs -> json_members (body ++ w) kvs.
Proof.
  intros Hw H. destruct H.
  - apply jm_one. now apply member_pad_r.
  - rewrite <- app_assoc. cbn [app]. apply jm_snoc; [assumption|now apply member_pad_r].
Qed.

(* ---- the generic loop: "if result: result += ',' + sep" / "result += entry" ------------- *)
Definition elems_acc (acc : pstr) (xs : list tree) : Prop :=
  match xs with [] => acc = [] | _ => json_elems acc xs end.
Definition members_acc (acc : pstr) (kvs : list (pstr * tree)) : Prop :=
  match kvs with [] => acc = [] | _ => json_members acc kvs end.

Lemma join_elems sep entries xs :
  ws sep -> Forall2 json_denotes entries xs ->
  forall acc axs, elems_acc acc axs -> elems_acc (fold_left (join_step sep) entries acc) (axs ++ xs).
Proof.
  intros Hs HF. induction HF as [|e x entries xs He HF IH]; intros acc axs Ha.
  - rewrite app_nil_r. exact Ha.
  - cbn [fold_left]. replace (axs ++ x :: xs) with ((axs ++ [x]) ++ xs) by (rewrite <- app_assoc; reflexivity).
    apply IH. unfold join_step, elems_acc in *. destruct axs as [|a axs].
    + subst acc. cbn [is_nil app]. now apply je_one.
    + destruct (elems_nonempty _ _ Ha) as [Hn _]. apply is_nil_false in Hn. rewrite Hn.
      cbn [app]. destruct (axs ++ [x]) eqn:E; [destruct axs; discriminate|]. rewrite <- E.
      change (a :: axs ++ [x]) with ((a :: axs) ++ [x]). apply je_snoc; [exact Ha|now apply jd_pad_l].
Qed.

Lemma join_members sep entries kvs :
  ws sep -> Forall2 (fun e kv => json_member e (fst kv) (snd kv)) entries kvs ->
  forall acc akvs, members_acc acc akvs -> members_acc (fold_left (join_step sep) entries acc) (akvs ++ kvs).
Proof.
  intros Hs HF. induction HF as [|e [k v] entries kvs He HF IH]; intros acc akvs Ha.
  - rewrite app_nil_r. exact Ha.
  - cbn [fold_left]. replace (akvs ++ (k, v) :: kvs) with ((akvs ++ [(k, v)]) ++ kvs) by (rewrite <- app_assoc; reflexivity).
    apply IH. unfold join_step, members_acc in *. cbn [fst snd] in He. destruct akvs as [|a akvs].
    + subst acc. cbn [is_nil app]. now apply jm_one.
    + destruct (members_nonempty _ _ Ha) as [Hn _]. apply is_nil_false in Hn. rewrite Hn.
      cbn [app]. destruct (akvs ++ [(k, v)]) eqn:E; [destruct akvs; discriminate|]. rewrite <- E.
      change (a :: akvs ++ [(k, v)]) with ((a :: akvs) ++ [(k, v)]). apply jm_snoc; [exact Ha|now apply member_pad_l].
Qed.

(* ---- brackets -------------------------------------------------------------------------- *)
Lemma bracket_shape (b0 b1 : N) (a r b : pstr) : [b0] ++ a ++ r ++ b ++ [b1] = b0 :: (a ++ r ++ b) ++ [b1].
Proof. cbn [app]. now rewrite <- !app_assoc. Qed.
Lemma wrap_arr o lvl res xs :
  elems_acc res xs ->
  match xs with
  | [] => wrap o lvl 91 93 res = (if o_skip o then [] else 91 :: sp o ++ sp o ++ [93])
  | _ => json_value (wrap o lvl 91 93 res) (Lst false xs)
  end.
Proof.
  unfold elems_acc, wrap. destruct xs as [|x xs]; intros H.
  - subst res. cbn [is_nil negb orb mem_chr existsb app]. destruct (o_skip o); reflexivity.
  - destruct (elems_nonempty _ _ H) as [Hn _]. apply is_nil_false in Hn. rewrite Hn. cbn [negb orb].
    destruct (mem_chr 10 res); rewrite bracket_shape; apply jv_arr;
      apply elems_pad_l; auto with ws; apply elems_pad_r; auto with ws.
Qed.

Lemma wrap_obj o lvl res kvs kvs' :
  members_acc res kvs -> NoDup (map fst kvs) -> Permutation kvs kvs' ->
  match kvs with
  | [] => wrap o lvl 123 125 res = (if o_skip o then [] else 123 :: sp o ++ sp o ++ [125])
  | _ => json_value (wrap o lvl 123 125 res) (Dict false kvs')
  end.
Proof.
  unfold members_acc, wrap. destruct kvs as [|x kvs]; intros H Hnd Hp.
  - subst res. cbn [is_nil negb orb mem_chr existsb app]. destruct (o_skip o); reflexivity.
  - destruct (members_nonempty _ _ H) as [Hn _]. apply is_nil_false in Hn. rewrite Hn. cbn [negb orb].
    destruct (mem_chr 10 res); rewrite bracket_shape; apply (jv_obj _ (x :: kvs)); auto;
      apply members_pad_l; auto with ws; apply members_pad_r; auto with ws.
Qed.

(* ---- unfolding the nested fixpoints ------------------------------------------------------- *)
Lemma no_bytes_dict c kvs : no_bytes (Dict c kvs) = forallb (fun kv => no_bytes (snd kv)) kvs.
Proof. cbn [no_bytes]. induction kvs as [|[k v] r IH]; [reflexivity|]. cbn [forallb snd]. now rewrite IH. Qed.
Lemma no_bytes_lst c xs : no_bytes (Lst c xs) = forallb no_bytes xs.
Proof. cbn [no_bytes]. induction xs as [|v r IH]; [reflexivity|]. cbn [forallb]. now rewrite IH. Qed.

Lemma json_tree_no_bytes t : json_tree t = true -> no_bytes t = true.
Proof.
  induction t as [s|c kvs IH|c xs IH] using tree_ind'.
  - destruct s; simpl; auto.
  - rewrite no_bytes_dict. cbn [json_tree]. induction IH as [|[k v] r Hv Hr IHr]; [reflexivity|].
    intros H. apply andb_true_iff in H as [H1 H2]. cbn [forallb snd]. cbn [snd] in Hv. rewrite Hv, IHr; auto.
  - rewrite no_bytes_lst. cbn [json_tree]. induction IH as [|v r Hv Hr IHr]; [reflexivity|].
    intros H. apply andb_true_iff in H as [H1 H2]. cbn [forallb]. rewrite Hv, IHr; auto.
Qed.

Lemma wf_dict c kvs : wf (Dict c kvs) <-> NoDup (map fst kvs) /\ Forall (fun kv => wf (snd kv)) kvs.
Proof.
  cbn [wf]. apply and_iff_compat_l. induction kvs as [|[k v] r IH]; [split; auto|].
  split; intros H.
  - destruct H as [H1 H2]. constructor; [exact H1|now apply IH].
  - inversion H; subst. split; [assumption|now apply IH].
Qed.
Lemma wf_lst c xs : wf (Lst c xs) <-> Forall wf xs.
Proof.
  cbn [wf]. induction xs as [|v r IH]; [split; auto|].
  split; intros H.
  - destruct H as [H1 H2]. constructor; [exact H1|now apply IH].
  - inversion H; subst. split; [assumption|now apply IH].
Qed.

Lemma erase_dict c kvs : erase (Dict c kvs) = Dict false (map (fun kv => (fst kv, erase (snd kv))) kvs).
Proof. cbn [erase]. f_equal. induction kvs as [|[k v] r IH]; [reflexivity|]. cbn [map fst snd]. now rewrite IH. Qed.
Lemma erase_lst c xs : erase (Lst c xs) = Lst false (map erase xs).
Proof. reflexivity. Qed.

Definition keep_kv (f : tree -> option tree) (kv : pstr * tree) : option (pstr * tree) :=
  match f (snd kv) with Some v' => Some (fst kv, v') | None => None end.

Lemma prune_dict c kvs :
  prune (Dict c kvs) = match filter_map (keep_kv prune) kvs with [] => None | l => Some (Dict c l) end.
Proof.
  cbn [prune].
  replace ((fix go (l : list (pstr * tree)) : list (pstr * tree) :=
      match l with
      | [] => []
      | (k, v) :: r => match prune v with Some v' => (k, v') :: go r | None => go r end
      end) kvs) with (filter_map (keep_kv prune) kvs); [reflexivity|].
  induction kvs as [|[k v] r IH]; [reflexivity|]. cbn [filter_map]. unfold keep_kv at 1. cbn [fst snd].
  destruct (prune v); now rewrite IH.
Qed.
Lemma prune_lst c xs :
  prune (Lst c xs) = match filter_map prune xs with [] => None | l => Some (Lst c l) end.
Proof.
  cbn [prune].
  replace ((fix go (l : list tree) : list tree :=
      match l with
      | [] => []
      | v :: r => match prune v with Some v' => v' :: go r | None => go r end
      end) xs) with (filter_map prune xs); [reflexivity|].
  induction xs as [|v r IH]; [reflexivity|]. cbn [filter_map]. destruct (prune v); now rewrite IH.
Qed.

(* the value a subtree contributes: under skip_empty_arrays what is left of it, if anything *)
Definition prune' (o : opts) (t : tree) : option tree := if o_skip o then prune t else Some t.

Lemma filter_map_some {A} (l : list A) : filter_map (@Some A) l = l.
Proof. induction l; simpl; congruence. Qed.

Lemma prune'_dict o c kvs :
  prune' o (Dict c kvs) =
  match filter_map (keep_kv (prune' o)) kvs with
  | [] => if o_skip o then None else Some (Dict c [])
  | l => Some (Dict c l)
  end.
Proof.
  unfold prune'. destruct (o_skip o).
  - apply prune_dict.
  - replace (filter_map (keep_kv (fun t => Some t)) kvs) with kvs; [destruct kvs; reflexivity|].
    induction kvs as [|[k v] r IH]; [reflexivity|]. cbn [filter_map]. unfold keep_kv at 1. cbn [fst snd]. now rewrite <- IH.
Qed.
Lemma prune'_lst o c xs :
  prune' o (Lst c xs) =
  match filter_map (prune' o) xs with
  | [] => if o_skip o then None else Some (Lst c [])
  | l => Some (Lst c l)
  end.
Proof.
  unfold prune'. destruct (o_skip o).
  - apply prune_lst.
  - rewrite filter_map_some. destruct xs; reflexivity.
Qed.

Lemma pretty_dict o lvl c kvs :
  pretty o lvl (Dict c kvs) =
  wrap o lvl 123 125
    (fold_left (join_step (if condense kvs then sp o else ind o (S lvl)))
       (filter_map (dict_entry o) (map (fun kv => (fst kv, pretty o (S lvl) (snd kv))) kvs)) []).
Proof.
  cbn [pretty]. do 3 f_equal.
  induction kvs as [|[k v] r IH]; [reflexivity|]. cbn [map fst snd]. now rewrite IH.
Qed.
Lemma pretty_lst o lvl c xs :
  pretty o lvl (Lst c xs) =
  match (if eff_pairs o then list_pairs xs else None) with
  | Some (nm :: names) => wrap o lvl 91 93 (render_pairs o lvl (nm :: names) xs)
  | _ => wrap o lvl 91 93
           (fold_left (join_step (ind o (S lvl))) (filter_map (list_entry o) (map (pretty o (S lvl)) xs)) [])
  end.
Proof.
  cbn [pretty].
  assert (E : (fix go (l : list tree) : list pstr :=
                 match l with [] => [] | v :: r => pretty o (S lvl) v :: go r end) xs = map (pretty o (S lvl)) xs).
  { induction xs as [|v r IH]; [reflexivity|]. cbn [map]. now rewrite IH. }
  rewrite E. reflexivity.
Qed.

(* ---- association lists ---------------------------------------------------------------------- *)
Lemma lookup_in {A} k (v : A) kvs : lookup k kvs = Some v -> In (k, v) kvs.
Proof.
  induction kvs as [|[k0 v0] r IH]; [discriminate|]. cbn [lookup].
  destruct (pstr_eqb k k0) eqn:E; intros H.
  - apply pstr_eqb_eq in E. inversion H; subst. now left.
  - right. auto.
Qed.
Lemma lookup_none {A} k (kvs : list (pstr * A)) : lookup k kvs = None -> ~ In k (map fst kvs).
Proof.
  induction kvs as [|[k0 v0] r IH]; [auto|]. cbn [lookup map fst In].
  destruct (pstr_eqb k k0) eqn:E; [discriminate|]. apply pstr_eqb_neq in E.
  intros H [H1|H1]; [congruence|]. now apply IH.
Qed.
Lemma lookup_remove_other {A} k k' (kvs : list (pstr * A)) :
  k' <> k -> lookup k' (remove_key k kvs) = lookup k' kvs.
Proof.
  intros Hne. induction kvs as [|[k0 v0] r IH]; [reflexivity|]. cbn [remove_key].
  destruct (pstr_eqb k k0) eqn:E.
  - apply pstr_eqb_eq in E; subst. cbn [lookup]. apply pstr_eqb_neq in Hne. now rewrite Hne.
  - cbn [lookup]. now rewrite IH.
Qed.
Lemma remove_key_in {A} k (kvs : list (pstr * A)) :
  forall k', In k' (map fst (remove_key k kvs)) -> In k' (map fst kvs).
Proof.
  induction kvs as [|[k0 v0] r IH]; intros k'; [auto|]. cbn [remove_key].
  destruct (pstr_eqb k k0); cbn [map fst In]; [auto|]. intros [H|H]; auto.
Qed.
Lemma remove_key_nodup {A} k (kvs : list (pstr * A)) :
  NoDup (map fst kvs) -> NoDup (map fst (remove_key k kvs)) /\ ~ In k (map fst (remove_key k kvs)).
Proof.
  induction kvs as [|[k0 v0] r IH]; intros H; [split; [constructor|auto]|].
  cbn [map fst] in H. inversion H; subst. cbn [remove_key].
  destruct (pstr_eqb k k0) eqn:E.
  - apply pstr_eqb_eq in E; subst. split; assumption.
  - apply pstr_eqb_neq in E. destruct (IH H3) as [H4 H5]. cbn [map fst]. split.
    + constructor; [|exact H4]. intros Hin. apply remove_key_in in Hin. contradiction.
    + intros [Hin|Hin]; [congruence|contradiction].
Qed.
Lemma remove_key_perm {A} k (v : A) kvs :
  lookup k kvs = Some v -> Permutation ((k, v) :: remove_key k kvs) kvs.
Proof.
  induction kvs as [|[k0 v0] r IH]; [discriminate|]. cbn [lookup remove_key].
  destruct (pstr_eqb k k0) eqn:E; intros H.
  - apply pstr_eqb_eq in E. inversion H; subst. apply Permutation_refl.
  - eapply perm_trans; [apply perm_swap|]. apply perm_skip. auto.
Qed.

Lemma flat_map_ext_in' {A B} (f g : A -> list B) l :
  (forall a, In a l -> f a = g a) -> flat_map f l = flat_map g l.
Proof.
  induction l as [|a l IH]; intros H; [reflexivity|]. cbn [flat_map].
  rewrite H by now left. rewrite IH; [reflexivity|]. intros; apply H; now right.
Qed.

Definition cell_of {A} (kvs : list (pstr * A)) (k : pstr) : list (pstr * A) :=
  match lookup k kvs with Some v => [(k, v)] | None => [] end.

Lemma cells_perm {A} ks : forall (kvs : list (pstr * A)),
  NoDup ks -> NoDup (map fst kvs) -> incl (map fst kvs) ks ->
  Permutation (flat_map (cell_of kvs) ks) kvs.
Proof.
  induction ks as [|k ks IH]; intros kvs Hks Hnd Hincl.
  - destruct kvs as [|[k0 v0] r]; [constructor|]. exfalso. apply (Hincl k0). now left.
  - inversion Hks; subst. cbn [flat_map]. unfold cell_of at 1. destruct (lookup k kvs) as [v|] eqn:E.
    + cbn [app]. eapply perm_trans; [|apply (remove_key_perm k v kvs E)]. apply perm_skip.
      rewrite (flat_map_ext_in' (cell_of kvs) (cell_of (remove_key k kvs))).
      * destruct (remove_key_nodup k kvs Hnd) as [H4 H5]. apply IH; auto.
        intros k' Hin. assert (k' <> k) by (intros ->; contradiction).
        apply remove_key_in in Hin. apply Hincl in Hin. destruct Hin; congruence.
      * intros k' Hin. unfold cell_of. rewrite lookup_remove_other; [reflexivity|]. intros ->. contradiction.
    + cbn [app]. apply IH; auto. intros k' Hin. pose proof (lookup_none _ _ E) as Hn.
      specialize (Hincl k' Hin). destruct Hincl; [subst; contradiction|assumption].
Qed.

(* ---- is_list_with_pairs ----------------------------------------------------------------------- *)
Lemma names_upd_in k n names :
  forall k', In k' (map fst (names_upd k n names)) <-> k' = k \/ In k' (map fst names).
Proof.
  induction names as [|[k0 m] r IH]; intros k'; cbn [names_upd].
  - cbn [map fst In]. split; intros [H|H]; auto; try contradiction.
  - destruct (pstr_eqb k k0) eqn:E; cbn [map fst In].
    + apply pstr_eqb_eq in E; subst. split; [intros [H|H]; auto|intros [H|[H|H]]; auto].
    + rewrite IH. split; [intros [H|[H|H]]; auto|intros [H|[H|H]]; auto].
Qed.
Lemma names_upd_nodup k n names : NoDup (map fst names) -> NoDup (map fst (names_upd k n names)).
Proof.
  induction names as [|[k0 m] r IH]; intros H; cbn [names_upd].
  - cbn [map fst]. constructor; [auto|constructor].
  - cbn [map fst] in H. inversion H; subst. destruct (pstr_eqb k k0) eqn:E; cbn [map fst].
    + constructor; assumption.
    + apply pstr_eqb_neq in E. constructor; [|auto]. rewrite names_upd_in. intros [Hk|Hk]; [congruence|contradiction].
Qed.

Definition cell_ok (kv : pstr * tree) : Prop := exists s, snd kv = Leaf s /\ not_bytes s = true.

Lemma pres_len_not_bytes s n : pres_len s = Some n -> not_bytes s = true.
Proof. destruct s; simpl; congruence. Qed.

Lemma scan_record_spec kvs : forall names names',
  scan_record kvs names = Some names' -> NoDup (map fst names) ->
  NoDup (map fst names') /\ incl (map fst names) (map fst names') /\
  incl (map fst kvs) (map fst names') /\ Forall cell_ok kvs.
Proof.
  induction kvs as [|[k v] r IH]; intros names names' H Hnd; cbn [scan_record] in H.
  - inversion H; subst. repeat split; auto using incl_refl. intros x [].
  - destruct v as [s| |]; try discriminate. destruct (pres_len s) as [n|] eqn:Ep; [|discriminate].
    destruct (2 <? length (names_upd k n names))%nat; [discriminate|].
    destruct (IH _ _ H (names_upd_nodup k n names Hnd)) as [H1 [H2 [H3 H4]]].
    repeat split; auto.
    + intros x Hx. apply H2. apply names_upd_in. now right.
    + intros x [Hx|Hx]; [|now apply H3]. cbn [fst] in Hx. subst x. apply H2. apply names_upd_in. now left.
    + constructor; [|exact H4]. exists s. split; [reflexivity|]. eapply pres_len_not_bytes; eauto.
Qed.

Definition record_ok (keys : list pstr) (x : tree) : Prop :=
  exists c kvs, x = Dict c kvs /\ incl (map fst kvs) keys /\ Forall cell_ok kvs.

Lemma scan_items_spec xs : forall names names',
  scan_items xs names = Some names' -> NoDup (map fst names) ->
  NoDup (map fst names') /\ incl (map fst names) (map fst names') /\ Forall (record_ok (map fst names')) xs.
Proof.
  induction xs as [|x r IH]; intros names names' H Hnd; cbn [scan_items] in H.
  - inversion H; subst. repeat split; auto using incl_refl.
  - destruct x as [|c kvs|]; try discriminate.
    destruct (2 <? length kvs)%nat; [discriminate|].
    destruct (scan_record kvs names) as [names1|] eqn:E1; [|discriminate].
    destruct (scan_record_spec _ _ _ E1 Hnd) as [A1 [A2 [A3 A4]]].
    destruct (IH _ _ H A1) as [B1 [B2 B3]]. repeat split; auto.
    + eapply incl_tran; eauto.
    + constructor; [|exact B3]. exists c, kvs. repeat split; auto. eapply incl_tran; eauto.
Qed.

(* ---- the pair layout ----------------------------------------------------------------------------- *)
Definition cell_inv (st : pstr * bool) (mk : list (pstr * tree)) : Prop :=
  if snd st then json_members (fst st) mk else ws (fst st) /\ mk = [].

Lemma cell_member k s w :
  not_bytes s = true ->
  json_member ([32] ++ quote k ++ [58; 32] ++ ljust (render_scalar s) w 32) k (Leaf s).
Proof.
  intros Hs. unfold quote, ljust.
  replace ([32] ++ (34 :: json_escape k ++ [34]) ++ [58; 32] ++ render_scalar s ++ repeat 32 (w - length (render_scalar s)))
    with ([32] ++ 34 :: json_escape k ++ 34 :: [] ++ 58 :: ([32] ++ render_scalar s ++ repeat 32 (w - length (render_scalar s)))).
  - apply jm_intro; auto with ws. apply escape_denotes.
    apply jd_pad; auto with ws. now apply scalar_value.
  - cbn [app]. rewrite <- !app_assoc. reflexivity.
Qed.

Lemma cell_step kvs st mk nm :
  Forall cell_ok kvs -> cell_inv st mk ->
  cell_inv (pair_cell kvs st nm) (mk ++ cell_of kvs (fst nm)).
Proof.
  intros Hok Hinv. destruct st as [sub emitted]. destruct nm as [k w]. unfold pair_cell, cell_of. cbn [fst].
  destruct (lookup k kvs) as [v|] eqn:E.
  - apply lookup_in in E. rewrite Forall_forall in Hok. destruct (Hok _ E) as [s [Hv Hs]]. cbn [snd] in Hv. subst v.
    cbn [cell_text]. pose proof (cell_member k s w Hs) as Hm.
    unfold cell_inv in *. cbn [fst snd] in *. destruct emitted.
    + replace (sub ++ [44] ++ [32] ++ quote k ++ [58; 32] ++ ljust (render_scalar s) w 32)
        with (sub ++ 44 :: ([32] ++ quote k ++ [58; 32] ++ ljust (render_scalar s) w 32)) by reflexivity.
      now apply jm_snoc.
    + destruct Hinv as [Hw ->]. cbn [app]. apply jm_one.
      rewrite app_assoc. apply member_pad_l; [|exact Hm].
      apply ws_app; [exact Hw|]. destruct (is_nil sub); auto with ws.
  - rewrite app_nil_r. unfold cell_inv in *. cbn [fst snd] in *.
    assert (Hp : ws ((if is_nil sub then [] else [32]) ++ repeat 32 (1 + 1 + length k + 1 + 2 + w))).
    { apply ws_app; [destruct (is_nil sub); auto with ws|apply ws_spaces]. }
    destruct emitted.
    + now apply members_pad_r.
    + destruct Hinv as [Hw ->]. split; [now apply ws_app|reflexivity].
Qed.

Lemma cells_fold kvs names : forall st mk,
  Forall cell_ok kvs -> cell_inv st mk ->
  cell_inv (fold_left (pair_cell kvs) names st) (mk ++ flat_map (cell_of kvs) (map fst names)).
Proof.
  induction names as [|nm names IH]; intros st mk Hok Hinv.
  - cbn [fold_left map flat_map]. now rewrite app_nil_r.
  - cbn [fold_left map flat_map]. rewrite app_assoc. apply IH; [assumption|]. now apply cell_step.
Qed.

Lemma all_leaves_erase kvs : Forall cell_ok kvs -> map (fun kv => (fst kv, erase (snd kv))) kvs = kvs.
Proof.
  induction 1 as [|[k v] r [s [Hv _]] Hr IH]; [reflexivity|]. cbn [snd] in Hv. subst v.
  cbn [map fst snd erase]. now rewrite IH.
Qed.
Lemma all_leaves_keep f kvs :
  (forall s, f (Leaf s) = Some (Leaf s)) -> Forall cell_ok kvs -> filter_map (keep_kv f) kvs = kvs.
Proof.
  intros Hf. induction 1 as [|[k v] r [s [Hv _]] Hr IH]; [reflexivity|]. cbn [snd] in Hv. subst v.
  cbn [filter_map]. unfold keep_kv at 1. cbn [fst snd]. now rewrite Hf, IH.
Qed.

Lemma record_value names kvs :
  NoDup (map fst names) -> NoDup (map fst kvs) -> incl (map fst kvs) (map fst names) -> Forall cell_ok kvs ->
  json_value (render_record names kvs) (Dict false kvs).
Proof.
  intros Hn Hk Hincl Hok. unfold render_record.
  pose proof (cells_fold kvs names ([], false) [] Hok (conj ws_nil eq_refl)) as H. cbn [app] in H.
  pose proof (cells_perm (map fst names) kvs Hn Hk Hincl) as Hp.
  destruct (fold_left (pair_cell kvs) names ([], false)) as [sub emitted]. unfold cell_inv in H. cbn [fst snd] in *.
  replace ([123] ++ sub ++ [32; 125]) with (123 :: (sub ++ [32]) ++ [125]) by (cbn [app]; now rewrite <- app_assoc).
  destruct emitted.
  - apply (jv_obj _ (flat_map (cell_of kvs) (map fst names))); [apply members_pad_r; auto with ws| |exact Hp].
    apply Permutation_sym in Hp. apply (Permutation_map fst) in Hp. eapply Permutation_NoDup; eauto.
  - destruct H as [Hw Hm]. rewrite Hm in Hp. apply Permutation_nil in Hp. subst kvs.
    apply jv_obj_empty. auto with ws.
Qed.

Definition rec_entry (o : opts) (names : list (pstr * nat)) (x : tree) : option pstr :=
  match x with
  | Dict _ kvs => if o_skip o && is_nil kvs then None else Some (render_record names kvs)
  | _ => None
  end.

Lemma render_pairs_join o lvl names xs : forall acc,
  fold_left (pairs_step o lvl names) xs acc =
  fold_left (join_step (ind o (S lvl))) (filter_map (rec_entry o names) xs) acc.
Proof.
  induction xs as [|x r IH]; intros acc; [reflexivity|]. cbn [fold_left filter_map].
  destruct x as [s|c kvs|c ys]; cbn [pairs_step rec_entry]; try apply IH.
  destruct (o_skip o && is_nil kvs); [apply IH|]. cbn [fold_left]. rewrite IH. f_equal.
  unfold join_step. destruct (is_nil acc); [reflexivity|]. now rewrite <- !app_assoc.
Qed.

Lemma prune'_leaf o s : prune' o (Leaf s) = Some (Leaf s).
Proof. unfold prune'. destruct (o_skip o); reflexivity. Qed.

Lemma record_entries o names xs :
  NoDup (map fst names) -> Forall (record_ok (map fst names)) xs -> Forall wf xs ->
  Forall2 json_denotes (filter_map (rec_entry o names) xs) (map erase (filter_map (prune' o) xs)).
Proof.
  intros Hn Hok Hwf. induction Hok as [|x r [c [kvs [-> [Hincl Hcells]]]] Hr IH]; [constructor|].
  inversion Hwf as [|? ? Hx Hwr]; subst. apply wf_dict in Hx as [Hnd _].
  cbn [filter_map rec_entry]. rewrite prune'_dict.
  rewrite (all_leaves_keep (prune' o) kvs (prune'_leaf o) Hcells).
  destruct kvs as [|kv kvs].
  - cbn [is_nil]. rewrite andb_true_r. destruct (o_skip o); [now apply IH|].
    cbn [map]. constructor; [|now apply IH]. rewrite erase_dict. cbn [map].
    apply jd_of_value. apply (record_value names []); auto; constructor.
  - cbn [is_nil]. rewrite andb_false_r. cbn [map]. constructor; [|now apply IH].
    rewrite erase_dict, (all_leaves_erase _ Hcells). apply jd_of_value. now apply record_value.
Qed.

Lemma pairs_layout o lvl xs names :
  list_pairs xs = Some names -> Forall wf xs ->
  elems_acc (render_pairs o lvl names xs) (map erase (filter_map (prune' o) xs)).
Proof.
  intros Hl Hwf. unfold list_pairs in Hl.
  destruct (scan_items_spec xs [] names Hl (NoDup_nil _)) as [Hn [_ Hok]].
  unfold render_pairs. rewrite render_pairs_join.
  exact (join_elems (ind o (S lvl)) _ _ (ws_ind o (S lvl)) (record_entries o names xs Hn Hok Hwf) [] [] eq_refl).
Qed.

(* ---- the main induction ------------------------------------------------------------------- *)
Definition exports (o : opts) (lvl : nat) (t : tree) : Prop :=
  match prune' o t with
  | Some t' => json_denotes (pretty o lvl t) (erase t')
  | None => pretty o lvl t = []
  end.

Lemma prune'_none_skip o t : prune' o t = None -> o_skip o = true.
Proof. unfold prune'. destruct (o_skip o); [reflexivity|discriminate]. Qed.

Lemma keep_keys f kvs : forall k, In k (map fst (filter_map (keep_kv f) kvs)) -> In k (map fst kvs).
Proof.
  induction kvs as [|[k0 v] r IH]; intros k; [auto|]. cbn [filter_map]. unfold keep_kv at 1. cbn [fst snd].
  destruct (f v); cbn [map fst In]; intros H; [destruct H; auto|auto].
Qed.
Lemma keep_nodup f kvs : NoDup (map fst kvs) -> NoDup (map fst (filter_map (keep_kv f) kvs)).
Proof.
  induction kvs as [|[k0 v] r IH]; intros H; [constructor|]. cbn [map fst] in H. inversion H; subst.
  cbn [filter_map]. unfold keep_kv at 1. cbn [fst snd]. destruct (f v); [|auto].
  cbn [map fst]. constructor; [|auto]. intros Hin. apply keep_keys in Hin. contradiction.
Qed.

Lemma member_entry o k pv v :
  json_denotes pv v -> json_member (quote k ++ [58] ++ sp o ++ pv) k v.
Proof.
  intros H. unfold quote.
  replace ((34 :: json_escape k ++ [34]) ++ [58] ++ sp o ++ pv)
    with ([] ++ 34 :: json_escape k ++ 34 :: [] ++ 58 :: (sp o ++ pv)).
  - apply jm_intro; auto with ws. apply escape_denotes. apply jd_pad_l; auto with ws.
  - cbn [app]. rewrite <- !app_assoc. reflexivity.
Qed.

Lemma dict_entries o lvl kvs :
  Forall (fun kv => exports o (S lvl) (snd kv)) kvs ->
  Forall2 (fun e kv => json_member e (fst kv) (snd kv))
    (filter_map (dict_entry o) (map (fun kv => (fst kv, pretty o (S lvl) (snd kv))) kvs))
    (map (fun kv => (fst kv, erase (snd kv))) (filter_map (keep_kv (prune' o)) kvs)).
Proof.
  induction 1 as [|[k v] r Hv Hr IH]; [constructor|].
  cbn [map filter_map fst snd]. unfold exports in *. unfold keep_kv at 1. unfold dict_entry at 1. cbn [fst snd] in *.
  destruct (prune' o v) as [v'|] eqn:E.
  - pose proof (denotes_nonempty _ _ Hv) as Hn. apply is_nil_false in Hn. rewrite Hn, andb_false_r.
    cbn [map fst snd]. constructor; [|exact IH]. cbn [fst snd]. now apply member_entry.
  - rewrite Hv. rewrite (prune'_none_skip _ _ E). cbn [is_nil andb]. exact IH.
Qed.

Lemma list_entries o lvl xs :
  Forall (exports o (S lvl)) xs ->
  Forall2 json_denotes
    (filter_map (list_entry o) (map (pretty o (S lvl)) xs))
    (map erase (filter_map (prune' o) xs)).
Proof.
  induction 1 as [|v r Hv Hr IH]; [constructor|].
  cbn [map filter_map]. unfold exports in *. unfold list_entry at 1.
  destruct (prune' o v) as [v'|] eqn:E.
  - pose proof (denotes_nonempty _ _ Hv) as Hn. apply is_nil_false in Hn. rewrite Hn, andb_false_r.
    cbn [map]. constructor; assumption.
  - rewrite Hv. rewrite (prune'_none_skip _ _ E). cbn [is_nil andb]. exact IH.
Qed.

Lemma arr_result o lvl res c xs :
  elems_acc res (map erase (filter_map (prune' o) xs)) ->
  match prune' o (Lst c xs) with
  | Some t' => json_denotes (wrap o lvl 91 93 res) (erase t')
  | None => wrap o lvl 91 93 res = []
  end.
Proof.
  intros H. apply (wrap_arr o lvl) in H. rewrite prune'_lst.
  destruct (filter_map (prune' o) xs) as [|x l] eqn:E.
  - cbn [map] in H. rewrite H. destruct (o_skip o); [reflexivity|].
    apply jd_of_value. rewrite app_assoc. apply jv_arr_empty; auto with ws.
  - rewrite erase_lst. apply jd_of_value. exact H.
Qed.

Lemma pretty_exports o t : wf t -> no_bytes t = true -> forall lvl, exports o lvl t.
Proof.
  induction t as [s|c kvs IH|c xs IH] using tree_ind'; intros Hwf Hnb lvl.
  - unfold exports, prune'. cbn [prune]. replace (if o_skip o then Some (Leaf s) else Some (Leaf s)) with (Some (Leaf s)) by (destruct (o_skip o); reflexivity).
    cbn [pretty erase]. apply jd_of_value, scalar_value. exact Hnb.
  - apply wf_dict in Hwf as [Hnd Hwf]. rewrite no_bytes_dict in Hnb.
    assert (Hk : Forall (fun kv => exports o (S lvl) (snd kv)) kvs).
    { rewrite forallb_forall in Hnb. rewrite Forall_forall in *. intros kv Hin. apply IH; auto. }
    pose proof (dict_entries o lvl kvs Hk) as HF.
    unfold exports. rewrite pretty_dict, prune'_dict.
    set (sep := if condense kvs then sp o else ind o (S lvl)).
    assert (Hsep : ws sep) by (unfold sep; destruct (condense kvs); auto with ws).
    pose proof (join_members sep _ _ Hsep HF [] [] eq_refl) as Hm. cbn [app] in Hm.
    apply (wrap_obj o lvl _ _ (map (fun kv => (fst kv, erase (snd kv))) (filter_map (keep_kv (prune' o)) kvs))) in Hm.
    + destruct (filter_map (keep_kv (prune' o)) kvs) as [|x l] eqn:E.
      * cbn [map] in Hm. rewrite Hm. destruct (o_skip o); [reflexivity|].
        apply jd_of_value. rewrite erase_dict. cbn [map]. rewrite app_assoc. apply jv_obj_empty; auto with ws.
      * rewrite erase_dict. apply jd_of_value. exact Hm.
    + rewrite map_map. cbn [fst]. apply keep_nodup with (f := prune' o) in Hnd.
      erewrite map_ext; [exact Hnd|]. reflexivity.
    + apply Permutation_refl.
  - apply wf_lst in Hwf. rewrite no_bytes_lst in Hnb.
    assert (Hk : Forall (exports o (S lvl)) xs).
    { rewrite forallb_forall in Hnb. rewrite Forall_forall in *. intros v Hin. apply IH; auto. }
    unfold exports. rewrite pretty_lst.
    assert (Hgen : match prune' o (Lst c xs) with
                   | Some t' => json_denotes (wrap o lvl 91 93 (fold_left (join_step (ind o (S lvl))) (filter_map (list_entry o) (map (pretty o (S lvl)) xs)) [])) (erase t')
                   | None => wrap o lvl 91 93 (fold_left (join_step (ind o (S lvl))) (filter_map (list_entry o) (map (pretty o (S lvl)) xs)) []) = []
                   end).
    { apply arr_result.
      exact (join_elems (ind o (S lvl)) _ _ (ws_ind o (S lvl)) (list_entries o lvl xs Hk) [] [] eq_refl). }
    destruct (eff_pairs o) eqn:Ep; [|exact Hgen].
    destruct (list_pairs xs) as [[|nm names]|] eqn:El; [exact Hgen| |exact Hgen].
    apply arr_result. now apply pairs_layout.
Qed.

(* ---- the exported text ---------------------------------------------------------------------- *)
Lemma empty_obj_denotes : json_denotes [123; 125] (Dict false []).
Proof. apply jd_of_value. apply (jv_obj_empty []). apply ws_nil. Qed.
Lemma empty_arr_denotes : json_denotes [91; 93] (Lst false []).
Proof. apply jd_of_value. apply (jv_arr_empty []). apply ws_nil. Qed.

Theorem to_json_denotes o t :
  wf t -> no_bytes t = true -> json_denotes (to_json o t) (exported (o_skip o) t).
Proof.
  intros Hwf Hnb. pose proof (pretty_exports o t Hwf Hnb 0%nat) as H.
  unfold exports, prune' in H. unfold to_json, exported, prune_root.
  destruct (o_skip o).
  - destruct (prune t) as [t'|] eqn:E.
    + pose proof (denotes_nonempty _ _ H) as Hn. apply is_nil_false in Hn. now rewrite Hn.
    + rewrite H. cbn [is_nil]. destruct t as [s|c kvs|c xs].
      * discriminate.
      * apply empty_obj_denotes.
      * apply empty_arr_denotes.
  - pose proof (denotes_nonempty _ _ H) as Hn. apply is_nil_false in Hn. now rewrite Hn.
Qed.

(* indent, pairs_in_one_line and compress never change the decoded value *)
Corollary options_layout_only o1 o2 t :
  wf t -> no_bytes t = true -> o_skip o1 = o_skip o2 ->
  exists v, json_denotes (to_json o1 t) v /\ json_denotes (to_json o2 t) v.
Proof.
  intros Hwf Hnb Hs. exists (exported (o_skip o1) t). split.
  - now apply to_json_denotes.
  - rewrite Hs. now apply to_json_denotes.
Qed.

(* ---- skip_empty_arrays drops empty containers and nothing else (facts about the Spec) ------ *)
Fixpoint no_empty (t : tree) : bool :=
  match t with
  | Leaf _ => true
  | Dict _ kvs => negb (is_nil kvs) &&
      (fix all (l : list (pstr * tree)) := match l with [] => true | (_, v) :: r => no_empty v && all r end) kvs
  | Lst _ xs => negb (is_nil xs) &&
      (fix all (l : list tree) := match l with [] => true | v :: r => no_empty v && all r end) xs
  end.

Lemma no_empty_dict c kvs : no_empty (Dict c kvs) = negb (is_nil kvs) && forallb (fun kv => no_empty (snd kv)) kvs.
Proof. cbn [no_empty]. f_equal. induction kvs as [|[k v] r IH]; [reflexivity|]. cbn [forallb snd]. now rewrite IH. Qed.
Lemma no_empty_lst c xs : no_empty (Lst c xs) = negb (is_nil xs) && forallb no_empty xs.
Proof. reflexivity. Qed.

(* a tree without empty containers is exported unchanged *)
Lemma prune_id t : no_empty t = true -> prune t = Some t.
Proof.
  induction t as [s|c kvs IH|c xs IH] using tree_ind'; intros H.
  - reflexivity.
  - rewrite no_empty_dict in H. apply andb_true_iff in H as [H1 H2]. rewrite prune_dict.
    assert (E : filter_map (keep_kv prune) kvs = kvs).
    { clear H1. induction IH as [|[k v] r Hv Hr IHr]; [reflexivity|]. cbn [forallb snd] in H2.
      apply andb_true_iff in H2 as [H2 H3]. cbn [filter_map]. unfold keep_kv at 1. cbn [fst snd] in *.
      rewrite (Hv H2), (IHr H3). reflexivity. }
    rewrite E. destruct kvs; [discriminate|reflexivity].
  - rewrite no_empty_lst in H. apply andb_true_iff in H as [H1 H2]. rewrite prune_lst.
    assert (E : filter_map prune xs = xs).
    { clear H1. induction IH as [|v r Hv Hr IHr]; [reflexivity|]. cbn [forallb] in H2.
      apply andb_true_iff in H2 as [H2 H3]. cbn [filter_map]. rewrite (Hv H2), (IHr H3). reflexivity. }
    rewrite E. destruct xs; [discriminate|reflexivity].
Qed.

(* what is left has no empty container *)
Lemma prune_no_empty t : forall t', prune t = Some t' -> no_empty t' = true.
Proof.
  induction t as [s|c kvs IH|c xs IH] using tree_ind'; intros t' H.
  - inversion H. reflexivity.
  - rewrite prune_dict in H.
    assert (A : forallb (fun kv => no_empty (snd kv)) (filter_map (keep_kv prune) kvs) = true).
    { clear H. induction IH as [|[k v] r Hv Hr IHr]; [reflexivity|]. cbn [filter_map]. unfold keep_kv at 1. cbn [fst snd] in *.
      destruct (prune v) as [v'|] eqn:E; [|exact IHr]. cbn [forallb snd]. rewrite (Hv v' eq_refl), IHr. reflexivity. }
    destruct (filter_map (keep_kv prune) kvs) as [|x l] eqn:E; [discriminate|]. inversion H; subst.
    rewrite no_empty_dict. cbn [is_nil negb andb]. exact A.
  - rewrite prune_lst in H.
    assert (A : forallb no_empty (filter_map prune xs) = true).
    { clear H. induction IH as [|v r Hv Hr IHr]; [reflexivity|]. cbn [filter_map].
      destruct (prune v) as [v'|] eqn:E; [|exact IHr]. cbn [forallb]. rewrite (Hv v' eq_refl), IHr. reflexivity. }
    destruct (filter_map prune xs) as [|x l] eqn:E; [discriminate|]. inversion H; subst.
    rewrite no_empty_lst. cbn [is_nil negb andb]. exact A.
Qed.

Corollary skip_changes_nothing_without_empties t :
  no_empty t = true -> exported true t = exported false t.
Proof. intros H. unfold exported, prune_root. now rewrite (prune_id t H). Qed.

(* ---- loading: the n0dict hook only retags ------------------------------------------------------ *)
Lemma hook_erase t : erase (hook t) = erase t.
Proof.
  induction t as [s|c kvs IH|c xs IH] using tree_ind'.
  - reflexivity.
  - cbn [hook erase]. f_equal. induction IH as [|[k v] r Hv Hr IHr]; [reflexivity|]. cbn [snd] in Hv. now rewrite Hv, IHr.
  - cbn [hook erase]. f_equal. induction IH as [|v r Hv Hr IHr]; [reflexivity|]. now rewrite Hv, IHr.
Qed.

(* every object of the loaded value is an n0dict (tag true): xpath navigation is available at every level *)
Fixpoint dicts_n0 (t : tree) : bool :=
  match t with
  | Leaf _ => true
  | Dict c kvs => c && (fix all (l : list (pstr * tree)) := match l with [] => true | (_, v) :: r => dicts_n0 v && all r end) kvs
  | Lst _ xs => (fix all (l : list tree) := match l with [] => true | v :: r => dicts_n0 v && all r end) xs
  end.
Lemma hook_n0 t : dicts_n0 (hook t) = true.
Proof.
  induction t as [s|c kvs IH|c xs IH] using tree_ind'.
  - reflexivity.
  - cbn [hook dicts_n0 andb]. induction IH as [|[k v] r Hv Hr IHr]; [reflexivity|]. cbn [snd] in Hv. now rewrite Hv, IHr.
  - cbn [hook dicts_n0]. induction IH as [|v r Hv Hr IHr]; [reflexivity|]. now rewrite Hv, IHr.
Qed.

(* ---- non-vacuity ---------------------------------------------------------------------------------- *)
Lemma nodup_keysb l : nodup_keys l = true -> NoDup l.
Proof.
  induction l as [|k r IH]; [constructor|]. cbn [nodup_keys]. intros H. apply andb_true_iff in H as [H1 H2].
  constructor; [|auto]. intros Hin. apply negb_true_iff in H1.
  assert (mem_str k r = true); [|congruence].
  unfold mem_str. apply existsb_exists. exists k. split; [assumption|apply pstr_eqb_refl].
Qed.

Lemma wfb_wf t : wfb t = true -> wf t.
Proof.
  induction t as [s|c kvs IH|c xs IH] using tree_ind'; intros H.
  - exact I.
  - apply wf_dict. cbn [wfb] in H. apply andb_true_iff in H as [H1 H2]. split; [now apply nodup_keysb|].
    clear H1. induction IH as [|[k v] r Hv Hr IHr]; [constructor|].
    apply andb_true_iff in H2 as [H2 H3]. constructor; [now apply Hv|now apply IHr].
  - apply wf_lst. cbn [wfb] in H. induction IH as [|v r Hv Hr IHr]; [constructor|].
    apply andb_true_iff in H as [H2 H3]. constructor; [now apply Hv|now apply IHr].
Qed.

Lemma to_json_example :
  let t := Dict true
    [([107; 34; 92; 10], Leaf (SStr [34; 92; 10; 1; 233; 8364; 128512]));
     ([114], Lst true [Dict true [([120], Leaf (SInt 1))]; Dict false [([121], Leaf (SStr [50]))]; Dict true []]);
     ([101], Lst false [Lst false []; Dict false []]);
     ([110], Lst false [Leaf SNone; Leaf (SBool true); Leaf (SFlt (-3)); Leaf (SInt (-123456789012345678901234567890))])]%N in
  wf t /\ no_bytes t = true /\
  to_json {| o_indent := 0; o_pairs := true; o_compress := true; o_skip := true |} t =
    [123;34;107;92;34;92;92;92;110;34;58;34;92;34;92;92;92;110;92;117;48;48;48;49;233;8364;128512;34;44;
     34;114;34;58;91;123;34;120;34;58;49;125;44;123;34;121;34;58;34;50;34;125;93;44;
     34;110;34;58;91;110;117;108;108;44;116;114;117;101;44;45;49;46;53;44;
     45;49;50;51;52;53;54;55;56;57;48;49;50;51;52;53;54;55;56;57;48;49;50;51;52;53;54;55;56;57;48;93;125]%N.
Proof.
  intros t. split; [apply wfb_wf; vm_compute; reflexivity|]. split; vm_compute; reflexivity.
Qed.
