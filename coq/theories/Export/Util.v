(* Export/Util.v — helpers of the export models (C11, C12) that Base lacks:
   decimal rendering of integers and of half-integral floats (str(int),
   repr(float) for k/2), the value of a decimal literal (spec side), and a few
   list lemmas. *)
From Coq Require Import List NArith ZArith Bool Lia.
From N0 Require Import Base.PyStr Base.PyVal.
Import ListNotations.
Local Open Scope N_scope.

(* ---- decimal literals: the spec side ------------------------------------------ *)
Definition is_dig (c : N) : bool := (48 <=? c) && (c <=? 57).

Fixpoint digits_val (ds : pstr) (acc : N) : N :=
  match ds with
  | [] => acc
  | d :: r => digits_val r (acc * 10 + (d - 48))
  end.

(* a JSON "int" part: non-empty run of digits, no leading zero unless it is "0" *)
Definition nat_lit (ds : pstr) (n : N) : Prop :=
  ds <> [] /\ forallb is_dig ds = true /\ (hd 0 ds = 48 -> ds = [48]) /\ digits_val ds 0 = n.

Lemma digits_val_app a b acc : digits_val (a ++ b) acc = digits_val b (digits_val a acc).
Proof. revert acc; induction a as [|d a IH]; intros acc; simpl; auto. Qed.

(* ---- str(int) ------------------------------------------------------------------ *)
Fixpoint dec_aux (fuel : nat) (n : N) (acc : pstr) : pstr :=
  match fuel with
  | O => acc
  | S f =>
    let acc' := (48 + n mod 10) :: acc in
    if n <? 10 then acc' else dec_aux f (n / 10) acc'
  end.
Definition dec_N (n : N) : pstr := dec_aux (S (N.to_nat (N.log2 n))) n [].
Definition dec_Z (z : Z) : pstr :=
  if (z <? 0)%Z then 45 :: dec_N (Z.abs_N z) else dec_N (Z.abs_N z).

(* repr(float) of h/2 for |h| < 2^53 (below 1e16 Python prints positional
   notation): "d.0" or "d.5" *)
Definition dec_half (h : Z) : pstr :=
  let a := Z.abs_N h in
  (if (h <? 0)%Z then [45] else []) ++ dec_N (a / 2) ++ [46; if N.odd a then 53 else 48].

Lemma dec_aux_spec fuel : forall n acc, n < 2 ^ N.of_nat fuel -> (0 < fuel)%nat ->
  exists ds, dec_aux fuel n acc = ds ++ acc /\ nat_lit ds n.
Proof.
  induction fuel as [|f IH]; intros n acc Hn Hf.
  - lia.
  - cbn [dec_aux]. destruct (n <? 10) eqn:E.
    + apply N.ltb_lt in E. exists [48 + n mod 10]. split; [reflexivity|].
      rewrite N.mod_small by lia. repeat split.
      * discriminate.
      * cbn [forallb]. unfold is_dig. rewrite andb_true_r. apply andb_true_iff. split; apply N.leb_le; lia.
      * cbn [hd]. intros H. assert (n = 0) by lia. subst. reflexivity.
      * cbn [digits_val]. lia.
    + apply N.ltb_ge in E.
      assert (Hd : n / 10 < 2 ^ N.of_nat f).
      { rewrite Nnat.Nat2N.inj_succ, N.pow_succ_r' in Hn.
        apply N.div_lt_upper_bound; lia. }
      assert (Hf' : (0 < f)%nat).
      { destruct f; [|lia]. simpl in Hd. assert (n / 10 = 0) by lia.
        apply N.div_small_iff in H; lia. }
      destruct (IH (n / 10) ((48 + n mod 10) :: acc) Hd Hf') as [ds [Hds [Hne [Hdig [Hz Hv]]]]].
      exists (ds ++ [48 + n mod 10]). split.
      { rewrite Hds, <- app_assoc. reflexivity. }
      assert (Hm : n mod 10 < 10) by (apply N.mod_lt; lia).
      assert (Hdm : n = 10 * (n / 10) + n mod 10) by (apply N.div_mod; lia).
      clear Hds Hd Hn IH. set (m := n mod 10) in *. set (q := n / 10) in *. clearbody m q.
      repeat split.
      * destruct ds; discriminate.
      * rewrite forallb_app, Hdig. cbn [forallb andb]. unfold is_dig. rewrite andb_true_r.
        apply andb_true_iff. split; apply N.leb_le; lia.
      * intros H. destruct ds as [|d ds]; [congruence|]. cbn [app hd] in H.
        specialize (Hz H). rewrite Hz in Hv. cbn [digits_val] in Hv. lia.
      * rewrite digits_val_app, Hv. cbn [digits_val]. lia.
Qed.

Lemma dec_N_spec n : nat_lit (dec_N n) n.
Proof.
  unfold dec_N.
  assert (Hn : n < 2 ^ N.of_nat (S (N.to_nat (N.log2 n)))).
  { rewrite Nnat.Nat2N.inj_succ, Nnat.N2Nat.id.
    destruct (N.eq_dec n 0) as [->|Hz]; [simpl; lia|].
    apply N.log2_spec. lia. }
  destruct (dec_aux_spec _ n [] Hn ltac:(lia)) as [ds [H Hl]].
  rewrite H, app_nil_r. exact Hl.
Qed.

Lemma dec_N_nonempty n : dec_N n <> [].
Proof. destruct (dec_N_spec n) as [H _]. exact H. Qed.

(* ---- list helpers --------------------------------------------------------------- *)
Definition is_nil {A} (l : list A) : bool := match l with [] => true | _ => false end.

Lemma is_nil_true {A} (l : list A) : is_nil l = true <-> l = [].
Proof. destruct l; simpl; split; congruence. Qed.
Lemma is_nil_false {A} (l : list A) : is_nil l = false <-> l <> [].
Proof. destruct l; simpl; split; congruence. Qed.

Fixpoint filter_map {A B} (f : A -> option B) (l : list A) : list B :=
  match l with
  | [] => []
  | x :: r => match f x with Some y => y :: filter_map f r | None => filter_map f r end
  end.

Lemma Forall_repeat {A} (P : A -> Prop) x n : P x -> Forall P (repeat x n).
Proof. intros H. induction n; simpl; constructor; auto. Qed.

(* ---- str.strip() with Python's full whitespace set (str.isspace code points) ----------- *)
Definition py_ws_all : list N :=
  [9; 10; 11; 12; 13; 28; 29; 30; 31; 32; 133; 160; 5760; 8192; 8193; 8194; 8195; 8196; 8197; 8198;
   8199; 8200; 8201; 8202; 8232; 8233; 8239; 8287; 12288].
Definition lstrip_all (s : pstr) : pstr := lstrip_set py_ws_all s.
Definition rstrip_all (s : pstr) : pstr := rstrip_set py_ws_all s.
Definition strip_all (s : pstr) : pstr := strip_set py_ws_all s.
