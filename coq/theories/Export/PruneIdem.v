(* Export/PruneIdem.v — dropping empty containers is idempotent: a second
   skip_empty_arrays pass over what the first one left changes nothing. *)
From Coq Require Import List NArith ZArith Bool.
From N0 Require Import Base.PyStr Base.PyVal Export.Util Export.Json Export.JsonGrammar Export.JsonProofs.
Import ListNotations.

Theorem prune_idempotent t t' : prune t = Some t' -> prune t' = Some t'.
Proof. intros H. apply prune_id. exact (prune_no_empty t t' H). Qed.

Theorem prune_root_idempotent t : prune_root (prune_root t) = prune_root t.
Proof.
  destruct (prune t) as [t'|] eqn:E.
  - assert (R : prune_root t = t') by (unfold prune_root; now rewrite E). rewrite R.
    unfold prune_root. now rewrite (prune_idempotent t t' E).
  - destruct t as [s|c kvs|c xs].
    + discriminate E.
    + assert (R : prune_root (Dict c kvs) = Dict c []) by (unfold prune_root; now rewrite E). rewrite R. reflexivity.
    + assert (R : prune_root (Lst c xs) = Lst c []) by (unfold prune_root; now rewrite E). rewrite R. reflexivity.
Qed.

Corollary exported_skip_idempotent t : exported true (prune_root t) = exported true t.
Proof. unfold exported. now rewrite prune_root_idempotent. Qed.
