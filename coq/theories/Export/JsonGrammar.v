(* Export/JsonGrammar.v — Spec: what it means that a text is JSON (RFC 8259) and
   that a standard parser decodes it to a given value.  Relational: no parser is
   written.  [json_denotes s t] reads "s is a JSON text ( ws value ws ) and its
   value is t", with values in the shared tree type:

     null / true / false        Leaf SNone / Leaf (SBool b)
     number without frac/exp    Leaf (SInt z)                (Python: int)
     number d.0 / d.5           Leaf (SFlt h), value h/2     (Python: float; the
                                shared value type only has halves, so only the
                                literals that denote one are covered)
     string                     Leaf (SStr code points), the escapes of RFC 8259 section 7
                                (quote, backslash, slash, b f n r t, uXXXX and
                                surrogate pairs) decoded
     array                      Lst false values, in order
     object                     Dict false members; names distinct; an object is an
                                unordered collection (RFC 8259 section 4), so any
                                permutation of the members is a value of the text

   The relation under-approximates JSON only in the number forms (no exponent,
   fractions other than .0 / .5): whatever it accepts is JSON with that value. *)
From Coq Require Import List NArith ZArith Bool Lia Permutation.
From N0 Require Import Base.PyStr Base.PyVal Export.Util.
Import ListNotations.
Local Open Scope N_scope.

(* insignificant whitespace: space, tab, line feed, carriage return *)
Definition is_ws (c : N) : bool := (c =? 32) || (c =? 9) || (c =? 10) || (c =? 13).
Definition ws (s : pstr) : Prop := forallb is_ws s = true.

(* ---- strings -------------------------------------------------------------------- *)
Definition simple_escape (e : N) : option N :=
  if e =? 34 then Some 34          (* quotation mark *)
  else if e =? 92 then Some 92     (* reverse solidus *)
  else if e =? 47 then Some 47     (* \/ *)
  else if e =? 98 then Some 8      (* \b *)
  else if e =? 102 then Some 12    (* \f *)
  else if e =? 110 then Some 10    (* \n *)
  else if e =? 114 then Some 13    (* \r *)
  else if e =? 116 then Some 9     (* \t *)
  else None.

Definition hex_val (c : N) : option N :=
  if (48 <=? c) && (c <=? 57) then Some (c - 48)
  else if (97 <=? c) && (c <=? 102) then Some (c - 87)
  else if (65 <=? c) && (c <=? 70) then Some (c - 55)
  else None.

Definition hex4 (a b c d : N) : option N :=
  match hex_val a, hex_val b, hex_val c, hex_val d with
  | Some x, Some y, Some z, Some w => Some (((x * 16 + y) * 16 + z) * 16 + w)
  | _, _, _, _ => None
  end.

(* [chars_denote body s]: the characters between the quotation marks denote s *)
Inductive chars_denote : pstr -> pstr -> Prop :=
| cd_nil : chars_denote [] []
| cd_plain c b s :                       (* unescaped = %x20-21 / %x23-5B / %x5D-10FFFF *)
    32 <= c -> c <> 34 -> c <> 92 -> chars_denote b s -> chars_denote (c :: b) (c :: s)
| cd_esc e c b s :
    simple_escape e = Some c -> chars_denote b s -> chars_denote (92 :: e :: b) (c :: s)
| cd_u h1 h2 h3 h4 c b s :
    hex4 h1 h2 h3 h4 = Some c -> (c < 55296 \/ 57343 < c) ->
    chars_denote b s -> chars_denote (92 :: 117 :: h1 :: h2 :: h3 :: h4 :: b) (c :: s)
| cd_pair h1 h2 h3 h4 l1 l2 l3 l4 hi lo b s :
    hex4 h1 h2 h3 h4 = Some hi -> 55296 <= hi <= 56319 ->
    hex4 l1 l2 l3 l4 = Some lo -> 56320 <= lo <= 57343 ->
    chars_denote b s ->
    chars_denote (92 :: 117 :: h1 :: h2 :: h3 :: h4 :: 92 :: 117 :: l1 :: l2 :: l3 :: l4 :: b)
                 (65536 + (hi - 55296) * 1024 + (lo - 56320) :: s).

(* ---- numbers ---------------------------------------------------------------------- *)
(* int = zero / ( digit1-9 *DIGIT ), optional minus: nat_lit of Export/Util *)
Inductive int_lit : pstr -> Z -> Prop :=
| il_pos ds n : nat_lit ds n -> int_lit ds (Z.of_N n)
| il_neg ds n : nat_lit ds n -> int_lit (45 :: ds) (- Z.of_N n).

(* [ minus ] int "." ( "0" / "5" ): the value is h/2 *)
Inductive half_lit : pstr -> Z -> Prop :=
| hl_pos ds n f : nat_lit ds n -> (f = 48 \/ f = 53) ->
    half_lit (ds ++ [46; f]) (Z.of_N (2 * n + (if f =? 53 then 1 else 0)))
| hl_neg ds n f : nat_lit ds n -> (f = 48 \/ f = 53) ->
    half_lit (45 :: ds ++ [46; f]) (- Z.of_N (2 * n + (if f =? 53 then 1 else 0))).

(* ---- values ------------------------------------------------------------------------- *)
Inductive json_denotes : pstr -> tree -> Prop :=      (* ws value ws *)
| jd_pad w1 s w2 t : ws w1 -> ws w2 -> json_value s t -> json_denotes (w1 ++ s ++ w2) t

with json_value : pstr -> tree -> Prop :=
| jv_null : json_value [110; 117; 108; 108] (Leaf SNone)
| jv_true : json_value [116; 114; 117; 101] (Leaf (SBool true))
| jv_false : json_value [102; 97; 108; 115; 101] (Leaf (SBool false))
| jv_int s z : int_lit s z -> json_value s (Leaf (SInt z))
| jv_half s h : half_lit s h -> json_value s (Leaf (SFlt h))
| jv_str b s : chars_denote b s -> json_value (34 :: b ++ [34]) (Leaf (SStr s))
| jv_arr_empty w : ws w -> json_value (91 :: w ++ [93]) (Lst false [])
| jv_arr body xs : json_elems body xs -> json_value (91 :: body ++ [93]) (Lst false xs)
| jv_obj_empty w : ws w -> json_value (123 :: w ++ [125]) (Dict false [])
| jv_obj body kvs kvs' :
    json_members body kvs -> NoDup (map fst kvs) -> Permutation kvs kvs' ->
    json_value (123 :: body ++ [125]) (Dict false kvs')

with json_elems : pstr -> list tree -> Prop :=        (* value *( "," value ), non-empty *)
| je_one s x : json_denotes s x -> json_elems s [x]
| je_snoc body xs s x : json_elems body xs -> json_denotes s x -> json_elems (body ++ 44 :: s) (xs ++ [x])

with json_members : pstr -> list (pstr * tree) -> Prop :=   (* member *( "," member ), non-empty *)
| jm_one m k v : json_member m k v -> json_members m [(k, v)]
| jm_snoc body kvs m k v :
    json_members body kvs -> json_member m k v -> json_members (body ++ 44 :: m) (kvs ++ [(k, v)])

with json_member : pstr -> pstr -> tree -> Prop :=    (* ws string ws ":" ws value ws *)
| jm_intro w1 kb k w2 s v :
    ws w1 -> ws w2 -> chars_denote kb k -> json_denotes s v ->
    json_member (w1 ++ 34 :: kb ++ 34 :: w2 ++ 58 :: s) k v.

(* ---- what the value of an exported tree is ---------------------------------------- *)
(* JSON knows nothing about n0dict/n0list: class tags are erased *)
Fixpoint erase (t : tree) : tree :=
  match t with
  | Leaf s => Leaf s
  | Dict _ kvs => Dict false ((fix go (l : list (pstr * tree)) := match l with [] => [] | (k, v) :: r => (k, erase v) :: go r end) kvs)
  | Lst _ xs => Lst false ((fix go (l : list tree) := match l with [] => [] | v :: r => erase v :: go r end) xs)
  end.

(* skip_empty_arrays drops empty containers: a container all of whose content is
   dropped is empty and dropped as well; None = dropped *)
Fixpoint prune (t : tree) : option tree :=
  match t with
  | Leaf s => Some (Leaf s)
  | Dict c kvs =>
    match (fix go (l : list (pstr * tree)) : list (pstr * tree) :=
             match l with
             | [] => []
             | (k, v) :: r => match prune v with Some v' => (k, v') :: go r | None => go r end
             end) kvs with
    | [] => None
    | kvs' => Some (Dict c kvs')
    end
  | Lst c xs =>
    match (fix go (l : list tree) : list tree :=
             match l with
             | [] => []
             | v :: r => match prune v with Some v' => v' :: go r | None => go r end
             end) xs with
    | [] => None
    | xs' => Some (Lst c xs')
    end
  end.

(* the root cannot be dropped: it stays, empty *)
Definition prune_root (t : tree) : tree :=
  match prune t with
  | Some t' => t'
  | None => match t with Dict c _ => Dict c [] | Lst c _ => Lst c [] | Leaf s => Leaf s end
  end.

(* the value to_json is stated to export *)
Definition exported (skip : bool) (t : tree) : tree := erase (if skip then prune_root t else t).
