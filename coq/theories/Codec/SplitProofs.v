(* Codec/SplitProofs.v — proofs about split_with_escape / deserialize_* (C17). *)
From Coq Require Import List NArith ZArith Bool Lia.
From N0 Require Import Base.PyStr Base.PyVal Codec.Util Codec.Split.
Import ListNotations.

(* ---- the characters of the pieces of a split come from the text -------------------- *)
Lemma split_chr_aux_chars d s : forall cur,
  Forall (fun it => forall c, In c it -> In c s \/ In c cur) (split_chr_aux d s cur).
Proof.
  induction s as [|x s IH]; intros cur; cbn [split_chr_aux].
  - constructor; [|constructor]. intros c Hc. right. now apply in_rev.
  - destruct (N.eqb x d).
    + constructor.
      * intros c Hc. right. now apply in_rev.
      * eapply Forall_impl; [|apply IH]. cbn beta. intros it H c Hc.
        destruct (H c Hc) as [H1|[]]. left. now right.
    + eapply Forall_impl; [|apply IH]. cbn beta. intros it H c Hc.
      destruct (H c Hc) as [H1|[H1|H1]]; [left; now right|left; left; congruence|now right].
Qed.

Lemma split_chr_max_aux_chars d s : forall cur m,
  Forall (fun it => forall c, In c it -> In c s \/ In c cur) (split_chr_max_aux d s cur m).
Proof.
  induction s as [|x s IH]; intros cur m; destruct m as [|m]; cbn [split_chr_max_aux].
  - constructor; [|constructor]. intros c Hc. apply in_app_or in Hc. destruct Hc as [Hc|[]]. right. now apply in_rev.
  - constructor; [|constructor]. intros c Hc. right. now apply in_rev.
  - constructor; [|constructor]. intros c Hc. apply in_app_or in Hc. destruct Hc as [Hc|Hc]; [right; now apply in_rev|now left].
  - destruct (N.eqb x d).
    + constructor.
      * intros c Hc. right. now apply in_rev.
      * eapply Forall_impl; [|apply IH]. cbn beta. intros it H c Hc.
        destruct (H c Hc) as [H1|[]]. left. now right.
    + eapply Forall_impl; [|apply IH]. cbn beta. intros it H c Hc.
      destruct (H c Hc) as [H1|[H1|H1]]; [left; now right|left; left; congruence|now right].
Qed.

Lemma py_split_chars d s m : Forall (fun it => forall c, In c it -> In c s) (py_split d s m).
Proof.
  assert (A : Forall (fun it => forall c, In c it -> In c s) (split_chr d s)).
  { eapply Forall_impl; [|apply (split_chr_aux_chars d s [])]. cbn beta. intros it H c Hc. destruct (H c Hc) as [|[]]; assumption. }
  unfold py_split. destruct m as [[|n]|]; try exact A.
  unfold split_chr_max. eapply Forall_impl; [|apply (split_chr_max_aux_chars d s [] (S n))].
  cbn beta. intros it H c Hc. destruct (H c Hc) as [|[]]; assumption.
Qed.

Lemma split_chr_aux_nonempty d s cur : split_chr_aux d s cur <> [].
Proof. revert cur; induction s as [|x s IH]; intros cur; cbn [split_chr_aux]; [discriminate|]. destruct (N.eqb x d); [discriminate|apply IH]. Qed.

Lemma split_chr_max_aux_nonempty d s cur m : split_chr_max_aux d s cur m <> [].
Proof.
  revert cur m; induction s as [|x s IH]; intros cur m; destruct m; cbn [split_chr_max_aux]; try discriminate.
  destruct (N.eqb x d); [discriminate|apply IH].
Qed.

Lemma py_split_nonempty d s m : py_split d s m <> [].
Proof.
  unfold py_split. destruct m as [[|n]|]; try apply split_chr_aux_nonempty.
  apply split_chr_max_aux_nonempty.
Qed.

(* ---- trailing escape runs -------------------------------------------------------------- *)
Lemma lead_notin e s : ~ In e s -> lead e s = 0.
Proof.
  destruct s as [|c r]; [reflexivity|]. intros H. cbn [lead].
  destruct (N.eqb_spec c e); [subst; exfalso; apply H; now left|reflexivity].
Qed.

Lemma trail_notin e s : ~ In e s -> trail e s = 0.
Proof. intros H. apply lead_notin. intros Hi. apply H. now apply in_rev. Qed.

Lemma trim_item_0 s : trim_item s 0 = s.
Proof. reflexivity. Qed.

Lemma esc_go_no_runs d e trim : forall rest cur,
  Forall (fun it => trail e it = 0) (cur :: rest) -> esc_go d e trim cur rest = cur :: rest.
Proof.
  induction rest as [|next rest IH]; intros cur HF; inversion HF as [|? ? Hc Hr]; subst; cbn [esc_go].
  - unfold finish_last. rewrite Hc. now destruct trim.
  - rewrite Hc. cbn [Nat.odd Nat.even negb]. rewrite IH by assumption. now destruct trim.
Qed.

(* ---- [core] without the escape character in the text: a plain split ----------------------- *)
Theorem split_no_escape s d m e trim :
  ~ In e s -> split_esc s d m (Some e) trim = py_split d s m.
Proof.
  intros Hn. unfold split_esc. pose proof (py_split_chars d s m) as HC.
  destruct (py_split d s m) as [|cur rest]; [reflexivity|].
  apply esc_go_no_runs. eapply Forall_impl; [|exact HC]. cbn beta.
  intros it H. apply trail_notin. intros Hi. apply Hn. now apply H.
Qed.

Theorem split_none s d m trim : split_esc s d m None trim = py_split d s m.
Proof. reflexivity. Qed.

(* the result is never empty (like str.split) *)
Lemma esc_go_nonempty d e trim rest : forall cur, esc_go d e trim cur rest <> [].
Proof.
  induction rest as [|n r IH]; intros cur; cbn [esc_go]; [discriminate|].
  destruct (Nat.odd _); [apply IH|discriminate].
Qed.

Theorem split_esc_nonempty s d m esc trim : split_esc s d m esc trim <> [].
Proof.
  unfold split_esc. pose proof (py_split_nonempty d s m).
  destruct esc; [|assumption]. destruct (py_split d s m); [congruence|apply esc_go_nonempty].
Qed.

(* ---- [core] join then split ------------------------------------------------------------------ *)
Theorem join_split items d e trim :
  items <> [] -> Forall (fun it => ~ In d it) items -> Forall (fun it => ~ In e it) items ->
  split_esc (join [d] items) d None (Some e) trim = items.
Proof.
  intros Hne Hd He. unfold split_esc, py_split. rewrite split_chr_join by assumption.
  destruct items as [|cur rest]; [congruence|].
  apply esc_go_no_runs. eapply Forall_impl; [|exact He]. cbn beta. intros it H. now apply trail_notin.
Qed.

Theorem join_split_noesc items d trim :
  items <> [] -> Forall (fun it => ~ In d it) items ->
  split_esc (join [d] items) d None None trim = items.
Proof. intros Hne Hd. unfold split_esc, py_split. now apply split_chr_join. Qed.

Theorem deserialize_list_join items d e :
  items <> [] -> Forall (fun it => ~ In d it) items -> Forall (fun it => ~ In e it) items ->
  deserialize_list (join [d] items) d true (Some e) = items /\
  deserialize_list (join [d] items) d false (Some e) = filter nonempty items /\
  deserialize_list (join [d] items) d true None = items /\
  deserialize_list (join [d] items) d false None = filter nonempty items.
Proof.
  intros Hne Hd He. unfold deserialize_list.
  rewrite join_split by assumption. rewrite join_split_noesc by assumption. auto.
Qed.

Example join_split_example :
  let items := [[97; 98]; []; [61; 32]; [99]]%N in
  items <> [] /\ Forall (fun it => ~ In 59%N it) items /\ Forall (fun it => ~ In 92%N it) items /\
  split_esc (join [59%N] items) 59 None (Some 92%N) true = items /\
  split_esc [97; 92; 59; 98; 59; 99; 92; 92; 59; 100; 92; 92]%N 59 None (Some 92%N) true
    = [[97; 59; 98]; [99; 92]; [100; 92]]%N.
Proof.
  repeat split; try discriminate; try (vm_compute; reflexivity);
    repeat constructor; intros H; vm_compute in H; intuition discriminate.
Qed.

(* ---- [ext] independence from neighbouring items ------------------------------------------------
   A delimiter preceded by an even run of escape characters (zero included)
   cuts: what is left of it and what is right of it are split independently. *)
Lemma split_chr_aux_cut d b : forall a cur,
  split_chr_aux d (a ++ d :: b) cur = split_chr_aux d a cur ++ split_chr_aux d b [].
Proof.
  induction a as [|c a IH]; intros cur; cbn [app split_chr_aux].
  - now rewrite N.eqb_refl.
  - destruct (N.eqb c d); [now rewrite IH|apply IH].
Qed.

Lemma lead_app_stop e d : d <> e -> forall p q, lead e (p ++ d :: q) = lead e p.
Proof.
  intros Hne. induction p as [|c p IH]; intros q; cbn [app lead].
  - apply N.eqb_neq in Hne. now rewrite Hne.
  - destruct (N.eqb c e); [now rewrite IH|reflexivity].
Qed.

Lemma trail_app_stop e d x n : d <> e -> trail e (x ++ d :: n) = trail e n.
Proof.
  intros Hne. unfold trail. rewrite rev_app_distr. cbn [rev]. rewrite <- app_assoc. cbn [app].
  now apply lead_app_stop.
Qed.

Lemma last_cons_ne {A} (x : A) l dflt : l <> [] -> last (x :: l) dflt = last l dflt.
Proof. destruct l; [congruence|reflexivity]. Qed.

Lemma last_any_default {A} (l : list A) a b : l <> [] -> last l a = last l b.
Proof. induction l as [|x [|y r] IH]; intros H; [congruence|reflexivity|]. apply IH. discriminate. Qed.

Lemma last_shift {A} (n : A) l cur : last (n :: l) cur = last l n.
Proof. revert n; induction l as [|x r IH]; intros n; [reflexivity|]. cbn [last] in *. destruct r; [reflexivity|]. apply IH. Qed.

(* the trailing escape run of the text is the trailing run of its last item *)
Lemma trail_last_item d e : d <> e -> forall s cur,
  trail e (last (split_chr_aux d s cur) []) = trail e (rev cur ++ s).
Proof.
  intros Hne. induction s as [|c s IH]; intros cur; cbn [split_chr_aux].
  - cbn [last]. now rewrite app_nil_r.
  - destruct (N.eqb_spec c d) as [->|Hc].
    + rewrite last_cons_ne by apply split_chr_aux_nonempty. rewrite IH. cbn [rev app].
      now rewrite trail_app_stop.
    + rewrite IH. cbn [rev]. now rewrite <- app_assoc.
Qed.

Lemma esc_go_app d e trim x r2 : d <> e -> forall r1 cur,
  Nat.even (trail e (last r1 cur)) = true ->
  esc_go d e trim cur (r1 ++ x :: r2) = esc_go d e trim cur r1 ++ esc_go d e trim x r2.
Proof.
  intros Hne. induction r1 as [|n r1 IH]; intros cur Hev.
  - cbn [last] in Hev. cbn [app esc_go]. unfold Nat.odd. rewrite Hev. cbn [negb]. reflexivity.
  - rewrite last_shift in Hev. cbn [app esc_go]. destruct (Nat.odd (trail e cur)).
    + apply IH. destruct r1 as [|m r1'].
      * cbn [last] in *. now rewrite trail_app_stop.
      * rewrite (last_any_default (m :: r1') _ n) by discriminate. exact Hev.
    + cbn [app]. f_equal. apply IH. exact Hev.
Qed.

Theorem split_esc_app a b d e trim : d <> e -> Nat.even (trail e a) = true ->
  split_esc (a ++ d :: b) d None (Some e) trim =
  split_esc a d None (Some e) trim ++ split_esc b d None (Some e) trim.
Proof.
  intros Hne Hev. unfold split_esc, py_split, split_chr. rewrite split_chr_aux_cut.
  pose proof (trail_last_item d e Hne a []) as HT. cbn [rev app] in HT.
  destruct (split_chr_aux d a []) as [|c1 r1] eqn:E1; [exfalso; revert E1; apply split_chr_aux_nonempty|].
  destruct (split_chr_aux d b []) as [|c2 r2] eqn:E2; [exfalso; revert E2; apply split_chr_aux_nonempty|].
  cbn [app]. apply esc_go_app; [assumption|].
  rewrite <- (last_shift c1 r1 []). rewrite HT. exact Hev.
Qed.

Lemma split_chr_aux_nodelim d a cur : ~ In d a -> split_chr_aux d a cur = [rev cur ++ a].
Proof. intros H. pose proof (split_chr_aux_app d a [] cur H) as E. now rewrite app_nil_r in E. Qed.

(* an escaped delimiter (odd run) never cuts: the number of items is one more than
   the number of cutting delimiters - stated for the simplest case, a text whose
   only delimiter is escaped *)
Theorem escaped_delimiter_stays a b d e trim : d <> e ->
  ~ In d a -> ~ In d b -> Nat.odd (trail e a) = true ->
  split_esc (a ++ d :: b) d None (Some e) trim = [finish_last e trim (removelast a ++ d :: b)].
Proof.
  intros Hne Ha Hb Hodd. unfold split_esc, py_split, split_chr. rewrite split_chr_aux_cut.
  rewrite !split_chr_aux_nodelim by assumption.
  cbn [rev app esc_go]. rewrite Hodd. reflexivity.
Qed.

(* str.split(d, n) returns at most n+1 items: the recursive branch of
   split_with_escape guarded by maxsplit+1 < len(separated_items) - evaluated
   after a pop - is dead *)
Lemma split_chr_max_aux_length d : forall s cur m, length (split_chr_max_aux d s cur m) <= S m.
Proof.
  induction s as [|c s IH]; intros cur m; destruct m as [|m]; cbn [split_chr_max_aux length]; try lia.
  destruct (N.eqb c d); cbn [length].
  - specialize (IH [] m). lia.
  - apply IH.
Qed.

Theorem py_split_max_length d s n : length (py_split d s (Some (S n))) <= S (S n).
Proof. unfold py_split, split_chr_max. apply split_chr_max_aux_length. Qed.
