(* Codec/SerializeProofs.v — proofs about serialize_dict / deserialize_dict / unescape (C17). *)
From Coq Require Import List NArith ZArith Bool Lia.
From N0 Require Import Base.PyStr Base.PyVal Codec.Util Codec.Split Codec.SplitProofs Codec.Serialize.
Import ListNotations.

(* ---- key=value ----------------------------------------------------------------------- *)
Lemma split1_noeq eq : forall k cur, ~ In eq k -> split_chr_max_aux eq k cur 1 = [rev cur ++ k].
Proof.
  induction k as [|c k IH]; intros cur Hn; cbn [split_chr_max_aux].
  - now rewrite app_nil_r.
  - destruct (N.eqb_spec c eq) as [->|Hne]; [exfalso; apply Hn; now left|].
    rewrite IH by (intros H; apply Hn; now right). cbn [rev]. now rewrite <- app_assoc.
Qed.

Lemma split1_eq eq v : forall k cur, ~ In eq k ->
  split_chr_max_aux eq (k ++ eq :: v) cur 1 = [rev cur ++ k; v].
Proof.
  induction k as [|c k IH]; intros cur Hn; cbn [app split_chr_max_aux].
  - rewrite N.eqb_refl. rewrite app_nil_r. destruct v; reflexivity.
  - destruct (N.eqb_spec c eq) as [->|Hne]; [exfalso; apply Hn; now left|].
    rewrite IH by (intros H; apply Hn; now right). cbn [rev]. now rewrite <- app_assoc.
Qed.

(* a key without the equal tag gets the default value (or is the value of the default key) *)
Theorem key_without_eq item eq dk dv : ~ In eq item ->
  deserialize_key_value item eq dk dv =
  match dk with Some k => (k, t_str item) | None => (item, dv) end.
Proof.
  intros Hn. unfold deserialize_key_value, split_chr_max. now rewrite split1_noeq.
Qed.

(* key=value splits at the first equal tag *)
Theorem key_with_eq k v eq dk dv : ~ In eq k ->
  deserialize_key_value (k ++ eq :: v) eq dk dv = (k, t_str v).
Proof.
  intros Hn. unfold deserialize_key_value, split_chr_max. now rewrite split1_eq.
Qed.

(* ---- hex escapes ------------------------------------------------------------------------ *)
Lemma hexval_hexdig n : (n < 16)%N -> hexval (hexdig n) = Some n.
Proof.
  intros H.
  assert (C : (n = 0 \/ n = 1 \/ n = 2 \/ n = 3 \/ n = 4 \/ n = 5 \/ n = 6 \/ n = 7 \/ n = 8 \/ n = 9 \/
              n = 10 \/ n = 11 \/ n = 12 \/ n = 13 \/ n = 14 \/ n = 15)%N) by lia.
  repeat (destruct C as [->|C]; [reflexivity|]). subst. reflexivity.
Qed.

Lemma hex2_spec c : (c < 256)%N -> hex2 c = [hexdig (c / 16); hexdig (c mod 16)].
Proof.
  intros H. unfold hex2. destruct (N.ltb_spec c 16) as [Hlt|Hge].
  - rewrite N.div_small, N.mod_small by assumption. reflexivity.
  - cbn [hex_aux]. destruct (N.ltb_spec c 16); [lia|].
    assert (Hq : (c / 16 < 16)%N) by (apply N.div_lt_upper_bound; lia).
    destruct (N.ltb_spec (c / 16) 16); [reflexivity|lia].
Qed.

Lemma unesc_hex_escape c rest : (c < 256)%N -> unesc (hex_escape c ++ rest) = do t <- unesc rest;; Ok (c :: t).
Proof.
  intros H. unfold hex_escape. rewrite hex2_spec by assumption.
  cbn [app unesc]. change (N.eqb BSL BSL) with true. cbn [negb simple_escape].
  change (simple_escape 120) with (@None N). change (N.eqb 120 10) with false. change (N.eqb 120 120) with true.
  cbv iota.
  assert (Hq : (c / 16 < 16)%N) by (apply N.div_lt_upper_bound; lia).
  assert (Hr : (c mod 16 < 16)%N) by (apply N.mod_upper_bound; lia).
  rewrite !hexval_hexdig by assumption.
  pose proof (N.div_mod c 16 ltac:(lia)) as E.
  replace (16 * (c / 16) + c mod 16)%N with c by (generalize dependent (c / 16)%N; generalize dependent (c mod 16)%N; intros; lia).
  reflexivity.
Qed.

Lemma dangerous_bsl d eq : dangerous d eq BSL = true.
Proof. reflexivity. Qed.

Lemma unesc_protect d eq : forall v, Forall (fun c => (c < 256)%N) v -> unesc (protect d eq v) = Ok v.
Proof.
  induction v as [|c v IH]; intros HF; [reflexivity|].
  inversion HF as [|? ? Hc Hv]; subst. cbn [protect flat_map]. fold (protect d eq v).
  destruct (dangerous d eq c) eqn:Ed.
  - rewrite unesc_hex_escape by assumption. rewrite IH by assumption. reflexivity.
  - cbn [app unesc]. destruct (N.eqb_spec c BSL) as [->|Hne]; [rewrite dangerous_bsl in Ed; discriminate|].
    cbn [negb]. rewrite IH by assumption. reflexivity.
Qed.

(* characters of the protected text: never a reserved character other than the
   backslash of an escape, provided the separators are not themselves escape letters *)
Definition escape_letters : pstr := [120; 48; 49; 50; 51; 52; 53; 54; 55; 56; 57; 97; 98; 99; 100; 101; 102]%N.
Definition safe_sep (c : N) : Prop := c <> BSL /\ ~ In c escape_letters.

Lemma hexdig_letter n : (n < 16)%N -> In (hexdig n) escape_letters.
Proof.
  intros H.
  assert (C : (n = 0 \/ n = 1 \/ n = 2 \/ n = 3 \/ n = 4 \/ n = 5 \/ n = 6 \/ n = 7 \/ n = 8 \/ n = 9 \/
              n = 10 \/ n = 11 \/ n = 12 \/ n = 13 \/ n = 14 \/ n = 15)%N) by lia.
  repeat (destruct C as [->|C]; [vm_compute; tauto|]). subst. vm_compute; tauto.
Qed.

Lemma protect_chars d eq v x : Forall (fun c => (c < 256)%N) v -> In x (protect d eq v) ->
  x = BSL \/ In x escape_letters \/ dangerous d eq x = false.
Proof.
  induction v as [|c v IH]; intros HF Hin; [destruct Hin|].
  inversion HF as [|? ? Hc Hv]; subst. cbn [protect flat_map] in Hin. fold (protect d eq v) in Hin.
  apply in_app_or in Hin. destruct Hin as [Hin|Hin]; [|now apply IH].
  destruct (dangerous d eq c) eqn:Ed.
  - unfold hex_escape in Hin. rewrite hex2_spec in Hin by assumption.
    assert (Hq : (c / 16 < 16)%N) by (apply N.div_lt_upper_bound; lia).
    assert (Hr : (c mod 16 < 16)%N) by (apply N.mod_upper_bound; lia).
    destruct Hin as [<-|[<-|[<-|[<-|[]]]]]; [now left|right; left; vm_compute; tauto| |];
      right; left; now apply hexdig_letter.
  - destruct Hin as [<-|[]]. now right; right.
Qed.

Lemma protect_no_sep d eq v x : Forall (fun c => (c < 256)%N) v -> safe_sep x -> dangerous d eq x = true ->
  ~ In x (protect d eq v).
Proof.
  intros HF [H1 H2] Hd Hin. destruct (protect_chars d eq v x HF Hin) as [E|[E|E]]; [congruence|contradiction|congruence].
Qed.

Lemma dangerous_d d eq : dangerous d eq d = true.
Proof. unfold dangerous, mem_chr. cbn [existsb]. rewrite N.eqb_refl. now rewrite !orb_true_r. Qed.
Lemma dangerous_eq d eq : dangerous d eq eq = true.
Proof. unfold dangerous, mem_chr. cbn [existsb]. rewrite N.eqb_refl. now rewrite !orb_true_r. Qed.

Lemma protect_ascii d eq v : (d < 128)%N -> (eq < 128)%N -> non_ascii v = false -> non_ascii (protect d eq v) = false.
Proof.
  intros Hd He. induction v as [|c v IH]; intros Hv; [reflexivity|].
  cbn [non_ascii existsb] in Hv. apply orb_false_iff in Hv as [Hc Hv]. fold (non_ascii v) in Hv.
  cbn [protect flat_map]. fold (protect d eq v). rewrite non_ascii_app, (IH Hv), orb_false_r.
  apply N.leb_gt in Hc.
  destruct (dangerous d eq c).
  - unfold hex_escape. rewrite hex2_spec by lia.
    assert (Hq : (c / 16 < 16)%N) by (apply N.div_lt_upper_bound; lia).
    assert (Hr : (c mod 16 < 16)%N) by (apply N.mod_upper_bound; lia).
    assert (A : forall n, (n < 16)%N -> (128 <=? hexdig n)%N = false).
    { intros n Hn. unfold hexdig. destruct (n <? 10)%N; apply N.leb_gt; lia. }
    cbn [non_ascii existsb]. rewrite !A by assumption. reflexivity.
  - cbn [non_ascii existsb]. apply N.leb_gt in Hc. now rewrite Hc.
Qed.

Lemma ascii_lt256 v : non_ascii v = false -> Forall (fun c => (c < 256)%N) v.
Proof.
  induction v as [|c v IH]; intros H; [constructor|].
  cbn [non_ascii existsb] in H. apply orb_false_iff in H as [Hc Hv]. apply N.leb_gt in Hc.
  constructor; [lia|now apply IH].
Qed.

(* ---- serialize_dict of a flat str -> str mapping --------------------------------------------- *)
Definition dcfg (d eq : N) : ser_cfg :=
  {| sc_d := d; sc_eq := eq; sc_ge := true; sc_gn := true; sc_ck := 0%Z; sc_cv := 0%Z |}.

Definition flat (m : list (pstr * pstr)) : list (pstr * tree) :=
  map (fun kv => (fst kv, Leaf (SStr (snd kv)))) m.

Definition entry (d eq : N) (kv : pstr * pstr) : pstr := fst kv ++ eq :: protect d eq (snd kv).

Definition step0 (d eq : N) (buf : pstr) (kv : pstr * pstr) : pstr :=
  (if nonempty buf then buf ++ [d] else buf) ++ entry d eq kv.

Lemma ser_flat d eq c m :
  serialize_dict (dcfg d eq) (Dict c (flat m)) = Ok (Some (fold_left (step0 d eq) m [])).
Proof.
  unfold serialize_dict. cbn [ser].
  set (go := fix go (kvs : list (pstr * tree)) (buf : pstr) {struct kvs} : res pstr := _).
  assert (G : forall m buf, go (flat m) buf = Ok (fold_left (step0 d eq) m buf)).
  { induction m0 as [|[k v] r IH]; intros buf; [reflexivity|].
    cbn [flat map fst snd]. fold (flat r). cbn [go]. fold go. cbn [ser str_of_leaf bind sc_cv sc_ck dcfg capitalize].
    unfold capitalize. cbn [Z.eqb bind sc_d sc_eq sc_ge sc_gn dcfg orb].
    rewrite IH. cbn [fold_left]. f_equal. f_equal. unfold step0, entry. cbn [fst snd].
    destruct (protect d eq v); rewrite <- ?app_assoc; reflexivity. }
  rewrite G. cbn [bind]. destruct (nonempty _); reflexivity.
Qed.

Lemma entry_nonempty d eq kv : nonempty (entry d eq kv) = true.
Proof. unfold entry. destruct (fst kv); reflexivity. Qed.

Lemma fold_step0_nonempty d eq : forall m buf, nonempty buf = true ->
  fold_left (step0 d eq) m buf = buf ++ concat (map (fun kv => d :: entry d eq kv) m).
Proof.
  induction m as [|kv r IH]; intros buf Hb; cbn [fold_left map concat]; [now rewrite app_nil_r|].
  rewrite IH.
  - unfold step0. rewrite Hb. now rewrite <- !app_assoc.
  - unfold step0. rewrite Hb. destruct buf; [discriminate|reflexivity].
Qed.

Lemma join_cons_concat d x (xs : list pstr) : join [d] (x :: xs) = x ++ concat (map (fun e => d :: e) xs).
Proof.
  revert x; induction xs as [|y r IH]; intros x; [cbn; now rewrite app_nil_r|].
  rewrite join_cons, IH. reflexivity.
Qed.

Lemma fold_step0_join d eq m : fold_left (step0 d eq) m [] = join [d] (map (entry d eq) m).
Proof.
  destruct m as [|kv r]; [reflexivity|]. cbn [fold_left map]. rewrite join_cons_concat.
  unfold step0 at 2. cbn [nonempty app].
  rewrite fold_step0_nonempty by apply entry_nonempty. now rewrite map_map.
Qed.

(* ---- dict(list of pairs) with distinct keys ------------------------------------------------------ *)
Lemma update_notin' {A} k (v : A) acc : ~ In k (map fst acc) -> update k v acc = acc ++ [(k, v)].
Proof.
  induction acc as [|[k' v'] r IH]; intros Hn; [reflexivity|]. simpl in *.
  destruct (pstr_eqb k k') eqn:E; [apply pstr_eqb_eq in E; subst; exfalso; apply Hn; now left|].
  rewrite IH; [reflexivity|]. intros Hi. apply Hn. now right.
Qed.

Lemma dict_of_pairs_nodup : forall (l acc : list (pstr * tree)),
  NoDup (map fst acc ++ map fst l) ->
  fold_left (fun a kv => update (fst kv) (snd kv) a) l acc = acc ++ l.
Proof.
  induction l as [|[k v] r IH]; intros acc Hnd; cbn [fold_left]; [now rewrite app_nil_r|].
  cbn [fst snd]. rewrite update_notin'.
  - rewrite IH; [now rewrite <- app_assoc|]. rewrite map_app. cbn [map fst]. now rewrite <- app_assoc.
  - cbn [map fst] in Hnd. apply NoDup_remove_2 in Hnd. intros Hi. apply Hnd. apply in_or_app. now left.
Qed.

(* ---- unescape of a dict of strings ----------------------------------------------------------------- *)
Lemma unescape_flat c d eq m : (d < 128)%N -> (eq < 128)%N ->
  Forall (fun kv => non_ascii (snd kv) = false) m ->
  unescape (Dict c (map (fun kv => (fst kv, t_str (protect d eq (snd kv)))) m)) = Ok (Dict c (flat m)).
Proof.
  intros Hd He HF. cbn [unescape].
  set (go := fix go (kvs : list (pstr * tree)) : res (list (pstr * tree)) := _).
  assert (G : go (map (fun kv => (fst kv, t_str (protect d eq (snd kv)))) m) = Ok (flat m)).
  { induction HF as [|[k v] r Hv Hr IH]; [reflexivity|].
    cbn [map fst snd]. cbn [go]. fold go. unfold t_str at 1. cbn [unescape].
    unfold unescape_str. cbn [snd] in Hv. rewrite protect_ascii by assumption.
    rewrite unesc_protect by (now apply ascii_lt256). cbn [bind]. rewrite IH. reflexivity. }
  rewrite G. reflexivity.
Qed.

(* ---- [core] the round trip ----------------------------------------------------------------------------- *)
Definition keys_ok (d eq : N) (m : list (pstr * pstr)) : Prop :=
  NoDup (map fst m) /\ Forall (fun kv => ~ In d (fst kv) /\ ~ In eq (fst kv)) m.

Theorem serialize_round_trip d eq c m :
  (d < 128)%N -> (eq < 128)%N -> d <> eq -> safe_sep d -> safe_sep eq ->
  keys_ok d eq m -> Forall (fun kv => non_ascii (snd kv) = false) m ->
  exists s, serialize_dict (dcfg d eq) (Dict c (flat m)) = Ok (Some s) /\
            s = join [d] (map (entry d eq) m) /\
            deserialize_dict s d false eq None t_none = map (fun kv => (fst kv, t_str (protect d eq (snd kv)))) m /\
            unescape (Dict false (deserialize_dict s d false eq None t_none)) = Ok (Dict false (flat m)).
Proof.
  intros Hd He Hne Sd Se [Hnd Hk] Hv.
  exists (join [d] (map (entry d eq) m)). rewrite ser_flat, fold_step0_join.
  assert (D : deserialize_dict (join [d] (map (entry d eq) m)) d false eq None t_none =
              map (fun kv => (fst kv, t_str (protect d eq (snd kv)))) m).
  { unfold deserialize_dict, deserialize_list. rewrite split_none. unfold py_split.
    destruct m as [|kv0 r0] eqn:Em; [reflexivity|]. rewrite <- Em in *.
    rewrite split_chr_join.
    - assert (F : filter nonempty (map (entry d eq) m) = map (entry d eq) m).
      { clear. induction m as [|kv r IH]; [reflexivity|]. cbn [map filter].
        rewrite entry_nonempty. now rewrite IH. }
      rewrite F, map_map. unfold dict_of_pairs. rewrite dict_of_pairs_nodup.
      + cbn [app]. apply map_ext_in. intros kv Hin. unfold entry.
        rewrite Forall_forall in Hk. rewrite key_with_eq by (apply Hk; assumption). reflexivity.
      + cbn [map app]. rewrite map_map.
        erewrite map_ext_in; [exact Hnd|]. intros kv Hin. unfold entry.
        rewrite Forall_forall in Hk. rewrite key_with_eq by (apply Hk; assumption). reflexivity.
    - subst m. discriminate.
    - rewrite Forall_forall. intros it Hin. apply in_map_iff in Hin. destruct Hin as [kv [<- Hkv]].
      unfold entry. intros Hi. apply in_app_or in Hi. rewrite Forall_forall in Hk, Hv.
      destruct Hi as [Hi|[Hi|Hi]].
      + destruct (Hk kv Hkv) as [H1 H2]. contradiction.
      + congruence.
      + revert Hi. apply protect_no_sep; [apply ascii_lt256; now apply Hv|assumption|apply dangerous_d]. }
  repeat split; try assumption. rewrite D. now apply unescape_flat.
Qed.

(* reserved characters are protected: the serialised value part contains no
   delimiter, no equal tag, no brace, bracket or quote *)
Theorem values_protected d eq v x : non_ascii v = false -> In x (protect d eq v) ->
  x = BSL \/ In x escape_letters \/ dangerous d eq x = false.
Proof. intros Hv. apply protect_chars. now apply ascii_lt256. Qed.

(* ---- nested containers serialise without error --------------------------------------------------------- *)
Definition leaf_ok (x : scalar) : bool := match x with SFlt _ | SBytes _ => false | _ => true end.
Definition is_none (t : tree) : bool := match t with Leaf SNone => true | _ => false end.

Fixpoint ser_okb (t : tree) : bool :=
  match t with
  | Leaf x => leaf_ok x
  | Dict _ kvs => (fix all (l : list (pstr * tree)) := match l with [] => true | (_, v) :: r => ser_okb v && all r end) kvs
  | Lst _ xs => (fix all (l : list tree) := match l with [] => true | v :: r => ser_okb v && negb (is_none v) && all r end) xs
  end.

Definition plain_case (cfg : ser_cfg) : Prop := sc_ck cfg = 0%Z /\ sc_cv cfg = 0%Z.

Lemma ser_none_only cfg level t o : ser cfg level t = Ok o -> o = None -> t = Leaf SNone.
Proof.
  intros H ->. destruct t as [x|c kvs|c xs]; cbn [ser] in H.
  - destruct x; try reflexivity; cbn [str_of_leaf bind] in H; try discriminate;
      destruct (capitalize _ _); cbn [bind] in H; discriminate.
  - match type of H with (do buf <- ?g;; _) = _ => destruct g end; cbn [bind] in H; discriminate.
  - match type of H with (do buf <- ?g;; _) = _ => destruct g end; cbn [bind] in H; discriminate.
Qed.

Theorem ser_total cfg : plain_case cfg -> forall t level, ser_okb t = true -> exists o, ser cfg level t = Ok o.
Proof.
  intros [Hck Hcv]. induction t as [x|c kvs IH|c xs IH] using tree_ind'; intros level Hok.
  - cbn [ser]. destruct x; cbn [ser_okb leaf_ok] in Hok; try discriminate; try (eexists; reflexivity);
      cbn [str_of_leaf bind]; unfold capitalize; rewrite Hcv; cbn [Z.eqb bind]; eexists; reflexivity.
  - cbn [ser].
    set (go := fix go (kvs : list (pstr * tree)) (buf : pstr) {struct kvs} : res pstr := _).
    assert (G : forall buf, exists b, go kvs buf = Ok b).
    { cbn [ser_okb] in Hok. revert Hok. induction IH as [|[k v] r Hv Hr IHr]; intros Hok buf; [eexists; reflexivity|].
      apply andb_true_iff in Hok as [Hv1 Hr1]. cbn [go]. fold go.
      cbn [snd] in Hv. destruct (Hv (S level) Hv1) as [o Eo]. rewrite Eo. cbn [bind].
      unfold capitalize. rewrite Hck. cbn [Z.eqb bind]. apply IHr. exact Hr1. }
    destruct (G []) as [b Eb]. rewrite Eb. cbn [bind]. eexists; reflexivity.
  - cbn [ser].
    set (go := fix go (xs : list tree) (buf : pstr) {struct xs} : res pstr := _).
    assert (G : forall buf, exists b, go xs buf = Ok b).
    { cbn [ser_okb] in Hok. revert Hok. induction IH as [|v r Hv Hr IHr]; intros Hok buf; [eexists; reflexivity|].
      apply andb_true_iff in Hok as [Hv1 Hr1]. apply andb_true_iff in Hv1 as [Hv1 Hn].
      cbn [go]. fold go. destruct (Hv (S level) Hv1) as [o Eo]. rewrite Eo. cbn [bind].
      destruct o as [s|].
      - apply IHr. exact Hr1.
      - pose proof (ser_none_only _ _ _ _ Eo eq_refl) as E. subst v. discriminate. }
    destruct (G []) as [b Eb]. rewrite Eb. cbn [bind]. eexists; reflexivity.
Qed.

Example serialize_example :
  let m := [([97], [120; 59; 121]); ([98], [112; 61; 113]); ([99], [123; 125; 91; 93; 34; 92]); ([100], [])]%N in
  keys_ok 59 61 m /\ Forall (fun kv => non_ascii (snd kv) = false) m /\ safe_sep 59 /\ safe_sep 61 /\
  serialize_dict (dcfg 59 61) (Dict false (flat m)) =
    Ok (Some [97;61;120;92;120;51;98;121; 59; 98;61;112;92;120;51;100;113; 59;
              99;61;92;120;55;98;92;120;55;100;92;120;53;98;92;120;53;100;92;120;50;50;92;120;53;99; 59; 100;61]%N) /\
  serialize_dict (dcfg 59 61) (Dict false [([97]%N, Dict false [([98]%N, Leaf (SStr [99]%N)); ([100]%N, Lst false [Leaf (SInt 1); Leaf (SBool true)])])])
    = Ok (Some [97;61;123;98;61;99;59;100;61;91;49;59;84;114;117;101;93;125]%N).
Proof.
  cbn zeta. repeat split; try (vm_compute; reflexivity).
  - repeat constructor; cbn; intuition discriminate.
  - repeat constructor; cbn; intuition discriminate.
  - repeat constructor.
  - discriminate.
  - vm_compute. intuition discriminate.
  - discriminate.
  - vm_compute. intuition discriminate.
Qed.
