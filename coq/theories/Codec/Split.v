(* Codec/Split.v — model of n0struct_utils.split_with_escape (as repaired by the
   "fix:" commit: the trailing escape run of the LAST item is counted on that
   item, not on the stale/unbound loop variable), deserialize_list,
   deserialize_key_value and deserialize_dict.

   Scope: delimiter, equal tag and escape character are single characters
   (the quantifier's "small set"); escape None/'' is [None].

   The while/for/else with in-place pop is a structural recursion: [cur] is the
   item under the loop index, [rest] the items after it; items before the
   index are final.  A merge (odd run) replaces cur by cur[:-1] + d + next and
   restarts at the same index - exactly `start_from_item = start_from_item+i;
   break`.  The branch guarded by `maxsplit and maxsplit+1 < len(separated_items)`
   is dead (str.split returns at most maxsplit+1 items and the test comes after
   a pop), hence absent.  Quirks kept: the trimmed run is rebuilt from
   BACKSLASHES whatever the escape character is; when the run is odd the
   merge uses the untrimmed item, so the trimming of that item is discarded. *)
From Coq Require Import List NArith ZArith Bool Lia.
From N0 Require Import Base.PyStr Base.PyVal Codec.Util.
Import ListNotations.

Definition BSL : N := 92%N.

(* number of trailing occurrences of e *)
Fixpoint lead (e : N) (s : pstr) : nat :=
  match s with
  | c :: r => if N.eqb c e then S (lead e r) else O
  | [] => O
  end.
Definition trail (e : N) (s : pstr) : nat := lead e (rev s).

(* item[:-dbl*2] + '\\'*dbl  with dbl = cnt // 2 (identity when dbl = 0) *)
Definition trim_item (s : pstr) (cnt : nat) : pstr :=
  let dbl := Nat.div2 cnt in
  match dbl with
  | O => s
  | _ => firstn (length s - 2 * dbl) s ++ repeat BSL dbl
  end.

Section esc.
Variable d e : N.
Variable trim : bool.

Definition finish_last (cur : pstr) : pstr :=
  if trim then trim_item cur (trail e cur) else cur.

Fixpoint esc_go (cur : pstr) (rest : list pstr) : list pstr :=
  match rest with
  | [] => [finish_last cur]
  | next :: rest' =>
    let cnt := trail e cur in
    if Nat.odd cnt then esc_go (removelast cur ++ d :: next) rest'
    else (if trim then trim_item cur cnt else cur) :: esc_go next rest'
  end.
End esc.

(* str.split(d, maxsplit if maxsplit else -1) *)
Definition py_split (d : N) (s : pstr) (m : option nat) : list pstr :=
  match m with
  | Some (S n) => split_chr_max d s (Some (S n))
  | _ => split_chr d s
  end.

Definition split_esc (s : pstr) (d : N) (m : option nat) (esc : option N) (trim : bool) : list pstr :=
  let items := py_split d s m in
  match esc with
  | None => items
  | Some e =>
    match items with
    | [] => []
    | cur :: rest => esc_go d e trim cur rest
    end
  end.

(* deserialize_list(buffer, delimiter, parse_empty=..., escape_character=...) with
   the identity parse_item *)
Definition nonempty (s : pstr) : bool := match s with [] => false | _ => true end.
Definition deserialize_list (s : pstr) (d : N) (parse_empty : bool) (esc : option N) : list pstr :=
  let items := split_esc s d None esc true in
  if parse_empty then items else filter nonempty items.

(* deserialize_key_value(item, equal_tag, default_key=dk, default_value=dv) with
   the default parse_key / parse_value; dk = None stands for a falsy default_key;
   the value is a tree because default_value may be None. *)
Definition deserialize_key_value (item : pstr) (eq : N) (dk : option pstr) (dv : tree) : pstr * tree :=
  match split_chr_max eq item (Some 1) with
  | [k; v] => (k, t_str v)
  | _ =>
    match dk with
    | Some k => (k, t_str item)
    | None => (item, dv)
    end
  end.

(* deserialize_dict(buffer, delimiter, parse_empty=..., equal_tag=..., default_key, default_value):
   dict(list of pairs) - a repeated key keeps its first position, last value *)
Definition dict_of_pairs (l : list (pstr * tree)) : list (pstr * tree) :=
  fold_left (fun acc kv => update (fst kv) (snd kv) acc) l [].

Definition deserialize_dict (s : pstr) (d : N) (parse_empty : bool) (eq : N) (dk : option pstr) (dv : tree)
  : list (pstr * tree) :=
  dict_of_pairs (map (fun it => deserialize_key_value it eq dk dv) (deserialize_list s d parse_empty None)).

(* ---- observations ---------------------------------------------------------------- *)
Definition split_in := ((((pstr * N) * option nat) * option N) * bool)%type.
Definition obs_split (x : split_in) : out :=
  let '((((s, d), m), esc), trim) := x in Ok (t_strs (split_esc s d m esc trim)).

(* deserialize_list(d.join(items) ...) is observed through the same function on the joined text *)
Definition obs_deser_list (x : ((pstr * N) * bool) * option N) : out :=
  let '(((s, d), pe), esc) := x in Ok (t_strs (deserialize_list s d pe esc)).

Definition obs_deser_kv (x : ((pstr * N) * option pstr) * tree) : out :=
  let '(((s, eq), dk), dv) := x in
  let kv := deserialize_key_value s eq dk dv in Ok (t_list [t_str (fst kv); snd kv]).

Definition obs_deser_dict (x : ((((pstr * N) * bool) * N) * option pstr) * tree) : out :=
  let '(((((s, d), pe), eq), dk), dv) := x in Ok (Dict false (deserialize_dict s d pe eq dk dv)).
