(* Codec/CsvInjective.v — a generated CSV line determines its fields: two rows
   written as the same line (by either writer, with any line ending) are equal. *)
From Coq Require Import List NArith.
From N0 Require Import Base.PyStr Codec.Csv Codec.CsvProofs.
Import ListNotations.

Theorem gen_row_injective d : d <> Q -> forall r1 r2 e1 e2,
  nocrlf d -> r1 <> [] -> r2 <> [] -> Forall (Forall nocrlf) r1 -> Forall (Forall nocrlf) r2 ->
  is_eol e1 -> is_eol e2 ->
  gen_row d r1 e1 = gen_row d r2 e2 -> r1 = r2.
Proof.
  intros Hd r1 r2 e1 e2 Hn H1 H2 F1 F2 E1 E2 H.
  pose proof (parse_gen d Hd r1 e1 Hn H1 F1 E1) as P1.
  pose proof (parse_gen d Hd r2 e2 Hn H2 F2 E2) as P2.
  rewrite H in P1. congruence.
Qed.

(* the two writers never disagree about the fields either *)
Theorem gen_row_gen_w_injective d : d <> Q -> forall r1 r2 e1 e2,
  nocrlf d -> r1 <> [] -> r2 <> [] -> Forall (Forall nocrlf) r1 -> Forall (Forall nocrlf) r2 ->
  is_eol e1 -> is_eol e2 ->
  gen_row d r1 e1 = gen_w d r2 ++ e2 -> r1 = r2.
Proof.
  intros Hd r1 r2 e1 e2 Hn H1 H2 F1 F2 E1 E2 H.
  pose proof (parse_gen d Hd r1 e1 Hn H1 F1 E1) as P1.
  pose proof (parse_gen_w d Hd r2 e2 Hn H2 F2 E2) as P2.
  rewrite H in P1. congruence.
Qed.
