(* Codec/Fwf.v — model of n0struct_files_fwf.generate_fwf_row, parse_fwf_row and
   load_fwf (as repaired by the "fix:" commit: a rejected non-last row is appended
   as one tuple (index, row, message)).

   Scope: offsets, sizes, tills are non-negative; record values are str / int /
   bool / None (str(value) is modelled for these); no 'mapping' entries in the
   generator layout; validations come from a fixed vocabulary of expressions
   (the code eval()s arbitrary Python); load_fwf in text mode, fed with the
   lines load_lines yields. *)
From Coq Require Import List NArith ZArith Bool Lia.
From N0 Require Import Base.PyStr Base.PyVal Codec.Util.
Import ListNotations.

(* ---- generate_fwf_row ---------------------------------------------------------- *)
Record gcol := { g_name : pstr; g_offset : nat; g_size : nat; g_till : nat; g_int : bool }.

Definition str_of_scalar (x : scalar) : res pstr :=
  match x with
  | SStr s => Ok s
  | SInt z => Ok (dec_of_Z z)
  | SNone => Ok str_None
  | SBool b => Ok (if b then str_True else str_False)
  | _ => Unmodelled
  end.

(* str(v).zfill(size)[:size]  /  str(v).ljust(size)[:size] *)
Definition fit_col (c : gcol) (s : pstr) : pstr :=
  firstn (g_size c) (if g_int c then zfill s (g_size c) else ljust s (g_size c) 32).

(* rendered_row[:offset] + text + rendered_row[till:] *)
Definition splice (row : pstr) (off till : nat) (text : pstr) : pstr :=
  firstn off row ++ text ++ skipn till row.

Definition gen_step (rcd : list (pstr * scalar)) (acc : res pstr) (c : gcol) : res pstr :=
  do row <- acc;;
  match lookup (g_name c) rcd with
  | None => Ok row                                  (* continue *)
  | Some v => do s <- str_of_scalar v;; Ok (splice row (g_offset c) (g_till c) (fit_col c s))
  end.

Definition row_len (cols : list gcol) : nat := fold_right (fun c m => Nat.max (g_till c) m) 0 cols.

Definition gen_row (rcd : list (pstr * scalar)) (cols : list gcol) (filler : pstr) : res pstr :=
  match cols with
  | [] => Raise ExSyntax
  | _ => fold_left (gen_step rcd) cols (Ok (concat (repeat filler (row_len cols))))
  end.

(* ---- parse_fwf_row ---------------------------------------------------------------- *)
Inductive vrule :=
| VIsDigit                 (* "column_value.isdigit()" *)
| VNotBlank                (* "column_value.strip() != ''" *)
| VRowLenGe (n : nat)      (* "len(row) >= n" *)
| VConst (b : bool).       (* "True" / "False" *)

Record pcol := { p_name : pstr; p_offset : option nat; p_width : option nat; p_till : option nat;
                 p_valid : list vrule; p_msg : pstr }.

Definition col_value (row : pstr) (c : pcol) : option pstr :=
  match p_offset c with
  | None => None
  | Some o =>
    let till := match p_till c with
                | Some t => Some t
                | None => match p_width c with Some w => Some (o + w) | None => None end
                end in
    match till with Some t => Some (slice row o t) | None => None end
  end.

(* str.isdigit(), ASCII only; other code points may be Unicode digits: Unmodelled *)
Definition py_isdigit (s : pstr) : res bool :=
  if non_ascii s then Unmodelled else
  Ok (match s with [] => false | _ => forallb is_digit s end).

Definition nonempty_str (s : pstr) : bool := match s with [] => false | _ => true end.

Definition eval_rule (r : vrule) (v : option pstr) (row : pstr) : res bool :=
  match r with
  | VIsDigit => match v with None => Raise ExAttribute | Some s => py_isdigit s end
  | VNotBlank => match v with None => Raise ExAttribute | Some s => Ok (nonempty_str (strip s)) end
  | VRowLenGe n => Ok (n <=? length row)
  | VConst b => Ok b
  end.

(* the for-loop over the validations: number of failed ones (each appends the
   column's error_message); an exception in a lambda propagates at once *)
Fixpoint count_failed (rs : list vrule) (v : option pstr) (row : pstr) : res nat :=
  match rs with
  | [] => Ok 0
  | r :: rs' =>
    do ok <- eval_rule r v row;;
    do n <- count_failed rs' v row;;
    Ok (if ok then n else S n)
  end.

Inductive prow :=
| PDict (kvs : list (pstr * tree))        (* the parsed row *)
| PFail (row msg : pstr).                 (* (incoming_row, ";".join(error_messages)) *)

Definition tree_of_value (v : option pstr) : tree :=
  match v with Some s => t_str s | None => t_none end.

Definition SEMI : N := 59%N.

Definition nonempty_list {A} (l : list A) : bool := match l with [] => false | _ => true end.

Fixpoint parse_cols (row : pstr) (validate : bool) (cols : list pcol) (acc : list (pstr * tree)) : res prow :=
  match cols with
  | [] => Ok (PDict acc)
  | c :: r =>
    let v := col_value row c in
    let continue := parse_cols row validate r (update (p_name c) (tree_of_value v) acc) in
    if validate && nonempty_list (p_valid c) then
      do n <- count_failed (p_valid c) v row;;
      match n with
      | O => continue
      | _ => Ok (PFail row (join [SEMI] (repeat (p_msg c) n)))
      end
    else continue
  end.

Definition parse_row (row : pstr) (fmt : list pcol) (validate : bool) : res prow :=
  match fmt with
  | [] => Raise ExSyntax
  | _ => parse_cols row validate fmt []
  end.

(* the parser layout the round trip uses for a generator layout:
   {name: {'offset': offset, 'width': size}} *)
Definition pcol_of_gcol (c : gcol) : pcol :=
  {| p_name := g_name c; p_offset := Some (g_offset c); p_width := Some (g_size c); p_till := None;
     p_valid := []; p_msg := [] |}.

(* ---- load_fwf ------------------------------------------------------------------------ *)
(* One row: parse, then file the result.  [idx] is the enumerate index at the
   moment the row is handled (row number + 1) for a non-last row, None for the
   row handled after the loop (the code appends the bare (row, message) there). *)
Definition t_fail (idx : option nat) (row msg : pstr) : tree :=
  match idx with
  | Some i => t_list [t_int (Z.of_nat i); t_str row; t_str msg]
  | None => t_list [t_str row; t_str msg]
  end.

Definition file_row (line : pstr) (fmt : list pcol) (validate : bool) (orig : option pstr) (idx : option nat)
           (acc rej : list tree) : res (list tree * list tree) :=
  do r <- parse_row line fmt validate;;
  match r with
  | PDict kvs =>
    let kvs' := match orig with Some k => update k (t_str line) kvs | None => kvs end in
    Ok (acc ++ [Dict false kvs'], rej)
  | PFail row msg => Ok (acc, rej ++ [t_fail idx row msg])
  end.

(* the for-loop: [prev] is previous_row, [i] the enumerate index of the line being read *)
Fixpoint load_loop (lines : list pstr) (i : nat) (prev : option pstr)
         (hdr body : list pcol) (validate : bool) (orig : option pstr)
         (acc rej : list tree) : res ((list tree * list tree) * option pstr) :=
  match lines with
  | [] => Ok ((acc, rej), prev)
  | line :: rest =>
    do st <- match prev with
             | Some p => if nonempty_str p
                         then file_row p (if Nat.eqb i 1 then hdr else body) validate orig (Some i) acc rej
                         else Ok (acc, rej)
             | None => Ok (acc, rej)
             end;;
    load_loop rest (S i) (Some line) hdr body validate orig (fst st) (snd st)
  end.

Definition load_fwf (lines : list pstr) (hdr : list pcol) (body footer : option (list pcol))
           (validate : bool) (orig : option pstr) : res tree :=
  match hdr with
  | [] => Raise ExSyntax
  | _ =>
    let body' := match body with Some (c :: r) => c :: r | _ => hdr end in
    let footer' := match footer with Some (c :: r) => c :: r | _ => body' end in
    do st <- load_loop lines 0 None hdr body' validate orig [] [];;
    do fin <- match snd st with
              | Some p => if nonempty_str p then file_row p footer' validate orig None (fst (fst st)) (snd (fst st))
                          else Ok (fst st)
              | None => Ok (fst st)
              end;;
    Ok (if validate then t_list [t_list (fst fin); t_list (snd fin)] else t_list (fst fin))
  end.

(* ---- observations ------------------------------------------------------------------------ *)
Definition res_map {A B} (f : A -> B) (r : res A) : res B :=
  match r with Ok a => Ok (f a) | Raise e => Raise e | OutOfFuel => OutOfFuel | Unmodelled => Unmodelled end.

Definition t_prow (r : prow) : tree :=
  match r with
  | PDict kvs => Dict false kvs
  | PFail row msg => t_list [t_str row; t_str msg]
  end.

Definition fwf_gen_in := ((list (pstr * scalar) * list gcol) * pstr)%type.
Definition obs_fwf_gen (x : fwf_gen_in) : out :=
  let '((rcd, cols), filler) := x in res_map t_str (gen_row rcd cols filler).

Definition obs_fwf_parse (x : (pstr * list pcol) * bool) : out :=
  let '((row, fmt), validate) := x in res_map t_prow (parse_row row fmt validate).

(* parse_fwf_row(generate_fwf_row(record, layout, filler), {name: {offset, width: size}}) *)
Definition obs_fwf_rt (x : fwf_gen_in) : out :=
  let '((rcd, cols), filler) := x in
  match gen_row rcd cols filler with
  | Ok row => res_map t_prow (parse_row row (map pcol_of_gcol cols) true)
  | Raise e => Raise e
  | OutOfFuel => OutOfFuel
  | Unmodelled => Unmodelled
  end.

Definition fwf_load_in :=
  (((((list pstr * list pcol) * option (list pcol)) * option (list pcol)) * bool) * option pstr)%type.
Definition obs_fwf_load (x : fwf_load_in) : out :=
  let '(((((lines, hdr), body), footer), validate), orig) := x in
  load_fwf lines hdr body footer validate orig.
