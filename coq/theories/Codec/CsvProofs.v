(* Codec/CsvProofs.v — the CSV state machine inverts both row generators. *)
From Coq Require Import List NArith ZArith Bool Lia.
From N0 Require Import Base.PyStr Base.PyVal Codec.Csv.
Import ListNotations.

Arguments N.eqb : simpl never.

Definition nocrlf (c : N) : Prop := mem_chr c [CR; LF] = false.
Definition is_eol (e : pstr) : Prop := Forall (fun c => mem_chr c [CR; LF] = true) e.

(* ---- rstrip ---------------------------------------------------------------- *)
Lemma lstrip_keep cs b : Forall (fun c => mem_chr c cs = false) b -> lstrip_set cs b = b.
Proof. intros H. destruct b as [|c b]; simpl; [reflexivity|]. inversion H; subst. now rewrite H2. Qed.

Lemma lstrip_app cs a b : Forall (fun c => mem_chr c cs = true) a -> lstrip_set cs (a ++ b) = lstrip_set cs b.
Proof. induction 1 as [|c a Hc Ha IH]; simpl; [reflexivity|]. now rewrite Hc. Qed.

Lemma rstrip_eol s e : Forall nocrlf s -> is_eol e -> rstrip_set [CR; LF] (s ++ e) = s.
Proof.
  intros Hs He. unfold rstrip_set. rewrite rev_app_distr, lstrip_app.
  - rewrite lstrip_keep; [apply rev_involutive|]. apply Forall_rev. exact Hs.
  - apply Forall_rev. exact He.
Qed.

Section machine.
Variable d : N.
Hypothesis dQ : d <> Q.

Let Qd : N.eqb Q d = false.
Proof. apply N.eqb_neq. congruence. Qed.
Let QQ : N.eqb Q Q = true.
Proof. apply N.eqb_refl. Qed.

Lemma run_app s a b :
  run d s (a ++ b) = match run d s a with Some s' => run d s' b | None => None end.
Proof.
  revert s; induction a as [|c a IH]; intros s; simpl; [reflexivity|].
  destruct (stepc d s c); [apply IH|reflexivity].
Qed.

Lemma run_unquoted f : forall fl st ac,
  ~ In d f -> (st = false -> hd_is_q f = false) ->
  run d (Build_st fl false false st ac) f =
  Some (Build_st (fl ++ f) false false (match f with [] => st | _ => true end) ac).
Proof.
  induction f as [|c f IH]; intros fl st ac Hd Hq; simpl.
  - now rewrite app_nil_r.
  - assert (Hcd : N.eqb c d = false) by (apply N.eqb_neq; intros ->; apply Hd; now left).
    assert (Hd' : ~ In d f) by (intros Hi; apply Hd; now right).
    unfold stepc; cbn [fld quoted expect started acc]. rewrite Hcd. cbn [andb negb orb].
    destruct (N.eqb c Q) eqn:EQ.
    + destruct st; cbn [negb].
      * rewrite IH by (assumption || discriminate). rewrite <- app_assoc. simpl. now destruct f.
      * specialize (Hq eq_refl). simpl in Hq. congruence.
    + rewrite IH by (assumption || discriminate). rewrite <- app_assoc. simpl. now destruct f.
Qed.

Lemma run_dbl f : forall fl ac,
  run d (Build_st fl true false true ac) (dbl f) = Some (Build_st (fl ++ f) true false true ac).
Proof.
  induction f as [|c f IH]; intros fl ac.
  - simpl. now rewrite app_nil_r.
  - change (dbl (c :: f)) with ((if N.eqb c Q then [Q; Q] else [c]) ++ dbl f).
    rewrite run_app. destruct (N.eqb c Q) eqn:EQ.
    + apply N.eqb_eq in EQ. subst c. cbn [run]. unfold stepc; cbn [fld quoted expect started acc].
      rewrite Qd, QQ. cbn [andb negb orb fld quoted expect started acc].
      rewrite IH. rewrite <- app_assoc. reflexivity.
    + cbn [run]. unfold stepc; cbn [fld quoted expect started acc]. rewrite EQ.
      cbn [andb negb orb]. rewrite andb_false_r.
      rewrite IH. rewrite <- app_assoc. reflexivity.
Qed.

Lemma run_quoted f ac :
  run d (Build_st [] false false false ac) (Q :: dbl f ++ [Q]) = Some (Build_st f true true true ac).
Proof.
  cbn [run]. unfold stepc at 1; cbn [fld quoted expect started acc]. rewrite Qd, QQ.
  cbn [andb negb orb]. rewrite run_app, run_dbl. cbn [run app].
  unfold stepc; cbn [fld quoted expect started acc]. rewrite Qd, QQ. reflexivity.
Qed.

Section generator.
Variable nq : pstr -> bool.
Hypothesis nq_sound : forall f, nq f = false -> ~ In d f /\ hd_is_q f = false.

Definition end_state (f : pstr) (ac : list pstr) : st :=
  if nq f then Build_st f true true true ac
  else Build_st f false false (match f with [] => false | _ => true end) ac.

Lemma run_genf f ac :
  run d (Build_st [] false false false ac) (genf_g nq f) = Some (end_state f ac).
Proof.
  unfold genf_g, end_state. destruct (nq f) eqn:E.
  - apply run_quoted.
  - destruct (nq_sound f E) as [Hd Hq]. rewrite run_unquoted by auto. reflexivity.
Qed.

Lemma step_delim f ac :
  stepc d (end_state f ac) d = Some (Build_st [] false false false (ac ++ [f])).
Proof.
  unfold end_state, stepc. destruct (nq f); cbn [fld quoted expect started acc]; rewrite N.eqb_refl; reflexivity.
Qed.

Lemma fld_end_state f ac : finish (end_state f ac) = ac ++ [f].
Proof. unfold end_state, finish. now destruct (nq f). Qed.

Lemma run_gen row : forall ac, row <> [] ->
  exists s, run d (Build_st [] false false false ac) (gen_g d nq row) = Some s /\ finish s = ac ++ row.
Proof.
  induction row as [|f t IH]; intros ac Hne; [congruence|].
  destruct t as [|g t].
  - exists (end_state f ac). split; [apply run_genf|apply fld_end_state].
  - change (gen_g d nq (f :: g :: t)) with (genf_g nq f ++ d :: gen_g d nq (g :: t)).
    rewrite run_app, run_genf. cbn [run]. rewrite step_delim.
    destruct (IH (ac ++ [f])) as [s [Hs Hf]]; [congruence|].
    exists s. split; [exact Hs|]. rewrite Hf, <- app_assoc. reflexivity.
Qed.

Lemma Forall_dbl (P : N -> Prop) f : P Q -> Forall P f -> Forall P (dbl f).
Proof.
  intros HQ. induction 1 as [|c f Hc Hf IH]; simpl; [constructor|].
  destruct (N.eqb c Q); simpl; auto.
Qed.

Lemma Forall_gen (P : N -> Prop) row :
  P Q -> P d -> Forall (Forall P) row -> Forall P (gen_g d nq row).
Proof.
  intros HQ Hd. induction 1 as [|f t Hf Ht IH]; [constructor|].
  assert (Hg : Forall P (genf_g nq f)).
  { unfold genf_g. destruct (nq f); [|exact Hf]. constructor; [exact HQ|].
    apply Forall_app. split; [now apply Forall_dbl|auto]. }
  destruct t as [|g t]; [exact Hg|].
  change (gen_g d nq (f :: g :: t)) with (genf_g nq f ++ d :: gen_g d nq (g :: t)).
  apply Forall_app. split; [exact Hg|]. constructor; [exact Hd|exact IH].
Qed.

Lemma parse_gen_g row eol :
  nocrlf d -> row <> [] -> Forall (Forall nocrlf) row -> is_eol eol ->
  parse_line d (gen_g d nq row ++ eol) = Some row.
Proof.
  intros Hd Hne Hrow He. unfold parse_line.
  rewrite rstrip_eol; [|apply Forall_gen; [reflexivity|exact Hd|exact Hrow]|exact He].
  destruct (run_gen row [] Hne) as [s [Hs Hf]]. unfold init. rewrite Hs, Hf. reflexivity.
Qed.
End generator.

Lemma needq_sound f : needq d f = false -> ~ In d f /\ hd_is_q f = false.
Proof.
  unfold needq. intros H. apply orb_false_iff in H as [H1 H2]. split; [|exact H2].
  now apply mem_chr_false.
Qed.

Lemma needq_w_sound f : needq_w d f = false -> ~ In d f /\ hd_is_q f = false.
Proof.
  unfold needq_w. intros H. apply orb_false_iff in H as [H1 H2]. split; [now apply mem_chr_false|].
  destruct f as [|c f]; [reflexivity|]. simpl in *. apply orb_false_iff in H2 as [H2 _].
  rewrite N.eqb_sym. exact H2.
Qed.

Theorem parse_gen row eol :
  nocrlf d -> row <> [] -> Forall (Forall nocrlf) row -> is_eol eol ->
  parse_line d (gen_row d row eol) = Some row.
Proof. intros. unfold gen_row, gen. now apply parse_gen_g; [apply needq_sound|..]. Qed.

Theorem parse_gen_w row eol :
  nocrlf d -> row <> [] -> Forall (Forall nocrlf) row -> is_eol eol ->
  parse_line d (gen_w d row ++ eol) = Some row.
Proof.
  intros Hd Hne Hrow He.
  assert (G : parse_line d (gen_g d (needq_w d) row ++ eol) = Some row)
    by (now apply parse_gen_g; [apply needq_w_sound|..]).
  unfold gen_w. destruct row as [|[|c f] [|g t]]; try exact G.
  unfold parse_line. rewrite (rstrip_eol [Q; Q]); [|repeat constructor|exact He].
  cbn [run init]. unfold stepc; cbn [fld quoted expect started acc]. rewrite Qd, QQ.
  cbn [andb negb orb fld quoted expect started acc]. reflexivity.
Qed.

Corollary parse_gen_length row eol :
  nocrlf d -> row <> [] -> Forall (Forall nocrlf) row -> is_eol eol ->
  exists fs, parse_line d (gen_row d row eol) = Some fs /\ length fs = length row.
Proof. intros. exists row. split; [now apply parse_gen|reflexivity]. Qed.
End machine.

(* non-vacuity: a concrete row with delimiters, quotes (leading, trailing,
   inner), an empty field and a non-ASCII character satisfies the hypotheses
   and parses back. *)
Example parse_gen_example :
  let row := [[97; 44; 34]; []; [34; 97]; [97; 34]; [233; 32; 39]]%N in
  parse_line 44 (gen_row 44 row [CR; LF]) = Some row /\
  parse_line 44 (gen_w 44 row ++ [LF]) = Some row.
Proof. vm_compute. split; reflexivity. Qed.
