(* Codec/Csv.v — model of n0struct_files_csv.parse_complex_csv_line (the
   character state machine, as repaired by the "fix:" commit for C13: the
   begin-of-field test is a flag, not len(field_value)==0, and the quote is a
   bytes quote in bytes mode), of generate_complex_csv_row, and of csv.writer
   with QUOTE_MINIMAL (external; modelled, validated by its own stream). *)
From Coq Require Import List NArith ZArith Bool Lia.
From N0 Require Import Base.PyStr Base.PyVal.
Import ListNotations.

Definition Q : N := 34%N.
Definition CR : N := 13%N.
Definition LF : N := 10%N.

Record st := { fld : pstr; quoted : bool; expect : bool; started : bool; acc : list pstr }.
Definition init : st := {| fld := []; quoted := false; expect := false; started := false; acc := [] |}.

(* one iteration of the for-loop body; None = ValueError *)
Definition stepc (d : N) (s : st) (ch : N) : option st :=
  if N.eqb ch d && (negb (quoted s) || expect s) then
    Some {| fld := []; quoted := false; expect := false; started := false; acc := acc s ++ [fld s] |}
  else if N.eqb ch Q then
    if negb (started s) then
      Some {| fld := fld s; quoted := true; expect := expect s; started := true; acc := acc s |}
    else if quoted s then
      if negb (expect s) then
        Some {| fld := fld s; quoted := true; expect := true; started := true; acc := acc s |}
      else
        Some {| fld := fld s ++ [ch]; quoted := true; expect := false; started := true; acc := acc s |}
    else
      Some {| fld := fld s ++ [ch]; quoted := quoted s; expect := expect s; started := true; acc := acc s |}
  else if expect s then None
  else Some {| fld := fld s ++ [ch]; quoted := quoted s; expect := expect s; started := true; acc := acc s |}.

Fixpoint run (d : N) (s : st) (l : pstr) : option st :=
  match l with
  | [] => Some s
  | c :: t => match stepc d s c with Some s' => run d s' t | None => None end
  end.

Definition finish (s : st) : list pstr := acc s ++ [fld s].

(* parse_complex_csv_line(line, delimiter): rstrip('\r\n') then the machine *)
Definition parse_line (d : N) (line : pstr) : option (list pstr) :=
  match run d init (rstrip_set [CR; LF] line) with
  | Some s => Some (finish s)
  | None => None
  end.

(* generate_complex_csv_row *)
Definition dbl (f : pstr) : pstr := flat_map (fun c => if N.eqb c Q then [Q; Q] else [c]) f.
Definition hd_is_q (f : pstr) : bool := match f with c :: _ => N.eqb c Q | [] => false end.
Definition needq (d : N) (f : pstr) : bool := mem_chr d f || hd_is_q f.
(* generic over the "needs quoting" decision so the library's row generator and
   csv.writer share one definition (and one proof) *)
Definition genf_g (nq : pstr -> bool) (f : pstr) : pstr := if nq f then Q :: dbl f ++ [Q] else f.
Fixpoint gen_g (d : N) (nq : pstr -> bool) (row : list pstr) : pstr :=
  match row with
  | [] => []
  | [f] => genf_g nq f
  | f :: t => genf_g nq f ++ d :: gen_g d nq t
  end.
Definition gen (d : N) (row : list pstr) : pstr := gen_g d (needq d) row.
Definition gen_row (d : N) (row : list pstr) (eol : pstr) : pstr := gen d row ++ eol.

(* csv.writer(delimiter=d, quoting=QUOTE_MINIMAL, lineterminator=eol).writerow,
   for fields free of CR/LF: a field is quoted iff it contains the delimiter
   or the quote character (or a character of the line terminator, excluded by
   the guard); a row consisting of one empty field is written as "". *)
Definition needq_w (d : N) (f : pstr) : bool := mem_chr d f || mem_chr Q f.
Definition gen_w (d : N) (row : list pstr) : pstr :=
  match row with
  | [[]] => [Q; Q]
  | _ => gen_g d (needq_w d) row
  end.

(* ---- observations for the correspondence check ---------------------------- *)
Definition obs_parse (d : N) (line : pstr) : out :=
  match parse_line d line with
  | Some fs => Ok (t_strs fs)
  | None => Raise ExValue
  end.
Definition obs_gen (d : N) (row : list pstr) (eol : pstr) : out := Ok (t_str (gen_row d row eol)).
Definition obs_gen_w (d : N) (row : list pstr) (eol : pstr) : out := Ok (t_str (gen_w d row ++ eol)).
