(* Codec/IniProofs.v — proofs about the parse_ini model (C17). *)
From Coq Require Import List NArith ZArith Bool Lia.
From N0 Require Import Base.PyStr Base.PyVal Codec.Util Codec.Ini.
Import ListNotations.

(* ---- comment and blank lines are skipped ------------------------------------------------ *)
Theorem ini_skip_blank cfg acc line : lstrip_set py_ws line = [] -> ini_line cfg acc line = Ok acc.
Proof. intros H. unfold ini_line. rewrite H. reflexivity. Qed.

Theorem ini_skip_comment cfg acc line tag :
  In tag (ic_comments cfg) -> startswith (lstrip_set py_ws line) tag = true -> ini_line cfg acc line = Ok acc.
Proof.
  intros Hin Hs. unfold ini_line.
  assert (E : existsb (startswith (lstrip_set py_ws line)) (ic_comments cfg) = true).
  { apply existsb_exists. eauto. }
  rewrite E. cbn [negb]. now rewrite andb_false_r.
Qed.

(* ---- a "key=value" line ---------------------------------------------------------------------- *)
Lemma take_until_app d v : forall k, ~ In d k -> take_until d (k ++ d :: v) = (k, v).
Proof.
  induction k as [|c k IH]; intros Hn; cbn [app take_until].
  - now rewrite N.eqb_refl.
  - destruct (N.eqb_spec c d) as [->|Hne]; [exfalso; apply Hn; now left|].
    rewrite IH by (intros H; apply Hn; now right). reflexivity.
Qed.

Lemma mem_chr_app_mid d k v : mem_chr d (k ++ d :: v) = true.
Proof. apply mem_chr_In. apply in_or_app. right. now left. Qed.

(* the line is not blank, not a comment, and does not start with white space *)
Definition live_line (cfg : ini_cfg) (line : pstr) : Prop :=
  lstrip_set py_ws line = line /\ line <> [] /\ existsb (startswith line) (ic_comments cfg) = false.

Theorem ini_key_value cfg acc k v :
  live_line cfg (k ++ ic_eq cfg :: v) -> ~ In (ic_eq cfg) k -> non_ascii k = false ->
  ends_with_plus (upper (strip k)) = false ->
  ini_line cfg acc (k ++ ic_eq cfg :: v) =
  do value <- default_parse_value v;; Ok (update (upper (strip k)) value acc).
Proof.
  intros [Hl [Hne Hc]] Hk Ha Hp. unfold ini_line. rewrite Hl, Hc.
  assert (NE : nonempty_s (k ++ ic_eq cfg :: v) = true) by (destruct k; reflexivity).
  rewrite NE. cbn [negb andb].
  rewrite mem_chr_app_mid, take_until_app by assumption.
  unfold parse_key. rewrite Ha. cbn [bind].
  destruct (default_parse_value v); cbn [bind]; try reflexivity. now rewrite Hp.
Qed.

(* "key+=value": concatenation with the text of the previous value, or the
   concatenate sign when there is none *)
Theorem ini_plus_equal cfg acc k v :
  live_line cfg (k ++ PLUS :: ic_eq cfg :: v) -> ~ In (ic_eq cfg) (k ++ [PLUS]) -> non_ascii k = false ->
  strip (k ++ [PLUS]) = strip k ++ [PLUS] ->
  ini_line cfg acc (k ++ PLUS :: ic_eq cfg :: v) =
  do value <- default_parse_value v;;
  Ok (update (upper (strip k))
             (IStr (match lookup (upper (strip k)) acc with
                    | Some old => str_of_ival old ++ str_of_ival value
                    | None => ic_concat cfg ++ str_of_ival value
                    end)) acc).
Proof.
  intros HL Hk Ha Hs.
  replace (k ++ PLUS :: ic_eq cfg :: v) with ((k ++ [PLUS]) ++ ic_eq cfg :: v) in * by (now rewrite <- app_assoc).
  destruct HL as [Hl [Hne Hc]]. unfold ini_line. rewrite Hl, Hc.
  assert (NE : nonempty_s ((k ++ [PLUS]) ++ ic_eq cfg :: v) = true) by (destruct k; reflexivity).
  rewrite NE. cbn [negb andb].
  rewrite mem_chr_app_mid, take_until_app by assumption.
  unfold parse_key. rewrite non_ascii_app, Ha. cbn [non_ascii existsb orb]. change (128 <=? PLUS)%N with false. cbn [bind].
  destruct (default_parse_value v); cbn [bind]; try reflexivity.
  rewrite Hs. unfold upper. rewrite map_app. cbn [map]. change (upper_chr PLUS) with PLUS.
  cbn [orb bind]. unfold ends_with_plus. rewrite rev_app_distr. cbn [rev app]. change (N.eqb PLUS PLUS) with true. cbv iota.
  rewrite removelast_last. reflexivity.
Qed.

(* ---- typed numbers: str(int) reads back as the int ---------------------------------------------- *)
Lemma digit_not_pyws c : is_digit c = true -> mem_chr c py_ws = false.
Proof.
  intros H. apply is_digit_range in H. apply mem_chr_false. unfold py_ws.
  intros Hin. repeat (destruct Hin as [Hin|Hin]; [lia|]). destruct Hin.
Qed.

Lemma strip_pyws_guarded (s : pstr) a b r :
  s = a :: r -> mem_chr a py_ws = false -> (exists r', rev s = b :: r') -> mem_chr b py_ws = false -> strip s = s.
Proof.
  intros -> Ha [r' Hr] Hb. unfold strip, strip_set. cbn [lstrip_set]. rewrite Ha.
  unfold rstrip_set. rewrite Hr. cbn [lstrip_set]. rewrite Hb. rewrite <- Hr. apply rev_involutive.
Qed.

Lemma digits_no_dot l : all_digits l -> ~ In DOT l.
Proof.
  intros Hd Hin. unfold all_digits in Hd. rewrite Forall_forall in Hd. specialize (Hd _ Hin). discriminate.
Qed.

Lemma forallb_digits l : all_digits l -> forallb is_digit l = true.
Proof. intros H. apply forallb_forall. unfold all_digits in H. now rewrite Forall_forall in H. Qed.

Lemma count_occ_notin l : ~ In DOT l -> count_occ N.eq_dec l DOT = 0.
Proof. intros H. now apply count_occ_not_In. Qed.

Lemma exotic_digits l : all_digits l -> existsb exotic l = false.
Proof.
  induction 1 as [|c r Hc Hr IH]; [reflexivity|]. cbn [existsb]. rewrite IH, orb_false_r.
  apply is_digit_range in Hc. unfold exotic.
  destruct (N.leb_spec 256 c); [lia|]. cbn [orb]. apply mem_chr_false.
  intros Hin. repeat (destruct Hin as [Hin|Hin]; [lia|]). destruct Hin.
Qed.

Lemma strip_digits_pyws l : all_digits l -> l <> [] -> strip l = l.
Proof.
  intros Hd Hne. destruct l as [|a r]; [congruence|].
  destruct (last_digit_rev (a :: r) Hd Hne) as [b [r' [E Hb]]].
  inversion Hd; subst.
  eapply strip_pyws_guarded; eauto using digit_not_pyws.
Qed.

Lemma isnumber_digits l : all_digits l -> l <> [] -> isnumber l = Ok true.
Proof.
  intros Hd Hne. unfold isnumber. rewrite exotic_digits, strip_digits_pyws by assumption.
  destruct l as [|a r]; [congruence|]. inversion Hd as [|? ? Ha Hr]; subst.
  assert (a <> PLUS /\ a <> MINUS) as [H1 H2] by (apply is_digit_range in Ha; unfold PLUS, MINUS; lia).
  apply N.eqb_neq in H1, H2. rewrite H1, H2. cbn [orb].
  rewrite count_occ_notin by (now apply digits_no_dot). cbn [Nat.eqb].
  now rewrite forallb_digits.
Qed.

Lemma isnumber_minus_digits l : all_digits l -> l <> [] -> isnumber (MINUS :: l) = Ok true.
Proof.
  intros Hd Hne. unfold isnumber.
  assert (E : existsb exotic (MINUS :: l) = false) by (cbn [existsb]; now rewrite exotic_digits).
  rewrite E.
  destruct (last_digit_rev l Hd Hne) as [b [r' [Er Hb]]].
  assert (S : strip (MINUS :: l) = MINUS :: l).
  { eapply strip_pyws_guarded; [reflexivity|reflexivity| |apply digit_not_pyws; exact Hb].
    cbn [rev]. rewrite Er. eexists. reflexivity. }
  rewrite S. change (N.eqb MINUS PLUS || N.eqb MINUS MINUS) with true. cbv iota.
  rewrite count_occ_notin by (now apply digits_no_dot). cbn [Nat.eqb].
  destruct l; [congruence|]. now rewrite forallb_digits.
Qed.

Lemma py_int_minus_digits l : all_digits l -> l <> [] -> py_int (MINUS :: l) = Ok (- Z.of_N (dec_val l))%Z.
Proof.
  intros Hd Hne. unfold py_int.
  assert (A : non_ascii (MINUS :: l) = false) by (cbn [non_ascii existsb]; fold (non_ascii l); now rewrite digits_ascii).
  rewrite A.
  destruct (last_digit_rev l Hd Hne) as [b [r' [Er Hb]]].
  assert (S : strip_set int_ws (MINUS :: l) = MINUS :: l).
  { unfold strip_set. cbn [lstrip_set]. change (mem_chr MINUS int_ws) with false. cbv iota.
    unfold rstrip_set. cbn [rev]. rewrite Er. cbn [app lstrip_set]. rewrite (digit_not_ws b Hb).
    change (b :: r' ++ [MINUS]) with ((b :: r') ++ [MINUS]). rewrite <- Er.
    rewrite rev_app_distr, rev_involutive. reflexivity. }
  rewrite S. cbn [split_sign]. change (N.eqb MINUS 43) with false. change (N.eqb MINUS 45) with true. cbv iota.
  cbn [fst snd]. rewrite dig_go_digits by (assumption || (left; assumption)). reflexivity.
Qed.

Theorem ini_typed_int z : default_parse_value (dec_of_Z z) = Ok (IInt z).
Proof.
  unfold default_parse_value.
  destruct z as [|p|p]; cbn [dec_of_Z Z.to_N].
  - reflexivity.
  - pose proof (dec_of_N_digits (Npos p)) as Hd. pose proof (dec_of_N_nonempty (Npos p)) as Hne.
    rewrite strip_digits_pyws, isnumber_digits by assumption. cbn [bind].
    assert (M : mem_chr DOT (dec_of_N (N.pos p)) = false) by (apply mem_chr_false; now apply digits_no_dot).
    rewrite M, py_int_digits by assumption. cbn [bind]. now rewrite dec_val_dec_of_N.
  - pose proof (dec_of_N_digits (Npos p)) as Hd. pose proof (dec_of_N_nonempty (Npos p)) as Hne.
    destruct (last_digit_rev _ Hd Hne) as [b [r' [Er Hb]]].
    assert (S : strip (MINUS :: dec_of_N (N.pos p)) = MINUS :: dec_of_N (N.pos p)).
    { eapply strip_pyws_guarded; [reflexivity|reflexivity| |apply digit_not_pyws; exact Hb].
      cbn [rev]. rewrite Er. eexists. reflexivity. }
    change (45%N :: dec_of_N (N.pos p)) with (MINUS :: dec_of_N (N.pos p)).
    rewrite S, isnumber_minus_digits by assumption. cbn [bind].
    assert (M : mem_chr DOT (MINUS :: dec_of_N (N.pos p)) = false).
    { apply mem_chr_false. intros [H|H]; [discriminate|]. revert H. now apply digits_no_dot. }
    rewrite M, py_int_minus_digits by assumption. cbn [bind]. now rewrite dec_val_dec_of_N.
Qed.

Example ini_example :
  parse_ini default_cfg
    [[35; 32; 99]; [47; 47; 99]; []; [97; 32; 61; 32; 49]; [98; 61; 32; 39; 120; 39; 32]; [100];
     [101; 61; 49; 46; 50; 53]; [102; 43; 61; 97; 98]; [102; 43; 61; 99; 100]; [103; 61; 46]; [104; 61; 45; 32; 53]]%N
  = Ok [([65], IInt 1); ([66], IStr [120]); ([68], IStr []); ([69], IFlt [49; 46; 50; 53]);
        ([70], IStr [22; 97; 98; 99; 100]); ([71], IStr [46]); ([72], IStr [45; 32; 53])]%N.
Proof. vm_compute. reflexivity. Qed.

(* ---- a mapping of integers saved as "key=value" lines loads back ------------------------------- *)
Definition is_alpha (c : N) : bool :=
  ((65 <=? c)%N && (c <=? 90)%N) || ((97 <=? c)%N && (c <=? 122)%N).

Definition clean_key (k : pstr) : Prop :=
  (exists c r, k = c :: r /\ is_alpha c = true) /\ ~ In 61%N k /\ non_ascii k = false /\
  ends_with_plus (upper (strip k)) = false.

Lemma alpha_range c : is_alpha c = true -> (65 <= c <= 122)%N.
Proof.
  unfold is_alpha. rewrite orb_true_iff, !andb_true_iff, !N.leb_le. lia.
Qed.

Lemma clean_key_live k v : clean_key k -> live_line default_cfg (k ++ 61%N :: v).
Proof.
  intros [[c [r [-> Hc]]] _]. apply alpha_range in Hc. unfold live_line. cbn [app].
  assert (W : mem_chr c py_ws = false).
  { apply mem_chr_false. unfold py_ws. intros Hin. repeat (destruct Hin as [Hin|Hin]; [lia|]). destruct Hin. }
  repeat split.
  - cbn [lstrip_set]. now rewrite W.
  - discriminate.
  - cbn [default_cfg ic_comments existsb startswith].
    assert (E1 : N.eqb 35 c = false) by (apply N.eqb_neq; lia).
    assert (E2 : N.eqb 47 c = false) by (apply N.eqb_neq; lia).
    now rewrite E1, E2.
Qed.

Lemma update_new {A} k (v : A) acc : ~ In k (map fst acc) -> update k v acc = acc ++ [(k, v)].
Proof.
  induction acc as [|[k' v'] r IH]; intros Hn; [reflexivity|]. simpl in *.
  destruct (pstr_eqb k k') eqn:E; [apply pstr_eqb_eq in E; subst; exfalso; apply Hn; now left|].
  rewrite IH; [reflexivity|]. intros Hi. apply Hn. now right.
Qed.

Definition int_line (kz : pstr * Z) : pstr := fst kz ++ 61%N :: dec_of_Z (snd kz).
Definition int_entry (kz : pstr * Z) : pstr * ival := (upper (strip (fst kz)), IInt (snd kz)).

Lemma parse_ini_ints : forall (m : list (pstr * Z)) acc,
  Forall (fun kz => clean_key (fst kz)) m ->
  NoDup (map fst acc ++ map (fun kz => upper (strip (fst kz))) m) ->
  parse_ini_go default_cfg acc (map int_line m) = Ok (acc ++ map int_entry m).
Proof.
  induction m as [|[k z] r IH]; intros acc HF Hnd; cbn [map parse_ini_go]; [now rewrite app_nil_r|].
  inversion HF as [|? ? Hk Hr]; subst. cbn [fst] in Hk.
  unfold int_line at 1. cbn [fst snd].
  pose proof (clean_key_live k (dec_of_Z z) Hk) as HL.
  destruct Hk as [_ [Heq [Hasc Hplus]]].
  change 61%N with (ic_eq default_cfg) at 1.
  rewrite ini_key_value; try assumption.
  rewrite ini_typed_int. cbn [bind].
  cbn [map] in Hnd. rewrite update_new.
  - rewrite IH; [now rewrite <- app_assoc|assumption|].
    rewrite map_app. cbn [map fst]. now rewrite <- app_assoc.
  - apply NoDup_remove_2 in Hnd. intros Hi. apply Hnd. apply in_or_app. now left.
Qed.

Theorem ini_int_mapping (m : list (pstr * Z)) :
  Forall (fun kz => clean_key (fst kz)) m ->
  NoDup (map (fun kz => upper (strip (fst kz))) m) ->
  parse_ini default_cfg (map int_line m) = Ok (map int_entry m).
Proof. intros HF Hnd. unfold parse_ini. now rewrite parse_ini_ints. Qed.

Example ini_int_mapping_example :
  let m := [([112; 111; 114; 116], 8080%Z); ([82; 101; 116; 114; 121; 32], (-3)%Z)]%N in
  Forall (fun kz => clean_key (fst kz)) m /\ NoDup (map (fun kz => upper (strip (fst kz))) m) /\
  map int_entry m = [([80; 79; 82; 84], IInt 8080); ([82; 69; 84; 82; 89], IInt (-3))]%N.
Proof.
  cbn zeta. split; [|split].
  - repeat constructor; try (eexists; eexists; split; reflexivity); try reflexivity;
      cbn; intuition discriminate.
  - repeat constructor; cbn; intuition discriminate.
  - vm_compute. reflexivity.
Qed.
