(* Codec/SerializeInjective.v — the delimited encodings are unambiguous: a
   joined list determines its items, a serialised flat mapping its entries. *)
From Coq Require Import List NArith ZArith.
From N0 Require Import Base.PyStr Base.PyVal Codec.Util Codec.Split Codec.SplitProofs Codec.Serialize Codec.SerializeProofs.
Import ListNotations.

Theorem join_injective d e (l1 l2 : list pstr) :
  l1 <> [] -> l2 <> [] ->
  Forall (fun it => ~ In d it) l1 -> Forall (fun it => ~ In d it) l2 ->
  Forall (fun it => ~ In e it) l1 -> Forall (fun it => ~ In e it) l2 ->
  join [d] l1 = join [d] l2 -> l1 = l2.
Proof.
  intros N1 N2 D1 D2 E1 E2 H.
  rewrite <- (join_split l1 d e true N1 D1 E1), <- (join_split l2 d e true N2 D2 E2), H. reflexivity.
Qed.

Lemma flat_injective m1 m2 : flat m1 = flat m2 -> m1 = m2.
Proof.
  revert m2. induction m1 as [|[k v] r IH]; intros [|[k2 v2] r2]; cbn; intros H; try discriminate; [reflexivity|].
  inversion H as [[Hk Hv Hr]]. subst. f_equal. now apply IH.
Qed.

(* two flat mappings serialised (same delimiter and equal tag) to the same text are the same mapping *)
Theorem serialize_injective d eq c1 c2 m1 m2 s :
  (d < 128)%N -> (eq < 128)%N -> d <> eq -> safe_sep d -> safe_sep eq ->
  keys_ok d eq m1 -> Forall (fun kv => non_ascii (snd kv) = false) m1 ->
  keys_ok d eq m2 -> Forall (fun kv => non_ascii (snd kv) = false) m2 ->
  serialize_dict (dcfg d eq) (Dict c1 (flat m1)) = Ok (Some s) ->
  serialize_dict (dcfg d eq) (Dict c2 (flat m2)) = Ok (Some s) ->
  m1 = m2.
Proof.
  intros Hd He Hne Sd Se K1 A1 K2 A2 S1 S2.
  destruct (serialize_round_trip d eq c1 m1 Hd He Hne Sd Se K1 A1) as [s1 [G1 [_ [_ U1]]]].
  destruct (serialize_round_trip d eq c2 m2 Hd He Hne Sd Se K2 A2) as [s2 [G2 [_ [_ U2]]]].
  assert (s1 = s) by congruence. assert (s2 = s) by congruence. subst s1 s2.
  rewrite U1 in U2. apply flat_injective. congruence.
Qed.
