(* Codec/FwfProofs.v — proofs about the fixed-width model (C16). *)
From Coq Require Import List NArith ZArith Bool Lia.
From N0 Require Import Base.PyStr Base.PyVal Codec.Util Codec.Fwf.
Import ListNotations.

(* ---- slices of concatenations -------------------------------------------------------- *)
Lemma slice_pre (F X : pstr) a b : b <= length F -> slice (F ++ X) a b = slice F a b.
Proof.
  intros Hb. unfold slice. destruct (Nat.le_gt_cases a (length F)) as [Ha|Ha].
  - rewrite skipn_app. replace (a - length F) with 0 by lia. cbn [skipn].
    rewrite firstn_app, skipn_length. replace (b - a - (length F - a)) with 0 by lia.
    cbn [firstn]. apply app_nil_r.
  - replace (b - a) with 0 by lia. reflexivity.
Qed.

Lemma slice_suf (P S : pstr) a b : length P <= a -> slice (P ++ S) a b = slice S (a - length P) (b - length P).
Proof.
  intros Ha. unfold slice. rewrite skipn_app, skipn_all2 by assumption. cbn [app].
  f_equal. lia.
Qed.

Lemma slice_mid (F M S : pstr) : slice (F ++ M ++ S) (length F) (length F + length M) = M.
Proof.
  unfold slice. rewrite skipn_app_exact. replace (length F + length M - length F) with (length M) by lia.
  apply firstn_app_exact.
Qed.

Lemma slice_repeat c L a b : b <= L -> slice (repeat c L) a b = repeat c (b - a).
Proof.
  intros Hb. unfold slice.
  assert (S1 : forall n m, skipn n (repeat c m) = repeat c (m - n)).
  { induction n as [|n IH]; intros m; [now rewrite Nat.sub_0_r|]. destruct m; [reflexivity|]. simpl. apply IH. }
  assert (F1 : forall n m, n <= m -> firstn n (repeat c m) = repeat c n).
  { induction n as [|n IH]; intros m Hm; [reflexivity|]. destruct m; [lia|]. simpl. f_equal. apply IH. lia. }
  rewrite S1. apply F1. lia.
Qed.

Lemma skipn_skipn' {A} a b (l : list A) : skipn a (skipn b l) = skipn (b + a) l.
Proof.
  revert l; induction b as [|b IH]; intros l; [reflexivity|].
  destruct l; [now rewrite !skipn_nil|]. simpl. apply IH.
Qed.

(* ---- splice ---------------------------------------------------------------------------- *)
Section splice.
Variables (row text : pstr) (off till : nat).
Hypothesis Htill : till = off + length text.
Hypothesis Hlen : till <= length row.

Lemma firstn_off_len : length (firstn off row) = off.
Proof. rewrite firstn_length. lia. Qed.

Lemma splice_length : length (splice row off till text) = length row.
Proof. unfold splice. rewrite !app_length, firstn_off_len, skipn_length. lia. Qed.

Lemma splice_own : slice (splice row off till text) off till = text.
Proof.
  pose proof (slice_mid (firstn off row) text (skipn till row)) as H.
  rewrite firstn_off_len in H. unfold splice. rewrite Htill at 2. exact H.
Qed.

Lemma splice_frame a b : b <= off \/ till <= a -> slice (splice row off till text) a b = slice row a b.
Proof.
  intros H. rewrite <- (firstn_skipn off row) at 2.
  rewrite <- (firstn_skipn (till - off) (skipn off row)).
  assert (E : skipn (till - off) (skipn off row) = skipn till row).
  { rewrite skipn_skipn'. f_equal. lia. }
  rewrite E. unfold splice. destruct H as [H|H].
  - rewrite !slice_pre by (rewrite firstn_off_len; lia). reflexivity.
  - rewrite (app_assoc (firstn off row) text), (app_assoc (firstn off row) (firstn _ _)).
    assert (L1 : length (firstn off row ++ text) = till) by (rewrite app_length, firstn_off_len; lia).
    assert (L2 : length (firstn off row ++ firstn (till - off) (skipn off row)) = till).
    { rewrite app_length, firstn_off_len, firstn_length, skipn_length. lia. }
    rewrite !slice_suf by lia. now rewrite L1, L2.
Qed.
End splice.

(* ---- generate_fwf_row on a clean layout ---------------------------------------------------- *)
Definition printable (v : scalar) : bool :=
  match v with SFlt _ | SBytes _ => false | _ => true end.

Definition str_total (v : scalar) : pstr :=
  match str_of_scalar v with Ok s => s | _ => [] end.

Lemma str_of_printable v : printable v = true -> str_of_scalar v = Ok (str_total v).
Proof. destruct v; simpl; intros H; try discriminate; reflexivity. Qed.

Definition rec_printable (rcd : list (pstr * scalar)) : Prop :=
  Forall (fun kv => printable (snd kv) = true) rcd.

Lemma lookup_In {A} k (l : list (pstr * A)) v : lookup k l = Some v -> exists k', In (k', v) l.
Proof.
  induction l as [|[k' v'] r IH]; simpl; [discriminate|].
  destruct (pstr_eqb k k'); intros H.
  - inversion H; subst. exists k'. now left.
  - destruct (IH H) as [k'' Hin]. exists k''. now right.
Qed.

(* the expected content of a column *)
Definition cell (rcd : list (pstr * scalar)) (fc : N) (c : gcol) : pstr :=
  match lookup (g_name c) rcd with
  | Some v => fit_col c (str_total v)
  | None => repeat fc (g_size c)
  end.

Lemma fit_col_length c s : length (fit_col c s) = g_size c.
Proof.
  unfold fit_col. rewrite firstn_length. destruct (g_int c).
  - rewrite zfill_length. lia.
  - rewrite ljust_length. lia.
Qed.

Definition col_ok (L : nat) (c : gcol) : Prop := g_till c = g_offset c + g_size c /\ g_till c <= L.
Definition disjoint (c1 c2 : gcol) : Prop := g_till c1 <= g_offset c2 \/ g_till c2 <= g_offset c1.

Definition write (rcd : list (pstr * scalar)) (row : pstr) (c : gcol) : pstr :=
  match lookup (g_name c) rcd with
  | Some v => splice row (g_offset c) (g_till c) (fit_col c (str_total v))
  | None => row
  end.

Lemma gen_step_write rcd row c : rec_printable rcd -> gen_step rcd (Ok row) c = Ok (write rcd row c).
Proof.
  intros Hp. unfold gen_step, write. cbn [bind]. destruct (lookup (g_name c) rcd) as [v|] eqn:E; [|reflexivity].
  destruct (lookup_In _ _ _ E) as [k' Hin]. unfold rec_printable in Hp. rewrite Forall_forall in Hp.
  rewrite (str_of_printable v (Hp _ Hin)). reflexivity.
Qed.

Lemma write_length rcd row c L : length row = L -> col_ok L c -> length (write rcd row c) = L.
Proof.
  intros Hl [Ht Hle]. unfold write. destruct (lookup _ _); [|assumption].
  rewrite splice_length; [assumption| rewrite fit_col_length; lia | lia].
Qed.

Lemma write_frame rcd row c L a b : length row = L -> col_ok L c ->
  b <= g_offset c \/ g_till c <= a -> slice (write rcd row c) a b = slice row a b.
Proof.
  intros Hl [Ht Hle] H. unfold write. destruct (lookup _ _); [|reflexivity].
  apply splice_frame; [rewrite fit_col_length; lia | lia | assumption].
Qed.

Lemma write_own rcd row c L : length row = L -> col_ok L c ->
  slice (write rcd row c) (g_offset c) (g_till c) =
  match lookup (g_name c) rcd with Some v => fit_col c (str_total v) | None => slice row (g_offset c) (g_till c) end.
Proof.
  intros Hl [Ht Hle]. unfold write. destruct (lookup _ _); [|reflexivity].
  apply splice_own; [rewrite fit_col_length; lia | lia].
Qed.

Lemma fold_frame rcd L : rec_printable rcd -> forall cols row a b,
  length row = L -> Forall (col_ok L) cols ->
  (forall c, In c cols -> b <= g_offset c \/ g_till c <= a) ->
  exists row', fold_left (gen_step rcd) cols (Ok row) = Ok row' /\ length row' = L /\ slice row' a b = slice row a b.
Proof.
  intros Hp. induction cols as [|c r IH]; intros row a b Hl HF Hd.
  - exists row. auto.
  - pose proof (Forall_inv HF) as Hc. pose proof (Forall_inv_tail HF) as Hr.
    cbn [fold_left]. rewrite gen_step_write by assumption.
    destruct (IH (write rcd row c) a b) as [row' [E [L' S']]].
    + now apply write_length.
    + assumption.
    + intros c' Hin. apply Hd. now right.
    + exists row'. repeat split; try assumption. rewrite S'. eapply write_frame; eauto. apply Hd. now left.
Qed.

Lemma fold_cells rcd L : rec_printable rcd -> forall cols row,
  length row = L -> Forall (col_ok L) cols -> ForallOrdPairs disjoint cols ->
  exists row', fold_left (gen_step rcd) cols (Ok row) = Ok row' /\ length row' = L /\
    forall c, In c cols ->
      slice row' (g_offset c) (g_till c) =
      match lookup (g_name c) rcd with Some v => fit_col c (str_total v) | None => slice row (g_offset c) (g_till c) end.
Proof.
  intros Hp. induction cols as [|c0 r IH]; intros row Hl HF HD.
  - exists row. repeat split; auto. intros c [].
  - pose proof (Forall_inv HF) as Hc. pose proof (Forall_inv_tail HF) as Hr.
    assert (HD' : Forall (disjoint c0) r /\ ForallOrdPairs disjoint r) by (inversion HD; auto).
    destruct HD' as [Hd0 Hdr].
    cbn [fold_left]. rewrite gen_step_write by assumption.
    pose proof (write_length rcd row c0 L Hl Hc) as Hl1.
    destruct (IH (write rcd row c0) Hl1 Hr Hdr) as [row' [E [L' S']]].
    exists row'. repeat split; try assumption.
    intros c [<-|Hin].
    + (* the first column: untouched by the later ones *)
      destruct (fold_frame rcd _ Hp r (write rcd row c0) (g_offset c0) (g_till c0) Hl1 Hr) as [row2 [E2 [_ S2]]].
      * intros c' Hc'. rewrite Forall_forall in Hd0. specialize (Hd0 c' Hc'). unfold disjoint in Hd0. lia.
      * rewrite E in E2. inversion E2; subst row2. rewrite S2. eapply write_own; eauto.
    + rewrite (S' c Hin). destruct (lookup (g_name c) rcd); [reflexivity|].
      eapply write_frame; eauto. rewrite Forall_forall in Hd0. specialize (Hd0 c Hin). unfold disjoint in Hd0. lia.
Qed.

Lemma till_le_row_len cols : Forall (fun c => g_till c <= row_len cols) cols.
Proof.
  induction cols as [|c r IH]; [constructor|]. cbn [row_len fold_right]. constructor; [lia|].
  eapply Forall_impl; [|exact IH]. cbn beta. intros a Ha. fold (row_len r). lia.
Qed.

Lemma concat_repeat_single (fc : N) n : concat (repeat [fc] n) = repeat fc n.
Proof. induction n as [|n IH]; [reflexivity|]. simpl. now rewrite IH. Qed.

(* ---- parse_fwf_row with the derived layout --------------------------------------------------- *)
Lemma update_notin {A} k (v : A) acc : ~ In k (map fst acc) -> update k v acc = acc ++ [(k, v)].
Proof.
  induction acc as [|[k' v'] r IH]; intros Hn; [reflexivity|]. simpl in *.
  destruct (pstr_eqb k k') eqn:E; [apply pstr_eqb_eq in E; subst; exfalso; apply Hn; now left|].
  rewrite IH; [reflexivity|]. intros Hi. apply Hn. now right.
Qed.

Lemma parse_cols_derived row v : forall cols acc,
  NoDup (map fst acc ++ map g_name cols) ->
  parse_cols row v (map pcol_of_gcol cols) acc =
  Ok (PDict (acc ++ map (fun c => (g_name c, t_str (slice row (g_offset c) (g_offset c + g_size c)))) cols)).
Proof.
  induction cols as [|c r IH]; intros acc Hnd; cbn [map parse_cols].
  - now rewrite app_nil_r.
  - cbn [pcol_of_gcol p_valid nonempty_list p_name]. rewrite andb_false_r.
    unfold col_value. cbn [p_offset p_till p_width tree_of_value].
    rewrite update_notin.
    + rewrite IH.
      * now rewrite <- app_assoc.
      * rewrite map_app. cbn [map fst]. rewrite <- app_assoc. exact Hnd.
    + cbn [map] in Hnd. apply NoDup_remove_2 in Hnd. intros Hi. apply Hnd. apply in_or_app. now left.
Qed.

(* ---- [core] round trip ----------------------------------------------------------------------- *)
Definition layout_ok (cols : list gcol) : Prop :=
  Forall (fun c => g_till c = g_offset c + g_size c) cols /\ ForallOrdPairs disjoint cols.

Theorem fwf_round_trip rcd cols fc :
  cols <> [] -> layout_ok cols -> NoDup (map g_name cols) -> rec_printable rcd ->
  exists row, gen_row rcd cols [fc] = Ok row /\ length row = row_len cols /\
    parse_row row (map pcol_of_gcol cols) true =
      Ok (PDict (map (fun c => (g_name c, t_str (cell rcd fc c))) cols)).
Proof.
  intros Hne [Ht Hd] Hnd Hp.
  assert (HF : Forall (col_ok (row_len cols)) cols).
  { pose proof (till_le_row_len cols) as Hl. rewrite Forall_forall in *. intros c Hc. split; auto. }
  destruct (fold_cells rcd (row_len cols) Hp cols (repeat fc (row_len cols))) as [row [E [L S]]];
    [apply repeat_length|assumption|assumption|].
  exists row. repeat split.
  - unfold gen_row. destruct cols; [congruence|]. now rewrite concat_repeat_single.
  - assumption.
  - unfold parse_row. destruct (map pcol_of_gcol cols) eqn:Em; [destruct cols; [congruence|discriminate]|].
    rewrite <- Em. rewrite parse_cols_derived by exact Hnd. cbn [app]. do 2 f_equal.
    apply map_ext_in. intros c Hc. f_equal. f_equal.
    rewrite Forall_forall in HF. destruct (HF c Hc) as [Htc Hlc]. rewrite <- Htc, (S c Hc).
    unfold cell. destruct (lookup (g_name c) rcd); [reflexivity|].
    rewrite slice_repeat by assumption. f_equal. lia.
Qed.

(* each parsed column has exactly the column's size, whatever the value was *)
Lemma cell_length rcd fc c : length (cell rcd fc c) = g_size c.
Proof. unfold cell. destruct (lookup _ _); [apply fit_col_length|apply repeat_length]. Qed.

(* ---- load_fwf: every row is filed exactly once ------------------------------------------------ *)
Lemma parse_cols_fail_row row v : forall cols acc r m,
  parse_cols row v cols acc = Ok (PFail r m) -> r = row.
Proof.
  induction cols as [|c cs IH]; intros acc r m H; cbn [parse_cols] in H; [discriminate|].
  destruct (v && nonempty_list (p_valid c)).
  - destruct (count_failed (p_valid c) (col_value row c) row) as [n| | |]; cbn [bind] in H; try discriminate.
    destruct n; [eapply IH; eauto|]. now inversion H.
  - eapply IH; eauto.
Qed.

Lemma parse_row_fail_row row fmt v r m : parse_row row fmt v = Ok (PFail r m) -> r = row.
Proof. unfold parse_row. destruct fmt; [discriminate|]. apply parse_cols_fail_row. Qed.

Definition lift (acc rej : list tree) (r : res (list tree * list tree)) : res (list tree * list tree) :=
  do a <- r;; Ok (acc ++ fst a, rej ++ snd a).

Lemma file_row_acc line fmt v orig idx acc rej :
  file_row line fmt v orig idx acc rej = lift acc rej (file_row line fmt v orig idx [] []).
Proof.
  unfold file_row, lift. destruct (parse_row line fmt v) as [[kvs|row msg]| | |]; cbn [bind fst snd app]; try reflexivity.
  - now rewrite app_nil_r.
  - now rewrite app_nil_r.
Qed.

Lemma last_cons {A} (l : A) rest p : last (l :: rest) p = last rest l.
Proof. revert l; induction rest as [|x r IH]; intros l; [reflexivity|]. cbn [last] in *. destruct r; [reflexivity|]. apply IH. Qed.

Section load.
Variables (hdr body footer : list pcol) (orig : option pstr).

(* what happens to one line: nothing if it is empty, else one entry in exactly one list *)
Definition outcome (fmt : list pcol) (idx : option nat) (line : pstr) : res (list tree * list tree) :=
  if nonempty_str line then file_row line fmt true orig idx [] [] else Ok ([], []).

Definition inner_fmt (j : nat) : list pcol := if Nat.eqb j 0 then hdr else body.

(* Spec: line j of the file (0-based) is handled with the header layout when
   j = 0, the body layout otherwise, and the footer layout when it is the last
   line; the outcomes are concatenated in file order. *)
Fixpoint spec (j : nat) (lines : list pstr) : res (list tree * list tree) :=
  match lines with
  | [] => Ok ([], [])
  | l :: rest =>
    match rest with
    | [] => outcome footer None l
    | _ => do a <- outcome (inner_fmt j) (Some (S j)) l;;
           do b <- spec (S j) rest;;
           Ok (fst a ++ fst b, snd a ++ snd b)
    end
  end.

(* all lines but the last (the part done inside the for-loop) *)
Fixpoint spec_init (j : nat) (lines : list pstr) : res (list tree * list tree) :=
  match lines with
  | [] => Ok ([], [])
  | l :: rest =>
    match rest with
    | [] => Ok ([], [])
    | _ => do a <- outcome (inner_fmt j) (Some (S j)) l;;
           do b <- spec_init (S j) rest;;
           Ok (fst a ++ fst b, snd a ++ snd b)
    end
  end.

Lemma spec_split j lines : lines <> [] ->
  spec j lines = do a <- spec_init j lines;; do b <- outcome footer None (last lines []);;
                 Ok (fst a ++ fst b, snd a ++ snd b).
Proof.
  revert j; induction lines as [|l rest IH]; intros j Hne; [congruence|].
  destruct rest as [|l2 rest2].
  - cbn [spec spec_init last bind fst snd app]. destruct (outcome footer None l) as [[a r]| | |]; reflexivity.
  - change (spec j (l :: l2 :: rest2)) with
      (do a <- outcome (inner_fmt j) (Some (S j)) l;; do b <- spec (S j) (l2 :: rest2);; Ok (fst a ++ fst b, snd a ++ snd b)).
    change (spec_init j (l :: l2 :: rest2)) with
      (do a <- outcome (inner_fmt j) (Some (S j)) l;; do b <- spec_init (S j) (l2 :: rest2);; Ok (fst a ++ fst b, snd a ++ snd b)).
    change (last (l :: l2 :: rest2) []) with (last (l2 :: rest2) []).
    rewrite IH by discriminate.
    destruct (outcome (inner_fmt j) (Some (S j)) l) as [a| | |]; cbn [bind]; try reflexivity.
    destruct (spec_init (S j) (l2 :: rest2)) as [b| | |]; cbn [bind]; try reflexivity.
    destruct (outcome footer None (last (l2 :: rest2) [])) as [c| | |]; cbn [bind fst snd]; try reflexivity.
    now rewrite !app_assoc.
Qed.

Lemma loop_spec : forall lines i p acc rej,
  load_loop lines (S i) (Some p) hdr body true orig acc rej =
  do a <- spec_init i (p :: lines);; Ok ((acc ++ fst a, rej ++ snd a), Some (last lines p)).
Proof.
  induction lines as [|l rest IH]; intros i p acc rej.
  - cbn [load_loop spec_init bind fst snd last]. now rewrite !app_nil_r.
  - cbn [load_loop].
    change (spec_init i (p :: l :: rest)) with
      (do a <- outcome (inner_fmt i) (Some (S i)) p;; do b <- spec_init (S i) (l :: rest);; Ok (fst a ++ fst b, snd a ++ snd b)).
    rewrite last_cons.
    unfold outcome at 1, inner_fmt at 1. cbn [Nat.eqb].
    replace (match i with 0 => true | S _ => false end) with (Nat.eqb i 0) by (destruct i; reflexivity).
    destruct (nonempty_str p).
    + rewrite file_row_acc. unfold lift.
      destruct (file_row p (if Nat.eqb i 0 then hdr else body) true orig (Some (S i)) [] []) as [a| | |]; cbn [bind]; try reflexivity.
      cbn [fst snd]. rewrite IH.
      destruct (spec_init (S i) (l :: rest)) as [b| | |]; cbn [bind fst snd]; try reflexivity.
      now rewrite !app_assoc.
    + cbn [bind fst snd]. rewrite IH.
      destruct (spec_init (S i) (l :: rest)) as [b| | |]; cbn [bind fst snd app]; reflexivity.
Qed.
End load.

Definition eff_body (hdr : list pcol) (body : option (list pcol)) : list pcol :=
  match body with Some (c :: r) => c :: r | _ => hdr end.
Definition eff_footer (hdr : list pcol) (body footer : option (list pcol)) : list pcol :=
  match footer with Some (c :: r) => c :: r | _ => eff_body hdr body end.

Lemma last_default {A} (l : list A) a b : l <> [] -> last l a = last l b.
Proof. induction l as [|x [|y r] IH]; intros H; [congruence|reflexivity|]. apply IH. discriminate. Qed.

(* [core] the loop with the lagging previous_row and the two accumulators is the
   line-by-line specification *)
Theorem load_fwf_spec lines hdr body footer orig : hdr <> [] ->
  load_fwf lines hdr body footer true orig =
  res_map (fun p => t_list [t_list (fst p); t_list (snd p)])
          (spec hdr (eff_body hdr body) (eff_footer hdr body footer) orig 0 lines).
Proof.
  intros Hh. unfold load_fwf. destruct hdr as [|h0 hr] eqn:Eh; [congruence|]. rewrite <- Eh.
  fold (eff_body hdr body). fold (eff_footer hdr body footer).
  destruct lines as [|l rest].
  - reflexivity.
  - cbn [load_loop bind fst snd]. rewrite loop_spec.
    rewrite spec_split by discriminate.
    destruct (spec_init hdr (eff_body hdr body) orig 0 (l :: rest)) as [a| | |]; cbn [bind res_map]; try reflexivity.
    cbn [fst snd app].
    rewrite (last_cons l rest []).
    unfold outcome. destruct (nonempty_str (last rest l)).
    + rewrite file_row_acc. unfold lift.
      destruct (file_row (last rest l) _ true orig None [] []) as [b| | |]; cbn [bind res_map fst snd]; reflexivity.
    + cbn [bind res_map fst snd]. now rewrite !app_nil_r.
Qed.

(* one non-empty line contributes exactly one entry, to exactly one of the lists,
   and a rejected entry carries the line itself *)
Lemma outcome_shape orig fmt idx line a r : outcome orig fmt idx line = Ok (a, r) ->
  (line = [] /\ a = [] /\ r = []) \/
  (line <> [] /\ ((exists d, a = [d] /\ r = []) \/ (exists msg, a = [] /\ r = [t_fail idx line msg]))).
Proof.
  unfold outcome. destruct line as [|c s]; cbn [nonempty_str].
  - intros H. inversion H. left. auto.
  - intros H. right. split; [discriminate|]. unfold file_row in H.
    destruct (parse_row (c :: s) fmt true) as [[kvs|row msg]| | |] eqn:E; cbn [bind app] in H; try discriminate.
    + inversion H. left. eauto.
    + inversion H. apply parse_row_fail_row in E. subst row. right. eauto.
Qed.

(* [core] partition: the numbers of accepted and rejected rows add up to the number of non-empty lines *)
Theorem load_fwf_partition hdr body footer orig : forall lines j a r,
  spec hdr body footer orig j lines = Ok (a, r) ->
  length a + length r = length (filter nonempty_str lines).
Proof.
  induction lines as [|l rest IH]; intros j a r H.
  - inversion H. reflexivity.
  - destruct rest as [|l2 rest2].
    + cbn [spec] in H. apply outcome_shape in H.
      destruct H as [[-> [-> ->]]|[Hne [[d [-> ->]]|[msg [-> ->]]]]]; cbn [filter nonempty_str length]; try reflexivity;
        destruct l; try congruence; reflexivity.
    + change (spec hdr body footer orig j (l :: l2 :: rest2)) with
        (do a <- outcome orig (inner_fmt hdr body j) (Some (S j)) l;;
         do b <- spec hdr body footer orig (S j) (l2 :: rest2);; Ok (fst a ++ fst b, snd a ++ snd b)) in H.
      destruct (outcome orig (inner_fmt hdr body j) (Some (S j)) l) as [[a1 r1]| | |] eqn:E1; cbn [bind] in H; try discriminate.
      destruct (spec hdr body footer orig (S j) (l2 :: rest2)) as [[a2 r2]| | |] eqn:E2; cbn [bind fst snd] in H; try discriminate.
      inversion H; subst a r. rewrite !app_length. specialize (IH _ _ _ E2).
      apply outcome_shape in E1. change (filter nonempty_str (l :: l2 :: rest2)) with
        (if nonempty_str l then l :: filter nonempty_str (l2 :: rest2) else filter nonempty_str (l2 :: rest2)).
      destruct E1 as [[-> [-> ->]]|[Hne [[d [-> ->]]|[msg [-> ->]]]]]; cbn [nonempty_str length]; try lia;
        destruct l; try congruence; cbn [nonempty_str length]; lia.
Qed.

Example fwf_example :
  let cols := [ {| g_name := [65]; g_offset := 0; g_size := 3; g_till := 3; g_int := false |};
                {| g_name := [66]; g_offset := 3; g_size := 4; g_till := 7; g_int := true |};
                {| g_name := [67]; g_offset := 9; g_size := 2; g_till := 11; g_int := false |} ]%N in
  let rcd := [([65], SStr [97; 98]); ([66], SInt (-12))]%N in
  cols <> [] /\ layout_ok cols /\ NoDup (map g_name cols) /\ rec_printable rcd /\
  gen_row rcd cols [46]%N = Ok [97; 98; 32; 45; 48; 49; 50; 46; 46; 46; 46]%N.
Proof.
  cbn zeta. split; [discriminate|]. split; [|split; [|split]].
  - split; [repeat constructor|]. repeat constructor; unfold disjoint; cbn; lia.
  - repeat constructor; cbn; intuition discriminate.
  - repeat constructor.
  - vm_compute. reflexivity.
Qed.
