(* Codec/Ini.v — model of n0struct_comprehensions.parse_ini with
   default_parse_value, n0struct_arrays.split_pair and n0struct_utils.isnumber
   (as repaired by the two "fix:" commits: a lone '.' and a sign followed by
   blanks are not numbers), and of the text save_file writes for a mapping.

   Scope: the default parse_key / parse_value / default_value ('') and
   concatenate_sign; a single-character equal tag; comment tags are a list of
   strings.  A float value is observed as the text "float:" ++ repr(value); the
   model produces that text for decimal literals with at most 8 integer and 7
   fraction digits that repr() prints positionally, anything else (exponent
   output, more digits) is Unmodelled.  Code points >= 128 in a candidate number
   or key (str.isnumeric / str.upper are Unicode-aware) are Unmodelled. *)
From Coq Require Import List NArith ZArith Bool Lia.
From N0 Require Import Base.PyStr Base.PyVal Codec.Util.
Import ListNotations.

Definition PLUS : N := 43%N.
Definition MINUS : N := 45%N.
Definition DOT : N := 46%N.
Definition float_tag : pstr := [102; 108; 111; 97; 116; 58]%N.   (* "float:" *)

(* code points whose str.isnumeric() the model does not know: everything above
   Latin-1, and the Latin-1 numerics (superscripts 2 3 1, fractions) *)
Definition exotic (c : N) : bool := (256 <=? c)%N || mem_chr c [178; 179; 185; 188; 189; 190]%N.

(* isnumber(s) for a str, max_len None *)
Definition isnumber (s : pstr) : res bool :=
  if existsb exotic s then Unmodelled else
  let v := strip s in
  let v1 := match v with c :: r => if N.eqb c PLUS || N.eqb c MINUS then r else v | [] => v end in
  let v2 := if Nat.eqb (count_occ N.eq_dec v1 DOT) 1 then filter (fun c => negb (N.eqb c DOT)) v1 else v1 in
  Ok (match v2 with [] => false | _ => forallb is_digit v2 end).

Definition nonempty_s (s : pstr) : bool := match s with [] => false | _ => true end.

Fixpoint lstrip_zeros (s : pstr) : pstr :=
  match s with
  | c :: r => if N.eqb c 48 then lstrip_zeros r else s
  | [] => []
  end.
Definition rstrip_zeros (s : pstr) : pstr := rev (lstrip_zeros (rev s)).

Fixpoint take_until (d : N) (s : pstr) : pstr * pstr :=
  match s with
  | [] => ([], [])
  | c :: r => if N.eqb c d then ([], r) else let '(a, b) := take_until d r in (c :: a, b)
  end.

(* "float:" ++ repr(round(float(s), 7)) for s = [sign] digits . digits *)
Definition float_repr (s : pstr) : res pstr :=
  let '(neg, body) := match s with
                      | c :: r => if N.eqb c MINUS then (true, r) else if N.eqb c PLUS then (false, r) else (false, s)
                      | [] => (false, s)
                      end in
  let '(ip, fp) := take_until DOT body in
  let ip' := lstrip_zeros ip in
  let fp' := rstrip_zeros fp in
  let small := match ip' with
               | [] => (4 <=? length fp' - length (lstrip_zeros fp'))%nat && nonempty_s fp'
               | _ => false
               end in
  if (8 <? length ip')%nat || (7 <? length fp)%nat || small then Unmodelled else
  Ok (float_tag ++ (if neg then [MINUS] else []) ++
      (match ip' with [] => [48%N] | _ => ip' end) ++ [DOT] ++
      (match fp' with [] => [48%N] | _ => fp' end)).

(* values of the resulting dict *)
Inductive ival := IStr (s : pstr) | IInt (z : Z) | IFlt (repr : pstr).

Definition str_of_ival (v : ival) : pstr :=
  match v with IStr s => s | IInt z => dec_of_Z z | IFlt r => r end.
Definition tree_of_ival (v : ival) : tree :=
  match v with IStr s => t_str s | IInt z => t_int z | IFlt r => t_str (float_tag ++ r) end.

Definition SQUOTE : N := 39%N.
Definition DQUOTE : N := 34%N.

Definition quoted_by (q : N) (s : pstr) : bool :=
  match s, rev s with
  | a :: _, b :: _ => N.eqb a q && N.eqb b q
  | _, _ => false
  end.

(* default_parse_value(('', x), default_value) *)
Definition default_parse_value (x : pstr) : res ival :=
  let s := strip x in
  do isn <- isnumber s;;
  if isn then
    if mem_chr DOT s then
      match float_repr s with
      | Ok r => Ok (IFlt (skipn (length float_tag) r))
      | Raise e => Raise e | OutOfFuel => OutOfFuel | Unmodelled => Unmodelled
      end
    else do z <- py_int s;; Ok (IInt z)
  else if (2 <=? length s)%nat && (quoted_by DQUOTE s || quoted_by SQUOTE s)
       then Ok (IStr (removelast (tl s)))
       else Ok (IStr s).

Record ini_cfg := { ic_eq : N; ic_comments : list pstr; ic_concat : pstr }.

(* parse_key((x, ''), '') = x.strip().upper() *)
Definition parse_key (x : pstr) : res pstr :=
  if non_ascii x then Unmodelled else Ok (upper (strip x)).

Definition ends_with_plus (k : pstr) : bool :=
  match rev k with c :: _ => N.eqb c PLUS | [] => false end.

(* one line of the for-loop *)
Definition ini_line (cfg : ini_cfg) (acc : list (pstr * ival)) (line : pstr) : res (list (pstr * ival)) :=
  let stripped := lstrip_set py_ws line in
  if nonempty_s stripped && negb (existsb (startswith stripped) (ic_comments cfg)) then
    let '(l, r) := if mem_chr (ic_eq cfg) stripped then take_until (ic_eq cfg) stripped else (stripped, []) in
    do key <- parse_key l;;
    do value <- default_parse_value r;;
    if ends_with_plus key then
      let key' := removelast key in
      let value' := match lookup key' acc with
                    | Some old => str_of_ival old ++ str_of_ival value
                    | None => ic_concat cfg ++ str_of_ival value
                    end in
      Ok (update key' (IStr value') acc)
    else Ok (update key value acc)
  else Ok acc.

Fixpoint parse_ini_go (cfg : ini_cfg) (acc : list (pstr * ival)) (lines : list pstr) : res (list (pstr * ival)) :=
  match lines with
  | [] => Ok acc
  | l :: r => do acc' <- ini_line cfg acc l;; parse_ini_go cfg acc' r
  end.

Definition parse_ini (cfg : ini_cfg) (lines : list pstr) : res (list (pstr * ival)) :=
  parse_ini_go cfg [] lines.

(* the lines save_file writes for a mapping: f"{key}{equal_tag}{value}" *)
Definition str_of_value (x : scalar) : res pstr :=
  match x with
  | SStr s => Ok s
  | SInt z => Ok (dec_of_Z z)
  | SBool b => Ok (if b then str_True else str_False)
  | SNone => Ok str_None
  | _ => Unmodelled
  end.

Fixpoint ini_lines_of (eq : N) (m : list (pstr * scalar)) : res (list pstr) :=
  match m with
  | [] => Ok []
  | (k, v) :: r => do s <- str_of_value v;; do t <- ini_lines_of eq r;; Ok ((k ++ eq :: s) :: t)
  end.

(* ---- observations -------------------------------------------------------------------- *)
Definition t_ini (l : list (pstr * ival)) : tree := Dict false (map (fun kv => (fst kv, tree_of_ival (snd kv))) l).

Definition res_map {A B} (f : A -> B) (r : res A) : res B :=
  match r with Ok a => Ok (f a) | Raise e => Raise e | OutOfFuel => OutOfFuel | Unmodelled => Unmodelled end.

Definition obs_parse_ini (x : ini_cfg * list pstr) : out := res_map t_ini (parse_ini (fst x) (snd x)).

(* load_ini(save_file(path, m)) with the default '=' *)
Definition default_cfg : ini_cfg := {| ic_eq := 61%N; ic_comments := [[35%N]; [47%N; 47%N]]; ic_concat := [22%N] |}.
Definition obs_ini_file (m : list (pstr * scalar)) : out :=
  match ini_lines_of 61%N m with
  | Ok lines => obs_parse_ini (default_cfg, lines)
  | Raise e => Raise e | OutOfFuel => OutOfFuel | Unmodelled => Unmodelled
  end.
