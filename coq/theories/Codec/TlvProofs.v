(* Codec/TlvProofs.v — proofs about the TLV model (C16). *)
From Coq Require Import List NArith ZArith Bool Lia.
From N0 Require Import Base.PyStr Base.PyVal Codec.Util Codec.Tlv.
Import ListNotations.

(* ---- py_int facts ------------------------------------------------------------- *)
Lemma py_int_nil : py_int [] = Raise ExValue.
Proof. reflexivity. Qed.

Lemma py_int_cases s :
  py_int s = Unmodelled \/ py_int s = Raise ExValue \/ exists n, py_int s = Ok n.
Proof.
  unfold py_int. destruct (non_ascii s); [now left|]. right.
  destruct (dig_go _ _ _); [right; eauto|now left].
Qed.

Lemma py_int_ascii s : non_ascii s = false -> py_int s <> Unmodelled.
Proof. unfold py_int. intros ->. destruct (dig_go _ _ _); discriminate. Qed.

(* ---- one loop iteration ------------------------------------------------------------ *)
Lemma tlv_go_step f tw lw rest : rest <> [] ->
  tlv_go (S f) tw lw rest =
  (do n <- py_int (firstn lw (skipn tw rest));;
   if (n <? 0)%Z then Raise ExValue else
   do ts <- tlv_go f tw lw (skipn (Z.to_nat n) (skipn lw (skipn tw rest)));;
   Ok ((firstn tw rest, n, firstn (Z.to_nat n) (skipn lw (skipn tw rest))) :: ts)).
Proof. destruct rest; [congruence|reflexivity]. Qed.

Lemma skipn_nonnil_lt {A} n (l : list A) : skipn n l <> [] -> n < length l.
Proof.
  intros H. destruct (Nat.lt_ge_cases n (length l)) as [|Hge]; [assumption|].
  rewrite skipn_all2 in H by assumption. congruence.
Qed.

Lemma firstn_nonnil {A} n (l : list A) : firstn n l <> [] -> l <> [] /\ 0 < n.
Proof. destruct n, l; simpl; intros H; try congruence. split; [discriminate|lia]. Qed.

(* ---- termination + tiling ------------------------------------------------------------ *)
Lemma tlv_go_spec f : forall tw lw s, length s < f ->
  tlv_go f tw lw s = Unmodelled \/
  tlv_go f tw lw s = Raise ExValue \/
  exists ts, tlv_go f tw lw s = Ok ts /\ tiles tw lw s ts.
Proof.
  induction f as [|f IH]; intros tw lw s Hf; [lia|].
  destruct s as [|c s'] eqn:Es.
  { right; right. exists []. split; [reflexivity|constructor]. }
  rewrite <- Es in *. assert (Hne : s <> []) by (subst; discriminate).
  rewrite tlv_go_step by assumption.
  set (t := firstn tw s). set (r1 := skipn tw s). set (fl := firstn lw r1). set (r2 := skipn lw r1).
  destruct (py_int_cases fl) as [E|[E|[n E]]]; rewrite E; cbn [bind]; [now left|now right; left|].
  destruct (Z.ltb_spec n 0) as [Hneg|Hpos]; [now right; left|].
  set (v := firstn (Z.to_nat n) r2). set (r3 := skipn (Z.to_nat n) r2).
  assert (Hfl : fl <> []) by (intros H; rewrite H, py_int_nil in E; discriminate).
  destruct (firstn_nonnil _ _ Hfl) as [Hr1 Hlw].
  assert (Htw : tw < length s) by (apply skipn_nonnil_lt; exact Hr1).
  assert (Ht : length t = tw) by (unfold t; rewrite firstn_length; lia).
  assert (Hsplit : s = t ++ fl ++ v ++ r3).
  { unfold t, fl, v, r3, r2, r1. now rewrite !firstn_skipn. }
  assert (Hlen : length r3 < length s).
  { unfold r3, r2, r1. rewrite !skipn_length. lia. }
  destruct (IH tw lw r3 ltac:(lia)) as [R|[R|[ts [R T]]]]; rewrite R; cbn [bind]; [now left|now right; left|].
  right; right. eexists; split; [reflexivity|].
  destruct r3 as [|c3 r3'] eqn:E3.
  - (* end of input: the last triplet, possibly cut short *)
    assert (ts = []) by (destruct f; simpl in R; congruence). subst ts.
    rewrite Hsplit, app_nil_r. apply tiles_last; try assumption.
    + unfold fl. rewrite firstn_length. lia.
    + unfold v. rewrite firstn_length. lia.
  - assert (H3 : skipn (Z.to_nat n) r2 <> []) by (fold r3; rewrite E3; discriminate).
    apply skipn_nonnil_lt in H3.
    assert (Hr2 : r2 <> []) by (intros H; rewrite H in H3; simpl in H3; lia).
    unfold r2 in Hr2. apply skipn_nonnil_lt in Hr2.
    rewrite Hsplit. apply tiles_full; try assumption.
    + unfold fl. rewrite firstn_length. lia.
    + unfold v. rewrite firstn_length. lia.
Qed.

Lemma tlv_go_ascii f : forall tw lw s, non_ascii s = false -> tlv_go f tw lw s <> Unmodelled.
Proof.
  assert (sub1 : forall n (s : pstr), non_ascii s = false -> non_ascii (firstn n s) = false).
  { intros n s H. rewrite <- (firstn_skipn n s), non_ascii_app in H. now apply orb_false_iff in H. }
  assert (sub2 : forall n (s : pstr), non_ascii s = false -> non_ascii (skipn n s) = false).
  { intros n s H. rewrite <- (firstn_skipn n s), non_ascii_app in H. now apply orb_false_iff in H. }
  induction f as [|f IH]; intros tw lw s Ha; [destruct s; discriminate|].
  destruct s as [|c s'] eqn:Es; [discriminate|]. rewrite <- Es in *.
  rewrite tlv_go_step by (subst; discriminate).
  destruct (py_int (firstn lw (skipn tw s))) eqn:E; cbn [bind]; try discriminate.
  - destruct (a <? 0)%Z; [discriminate|].
    pose proof (IH tw lw (skipn (Z.to_nat a) (skipn lw (skipn tw s))) ltac:(auto)) as H.
    destruct (tlv_go f tw lw _); cbn [bind]; congruence.
  - exfalso. revert E. apply py_int_ascii. auto.
Qed.

Theorem tlv_tiles tw lw s : non_ascii s = false ->
  tlv_parse tw lw s = Raise ExValue \/
  exists ts, tlv_parse tw lw s = Ok ts /\ tiles tw lw s ts.
Proof.
  intros Ha. unfold tlv_parse.
  destruct (tlv_go_spec (S (length s)) tw lw s ltac:(lia)) as [H|H]; [|exact H].
  exfalso. revert H. now apply tlv_go_ascii.
Qed.

Theorem tlv_terminates tw lw s : tlv_parse tw lw s <> OutOfFuel.
Proof.
  unfold tlv_parse.
  destruct (tlv_go_spec (S (length s)) tw lw s ltac:(lia)) as [H|[H|[ts [H _]]]]; rewrite H; discriminate.
Qed.

(* a tiling accounts for every character exactly once *)
Lemma tiles_concat tw lw s ts : tiles tw lw s ts ->
  exists fs, length fs = length ts /\
    s = concat (map (fun x => fst (fst (fst x)) ++ snd x ++ snd (fst x)) (combine ts fs)) /\
    Forall (fun x => py_int (snd x) = Ok (snd (fst (fst x)))) (combine ts fs).
Proof.
  induction 1 as [|t f n v rest ts Ht Hf Hi Hn Hv _ [fs [L [E F]]]|t f n v Ht Hf Hne Hi Hn Hv].
  - exists []. repeat split; constructor.
  - exists (f :: fs). cbn [length combine map concat fst snd]. repeat split.
    + now rewrite L.
    + rewrite <- E. repeat rewrite <- app_assoc. reflexivity.
    + constructor; assumption.
  - exists [f]. cbn [length combine map concat fst snd]. repeat split.
    + now rewrite app_nil_r.
    + repeat constructor. assumption.
Qed.

(* ---- generation: refuse or fit ------------------------------------------------------------ *)
Lemma fitsb_spec tw lw kv : fitsb tw lw kv = true <-> fits tw lw kv.
Proof. unfold fitsb, fits. rewrite andb_true_iff, !Nat.leb_le. tauto. Qed.

Lemma gen_entry_cases tw lw tp lp kv :
  (fits tw lw kv /\
   gen_entry tw lw tp lp kv =
     Ok (ljust (fst kv) tw tp ++ rjust (dec_of_nat (length (snd kv))) lw lp ++ snd kv)) \/
  (~ fits tw lw kv /\ gen_entry tw lw tp lp kv = Raise ExAssertion).
Proof.
  destruct kv as [t v]. unfold gen_entry, fits. cbn [fst snd].
  destruct (Nat.leb_spec (length t) tw); [|right; split; [lia|reflexivity]].
  destruct (Nat.leb_spec (length (dec_of_nat (length v))) lw); [left|right]; split; (lia || reflexivity).
Qed.

Theorem tlv_refuses tw lw tp lp m :
  Exists (fun kv => ~ fits tw lw kv) m -> gen_tlv tw lw tp lp m = Raise ExAssertion.
Proof.
  induction m as [|kv r IH]; intros H; [inversion H|].
  cbn [gen_tlv]. destruct (gen_entry_cases tw lw tp lp kv) as [[Hf E]|[Hf E]]; rewrite E; cbn [bind]; [|reflexivity].
  inversion H as [? ? Hbad|? ? Hr]; subst; [contradiction|]. now rewrite IH.
Qed.

Theorem tlv_gen_ok_fits tw lw tp lp m s :
  gen_tlv tw lw tp lp m = Ok s -> Forall (fits tw lw) m.
Proof.
  revert s; induction m as [|kv r IH]; intros s H; [constructor|].
  cbn [gen_tlv] in H. destruct (gen_entry_cases tw lw tp lp kv) as [[Hf E]|[Hf E]]; rewrite E in H; cbn [bind] in H; [|discriminate].
  destruct (gen_tlv tw lw tp lp r) eqn:Er; cbn [bind] in H; try discriminate.
  constructor; [assumption|]. eapply IH. reflexivity.
Qed.

Theorem tlv_gen_total tw lw tp lp m :
  gen_tlv tw lw tp lp m = Raise ExAssertion \/ exists s, gen_tlv tw lw tp lp m = Ok s.
Proof.
  induction m as [|kv r IH]; [right; now exists []|].
  cbn [gen_tlv]. destruct (gen_entry_cases tw lw tp lp kv) as [[Hf E]|[Hf E]]; rewrite E; cbn [bind]; [|now left].
  destruct IH as [-> | [s ->]]; cbn [bind]; [now left|right; eauto].
Qed.

(* ---- round trip -------------------------------------------------------------------------------- *)
Lemma dec_of_nat_length_pos n : 0 < length (dec_of_nat n).
Proof.
  unfold dec_of_nat. pose proof (dec_of_N_nonempty (N.of_nat n)).
  destruct (dec_of_N (N.of_nat n)); [congruence|simpl; lia].
Qed.

Lemma tlv_go_gen tw lw tp lp : lp = 48%N \/ lp = 32%N ->
  forall m s f, Forall (fits tw lw) m -> gen_tlv tw lw tp lp m = Ok s -> length s < f ->
  tlv_go f tw lw s = Ok (map (expected_triplet tw tp) m).
Proof.
  intros Hlp. induction m as [|[t v] r IH]; intros s f HF Hg Hf.
  - cbn [gen_tlv] in Hg. inversion Hg; subst. destruct f; reflexivity.
  - inversion HF as [|? ? Hkv Hr]; subst. cbn [gen_tlv] in Hg.
    destruct (gen_entry_cases tw lw tp lp (t, v)) as [[_ E]|[Hn _]]; [|contradiction].
    rewrite E in Hg. cbn [bind fst snd] in Hg.
    destruct (gen_tlv tw lw tp lp r) as [b| | |] eqn:Er; cbn [bind] in Hg; try discriminate.
    inversion Hg; subst s; clear Hg.
    destruct Hkv as [Ht Hl]. cbn [fst snd] in Ht, Hl.
    set (T := ljust t tw tp). set (L := rjust (dec_of_nat (length v)) lw lp).
    assert (HT : length T = tw) by (unfold T; rewrite ljust_length; lia).
    assert (HL : length L = lw) by (unfold L; rewrite rjust_length; lia).
    pose proof (dec_of_nat_length_pos (length v)) as Hpos.
    destruct f as [|f]; [lia|].
    rewrite tlv_go_step.
    2:{ intros H. apply (f_equal (@length N)) in H. rewrite !app_length in H. simpl in H. lia. }
    rewrite <- !app_assoc.
    rewrite (skipn_app_exact' tw T) by congruence.
    rewrite (firstn_app_exact' tw T) by congruence.
    rewrite (firstn_app_exact' lw L) by congruence.
    rewrite (skipn_app_exact' lw L) by congruence.
    unfold L at 1. unfold dec_of_nat. rewrite py_int_rjust_dec by assumption. cbn [bind].
    rewrite nat_N_Z.
    destruct (Z.ltb_spec (Z.of_nat (length v)) 0) as [Hneg|_]; [lia|].
    rewrite Nat2Z.id, firstn_app_exact, skipn_app_exact.
    rewrite (IH b f Hr eq_refl).
    + reflexivity.
    + rewrite !app_length in Hf. fold T in Hf. fold L in Hf. lia.
Qed.

Theorem tlv_round_trip tw lw tp lp m : lp = 48%N \/ lp = 32%N ->
  Forall (fits tw lw) m ->
  exists s, gen_tlv tw lw tp lp m = Ok s /\
            tlv_parse tw lw s = Ok (map (expected_triplet tw tp) m).
Proof.
  intros Hlp HF. destruct (tlv_gen_total tw lw tp lp m) as [E|[s E]].
  - exfalso. revert E. clear Hlp. induction HF as [|kv r Hkv Hr IH]; cbn [gen_tlv]; [discriminate|].
    destruct (gen_entry_cases tw lw tp lp kv) as [[_ E]|[Hn _]]; [|contradiction].
    rewrite E; cbn [bind]. destruct (gen_tlv tw lw tp lp r); cbn [bind]; try discriminate. intros H. now apply IH.
  - exists s. split; [assumption|]. unfold tlv_parse. eapply tlv_go_gen; eauto.
Qed.

(* whatever generate_tlv emits (with a '0' or ' ' length padding) parses back *)
Corollary tlv_emitted_decodes tw lw tp lp m s : lp = 48%N \/ lp = 32%N ->
  gen_tlv tw lw tp lp m = Ok s ->
  tlv_parse tw lw s = Ok (map (expected_triplet tw tp) m).
Proof.
  intros Hlp Hg. destruct (tlv_round_trip tw lw tp lp m Hlp (tlv_gen_ok_fits _ _ _ _ _ _ Hg)) as [s' [E P]].
  congruence.
Qed.

(* non-vacuity / sanity *)
Example tlv_example :
  let m := [([48; 49], [80; 50]); ([97], []); ([48; 51], [49; 48; 48; 48; 48])]%N in
  Forall (fits 2 3) m /\
  gen_tlv 2 3 32 48 m =
    Ok [48;49;48;48;50;80;50; 97;32;48;48;48; 48;51;48;48;53;49;48;48;48;48]%N /\
  tlv_parse 2 3 [48;49;48;48;50;80;50; 97;32;48;48;48; 48;51;48;48;53;49;48;48;48;48]%N =
    Ok (map (expected_triplet 2 32) m) /\
  gen_tlv 2 3 32 48 [([48; 49; 50], [])]%N = Raise ExAssertion /\
  tlv_parse 2 3 [48;49;45;48;53]%N = Raise ExValue.
Proof. repeat split; try (vm_compute; reflexivity). repeat constructor. Qed.

(* ---- the fit condition in readable form ------------------------------------------------ *)
Theorem fits_readable tw lw kv : 1 <= lw ->
  (fits tw lw kv <-> length (fst kv) <= tw /\ (N.of_nat (length (snd kv)) < 10 ^ N.of_nat lw)%N).
Proof. intros H. unfold fits. now rewrite dec_len_fits. Qed.

Theorem fits_width0 tw kv : ~ fits tw 0 kv.
Proof. unfold fits. pose proof (dec_of_nat_length_pos (length (snd kv))). lia. Qed.

