(* Codec/Serialize.v — model of n0struct_utils.serialize_dict (as repaired by the
   two "fix:" commits: the integer capitalize_key is passed down to nested
   containers; reserved characters are written as \x + TWO hex digits) and of
   unescape (str.encode().decode('unicode_escape'), recursively through lists
   and dict values).

   Scope: delimiter and equal tag are single characters; leaves are
   str/int/bool/None (floats, bytes: Unmodelled); containers are dict / list
   (sets have no order).  Upper/lower-casing and unescape of code points >= 128
   are Unmodelled (str.upper is not ASCII-only; unescape re-reads the UTF-8
   bytes as Latin-1). *)
From Coq Require Import List NArith ZArith Bool Lia.
From N0 Require Import Base.PyStr Base.PyVal Codec.Util Codec.Split.
Import ListNotations.

Definition LBRACE : N := 123%N.
Definition RBRACE : N := 125%N.
Definition LBRACK : N := 91%N.
Definition RBRACK : N := 93%N.
Definition DQUOTE : N := 34%N.

(* ---- "\\x%02x" ------------------------------------------------------------------- *)
Definition hexdig (n : N) : N := if (n <? 10)%N then (48 + n)%N else (87 + n)%N.

(* minimal lower-case hex digits, most significant first; fuel bounds the digits *)
Fixpoint hex_aux (fuel : nat) (n : N) (acc : pstr) : pstr :=
  match fuel with
  | O => acc
  | S f => if (n <? 16)%N then hexdig n :: acc else hex_aux f (n / 16)%N (hexdig (n mod 16) :: acc)
  end.
Definition hex2 (c : N) : pstr :=
  if (c <? 16)%N then [48%N; hexdig c] else hex_aux 8 c [].
Definition hex_escape (c : N) : pstr := BSL :: 120%N :: hex2 c.

Definition dangerous (d eq : N) (c : N) : bool :=
  mem_chr c [LBRACE; RBRACE; LBRACK; RBRACK; DQUOTE; BSL; d; eq].

Definition protect (d eq : N) (s : pstr) : pstr :=
  flat_map (fun c => if dangerous d eq c then hex_escape c else [c]) s.

(* str.upper()/lower() on ASCII text; other text is outside the model *)
Definition capitalize (mode : Z) (s : pstr) : res pstr :=
  if (mode =? 0)%Z then Ok s
  else if non_ascii s then Unmodelled
  else Ok (if (0 <? mode)%Z then upper s else lower s).

Definition str_of_leaf (x : scalar) : res pstr :=
  match x with
  | SStr s => Ok s
  | SInt z => Ok (dec_of_Z z)
  | SBool b => Ok (if b then str_True else str_False)
  | _ => Unmodelled
  end.

Record ser_cfg := { sc_d : N; sc_eq : N; sc_ge : bool; sc_gn : bool; sc_ck : Z; sc_cv : Z }.

(* serialize_dict(input, d, eq, generate_empty, generate_none, capitalize_key,
   capitalize_value, level): None or a string *)
Fixpoint ser (cfg : ser_cfg) (level : nat) (t : tree) {struct t} : res (option pstr) :=
  let opener (buf : pstr) (open : N) : pstr :=
    if nonempty buf then buf ++ [sc_d cfg]
    else match level with O => buf | _ => buf ++ [open] end in
  let closer (buf : pstr) (close : N) : pstr :=
    if nonempty buf then match level with O => buf | _ => buf ++ [close] end else buf in
  match t with
  | Leaf SNone => Ok None
  | Leaf x =>
    do s <- str_of_leaf x;;
    do s' <- capitalize (sc_cv cfg) s;;
    Ok (Some (protect (sc_d cfg) (sc_eq cfg) s'))
  | Dict _ kvs =>
    do buf <- (fix go (kvs : list (pstr * tree)) (buf : pstr) : res pstr :=
                 match kvs with
                 | [] => Ok buf
                 | (k, v) :: r =>
                   let buf1 := opener buf LBRACE in
                   do sv <- ser cfg (S level) v;;
                   do k' <- capitalize (sc_ck cfg) k;;
                   let buf2 := buf1 ++ k' in
                   let buf3 :=
                     match sv with
                     | None => if sc_gn cfg || sc_ge cfg then buf2 ++ [sc_eq cfg] else buf2
                     | Some [] => if sc_ge cfg then buf2 ++ [sc_eq cfg] else buf2
                     | Some s => buf2 ++ sc_eq cfg :: s
                     end in
                   go r buf3
                 end) kvs [];;
    Ok (Some (closer buf RBRACE))
  | Lst _ xs =>
    do buf <- (fix go (xs : list tree) (buf : pstr) : res pstr :=
                 match xs with
                 | [] => Ok buf
                 | v :: r =>
                   let buf1 := opener buf LBRACK in
                   do sv <- ser cfg (S level) v;;
                   match sv with
                   | None => Raise ExType          (* str + None *)
                   | Some s => go r (buf1 ++ s)
                   end
                 end) xs [];;
    Ok (Some (closer buf RBRACK))
  end.

Definition serialize_dict (cfg : ser_cfg) (t : tree) : res (option pstr) := ser cfg 0 t.

(* ---- unescape ------------------------------------------------------------------------ *)
Definition hexval (c : N) : option N :=
  if is_digit c then Some (c - 48)%N
  else if (97 <=? c)%N && (c <=? 102)%N then Some (c - 87)%N
  else if (65 <=? c)%N && (c <=? 70)%N then Some (c - 55)%N
  else None.
Definition is_oct (c : N) : bool := (48 <=? c)%N && (c <=? 55)%N.

Definition simple_escape (c : N) : option N :=
  match c with
  | 92%N => Some 92%N | 39%N => Some 39%N | 34%N => Some 34%N
  | 98%N => Some 8%N | 102%N => Some 12%N | 116%N => Some 9%N | 110%N => Some 10%N
  | 114%N => Some 13%N | 118%N => Some 11%N | 97%N => Some 7%N
  | _ => None
  end.

(* bytes.decode('unicode_escape') on ASCII bytes *)
Fixpoint unesc (s : pstr) : res pstr :=
  match s with
  | [] => Ok []
  | c :: r =>
    if negb (N.eqb c BSL) then do t <- unesc r;; Ok (c :: t) else
    match r with
    | [] => Raise ExValue                                   (* "\ at end of string" *)
    | e :: r1 =>
      match simple_escape e with
      | Some x => do t <- unesc r1;; Ok (x :: t)
      | None =>
        if N.eqb e 10 then unesc r1                          (* backslash-newline *)
        else if N.eqb e 120 then                             (* \xHH *)
          match r1 with
          | h1 :: h2 :: r2 =>
            match hexval h1, hexval h2 with
            | Some a, Some b => do t <- unesc r2;; Ok ((16 * a + b)%N :: t)
            | _, _ => Raise ExValue
            end
          | _ => Raise ExValue
          end
        else if is_oct e then                                (* \o, \oo, \ooo *)
          match r1 with
          | o2 :: r2 =>
            if is_oct o2 then
              match r2 with
              | o3 :: r3 =>
                if is_oct o3 then do t <- unesc r3;; Ok ((64 * (e - 48) + 8 * (o2 - 48) + (o3 - 48))%N :: t)
                else do t <- unesc r2;; Ok ((8 * (e - 48) + (o2 - 48))%N :: t)
              | [] => Ok [(8 * (e - 48) + (o2 - 48))%N]
              end
            else do t <- unesc r1;; Ok ((e - 48)%N :: t)
          | [] => Ok [(e - 48)%N]
          end
        else if N.eqb e 117 || N.eqb e 85 || N.eqb e 78 then Unmodelled     (* \u \U \N *)
        else do t <- unesc r1;; Ok (BSL :: e :: t)             (* unknown escape: kept *)
      end
    end
  end.

Definition unescape_str (s : pstr) : res pstr :=
  if non_ascii s then Unmodelled else unesc s.

(* unescape(x): str -> decoded; list/dict -> copy with elements / values decoded
   (keys untouched); anything else has no .copy(): AttributeError *)
Fixpoint unescape (t : tree) : res tree :=
  match t with
  | Leaf (SStr s) => do s' <- unescape_str s;; Ok (Leaf (SStr s'))
  | Leaf _ => Raise ExAttribute
  | Dict c kvs =>
    do kvs' <- (fix go (kvs : list (pstr * tree)) : res (list (pstr * tree)) :=
                  match kvs with
                  | [] => Ok []
                  | (k, v) :: r => do v' <- unescape v;; do r' <- go r;; Ok ((k, v') :: r')
                  end) kvs;;
    Ok (Dict c kvs')
  | Lst c xs =>
    do xs' <- (fix go (xs : list tree) : res (list tree) :=
                 match xs with
                 | [] => Ok []
                 | v :: r => do v' <- unescape v;; do r' <- go r;; Ok (v' :: r')
                 end) xs;;
    Ok (Lst c xs')
  end.

(* ---- observations ------------------------------------------------------------------------ *)
Definition t_optstr (o : option pstr) : tree := match o with Some s => t_str s | None => t_none end.

Definition res_map {A B} (f : A -> B) (r : res A) : res B :=
  match r with Ok a => Ok (f a) | Raise e => Raise e | OutOfFuel => OutOfFuel | Unmodelled => Unmodelled end.

Definition obs_serialize (x : ser_cfg * tree) : out := res_map t_optstr (serialize_dict (fst x) (snd x)).
Definition obs_unescape (t : tree) : out := unescape t.

(* (s, unescape(deserialize_dict(s, d, equal_tag=eq))) with s = serialize_dict(m, d, eq, ...) *)
Definition obs_ser_rt (x : ser_cfg * tree) : out :=
  match serialize_dict (fst x) (snd x) with
  | Ok (Some s) =>
    do r <- unescape (Dict false (deserialize_dict s (sc_d (fst x)) false (sc_eq (fst x)) None t_none));;
    Ok (t_list [t_str s; r])
  | Ok None => Ok (t_list [t_none; Dict false []])          (* deserialize_dict(None) = {} *)
  | Raise e => Raise e
  | OutOfFuel => OutOfFuel
  | Unmodelled => Unmodelled
  end.
