(* Codec/Tlv.v — model of n0struct_utils.generate_tlv and parse_tlv (as repaired
   by the "fix:" commit that rejects a negative length field with ValueError).

   parse_tlv keeps an absolute offset into the buffer; the model keeps the
   remaining suffix [rest = skipn offset buffer], which is the same thing for
   the non-negative field widths in the property's quantifier
   (buffer[offset:offset+w] = firstn w rest, loop test offset < len(buffer) is
   rest <> []).  The while-loop is a recursion on fuel; [tlv_parse] supplies
   length+1, which TlvProofs.tlv_fuel_enough shows is always sufficient. *)
From Coq Require Import List NArith ZArith Bool Lia.
From N0 Require Import Base.PyStr Base.PyVal Codec.Util.
Import ListNotations.

Definition triplet := (pstr * Z * pstr)%type.

(* ---- generate_tlv ------------------------------------------------------------ *)
Definition gen_entry (tw lw : nat) (tp lp : N) (kv : pstr * pstr) : res pstr :=
  let '(t, v) := kv in
  if length t <=? tw then
    let l := dec_of_nat (length v) in
    if length l <=? lw then Ok (ljust t tw tp ++ rjust l lw lp ++ v)
    else Raise ExAssertion
  else Raise ExAssertion.

Fixpoint gen_tlv (tw lw : nat) (tp lp : N) (m : list (pstr * pstr)) : res pstr :=
  match m with
  | [] => Ok []
  | kv :: r =>
    do a <- gen_entry tw lw tp lp kv;;
    do b <- gen_tlv tw lw tp lp r;;
    Ok (a ++ b)
  end.

(* ---- parse_tlv ------------------------------------------------------------------ *)
Fixpoint tlv_go (fuel : nat) (tw lw : nat) (rest : pstr) : res (list triplet) :=
  match rest with
  | [] => Ok []
  | _ =>
    match fuel with
    | O => OutOfFuel
    | S f =>
      let tag := firstn tw rest in
      let r1 := skipn tw rest in
      do n <- py_int (firstn lw r1);;
      if (n <? 0)%Z then Raise ExValue else
      let r2 := skipn lw r1 in
      let v := firstn (Z.to_nat n) r2 in
      do ts <- tlv_go f tw lw (skipn (Z.to_nat n) r2);;
      Ok ((tag, n, v) :: ts)
    end
  end.

Definition tlv_parse (tw lw : nat) (s : pstr) : res (list triplet) :=
  tlv_go (S (length s)) tw lw s.

(* ---- Spec: what "the triplets tile the input" means ----------------------------
   Every triplet but possibly the last occupies exactly tw + lw + n characters:
   the tag, a length field that int() reads as n >= 0, and n characters of value;
   the pieces concatenate to the input in order (no gap, no overlap).  The last
   triplet may be cut short by the end of the input (a length field shorter than
   lw, or fewer than n characters of value) - Python slicing past the end. *)
Inductive tiles (tw lw : nat) : pstr -> list triplet -> Prop :=
| tiles_nil : tiles tw lw [] []
| tiles_full t f n v rest ts :
    length t = tw -> length f = lw -> py_int f = Ok n -> (0 <= n)%Z ->
    length v = Z.to_nat n -> tiles tw lw rest ts ->
    tiles tw lw (t ++ f ++ v ++ rest) ((t, n, v) :: ts)
| tiles_last t f n v :
    length t = tw -> length f <= lw -> f <> [] -> py_int f = Ok n -> (0 <= n)%Z ->
    length v <= Z.to_nat n ->
    tiles tw lw (t ++ f ++ v) [(t, n, v)].

(* the entries of a mapping fit the field widths *)
Definition fits (tw lw : nat) (kv : pstr * pstr) : Prop :=
  length (fst kv) <= tw /\ length (dec_of_nat (length (snd kv))) <= lw.
Definition fitsb (tw lw : nat) (kv : pstr * pstr) : bool :=
  (length (fst kv) <=? tw) && (length (dec_of_nat (length (snd kv))) <=? lw).

(* the triplet the property expects for one entry *)
Definition expected_triplet (tw : nat) (tp : N) (kv : pstr * pstr) : triplet :=
  (ljust (fst kv) tw tp, Z.of_nat (length (snd kv)), snd kv).

(* ---- observations ---------------------------------------------------------------- *)
Definition t_triplet (x : triplet) : tree :=
  let '(t, n, v) := x in t_list [t_str t; t_int n; t_str v].

Definition obs_of_triplets (r : res (list triplet)) : out :=
  match r with
  | Ok ts => Ok (t_list (map t_triplet ts))
  | Raise e => Raise e
  | OutOfFuel => OutOfFuel
  | Unmodelled => Unmodelled
  end.

Definition tlv_cfg := ((nat * nat) * (N * N))%type.

(* list(parse_tlv(s, tw, lw)) *)
Definition obs_tlv_parse (x : (nat * nat) * pstr) : out :=
  obs_of_triplets (tlv_parse (fst (fst x)) (snd (fst x)) (snd x)).

(* generate_tlv(dict(m), tw, lw, tp, lp) *)
Definition obs_tlv_gen (x : tlv_cfg * list (pstr * pstr)) : out :=
  let '(((tw, lw), (tp, lp)), m) := x in
  match gen_tlv tw lw tp lp m with
  | Ok s => Ok (t_str s)
  | Raise e => Raise e
  | OutOfFuel => OutOfFuel
  | Unmodelled => Unmodelled
  end.

(* list(parse_tlv(generate_tlv(dict(m), tw, lw, tp, lp), tw, lw)) *)
Definition obs_tlv_rt (x : tlv_cfg * list (pstr * pstr)) : out :=
  let '(((tw, lw), (tp, lp)), m) := x in
  match gen_tlv tw lw tp lp m with
  | Ok s => obs_of_triplets (tlv_parse tw lw s)
  | Raise e => Raise e
  | OutOfFuel => OutOfFuel
  | Unmodelled => Unmodelled
  end.
