(* Codec/TlvInjective.v — the TLV encoding is unambiguous: what generate_tlv
   emits determines the (padded tag, value) sequence it was made from. *)
From Coq Require Import List NArith ZArith.
From N0 Require Import Base.PyStr Base.PyVal Codec.Util Codec.Tlv Codec.TlvProofs.
Import ListNotations.

Lemma expected_triplets_inj tw tp m1 m2 :
  map (expected_triplet tw tp) m1 = map (expected_triplet tw tp) m2 ->
  map snd m1 = map snd m2 /\
  map (fun kv => ljust (fst kv) tw tp) m1 = map (fun kv => ljust (fst kv) tw tp) m2.
Proof.
  revert m2. induction m1 as [|a r IH]; intros [|b r2]; cbn [map]; intros H; try discriminate.
  - split; reflexivity.
  - inversion H as [[Ht Hn Hv Hr]]. destruct (IH _ Hr) as [E1 E2]. split; congruence.
Qed.

(* two mappings that are emitted as the same string (same field widths and
   paddings) have the same values, in the same order, and the same padded tags *)
Theorem tlv_gen_injective tw lw tp lp m1 m2 s : lp = 48%N \/ lp = 32%N ->
  gen_tlv tw lw tp lp m1 = Ok s -> gen_tlv tw lw tp lp m2 = Ok s ->
  map snd m1 = map snd m2 /\
  map (fun kv => ljust (fst kv) tw tp) m1 = map (fun kv => ljust (fst kv) tw tp) m2.
Proof.
  intros Hlp H1 H2.
  pose proof (tlv_emitted_decodes _ _ _ _ _ _ Hlp H1) as P1.
  pose proof (tlv_emitted_decodes _ _ _ _ _ _ Hlp H2) as P2.
  rewrite P1 in P2. apply expected_triplets_inj. congruence.
Qed.

(* ... hence different value sequences are never emitted as the same string *)
Corollary tlv_distinct_values_distinct_strings tw lw tp lp m1 m2 s1 s2 : lp = 48%N \/ lp = 32%N ->
  gen_tlv tw lw tp lp m1 = Ok s1 -> gen_tlv tw lw tp lp m2 = Ok s2 ->
  map snd m1 <> map snd m2 -> s1 <> s2.
Proof.
  intros Hlp H1 H2 Hne E. subst s2. apply Hne. exact (proj1 (tlv_gen_injective _ _ _ _ _ _ _ Hlp H1 H2)).
Qed.
