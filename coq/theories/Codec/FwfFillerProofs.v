(* Codec/FwfFillerProofs.v — the fixed-width round trip for fillers of several characters: the row starts as
   row_len copies of the filler (|filler| * row_len characters), the columns are spliced in by character position,
   so every column the record has still parses back to its fitted value; a column the record lacks reads the
   characters of the filler pattern that lie at its place. *)
From Coq Require Import List NArith ZArith Bool Lia.
From N0 Require Import Base.PyStr Base.PyVal Codec.Util Codec.Fwf Codec.FwfProofs.
Import ListNotations.

Lemma concat_repeat_length (f : pstr) n : length (concat (repeat f n)) = length f * n.
Proof. induction n as [|n IH]; cbn [repeat concat]; [now rewrite Nat.mul_0_r|]. rewrite app_length, IH, Nat.mul_succ_r. lia. Qed.

Definition pattern (filler : pstr) (cols : list gcol) : pstr := concat (repeat filler (row_len cols)).

Definition cell_any (rcd : list (pstr * scalar)) (filler : pstr) (cols : list gcol) (c : gcol) : pstr :=
  match lookup (g_name c) rcd with
  | Some v => fit_col c (str_total v)
  | None => slice (pattern filler cols) (g_offset c) (g_till c)
  end.

Theorem fwf_round_trip_any_filler rcd cols filler :
  filler <> [] -> cols <> [] -> layout_ok cols -> NoDup (map g_name cols) -> rec_printable rcd ->
  exists row, gen_row rcd cols filler = Ok row /\ length row = length filler * row_len cols /\
    parse_row row (map pcol_of_gcol cols) true =
      Ok (PDict (map (fun c => (g_name c, t_str (cell_any rcd filler cols c))) cols)).
Proof.
  intros Hf Hne [Ht Hd] Hnd Hp.
  set (L := length filler * row_len cols).
  assert (HL : row_len cols <= L).
  { unfold L. destruct filler as [|x f]; [congruence|]. cbn [length]. nia. }
  assert (HF : Forall (col_ok L) cols).
  { pose proof (till_le_row_len cols) as Hl. rewrite Forall_forall in *. intros c Hc. split; auto.
    specialize (Hl c Hc). cbn beta in Hl. lia. }
  destruct (fold_cells rcd L Hp cols (pattern filler cols)) as [row [E [Lr S]]];
    [apply concat_repeat_length|assumption|assumption|].
  exists row. repeat split.
  - unfold gen_row. destruct cols; [congruence|]. exact E.
  - assumption.
  - unfold parse_row. destruct (map pcol_of_gcol cols) eqn:Em; [destruct cols; [congruence|discriminate]|].
    rewrite <- Em. rewrite parse_cols_derived by exact Hnd. cbn [app]. do 2 f_equal.
    apply map_ext_in. intros c Hc. f_equal. f_equal.
    rewrite Forall_forall in HF. destruct (HF c Hc) as [Htc Hlc]. rewrite <- Htc, (S c Hc).
    unfold cell_any. reflexivity.
Qed.

(* the columns the record has: exactly the fitted value, whatever the filler *)
Corollary fwf_present_columns_any_filler rcd cols filler c v :
  In c cols -> lookup (g_name c) rcd = Some v ->
  cell_any rcd filler cols c = fit_col c (str_total v).
Proof. intros _ H. unfold cell_any. now rewrite H. Qed.

(* non-vacuity: filler "<>", layout A@0+3, B@3+4 (int), C@9+2; the record has A and C.  A and C come back fitted,
   the absent B reads "><><" - the filler pattern as it lies at offset 3 *)
Definition ff_cols : list gcol :=
  [ {| g_name := [65]; g_offset := 0; g_size := 3; g_till := 3; g_int := false |};
    {| g_name := [66]; g_offset := 3; g_size := 4; g_till := 7; g_int := true |};
    {| g_name := [67]; g_offset := 9; g_size := 2; g_till := 11; g_int := false |} ]%N.
Definition ff_rcd : list (pstr * scalar) := [([65], SStr [97; 98]); ([67], SInt 5)]%N.

Lemma fwf_filler_example :
  ff_cols <> [] /\ layout_ok ff_cols /\ NoDup (map g_name ff_cols) /\ rec_printable ff_rcd /\
  gen_row ff_rcd ff_cols [60; 62]%N =
    Ok [97; 98; 32; 62; 60; 62; 60; 62; 60; 53; 32; 62; 60; 62; 60; 62; 60; 62; 60; 62; 60; 62]%N /\
  map (cell_any ff_rcd [60; 62]%N ff_cols) ff_cols = [[97; 98; 32]; [62; 60; 62; 60]; [53; 32]]%N.
Proof.
  split; [discriminate|]. split.
  { split.
    - repeat constructor.
    - repeat constructor; unfold disjoint; cbn; lia. }
  split.
  { cbn [map ff_cols g_name]. repeat constructor; cbn; intuition discriminate. }
  split.
  { unfold rec_printable, ff_rcd. repeat constructor. }
  split; vm_compute; reflexivity.
Qed.
