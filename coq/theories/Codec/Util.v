(* Codec/Util.v — helpers shared by the C16/C17 codec models: decimal printing
   and parsing (str(int), int(str)), str.zfill, list slicing lemmas.
   Model definitions first, then the lemmas that characterise them (the codec
   proofs use these lemmas as the interface). *)
From Coq Require Import List NArith ZArith Bool Lia.
From N0 Require Import Base.PyStr Base.PyVal.
Import ListNotations.

(* ---- str(n) for a non-negative integer -------------------------------------- *)
(* fuel = number of binary digits + 1 >= number of decimal digits *)
Fixpoint dec_aux (fuel : nat) (n : N) (acc : pstr) : pstr :=
  match fuel with
  | O => acc
  | S f =>
    let d := (48 + n mod 10)%N in
    if (n <? 10)%N then d :: acc else dec_aux f (n / 10)%N (d :: acc)
  end.
Definition dec_of_N (n : N) : pstr := dec_aux (S (N.size_nat n)) n [].
Definition dec_of_nat (n : nat) : pstr := dec_of_N (N.of_nat n).
(* str(z) *)
Definition dec_of_Z (z : Z) : pstr :=
  match z with
  | Zneg p => 45%N :: dec_of_N (Npos p)
  | _ => dec_of_N (Z.to_N z)
  end.

(* value of a digit string, most significant first *)
Definition dig_step (a c : N) : N := (10 * a + (c - 48))%N.
Definition val_acc (a : N) (l : pstr) : N := fold_left dig_step l a.
Definition dec_val (l : pstr) : N := val_acc 0 l.

(* ---- int(s), base 10 --------------------------------------------------------- *)
(* ASCII white space accepted by int() around the literal (measured: 9-13, 32;
   not 28-31, which str.strip() does remove). *)
Definition int_ws : list N := [32; 9; 10; 11; 12; 13]%N.

(* digits with single underscores between digits: d (_? d)* *)
Fixpoint dig_go (l : pstr) (acc : N) (prev : bool) : option N :=
  match l with
  | [] => if prev then Some acc else None
  | c :: r =>
    if is_digit c then dig_go r (dig_step acc c) true
    else if N.eqb c 95 && prev then dig_go r acc false
    else None
  end.

Definition non_ascii (s : pstr) : bool := existsb (fun c => (128 <=? c)%N) s.

(* Code points >= 128 (other Unicode digits and blanks, which int() accepts)
   are outside the model: Unmodelled. *)
Definition split_sign (t : pstr) : bool * pstr :=
  match t with
  | c :: r => if N.eqb c 43 then (false, r) else if N.eqb c 45 then (true, r) else (false, t)
  | [] => (false, t)
  end.

Definition py_int (s : pstr) : res Z :=
  if non_ascii s then Unmodelled else
  let sb := split_sign (strip_set int_ws s) in
  match dig_go (snd sb) 0 false with
  | Some n => Ok (if fst sb then (- Z.of_N n)%Z else Z.of_N n)
  | None => Raise ExValue
  end.

(* ---- str.zfill ------------------------------------------------------------------ *)
Definition zfill (s : pstr) (w : nat) : pstr :=
  let pad := repeat 48%N (w - length s) in
  match s with
  | c :: r => if N.eqb c 43 || N.eqb c 45 then c :: pad ++ r else pad ++ s
  | [] => pad
  end.

(* str(x) of a scalar leaf (floats are not used by the codecs) *)
Definition str_True : pstr := [84; 114; 117; 101]%N.
Definition str_False : pstr := [70; 97; 108; 115; 101]%N.
Definition str_None : pstr := [78; 111; 110; 101]%N.

(* ================================ lemmas ======================================== *)

Lemma val_acc_app a l m : val_acc a (l ++ m) = val_acc (val_acc a l) m.
Proof. unfold val_acc. apply fold_left_app. Qed.

Lemma dec_aux_val f : forall n acc, (n < 2 ^ N.of_nat f)%N ->
  dec_val (dec_aux f n acc) = val_acc n acc.
Proof.
  induction f as [|f IH]; intros n acc Hn.
  - change (N.of_nat 0) with 0%N in Hn. rewrite N.pow_0_r in Hn.
    assert (n = 0%N) by lia. subst. reflexivity.
  - cbn [dec_aux]. destruct (N.ltb_spec n 10) as [Hlt|Hge].
    + unfold dec_val, val_acc. cbn [fold_left]. unfold dig_step at 2.
      rewrite N.mod_small by lia. f_equal. lia.
    + rewrite IH.
      * unfold val_acc. cbn [fold_left]. unfold dig_step at 2. f_equal.
        pose proof (N.div_mod n 10 ltac:(lia)) as E.
        generalize dependent (n / 10)%N. generalize dependent (n mod 10)%N. intros; lia.
      * rewrite Nat2N.inj_succ, N.pow_succ_r' in Hn.
        apply N.div_lt_upper_bound; [lia|].
        generalize dependent (2 ^ N.of_nat f)%N. intros; lia.
Qed.

Lemma size_nat_bound n : (n < 2 ^ N.of_nat (N.size_nat n))%N.
Proof.
  destruct n as [|p]; [simpl; lia|]. cbn [N.size_nat].
  induction p as [p IH|p IH|]; cbn [Pos.size_nat].
  - rewrite Nat2N.inj_succ, N.pow_succ_r'. generalize dependent (2 ^ N.of_nat (Pos.size_nat p))%N. intros; lia.
  - rewrite Nat2N.inj_succ, N.pow_succ_r'. generalize dependent (2 ^ N.of_nat (Pos.size_nat p))%N. intros; lia.
  - reflexivity.
Qed.

Lemma dec_val_dec_of_N n : dec_val (dec_of_N n) = n.
Proof.
  unfold dec_of_N. rewrite dec_aux_val.
  - reflexivity.
  - pose proof (size_nat_bound n). rewrite Nat2N.inj_succ, N.pow_succ_r'.
    generalize dependent (2 ^ N.of_nat (N.size_nat n))%N. intros; lia.
Qed.

Definition all_digits (l : pstr) : Prop := Forall (fun c => is_digit c = true) l.

Lemma is_digit_mod n : is_digit (48 + n mod 10) = true.
Proof.
  unfold is_digit. pose proof (N.mod_upper_bound n 10 ltac:(lia)) as H.
  generalize dependent (n mod 10)%N. intros r H.
  apply andb_true_iff; split; apply N.leb_le; lia.
Qed.

Lemma dec_aux_digits f : forall n acc, all_digits acc -> all_digits (dec_aux f n acc).
Proof.
  induction f as [|f IH]; intros n acc Ha; cbn [dec_aux]; [assumption|].
  destruct (n <? 10)%N.
  - constructor; [apply is_digit_mod|assumption].
  - apply IH. constructor; [apply is_digit_mod|assumption].
Qed.

Lemma dec_of_N_digits n : all_digits (dec_of_N n).
Proof. apply dec_aux_digits. constructor. Qed.

Lemma dec_aux_nonempty f n acc : dec_aux (S f) n acc <> [].
Proof.
  revert n acc. induction f as [|f IH]; intros n acc; cbn [dec_aux].
  - destruct (n <? 10)%N; discriminate.
  - destruct (n <? 10)%N; [discriminate|]. apply IH.
Qed.

Lemma dec_of_N_nonempty n : dec_of_N n <> [].
Proof. apply dec_aux_nonempty. Qed.

(* digits only: dig_go is the fold *)
Lemma dig_go_digits l : forall acc prev, all_digits l -> (l <> [] \/ prev = true) ->
  dig_go l acc prev = Some (val_acc acc l).
Proof.
  induction l as [|c r IH]; intros acc prev Hd Hne.
  - destruct Hne as [H|H]; [congruence|]. subst. reflexivity.
  - inversion Hd as [|? ? Hc Hr]; subst. cbn [dig_go]. rewrite Hc.
    rewrite IH by (assumption || (right; reflexivity)). reflexivity.
Qed.

Lemma is_digit_range c : is_digit c = true -> (48 <= c <= 57)%N.
Proof. unfold is_digit. rewrite andb_true_iff, !N.leb_le. lia. Qed.

Lemma digits_ascii l : all_digits l -> non_ascii l = false.
Proof.
  induction 1 as [|c r Hc Hr IH]; [reflexivity|]. cbn [non_ascii existsb].
  apply is_digit_range in Hc. fold (non_ascii r). rewrite IH.
  destruct (N.leb_spec 128 c); [lia|reflexivity].
Qed.

Lemma digit_not_ws c : is_digit c = true -> mem_chr c int_ws = false.
Proof.
  intros H. apply is_digit_range in H. apply mem_chr_false. unfold int_ws.
  intros Hin. repeat (destruct Hin as [Hin|Hin]; [lia|]). destruct Hin.
Qed.

Lemma lstrip_ws_pad pad k l : mem_chr pad int_ws = true ->
  lstrip_set int_ws (repeat pad k ++ l) = lstrip_set int_ws l.
Proof. intros Hp. induction k as [|k IH]; [reflexivity|]. cbn [repeat app lstrip_set]. now rewrite Hp. Qed.

Lemma lstrip_digit_hd c r : is_digit c = true -> lstrip_set int_ws (c :: r) = c :: r.
Proof. intros H. cbn [lstrip_set]. now rewrite (digit_not_ws c H). Qed.

Lemma last_digit_rev l : all_digits l -> l <> [] -> exists c r, rev l = c :: r /\ is_digit c = true.
Proof.
  intros Hd Hne. destruct (rev l) as [|c r] eqn:E.
  - apply (f_equal (@rev N)) in E. rewrite rev_involutive in E. simpl in E. congruence.
  - exists c, r. split; [reflexivity|].
    assert (Hin : In c l) by (apply in_rev; rewrite E; now left).
    unfold all_digits in Hd. rewrite Forall_forall in Hd. now apply Hd.
Qed.

(* int(' '*k + digits) and int('0'*k + digits) are the value of the digits *)
Lemma strip_ws_pad_digits k l : all_digits l -> l <> [] ->
  strip_set int_ws (repeat 32%N k ++ l) = l.
Proof.
  intros Hd Hne. unfold strip_set. rewrite lstrip_ws_pad by reflexivity.
  destruct l as [|c r]; [congruence|]. inversion Hd; subst.
  rewrite lstrip_digit_hd by assumption. unfold rstrip_set.
  destruct (last_digit_rev (c :: r) Hd Hne) as [c' [r' [E Hc']]].
  rewrite E, lstrip_digit_hd by assumption. rewrite <- E. apply rev_involutive.
Qed.

Lemma strip_digits l : all_digits l -> l <> [] -> strip_set int_ws l = l.
Proof. intros. apply (strip_ws_pad_digits 0); assumption. Qed.

Lemma all_digits_app a b : all_digits a -> all_digits b -> all_digits (a ++ b).
Proof. intros. apply Forall_app; split; assumption. Qed.

Lemma all_digits_zeros k : all_digits (repeat 48%N k).
Proof. induction k; simpl; constructor; auto. Qed.

Lemma val_acc_zeros k : val_acc 0 (repeat 48%N k) = 0%N.
Proof. induction k as [|k IH]; [reflexivity|]. simpl. exact IH. Qed.

Lemma py_int_digits l : all_digits l -> l <> [] -> py_int l = Ok (Z.of_N (dec_val l)).
Proof.
  intros Hd Hne. unfold py_int. rewrite digits_ascii by assumption.
  rewrite strip_digits by assumption.
  destruct l as [|c r]; [congruence|]. inversion Hd as [|? ? Hc Hr]; subst.
  assert (c <> 43%N /\ c <> 45%N) as [H1 H2] by (apply is_digit_range in Hc; lia).
  assert (E : split_sign (c :: r) = (false, c :: r)).
  { unfold split_sign. apply N.eqb_neq in H1, H2. now rewrite H1, H2. }
  rewrite E. cbn [fst snd]. rewrite dig_go_digits by (assumption || (left; discriminate)). reflexivity.
Qed.

Lemma non_ascii_app a b : non_ascii (a ++ b) = non_ascii a || non_ascii b.
Proof. unfold non_ascii. apply existsb_app. Qed.

Lemma non_ascii_repeat c k : (c < 128)%N -> non_ascii (repeat c k) = false.
Proof.
  intros H. induction k as [|k IH]; [reflexivity|]. simpl.
  destruct (N.leb_spec 128 c); [lia|]. exact IH.
Qed.

Lemma py_int_ws_pad k l : all_digits l -> l <> [] -> py_int (repeat 32%N k ++ l) = py_int l.
Proof.
  intros Hd Hne. unfold py_int.
  rewrite non_ascii_app, non_ascii_repeat by lia. cbn [orb].
  rewrite strip_ws_pad_digits, strip_digits by assumption. reflexivity.
Qed.

(* the length field written by generate_tlv with padding '0' or ' ' reads back *)
Lemma py_int_rjust_dec n w pad : pad = 48%N \/ pad = 32%N ->
  py_int (rjust (dec_of_N n) w pad) = Ok (Z.of_N n).
Proof.
  intros Hp. unfold rjust. set (k := w - length (dec_of_N n)).
  pose proof (dec_of_N_digits n) as Hd. pose proof (dec_of_N_nonempty n) as Hne.
  destruct Hp as [-> | ->].
  - rewrite py_int_digits.
    + unfold dec_val. rewrite val_acc_app, val_acc_zeros. fold (dec_val (dec_of_N n)).
      now rewrite dec_val_dec_of_N.
    + apply all_digits_app; [apply all_digits_zeros|assumption].
    + intros E. apply app_eq_nil in E. tauto.
  - rewrite py_int_ws_pad, py_int_digits by assumption. now rewrite dec_val_dec_of_N.
Qed.

(* ---- zfill ---------------------------------------------------------------------- *)
Lemma zfill_length s w : length (zfill s w) = Nat.max (length s) w.
Proof.
  unfold zfill. destruct s as [|c r]; [rewrite repeat_length; simpl; lia|].
  destruct (N.eqb c 43 || N.eqb c 45); cbn [length]; rewrite app_length, repeat_length; cbn [length]; lia.
Qed.

(* ---- slicing --------------------------------------------------------------------- *)
Lemma firstn_app_exact {A} (a b : list A) : firstn (length a) (a ++ b) = a.
Proof. rewrite firstn_app, Nat.sub_diag, firstn_all. simpl. apply app_nil_r. Qed.

Lemma skipn_app_exact {A} (a b : list A) : skipn (length a) (a ++ b) = b.
Proof. rewrite skipn_app, Nat.sub_diag, skipn_all. reflexivity. Qed.

Lemma firstn_app_exact' {A} n (a b : list A) : n = length a -> firstn n (a ++ b) = a.
Proof. intros ->. apply firstn_app_exact. Qed.

Lemma skipn_app_exact' {A} n (a b : list A) : n = length a -> skipn n (a ++ b) = b.
Proof. intros ->. apply skipn_app_exact. Qed.

(* ---- number of decimal digits ------------------------------------------------------ *)
Lemma dec_aux_len_lb f n acc : length acc + 1 <= length (dec_aux (S f) n acc).
Proof.
  revert n acc. induction f as [|f IH]; intros n acc; cbn [dec_aux].
  - destruct (n <? 10)%N; cbn [length]; lia.
  - destruct (n <? 10)%N; [cbn [length]; lia|].
    specialize (IH (n / 10)%N ((48 + n mod 10)%N :: acc)). cbn [length] in IH. cbn [dec_aux] in IH. lia.
Qed.

Lemma dec_aux_step f n acc :
  dec_aux (S f) n acc = if (n <? 10)%N then (48 + n mod 10)%N :: acc else dec_aux f (n / 10)%N ((48 + n mod 10)%N :: acc).
Proof. reflexivity. Qed.

Lemma dec_aux_len f : forall n acc w, (n < 2 ^ N.of_nat f)%N -> 1 <= w ->
  (length (dec_aux (S f) n acc) <= length acc + w <-> (n < 10 ^ N.of_nat w)%N).
Proof.
  induction f as [|f IH]; intros n acc w Hn Hw.
  - change (N.of_nat 0) with 0%N in Hn. rewrite N.pow_0_r in Hn. assert (n = 0%N) by lia. subst.
    cbn [dec_aux N.ltb N.compare length]. split; intros _; [|lia].
    apply N.lt_le_trans with 1%N; [lia|]. change 1%N with (10 ^ 0)%N. apply N.pow_le_mono_r; lia.
  - rewrite dec_aux_step. destruct (N.ltb_spec n 10) as [Hlt|Hge].
    + cbn [length]. split; intros _; [|lia].
      apply N.lt_le_trans with (10 ^ 1)%N; [rewrite N.pow_1_r; exact Hlt|]. apply N.pow_le_mono_r; lia.
    + assert (Hq : (n / 10 < 2 ^ N.of_nat f)%N).
      { rewrite Nat2N.inj_succ, N.pow_succ_r' in Hn. apply N.div_lt_upper_bound; [lia|].
        clear IH. generalize dependent (2 ^ N.of_nat f)%N. intros. lia. }
      set (acc' := ((48 + n mod 10)%N :: acc)).
      destruct (Nat.eq_dec w 1) as [->|Hw1].
      * pose proof (dec_aux_len_lb f (n / 10)%N acc') as LB. unfold acc' in LB at 1. cbn [length] in LB.
        rewrite N.pow_1_r. split; intros H; lia.
      * specialize (IH (n / 10)%N acc' (w - 1) Hq ltac:(lia)). unfold acc' in IH at 2. cbn [length] in IH.
        replace (S (length acc) + (w - 1)) with (length acc + w) in IH by lia. rewrite IH.
        replace (N.of_nat w) with (N.succ (N.of_nat (w - 1))) by lia. rewrite N.pow_succ_r'.
        generalize (10 ^ N.of_nat (w - 1))%N. intros p. split; intros H.
        -- pose proof (N.div_mod n 10 ltac:(lia)) as E. pose proof (N.mod_upper_bound n 10 ltac:(lia)) as M.
           generalize dependent (n / 10)%N. generalize dependent (n mod 10)%N. intros; lia.
        -- apply N.div_lt_upper_bound; lia.
Qed.

(* a value fits a length field of w >= 1 digits iff it is shorter than 10^w *)
Theorem dec_len_fits n w : 1 <= w -> (length (dec_of_nat n) <= w <-> (N.of_nat n < 10 ^ N.of_nat w)%N).
Proof.
  intros Hw. unfold dec_of_nat, dec_of_N.
  pose proof (dec_aux_len (N.size_nat (N.of_nat n)) (N.of_nat n) [] w (size_nat_bound _) Hw) as H.
  cbn [length] in H. exact H.
Qed.

