"""bin/check entry point.
   check <ID> quick|thorough      run one property's check
   check --replay <file>          re-run the failures recorded in a replay file
"""
import importlib
import os
import sys

HERE = os.path.dirname(os.path.abspath(__file__))
sys.path.insert(0, HERE)
REPO = os.environ.get("N0V_REPO", "/repo")
# the implementation under test is /repo's working tree, whatever is installed
sys.path.insert(0, REPO)
sys.dont_write_bytecode = True


def load_props():
    props = {}
    pdir = os.path.join(HERE, "props")
    for f in sorted(os.listdir(pdir)):
        if f.startswith("c") and f.endswith(".py"):
            m = importlib.import_module("props." + f[:-3])
            props[m.PROP.id] = m.PROP
    return props


def main(argv):
    import n0struct
    assert os.path.dirname(os.path.dirname(os.path.abspath(n0struct.__file__))) == os.path.abspath(REPO), \
        "n0struct imported from %s, not from %s" % (n0struct.__file__, REPO)
    try:
        from loguru import logger
        logger.remove()
    except Exception:
        pass
    from n0v import core
    props = load_props()
    if len(argv) >= 2 and argv[0] == "--replay":
        return core.run_replay(props, argv[1])
    if len(argv) < 1 or argv[0] not in props:
        print(__doc__)
        print("properties: " + " ".join(sorted(props)))
        return 2
    tier = argv[1] if len(argv) > 1 else os.environ.get("VERIF_TIER", "quick")
    if tier not in ("quick", "thorough"):
        tier = "quick"
    seed = int(os.environ.get("VERIF_SEED", "0") or 0)
    cls = props[argv[0]]
    if getattr(cls, "custom_main", None):
        # a property whose flow is not correspondence-stream shaped (C20: the model is
        # regenerated from the source) drives itself under the same interface
        return cls.custom_main(tier, seed)
    return core.run_check(cls(), tier, seed)


if __name__ == "__main__":
    sys.exit(main(sys.argv[1:]))
