"""bin/check entry point.
   check <ID> quick|thorough      run one property's check
   check --replay <file>          re-run the failures recorded in a replay file
"""
import importlib
import os
import sys

HERE = os.path.dirname(os.path.abspath(__file__))
sys.path.insert(0, HERE)
REPO = os.environ.get("N0V_REPO", "/repo")
# the implementation under test is /repo's working tree, whatever is installed
sys.path.insert(0, REPO)
sys.dont_write_bytecode = True


def load_prop(pid):
    """import only the module of the requested property (props/cNN.py)"""
    import re
    if not re.fullmatch(r"C[0-9]{2,3}", pid or ""):
        return None
    path = os.path.join(HERE, "props", pid.lower() + ".py")
    if not os.path.exists(path):
        return None
    return importlib.import_module("props." + pid.lower()).PROP


def available():
    import re
    return sorted(f[:-3].upper() for f in os.listdir(os.path.join(HERE, "props")) if re.fullmatch(r"c[0-9]{2,3}\.py", f))


def limit_memory():
    """A change to the code under test may make it allocate without bound (e.g. state shared between calls):
    the address space of this process is capped so that such a case ends in MemoryError (reported as a
    failing case) instead of the whole check being killed.  Child processes (coqc) get the old limit back."""
    try:
        import resource
        soft, hard = resource.getrlimit(resource.RLIMIT_AS)
        cap = int(os.environ.get("N0V_MEM_GB", "8")) * (1 << 30)
        if hard == resource.RLIM_INFINITY or cap < hard:
            resource.setrlimit(resource.RLIMIT_AS, (cap, hard))
        os.environ["N0V_OLD_AS_SOFT"] = str(soft)
    except Exception:  # noqa
        pass


def main(argv):
    limit_memory()
    import_error = None
    try:
        import n0struct
        assert os.path.dirname(os.path.dirname(os.path.abspath(n0struct.__file__))) == os.path.abspath(REPO), \
            "n0struct imported from %s, not from %s" % (n0struct.__file__, REPO)
    except BaseException as e:  # noqa  (the package under test may fail to import: that is a finding, not a crash)
        import traceback
        import_error = "".join(traceback.format_exception(type(e), e, e.__traceback__))[-3000:]
    try:
        from loguru import logger
        logger.remove()
    except Exception:
        pass
    from n0v import core
    if len(argv) >= 2 and argv[0] == "--replay":
        import json
        pid = json.load(open(argv[1])).get("property")
        cls = load_prop(pid)
        if cls is None:
            print("unknown property in replay file: %r" % pid)
            return 2
        if getattr(cls, "custom_replay", None):
            return cls.custom_replay(argv[1])
        return core.run_replay({pid: cls}, argv[1])
    cls = load_prop(argv[0]) if argv else None
    if cls is None:
        print(__doc__)
        print("properties: " + " ".join(available()))
        return 2
    tier = argv[1] if len(argv) > 1 else os.environ.get("VERIF_TIER", "quick")
    if tier not in ("quick", "thorough"):
        tier = "quick"
    seed = int(os.environ.get("VERIF_SEED", "0") or 0)
    if import_error and not getattr(cls, "custom_main", None):
        # no entry point of the package can be called at all: every property fails on `import n0struct`
        import json
        os.makedirs(core.REPLAYS, exist_ok=True)
        os.makedirs(core.EVIDENCE, exist_ok=True)
        rp = os.path.join(core.REPLAYS, "%s-%s-import.json" % (cls.id, tier))
        json.dump({"property": cls.id, "tier": tier, "seed": seed, "no_failing_input_found": False,
                   "failures": [{"kind": "import", "detail": "import n0struct fails in %s" % REPO, "traceback": import_error}]},
                  open(rp, "w"), indent=1)
        json.dump({"property_id": cls.id, "tier": tier, "seed": seed, "level": "other",
                   "coverage": {"explanation": "the package under test failed to import; nothing else could be run: " + import_error[-500:],
                                "samples": ["import n0struct"]},
                   "wall_s": 0.0, "violations": 1}, open(os.path.join(core.EVIDENCE, "%s.json" % cls.id), "w"), indent=1)
        print("VIOLATION property=%s replay=%s" % (cls.id, os.path.relpath(rp, core.VERIF)))
        print("  - [import] the package under test does not import:\n" + import_error[-800:])
        return 1
    if getattr(cls, "custom_main", None):
        # a property whose flow is not correspondence-stream shaped (C20: the model is
        # regenerated from the source) drives itself under the same interface
        return cls.custom_main(tier, seed)
    return core.run_check(cls(), tier, seed)


if __name__ == "__main__":
    sys.exit(main(sys.argv[1:]))
