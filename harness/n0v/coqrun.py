"""Running Coq from the harness: build gate, property-theorem recheck with
Print Assumptions capture, and the sharded vm_compute correspondence runner."""
import fcntl
import os
import re
import shutil
import subprocess
import concurrent.futures as cf

VERIF = os.path.dirname(os.path.dirname(os.path.dirname(os.path.abspath(__file__))))
COQ = os.path.join(VERIF, "coq")
THEORIES = os.path.join(COQ, "theories")
WARN = "-notation-overridden,-deprecated-hint-without-locality,-deprecated-instance-without-locality"
SHARD = 300

FORBIDDEN = re.compile(
    r"\b(Admitted|admit|Axiom|Axioms|Parameter|Parameters|Conjecture|Abort All|Admit Obligations)\b"
    r"|Unset\s+Guard|bypass_check|type-in-type|impredicative-set|Unset\s+Universe\s+Checking|Unset\s+Positivity"
)
# axioms of Coq's standard library that may appear (each is named in DESIGN.md section 6)
STDLIB_AXIOMS = {
    "functional_extensionality_dep", "FunctionalExtensionality.functional_extensionality_dep",
    "Eqdep.Eq_rect_eq.eq_rect_eq", "eq_rect_eq", "classic", "Classical_Prop.classic",
    "proof_irrelevance", "JMeq_eq", "JMeq.JMeq_eq", "propositional_extensionality",
}


def strip_comments(text):
    out, depth, i = [], 0, 0
    while i < len(text):
        if text.startswith("(*", i):
            depth += 1
            i += 2
        elif text.startswith("*)", i) and depth:
            depth -= 1
            i += 2
        else:
            if not depth:
                out.append(text[i])
            i += 1
    return "".join(out)


def source_gate():
    """Every .v under theories/ is scanned (comments stripped) for declarations
    that would put something unproved into the trusted base."""
    hits = []
    for root, _, files in os.walk(THEORIES):
        for f in sorted(files):
            if f.endswith(".v"):
                p = os.path.join(root, f)
                body = strip_comments(open(p, encoding="utf-8").read())
                for m in FORBIDDEN.finditer(body):
                    hits.append("%s: %s" % (os.path.relpath(p, COQ), m.group(0)))
                # Variable/Hypothesis outside a section
                depth = 0
                for line in body.splitlines():
                    s = line.strip()
                    if re.match(r"Section\s+\w+", s):
                        depth += 1
                    elif re.match(r"End\s+\w+\s*\.", s) and depth:
                        depth -= 1
                    elif depth == 0 and re.match(r"(Variable|Variables|Hypothesis|Hypotheses|Context)\b", s):
                        hits.append("%s: section-less %s" % (os.path.relpath(p, COQ), s.split()[0]))
    return hits


def ensure_build(targets=None, timeout=3000):
    """Build of the development (no-op when fresh), serialised by a lock.
    targets: list of theories-relative .v paths whose .vo (and dependencies) are
    needed by this check; None = everything.  A full build is what setup_cmd
    does; a check only insists on what it depends on, so that an unrelated
    file that does not compile breaks that file's property, not all of them."""
    lock = open(os.path.join(COQ, ".build.lock"), "w")
    fcntl.flock(lock, fcntl.LOCK_EX)
    try:
        subprocess.run([os.path.join(VERIF, "bin", "mkproject")], check=True)
        mk, cp = os.path.join(COQ, "Makefile"), os.path.join(COQ, "_CoqProject")
        if not os.path.exists(mk) or os.path.getmtime(mk) < os.path.getmtime(cp):
            subprocess.run(["coq_makefile", "-f", "_CoqProject", "-o", "Makefile"], cwd=COQ, check=True,
                           stdout=subprocess.DEVNULL, stderr=subprocess.DEVNULL)
        cmd = ["timeout", str(timeout), "make", "-j16"]
        if targets:
            cmd += ["theories/" + t[:-2] + ".vo" for t in targets]
        r = subprocess.run(cmd, cwd=COQ, stdout=subprocess.PIPE, stderr=subprocess.STDOUT, text=True, preexec_fn=_unlimit)
        return r.returncode == 0, r.stdout[-4000:]
    finally:
        fcntl.flock(lock, fcntl.LOCK_UN)
        lock.close()


def _unlimit():
    """undo the address-space cap of the harness process for a child (coqc / make / coqchk)"""
    try:
        import resource
        soft, hard = resource.getrlimit(resource.RLIMIT_AS)
        old = int(os.environ.get("N0V_OLD_AS_SOFT", "-1"))
        resource.setrlimit(resource.RLIMIT_AS, (hard if old < 0 else old, hard))
    except Exception:  # noqa
        pass


def coqc(path, extra_q=(), timeout=600, cwd=None):
    cmd = ["timeout", str(timeout), "coqc", "-w", WARN, "-Q", THEORIES, "N0"]
    for d, name in extra_q:
        cmd += ["-Q", d, name]
    cmd.append(path)
    r = subprocess.run(cmd, cwd=cwd or COQ, stdout=subprocess.PIPE, stderr=subprocess.PIPE, text=True, preexec_fn=_unlimit)
    return r.returncode, r.stdout, r.stderr


def check_theorems(relpath, workdir):
    """Recompile a Props/ or Refuted/ file (copied to workdir so concurrent runs
    do not race on the .vo) and parse Print Assumptions output.
    Returns (ok, [ {name, closed, axioms} ], log)."""
    src = os.path.join(THEORIES, relpath)
    base = os.path.basename(relpath)[:-2]
    dst = os.path.join(workdir, "Chk_%s_%s.v" % (os.path.basename(os.path.dirname(relpath)), base))
    shutil.copy(src, dst)
    rc, out, err = coqc(dst, timeout=900)
    text = strip_comments(open(src, encoding="utf-8").read())
    names = re.findall(r"^\s*(?:Theorem|Corollary|Lemma|Example)\s+([A-Za-z0-9_']+)", text, re.M)
    printed = re.findall(r"Print\s+Assumptions\s+([A-Za-z0-9_'.]+)\s*\.", text)
    results = []
    if rc != 0:
        return False, [{"name": n, "closed": False, "axioms": ["<file does not compile>"]} for n in names], (out + err)[-3000:]
    # split stdout into one block per Print Assumptions, in order
    blocks = re.split(r"(?=Closed under the global context|Axioms:)", out)
    blocks = [b for b in blocks if b.startswith("Closed under") or b.startswith("Axioms:")]
    ok = True
    for i, n in enumerate(printed):
        if i >= len(blocks):
            results.append({"name": n, "closed": False, "axioms": ["<no Print Assumptions output>"]})
            ok = False
            continue
        b = blocks[i]
        if b.startswith("Closed under"):
            results.append({"name": n, "closed": True, "axioms": []})
        else:
            axs = re.findall(r"^([A-Za-z0-9_'.]+)\s*:", b, re.M)
            bad = [a for a in axs if a not in STDLIB_AXIOMS and a.split(".")[-1] not in STDLIB_AXIOMS]
            results.append({"name": n, "closed": not bad, "axioms": axs})
            if bad:
                ok = False
    missing = [n for n in names if n not in printed]
    for n in missing:
        results.append({"name": n, "closed": False, "axioms": ["<not followed by Print Assumptions>"]})
        ok = False
    return ok, results, (out + err)[-2000:]


_RES = re.compile(r"=\s*\(\s*\[([^\]]*)\]\s*,\s*\[([^\]]*)\]\s*,\s*(\d+)\s*\)")


def _nums(s):
    return [int(x) for x in re.findall(r"\d+", s)]


def _run_shard(args):
    path, workdir = args
    rc, out, err = coqc(path, extra_q=[(workdir, "Gen")], timeout=900, cwd=workdir)
    if rc != 0:
        return path, None, (out + err)[-3000:]
    m = _RES.search(out.replace("\n", " "))
    if not m:
        return path, None, "unparsable: " + out[-2000:]
    return path, (_nums(m.group(1)), _nums(m.group(2)), int(m.group(3))), ""


def run_corr(stream, cases, workdir, jobs=16):
    """stream: dict(name, requires=[module...], itype, model, prelude='').
    cases: list of (input_literal, out_literal).
    Returns dict(bad=[idx], unmodelled=[idx], evaluated=n, errors=[..])."""
    shards = []
    for si in range(0, len(cases), SHARD):
        chunk = cases[si:si + SHARD]
        path = os.path.join(workdir, "cases_%s_%d.v" % (stream["name"], si // SHARD))
        with open(path, "w", encoding="utf-8") as f:
            f.write("From Coq Require Import List NArith ZArith Bool.\n")
            f.write("From N0 Require Import Base.PyStr Base.PyVal %s.\n" % " ".join(stream["requires"]))
            f.write("Import ListNotations.\n")
            f.write(stream.get("prelude", ""))
            f.write("Definition cases : list ((%s) * out) := [\n" % stream["itype"])
            f.write(";\n".join("(%s, %s)" % (i, o) for i, o in chunk))
            f.write("\n].\n")
            f.write("Eval vm_compute in (corr (%s) cases).\n" % stream["model"])
        shards.append((path, si, len(chunk)))
    bad, unm, evaluated, errors = [], [], 0, []
    with cf.ThreadPoolExecutor(max_workers=jobs) as ex:
        for (path, res, log), (_, si, n) in zip(ex.map(_run_shard, [(p, workdir) for p, _, _ in shards]), shards):
            if res is None:
                errors.append("%s: %s" % (os.path.basename(path), log))
                continue
            b, u, cnt = res
            if cnt != n:
                errors.append("%s: evaluated %d of %d cases" % (os.path.basename(path), cnt, n))
            evaluated += cnt
            bad += [si + i for i in b]
            unm += [si + i for i in u]
    return {"bad": bad, "unmodelled": unm, "evaluated": evaluated, "errors": errors}


def eval_model(stream, input_literal, workdir):
    """The model's own output on one input, as Coq prints it (for replays)."""
    path = os.path.join(workdir, "one_%s.v" % stream["name"])
    with open(path, "w", encoding="utf-8") as f:
        f.write("From Coq Require Import List NArith ZArith Bool.\n")
        f.write("From N0 Require Import Base.PyStr Base.PyVal %s.\n" % " ".join(stream["requires"]))
        f.write("Import ListNotations.\n")
        f.write(stream.get("prelude", ""))
        f.write("Eval vm_compute in ((%s) (%s)).\n" % (stream["model"], input_literal))
    rc, out, err = coqc(path, timeout=120, cwd=workdir)
    return (out if rc == 0 else out + err).strip()[:4000]


def coqchk(relpaths, timeout=2400):
    """Independent re-check (coqchk -o) of the compiled Props/Refuted modules and everything they depend on.
    Returns (ok, summary_text).  ok = the checker accepted them and reports no axiom, no type-in-type, no
    unsafe fixpoint, no assumed positivity."""
    mods = ["N0." + r[:-2].replace("/", ".") for r in relpaths if r]
    r = subprocess.run(["timeout", str(timeout), "coqchk", "-silent", "-o", "-Q", THEORIES, "N0"] + mods,
                       cwd=COQ, stdout=subprocess.PIPE, stderr=subprocess.STDOUT, text=True, preexec_fn=_unlimit)
    out = r.stdout
    i = out.find("CONTEXT SUMMARY")
    summary = out[i:] if i >= 0 else out[-1500:]
    ok = r.returncode == 0 and all(("* %s: <none>" % k) in summary for k in
                                   ("Axioms", "Constants/Inductives relying on type-in-type",
                                    "Constants/Inductives relying on unsafe (co)fixpoints",
                                    "Inductives whose positivity is assumed"))
    return ok, " ".join(summary.split())[:1200]
