"""Statement coverage of the anchored functions of a property by the implementation runs of a check:
a measure of how much of the code the correspondence + oracle cases actually exercise (reported in
the evidence; not a verdict)."""
import ast
import os

ANCHORS = {
    "C01": [("n0struct_n0dict_.py", "n0dict_.__xpath"), ("n0struct_n0list_n0dict.py", "n0dict._find"),
            ("n0struct_n0list_n0dict.py", "n0list._find"), ("n0struct_utils_find.py", "split_name_index"),
            ("n0struct_utils.py", "n0eval"), ("n0struct_n0dict__.py", "n0dict__._get"), ("n0struct_n0list_.py", "n0list_._get")],
    "C02": [("n0struct_n0dict__.py", "n0dict__.__setitem__"), ("n0struct_n0list_n0dict.py", "n0dict._find")],
    "C03": [("n0struct_n0list_n0dict.py", "n0dict._add"), ("n0struct_n0dict__.py", "n0dict__.__setitem__")],
    "C04": [("n0struct_n0dict__.py", "n0dict__._get"), ("n0struct_n0dict__.py", "n0dict__.get"), ("n0struct_n0dict__.py", "n0dict__.first"),
            ("n0struct_n0list_.py", "n0list_._get"), ("n0struct_n0list_n0dict.py", "n0dict._find"), ("n0struct_n0list_n0dict.py", "n0list._find")],
    "C05": [("n0struct_n0dict__.py", "n0dict__.delete"), ("n0struct_n0dict__.py", "n0dict__.pop")],
    "C06": [("n0struct_n0list_n0dict.py", "n0dict._find"), ("n0struct_utils_find.py", "split_name_index")],
    "C07": [("n0struct_n0list_n0dict.py", "n0dict.compare"), ("n0struct_n0list_n0dict.py", "n0dict.direct_compare"),
            ("n0struct_n0list_n0dict.py", "n0list.direct_compare"), ("n0struct_n0list_n0dict.py", "n0list.compare"),
            ("n0struct_n0dict__.py", "n0dict__.update_extend")],
    "C08": [("n0struct_utils_compare.py", "generate_composite_keys"), ("n0struct_n0list_n0dict.py", "n0list.compare")],
    "C09": [("n0struct_n0list_n0dict.py", "n0dict.compare"), ("n0struct_n0list_n0dict.py", "n0list.direct_compare"),
            ("n0struct_n0list_n0dict.py", "n0list.compare")],
    "C10": [("n0struct_utils_compare.py", "xpath_match"), ("n0struct_n0list_n0dict.py", "n0dict.compare"),
            ("n0struct_n0list_n0dict.py", "n0list.direct_compare"), ("n0struct_n0list_n0dict.py", "n0list.compare")],
    "C11": [("n0struct_logging.py", "n0pretty"), ("n0struct_n0dict_.py", "n0dict_.to_json"), ("n0struct_n0list_.py", "n0list_.to_json")],
    "C12": [("n0struct_n0dict_.py", "n0dict_.__xml"), ("n0struct_n0dict_.py", "n0dict_.to_xml")],
    "C13": [("n0struct_files_csv.py", "parse_complex_csv_line"), ("n0struct_files_csv.py", "generate_complex_csv_row")],
    "C14": [("n0struct_files_csv.py", "load_csv"), ("n0struct_files_csv.py", "save_csv"), ("n0struct_files_csv.py", "load_native_csv")],
    "C15": [("n0struct_files.py", "save_file"), ("n0struct_files.py", "load_file"), ("n0struct_files.py", "load_lines")],
    "C16": [("n0struct_utils.py", "parse_tlv"), ("n0struct_utils.py", "generate_tlv"), ("n0struct_files_fwf.py", "parse_fwf_row"),
            ("n0struct_files_fwf.py", "generate_fwf_row"), ("n0struct_files_fwf.py", "load_fwf")],
    "C17": [("n0struct_utils.py", "split_with_escape"), ("n0struct_utils.py", "deserialize_list"), ("n0struct_utils.py", "deserialize_key_value"),
            ("n0struct_utils.py", "deserialize_dict"), ("n0struct_utils.py", "serialize_dict"), ("n0struct_utils.py", "unescape"),
            ("n0struct_comprehensions.py", "parse_ini")],
    "C18": [("n0struct_xml.py", "n0xml._parse_node"), ("n0struct_xml.py", "n0xml._get"), ("n0struct_xml.py", "n0xml.findall"),
            ("n0struct_xml.py", "n0xml.findfirst"), ("n0struct_xml.py", "n0xml.__contains__")],
    "C19": [("n0struct_findall.py", "findall"), ("n0struct_findall.py", "_findall"), ("n0struct_findall.py", "findfirst")],
}


def _ranges(path):
    """qualname -> (first line, last line) for every def in a file"""
    out = {}
    tree = ast.parse(open(path, encoding="utf-8").read())

    def walk(node, prefix):
        for ch in ast.iter_child_nodes(node):
            if isinstance(ch, (ast.FunctionDef, ast.AsyncFunctionDef)):
                out[prefix + ch.name] = (ch.lineno, ch.end_lineno)
                walk(ch, prefix + ch.name + ".<locals>.")
            elif isinstance(ch, ast.ClassDef):
                walk(ch, prefix + ch.name + ".")
    walk(tree, "")
    return out


class Tracker:
    def __init__(self, pid, repo):
        self.items = ANCHORS.get(pid, [])
        self.repo = repo
        self.cov = None
        if not self.items:
            return
        try:
            import coverage
            files = sorted({os.path.join(repo, "n0struct", f) for f, _ in self.items})
            self.cov = coverage.Coverage(data_file=None, include=files, config_file=False)
        except Exception:  # noqa
            self.cov = None

    def start(self):
        if self.cov:
            self.cov.start()

    def stop(self):
        if self.cov:
            self.cov.stop()

    def report(self):
        if not self.cov:
            return None
        res, tot_s, tot_e = {}, 0, 0
        for f, qn in self.items:
            path = os.path.join(self.repo, "n0struct", f)
            try:
                rng = _ranges(path).get(qn)
                _, stmts, _, missing, _ = self.cov.analysis2(path)
            except Exception as e:  # noqa
                res["%s:%s" % (f, qn)] = "not measured (%s)" % type(e).__name__
                continue
            if not rng:
                res["%s:%s" % (f, qn)] = "function not found"
                continue
            s = [ln for ln in stmts if rng[0] < ln <= rng[1]]
            e = [ln for ln in s if ln not in set(missing)]
            res["%s:%s" % (f, qn)] = {"statements": len(s), "executed": len(e),
                                      "missed_lines": [ln for ln in s if ln in set(missing)][:40]}
            tot_s += len(s)
            tot_e += len(e)
        return {"functions": res, "statements": tot_s, "executed": tot_e,
                "ratio": round(tot_e / tot_s, 3) if tot_s else None}
