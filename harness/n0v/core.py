"""The check driver shared by all properties (DESIGN.md sections 2.2, 2.3, 7)."""
import contextlib
import io
import json
import os
import random
import shutil
import signal
import sys
import tempfile
import time
import traceback

from . import anchors, coqlit, coqrun

VERIF = coqrun.VERIF
# evidence describes /repo itself: a run pointed at another checkout (N0V_REPO: seeded changes, builder
# worktrees) writes its record next to that checkout's scratch output instead of overwriting the registered one
_REPO = os.path.realpath(os.environ.get("N0V_REPO", "/repo"))
EVIDENCE = (os.path.join(VERIF, "evidence") if _REPO == "/repo"
            else os.environ.get("N0V_EVIDENCE_DIR", os.path.join(VERIF, "evidence-other")))
REPLAYS = os.path.join(VERIF, "replays")
CORPUS = os.path.join(VERIF, "corpus")
FINDINGS = os.path.join(VERIF, "known_findings.json")

COMMON_TRUSTED = [
    "Coq 8.16.1 kernel + coqc; vm_compute for correspondence evaluation and witnesses; no native_compute",
    "hand-written Gallina Impl model: modelled, tied to /repo only by the correspondence check of this run",
    "harness: generators, canonicalisers, Coq literal printer, parser of coqc output, known-finding classifiers",
]


class CaseTimeout(Exception):
    pass


def _alarm(signum, frame):
    raise CaseTimeout()


class Prop:
    id = None
    props_file = None
    refuted_file = None
    streams = {}
    trusted_base = []
    assumptions = []
    rule = ""
    case_timeout = 5
    classifiers = {}
    search_budget_s = 60

    # ---- to override -------------------------------------------------------
    def setup(self):
        pass

    def teardown(self):
        pass

    def generate(self, rng, tier):
        raise NotImplementedError

    def run_impl(self, case):
        raise NotImplementedError

    def coq_input(self, case):
        raise NotImplementedError

    def oracle(self, case, obs):
        return None

    def nontrivial(self, case, obs):
        return "ok" in obs

    def valid(self, case):
        return True

    def extra_evidence(self):
        return {}

    # ---- helpers ------------------------------------------------------------
    def observe(self, case):
        """run_impl with exception capture and a per-case alarm"""
        old = signal.signal(signal.SIGALRM, _alarm)
        signal.alarm(self.case_timeout)
        try:
            with contextlib.redirect_stdout(io.StringIO()), contextlib.redirect_stderr(io.StringIO()):
                obs = self.run_impl(case)
        except CaseTimeout:
            obs = {"timeout": self.case_timeout}
        except coqlit.Unrepresentable as e:
            obs = {"unrepresentable": str(e)}
        except RecursionError as e:
            obs = {"raise": "ExRecursion", "exc": "RecursionError"}
        except BaseException as e:  # noqa
            if isinstance(e, (KeyboardInterrupt, SystemExit)):
                raise
            obs = {"raise": coqlit.exn_name(e), "exc": "%s: %s" % (type(e).__name__, str(e)[:200])}
        finally:
            signal.alarm(0)
            signal.signal(signal.SIGALRM, old)
        return obs

    def judge(self, case, obs):
        """oracle with exception capture: an oracle that crashes is a harness bug,
        reported as such (never silently passing)"""
        if "timeout" in obs:
            return "implementation did not return within %ss" % obs["timeout"]
        try:
            return self.oracle(case, obs)
        except Exception as e:  # noqa
            return "HARNESS oracle crashed: %s" % traceback.format_exc()[-600:]


def load_findings():
    if not os.path.exists(FINDINGS):
        return []
    return json.load(open(FINDINGS))["findings"]


def classify(prop, findings, case, obs, failure):
    for f in findings:
        if f.get("property") != prop.id or f.get("status") != "known":
            continue
        fn = prop.classifiers.get(f.get("classifier"))
        if fn is None:
            continue
        try:
            if fn(case, obs, failure):
                return f["id"]
        except Exception:
            continue
    return None


def _shrink_candidates(x):
    """structural shrinks of a JSON value"""
    if isinstance(x, list):
        for i in range(len(x)):
            yield x[:i] + x[i + 1:]
        for i in range(len(x)):
            for c in _shrink_candidates(x[i]):
                yield x[:i] + [c] + x[i + 1:]
    elif isinstance(x, dict):
        for k in x:
            for c in _shrink_candidates(x[k]):
                y = dict(x)
                y[k] = c
                yield y
    elif isinstance(x, str):
        for i in range(len(x)):
            yield x[:i] + x[i + 1:]
    elif isinstance(x, int) and not isinstance(x, bool) and x not in (0, 1):
        yield x // 2


def shrink(prop, case, still_fails, budget=300, deadline_s=20):
    t0 = time.time()
    cur = case
    n = 0
    progress = True
    while progress and n < budget and time.time() - t0 < deadline_s:
        progress = False
        for cand_input in _shrink_candidates(cur.get("input")):
            n += 1
            if n >= budget or time.time() - t0 > deadline_s:
                break
            cand = dict(cur)
            cand["input"] = cand_input
            try:
                if not prop.valid(cand):
                    continue
                if still_fails(cand):
                    cur = cand
                    progress = True
                    break
            except Exception:
                continue
    return cur


def run_check(prop, tier, seed):
    t0 = time.time()
    os.makedirs(EVIDENCE, exist_ok=True)
    os.makedirs(REPLAYS, exist_ok=True)
    gen_root = os.path.join(coqrun.COQ, "gen")
    os.makedirs(gen_root, exist_ok=True)
    workdir = tempfile.mkdtemp(prefix="%s-%d-" % (prop.id, os.getpid()), dir=gen_root)
    findings = load_findings()
    failures = []          # dicts: kind, detail, case?, obs?
    notes = []
    theorems = []
    obligations = discharged = 0
    try:
        # ---- build + theorem recheck + source gate ------------------------------
        targets = [t for t in [prop.props_file, prop.refuted_file] if t]
        for st in prop.streams.values():
            targets += [r.replace(".", "/") + ".v" for r in st["requires"]]
        ok, log = coqrun.ensure_build(sorted(set(targets)))
        if not ok:
            failures.append({"kind": "theorem", "detail": "development does not build", "log": log})
        gate = coqrun.source_gate()
        if gate:
            failures.append({"kind": "theorem", "detail": "forbidden declarations in the development: %s" % gate})
        if ok:
            for rel in [prop.props_file, prop.refuted_file]:
                if not rel:
                    continue
                tok, res, tlog = coqrun.check_theorems(rel, workdir)
                for r in res:
                    r["file"] = rel
                theorems += res
                if not tok:
                    bad = [r["name"] for r in res if not r["closed"]]
                    failures.append({"kind": "theorem", "detail": "%s: theorem(s) no longer check: %s" % (rel, bad), "log": tlog})
        obligations = len(theorems) + 1
        discharged = sum(1 for r in theorems if r["closed"])
        chk_summary = None
        if ok and tier == "thorough":
            # the independent checker re-checks the compiled property modules and all they depend on
            cok, chk_summary = coqrun.coqchk([prop.props_file, prop.refuted_file])
            obligations += 1
            if cok:
                discharged += 1
            else:
                failures.append({"kind": "theorem", "detail": "coqchk does not accept the property modules without assumptions: %s" % chk_summary})

        # ---- cases ------------------------------------------------------------------
        prop.setup()
        rng = random.Random(seed)
        cases = []
        cdir = os.path.join(CORPUS, prop.id)
        if os.path.isdir(cdir):
            for f in sorted(os.listdir(cdir)):
                if f.endswith(".json"):
                    c = json.load(open(os.path.join(cdir, f)))
                    c["tag"] = "corpus:" + f
                    cases.append(c)
        known_here = [f for f in findings if f.get("property") == prop.id and f.get("status") == "known"]
        for f in known_here:
            for w in f.get("witnesses", []):
                c = dict(w)
                c["tag"] = "witness:" + f["id"]
                c["witness_of"] = f["id"]
                cases.append(c)
        cases += list(prop.generate(rng, tier))

        # ---- implementation runs + oracle ----------------------------------------------
        tracker = anchors.Tracker(prop.id, os.environ.get("N0V_REPO", "/repo"))
        tracker.start()
        tags, kinds = {}, {}
        distinct = set()
        observations = []
        known_hits = {}
        witness_alive = set()
        for case in cases:
            obs = prop.observe(case)
            observations.append(obs)
            tags[case.get("tag", "-")] = tags.get(case.get("tag", "-"), 0) + 1
            k = "ok" if "ok" in obs else ("raise:" + obs["raise"] if "raise" in obs else next(iter(obs)))
            kinds[k] = kinds.get(k, 0) + 1
            if "unrepresentable" in obs:
                continue
            if prop.nontrivial(case, obs):
                distinct.add(json.dumps(case.get("input"), sort_keys=True, default=str) + "|" + str(case.get("stream")))
            fail = prop.judge(case, obs)
            if fail:
                fid = classify(prop, findings, case, obs, fail)
                if fid:
                    known_hits[fid] = known_hits.get(fid, 0) + 1
                    if case.get("witness_of") == fid:
                        witness_alive.add(fid)
                else:
                    failures.append({"kind": "oracle", "detail": fail, "case": case, "obs": obs})

        tracker.stop()
        # ---- correspondence ------------------------------------------------------------
        corr_total = corr_unmodelled = 0
        corr_bad = []
        selftest_ok = True
        for sname, stream in prop.streams.items():
            st = dict(stream)
            st["name"] = sname
            idx = [i for i, c in enumerate(cases) if c.get("stream") == sname
                   and ("ok" in observations[i] or "raise" in observations[i])]
            lits = []
            keep = []
            for i in idx:
                try:
                    lits.append((prop.coq_input(cases[i]), coqlit.out(observations[i])))
                    keep.append(i)
                except coqlit.Unrepresentable:
                    continue
            if not lits:
                continue
            # self-test: a deliberately wrong expectation must be reported
            first_in, first_out = lits[0]
            wrong = "(Raise ExOther)" if first_out != "(Raise ExOther)" else "(Raise ExKey)"
            lits.append((first_in, wrong))
            r = coqrun.run_corr(st, lits, workdir)
            if r["errors"]:
                failures.append({"kind": "corr", "detail": "correspondence stream %s did not evaluate: %s" % (sname, r["errors"][:2])})
                continue
            sentinel = len(lits) - 1
            if sentinel not in r["bad"] and sentinel not in r["unmodelled"]:
                selftest_ok = False
                failures.append({"kind": "harness", "detail": "self-test case of stream %s was not reported as failing" % sname})
            corr_total += r["evaluated"] - 1
            corr_unmodelled += len([u for u in r["unmodelled"] if u != sentinel])
            for b in r["bad"]:
                if b == sentinel:
                    continue
                i = keep[b]
                corr_bad.append((sname, i))
        for sname, i in corr_bad[:50]:
            st = dict(prop.streams[sname])
            st["name"] = sname
            case, obs = cases[i], observations[i]
            entry = {"kind": "corr", "stream": sname, "case": case, "obs": obs,
                     "detail": "model %s and implementation disagree" % st["model"]}
            if len([f for f in failures if f["kind"] == "corr"]) < 3:
                entry["model_output"] = coqrun.eval_model(st, prop.coq_input(case), workdir)
            failures.append(entry)
        if corr_bad and len(corr_bad) > 50:
            notes.append("%d further disagreements not listed" % (len(corr_bad) - 50))
        if not [f for f in failures if f["kind"] == "corr"]:
            discharged += 1

        # ---- a correspondence / theorem failure without a failing input: search ------
        searched = 0
        if failures and not [f for f in failures if f["kind"] == "oracle"]:
            tend = time.time() + prop.search_budget_s
            k = 0
            while time.time() < tend and k < 40:
                k += 1
                extra = list(prop.generate(random.Random(seed * 1000003 + k), tier))
                # neighbours of disagreeing cases first
                for case in extra:
                    if time.time() > tend:
                        break
                    obs = prop.observe(case)
                    searched += 1
                    fail = prop.judge(case, obs)
                    if fail and not classify(prop, findings, case, obs, fail):
                        failures.append({"kind": "oracle", "detail": fail, "case": case, "obs": obs, "found_by": "search"})
                        tend = 0
                        break

        # ---- shrink the first few failing inputs ----------------------------------------
        for f in [f for f in failures if f["kind"] == "oracle"][:3]:
            def still(c, _f=f):
                o = prop.observe(c)
                d = prop.judge(c, o)
                return bool(d) and not classify(prop, findings, c, o, d)
            small = shrink(prop, f["case"], still)
            if small is not f["case"]:
                f["minimised"] = small
                f["minimised_detail"] = prop.judge(small, prop.observe(small))

        # ---- verdict -------------------------------------------------------------------
        for f in known_here:
            alive = f["id"] in witness_alive or known_hits.get(f["id"], 0) > 0
            if alive:
                print("KNOWN-FINDING: property=%s %s [%s; %d case(s) this run]" % (prop.id, f["what"], f["id"], known_hits.get(f["id"], 0)))
            else:
                notes.append("known finding %s did not reproduce in this run" % f["id"])
        exit_code = 0
        replay_path = None
        if failures:
            exit_code = 1
            replay_path = os.path.join(REPLAYS, "%s-%s-seed%d.json" % (prop.id, tier, seed))
            has_input = any(f["kind"] == "oracle" for f in failures)
            with open(replay_path, "w") as fh:
                json.dump({"property": prop.id, "tier": tier, "seed": seed,
                           "no_failing_input_found": not has_input,
                           "lost": [f["detail"] for f in failures if f["kind"] != "oracle"],
                           "failures": failures[:25]}, fh, indent=1, default=str)
            rel = os.path.relpath(replay_path, VERIF)
            print("VIOLATION property=%s replay=%s%s" % (prop.id, rel, "" if has_input else " no-failing-input-found"))
            for f in failures[:5]:
                print("  - [%s] %s" % (f["kind"], str(f["detail"])[:300]))
                if "case" in f:
                    print("    case: %s" % json.dumps(f.get("minimised", f["case"]), default=str)[:400])

        # ---- evidence --------------------------------------------------------------------
        samples = []
        step = max(1, len(cases) // 5)
        for i in range(0, len(cases), step):
            samples.append({"case": cases[i], "observation": observations[i]})
            if len(samples) >= 6:
                break
        ev = {
            "property_id": prop.id, "tier": tier, "seed": seed, "level": "proof",
            "coverage": {
                "obligations": obligations, "discharged": discharged,
                "checker_cmd": "coqc -Q coq/theories N0 coq/theories/%s (+ Refuted, Print Assumptions) ; sharded coqc Eval vm_compute (corr ...) over coq/gen/cases_*.v" % prop.props_file,
                "trusted_base": COMMON_TRUSTED + list(prop.trusted_base),
                "theorems": theorems,
                "traces_validated_against_impl": corr_total,
                "correspondence_unmodelled": corr_unmodelled,
                "correspondence_disagreements": len(corr_bad),
                "selftest_reported": selftest_ok,
                "coqchk": chk_summary,
                "anchored_code_coverage": tracker.report(),
                "evaluations": len(cases) + searched,
                "distinct_nontrivial": len(distinct),
                "rule": prop.rule,
                "samples": samples,
                "case_tags": tags,
                "observation_kinds": kinds,
                "known_findings_hit": known_hits,
                "notes": notes,
                "exhaustive": False,
            },
            "assumptions": list(prop.assumptions),
            "wall_s": round(time.time() - t0, 2),
            "violations": len(failures),
        }
        ev["coverage"].update(prop.extra_evidence())
        with open(os.path.join(EVIDENCE, "%s.json" % prop.id), "w") as fh:
            json.dump(ev, fh, indent=1, default=str)
        print("%s %s seed=%d: %d cases, %d correspondence cases (%d unmodelled), %d/%d obligations, %d failure(s), %.1fs"
              % (prop.id, tier, seed, len(cases), corr_total, corr_unmodelled, discharged, obligations, len(failures), time.time() - t0))
        return exit_code
    finally:
        try:
            prop.teardown()
        finally:
            shutil.rmtree(workdir, ignore_errors=True)


def run_replay(props, path):
    data = json.load(open(path))
    prop = props[data["property"]]()
    findings = load_findings()
    prop.setup()
    gen_root = os.path.join(coqrun.COQ, "gen")
    os.makedirs(gen_root, exist_ok=True)
    workdir = tempfile.mkdtemp(prefix="replay-%d-" % os.getpid(), dir=gen_root)
    still = 0
    try:
        for f in data.get("failures", []):
            if "case" not in f:
                print("[%s] %s  (no input to replay: re-run the check)" % (f["kind"], f["detail"]))
                still += 1
                continue
            case = f.get("minimised", f["case"])
            obs = prop.observe(case)
            if f["kind"] == "oracle":
                d = prop.judge(case, obs)
                print("[oracle] case=%s\n  observation=%s\n  -> %s" % (json.dumps(case, default=str)[:500], json.dumps(obs, default=str)[:500], d or "holds now"))
                if d:
                    still += 1
            else:
                st = dict(prop.streams[f["stream"]])
                st["name"] = f["stream"]
                r = coqrun.run_corr(st, [(prop.coq_input(case), coqlit.out(obs))], workdir)
                bad = bool(r["bad"] or r["errors"])
                print("[corr] case=%s\n  implementation=%s\n  model=%s\n  -> %s" % (
                    json.dumps(case, default=str)[:500], json.dumps(obs, default=str)[:500],
                    coqrun.eval_model(st, prop.coq_input(case), workdir)[:500], "disagree" if bad else "agree now"))
                if bad:
                    still += 1
    finally:
        prop.teardown()
        shutil.rmtree(workdir, ignore_errors=True)
    print("replay: %d of %d failure(s) still reproduce" % (still, len(data.get("failures", []))))
    return 1 if still else 0
