"""Printing Python-side values as Gallina literals (Base.PyStr / Base.PyVal types).

Canonical value form ("ctree"), JSON-serialisable, produced by canon():
  ["n"]                 None
  ["b", true]           bool
  ["i", 5]              int
  ["f", 3]              float 1.5  (stored as 2*x, must be integral)
  ["s", "text"]         str
  ["y", [1,2]]          bytes
  ["d", c, [[k, v]..]]  dict   (c = 1 for n0dict, 0 for plain dict), insertion order
  ["l", c, [v..]]       list   (c = 1 for n0list, 0 for list/tuple)
"""


class Unrepresentable(Exception):
    pass


def pstr(s):
    if isinstance(s, str):
        cps = [ord(c) for c in s]
    else:
        cps = list(s)
    if not cps:
        return "[]"
    return "[" + ";".join(str(c) for c in cps) + "]%N"


def z(n):
    return "(%d)%%Z" % n


def nat(n):
    assert n >= 0
    return "%d%%nat" % n


def boolean(b):
    return "true" if b else "false"


def lst(items):
    items = list(items)
    if not items:
        return "[]"
    return "[" + "; ".join(items) + "]"


def opt(x):
    return "None" if x is None else "(Some %s)" % x


def pair(a, b):
    return "(%s, %s)" % (a, b)


def strs(items):
    return lst(pstr(s) for s in items)


def canon(v, n0dict=None, n0list=None):
    """Python value -> ctree.  n0dict/n0list classes are looked up lazily so the
    module can be imported without the package."""
    if n0dict is None:
        import n0struct
        n0dict, n0list = n0struct.n0dict, n0struct.n0list
    if v is None:
        return ["n"]
    if isinstance(v, bool):
        return ["b", v]
    if isinstance(v, int):
        return ["i", v]
    if isinstance(v, float):
        h = v * 2
        if h != h or h in (float("inf"), float("-inf")) or h != int(h):
            raise Unrepresentable("float %r" % v)
        return ["f", int(h)]
    if isinstance(v, str):
        return ["s", v]
    if isinstance(v, (bytes, bytearray)):
        return ["y", list(v)]
    if isinstance(v, dict):
        out = []
        for k, x in v.items():
            if not isinstance(k, str):
                raise Unrepresentable("key %r" % (k,))
            out.append([k, canon(x, n0dict, n0list)])
        return ["d", 1 if isinstance(v, n0dict) else 0, out]
    if isinstance(v, (list, tuple)):
        return ["l", 1 if isinstance(v, n0list) else 0, [canon(x, n0dict, n0list) for x in v]]
    raise Unrepresentable("type %s" % type(v).__name__)


def erase_tags(ct):
    """ctree with all class tags set to 0 (for observations where the property
    does not speak about container classes)."""
    t = ct[0]
    if t == "d":
        return ["d", 0, [[k, erase_tags(v)] for k, v in ct[2]]]
    if t == "l":
        return ["l", 0, [erase_tags(v) for v in ct[2]]]
    return ct


def uncanon(ct, wrap=False):
    """ctree -> plain Python value (class tags ignored unless wrap, which then
    needs n0struct)."""
    t = ct[0]
    if t == "n":
        return None
    if t in ("b", "i", "s"):
        return ct[1]
    if t == "f":
        return ct[1] / 2
    if t == "y":
        return bytes(ct[1])
    if t == "d":
        d = {k: uncanon(v, wrap) for k, v in ct[2]}
        if wrap and ct[1]:
            import n0struct
            return n0struct.n0dict(d)
        return d
    if t == "l":
        l = [uncanon(v, wrap) for v in ct[2]]
        if wrap and ct[1]:
            import n0struct
            return n0struct.n0list(l)
        return l
    raise ValueError(ct)


def tree(ct):
    t = ct[0]
    if t == "n":
        return "Leaf SNone"
    if t == "b":
        return "Leaf (SBool %s)" % boolean(ct[1])
    if t == "i":
        return "Leaf (SInt %s)" % z(ct[1])
    if t == "f":
        return "Leaf (SFlt %s)" % z(ct[1])
    if t == "s":
        return "Leaf (SStr %s)" % pstr(ct[1])
    if t == "y":
        return "Leaf (SBytes %s)" % pstr(bytes(ct[1]))
    if t == "d":
        return "Dict %s %s" % (boolean(ct[1]), lst("(%s, %s)" % (pstr(k), tree(v)) for k, v in ct[2]))
    if t == "l":
        return "Lst %s %s" % (boolean(ct[1]), lst(tree(v) for v in ct[2]))
    raise ValueError(ct)


EXN_MAP = {
    "IndexError": "ExIndex", "KeyError": "ExKey", "TypeError": "ExType", "ValueError": "ExValue",
    "SyntaxError": "ExSyntax", "AttributeError": "ExAttribute", "AssertionError": "ExAssertion",
    "UnboundLocalError": "ExUnbound", "NameError": "ExUnbound", "RecursionError": "ExRecursion",
}


def exn_name(e):
    """Exception instance (or class name) -> the model's enumeration."""
    name = e if isinstance(e, str) else type(e).__name__
    if name in EXN_MAP:
        return EXN_MAP[name]
    if not isinstance(e, str):
        for cls in type(e).__mro__:
            if cls.__name__ in EXN_MAP:
                return EXN_MAP[cls.__name__]
    return "ExOther"


def out(obs):
    """observation {'ok': ctree} | {'raise': 'ExType'} -> literal of type out"""
    if "ok" in obs:
        return "(Ok (%s))" % tree(obs["ok"])
    if obs["raise"] == "ExRecursion":
        # the interpreter's stack ran out: what the fuelled models render as OutOfFuel (a model that terminates
        # where the implementation recurses for ever, or the other way round, still shows as a disagreement)
        return "OutOfFuel"
    return "(Raise %s)" % obs["raise"]
