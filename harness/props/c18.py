"""C18 — n0xml keeps document order and its searches return only real nodes."""
import itertools
import re
import xml.etree.ElementTree as ET

from n0v import coqlit as L
from n0v.core import Prop

TAGS = ["a", "b", "c", "d"]
TEXTS = ["x", "y", "a", "ca", "1", "None", "null", "x y", " ", "é", "b]", "Nul"]
SENT = object()


# ---- documents -----------------------------------------------------------------
def esc(s, attr=False):
    s = s.replace("&", "&amp;").replace("<", "&lt;").replace(">", "&gt;")
    return s.replace('"', "&quot;") if attr else s


def gen_elem(rng, depth, maxdepth, maxkids):
    """nested [tag, attrs, text, kids] with repeated and interleaved sibling tags"""
    tag = rng.choice(TAGS if rng.random() < 0.93 else ["ab", "x1", "a_b"])
    attrs = []
    if rng.random() < 0.2:
        for k in rng.sample(["k", "id", "n"], rng.randint(1, 2)):
            attrs.append([k, rng.choice(["v", "1", "a b", "<&\"", ""])])
    kids = []
    if depth < maxdepth and rng.random() < (0.75 if depth < 2 else 0.4):
        pool = rng.sample(TAGS, rng.randint(1, 3))
        for _ in range(rng.randint(1, maxkids)):
            k = gen_elem(rng, depth + 1, maxdepth, maxkids)
            if rng.random() < 0.8:
                k[0] = rng.choice(pool)
            kids.append(k)
    if kids:
        text = rng.choice([None, None, None, "\n  ", "mixed"])
    else:
        text = rng.choice([None, None] + TEXTS)
    return [tag, attrs, text, kids]


def to_xml(e, rng=None):
    tag, attrs, text, kids = e
    a = "".join(' %s="%s"' % (k, esc(v, True)) for k, v in attrs)
    if not kids and text is None:
        return "<%s%s/>" % (tag, a)
    tail = ""
    return "<%s%s>%s%s</%s>%s" % (tag, a, esc(text or ""), "".join(to_xml(k) for k in kids), tag, tail)


def gen_doc(rng, maxdepth=4, maxkids=4):
    root = gen_elem(rng, 0, maxdepth, maxkids)
    root[0] = "r"
    if not root[3] and rng.random() < 0.9:
        root[3] = [gen_elem(rng, 1, maxdepth, maxkids) for _ in range(rng.randint(1, maxkids))]
    return to_xml(root)


def ref_items(e):
    """the structure the property demands, straight from ElementTree"""
    return [(c.tag, {"value": ref_items(c) if len(c) else c.text, "attrib": dict(c.attrib)}) for c in e]


def ref_value(c):
    return ref_items(c) if len(c) else c.text


def node_paths(root):
    """all (steps, element) with steps = [(tag, per-tag index)...] in document order"""
    out = []

    def walk(e, steps):
        cnt = {}
        for c in e:
            i = cnt.get(c.tag, 0)
            cnt[c.tag] = i + 1
            s = steps + [(c.tag, i)]
            out.append((s, c))
            walk(c, s)
    walk(root, [])
    return out


def et_nav(root, steps):
    cur = root
    for tag, i in steps:
        l = [c for c in cur if c.tag == tag]
        if i < 0 or i >= len(l):
            return None
        cur = l[i]
    return cur


PART = re.compile(r"^([^\[\]]+)(?:\[(\d+)\])?$")


def parts_to_steps(parts):
    steps = []
    for p in parts:
        m = PART.match(p)
        if not m:
            return None
        steps.append((m.group(1), int(m.group(2) or 0)))
    return steps


def render_steps(steps, rng=None, explicit=True):
    out = []
    for tag, i in steps:
        if explicit or i or (rng and rng.random() < 0.5):
            out.append("%s[%d]" % (tag, i))
        else:
            out.append(tag)
    return "/".join(out)


def case_xp(i):
    """the expression of a case: given literally, or derived from structured steps
    (so that shrinking keeps expression and oracle data consistent)"""
    if "xp" in i:
        return i["xp"]
    if "steps" in i:
        parts = ["%s[%d]" % (t, n) if (ex or n) else t for t, n, ex in i["steps"]]
        return i.get("lead", "") + "/".join(parts)
    if "parent" in i:
        parts = ["%s[%d]" % (t, n) for t, n in i["parent"]] + [i["tag"] + i.get("sel", "") + i.get("cond", "")]
        return "/".join(parts)
    raise KeyError("xp")


# ---- expressions ---------------------------------------------------------------------
def gen_cond(rng, texts):
    op = rng.choice(["=", "=", "==", "!=", "<>"])
    v = rng.choice(texts + ["x", "None", "null", "zz"])
    q = rng.choice(["", "", "", "'", '"'])
    fn = rng.choice(["text()", "text()", "text()", "text"])
    return "[%s%s%s%s%s]" % (fn, op, q, v, q)


def gen_expr(rng, root, paths, maxsteps=5):
    texts = sorted({c.text for _, c in paths if c.text and not len(c) and "'" not in c.text and '"' not in c.text})
    if paths and rng.random() < 0.85:
        steps, _ = rng.choice(paths)
        steps = list(steps)[:maxsteps]
    else:
        steps = [(rng.choice(TAGS), rng.randint(0, 2)) for _ in range(rng.randint(1, 3))]
    parts = []
    for tag, i in steps:
        k = rng.random()
        if k < 0.45:
            p = tag
        elif k < 0.6:
            p = "*"
        elif k < 0.72:
            p = "**"
        elif k < 0.77:
            p = rng.choice(TAGS + ["z"])
        else:
            p = tag
        k = rng.random()
        if p != "**" or rng.random() < 0.35:
            if k < 0.22:
                p += "[%d]" % i
            elif k < 0.3:
                p += "[%d]" % rng.randint(0, 3)
            elif k < 0.4:
                p += "[*]"
        if rng.random() < 0.18 and (p != "**" or rng.random() < 0.2):
            p += gen_cond(rng, texts)
        parts.append(p)
        if rng.random() < (0.1 if "[" not in p else 0.25):
            parts.append("..")
            if rng.random() < 0.5:
                parts.append(rng.choice(TAGS + ["*"]))
    if rng.random() < 0.08:
        parts.insert(rng.randrange(len(parts) + 1), "**")
    if rng.random() < 0.04:
        parts.insert(0, "..")
    xp = "/".join(parts[:maxsteps + 2])
    k = rng.random()
    if k < 0.1:
        xp = "/" + xp
    elif k < 0.15:
        xp = "//" + xp
    elif k < 0.2:
        xp = xp + "/"
    if rng.random() < 0.05:
        xp = xp.replace("[", "/[", 1)
    return xp


MALFORMED = ["", "/", "a[", "a]", "a[x]", "a[1", "é", "a b", "a-b", "a[1]x", "a[1][2]", "a[text()=]", "a[text()==]",
             "a[text()!=]", "a[text=x]", "a[text()= x]", "a[text()='x]", "a[text()=x']", "a[text()=x]]", "a[text()=a\"b]",
             "a[text()=b]]", "a[text()='b]']", "[0]", "a//b", "a/./b", "***", "**/**/**", "**/**", "a[*][*]", "a[01]",
             "a[ 0 ]", "a[+0]", "a[-1]", "a[0_0]", "a[1_]", "a[_1]", "a[1__0]", "a[0][0]", "*[1]", "**[1]", "**[text()=x]",
             "a[text()<>x]", "a[text()=>x]", "a[text()x]", "a[text(]", "a[1][text()=x]", "a[*][text()!=x]", "a[tex()=x]",
             "a/[1]", "a/[*]", "a/[text()=x]", "!", "a!", "_", "_a", "A", "a1", "1"]


class C18(Prop):
    id = "C18"
    props_file = "Props/C18.v"
    refuted_file = "Refuted/C18.v"
    case_timeout = 10
    rule = ("XML documents over tags {a,b,c,d} (+ a few longer names) with repeated and interleaved siblings, empty elements, "
            "attributes, mixed content, depth <= 4 (5 thorough); expressions derived from real node paths by replacing steps with "
            "*, **, other names, [i], [*], text() conditions (=,==,!=,<>, quoted or not), '..', plus a malformed list; get with "
            "explicit per-tag indexes for every node, missing indexes and paths below leaves; exhaustive small scope: all documents "
            "of <= 4 elements over 2 tags x expressions <= 2 steps. non-trivial = the call returned; distinct = distinct (stream, input)")
    trusted_base = [
        "xml.etree.ElementTree (expat) is the oracle that produces the element tree printed as a Gallina literal",
        "the regular expression of n0xml.findall is modelled by the hand-written tokenizer N0xml.Model.tok_step (correspondence only)",
        "str.replace/strip/split/rstrip, int(): modelled (Base.PyStr, N0xml.Util.py_int), validated by correspondence",
    ]
    assumptions = ["tag names contain no '[' (XML names cannot)", "exception classes are collapsed in the observations (the property does not speak about them)", "theorems exclude OutOfFuel; the model supplies height+|steps|+3 fuel and the run reports any OutOfFuel as a disagreement"]
    R = ["N0xml.Util", "N0xml.Model"]
    streams = {
        "parse": dict(requires=R, itype="elem", model="obs_parse"),
        "get": dict(requires=R, itype="elem * pstr", model="obs_get"),
        "get_parts": dict(requires=R, itype="elem * list pstr", model="obs_get_parts"),
        "findall": dict(requires=R, itype="elem * pstr", model="obs_findall"),
        "findfirst": dict(requires=R, itype="elem * pstr", model="obs_findfirst"),
        "findall_ff": dict(requires=R, itype="elem * pstr", model="obs_findall_ff"),
        "contains": dict(requires=R, itype="elem * pstr", model="obs_contains"),
    }

    def setup(self):
        import n0struct
        self.n0xml = n0struct.n0xml

    # ---- generation ------------------------------------------------------------------
    def generate(self, rng, tier):
        out = []
        ndocs = 120 if tier == "quick" else 1500
        nexpr = 10 if tier == "quick" else 16
        maxdepth = 4 if tier == "quick" else 5

        def add(stream, label, xml, **kw):
            d = {"xml": xml}
            d.update(kw)
            out.append({"stream": stream, "tag": label, "input": d})

        for _ in range(ndocs):
            xml = gen_doc(rng, maxdepth=maxdepth)
            root = ET.fromstring(xml)
            paths = node_paths(root)
            add("parse", "rnd:parse", xml)
            # get: explicit per-tag indexes of real nodes, missing siblings, below leaves
            for steps, _c in rng.sample(paths, min(len(paths), 4)):
                st = [list(s) for s in steps]
                k = rng.random()
                if k < 0.25:
                    st[-1][1] += rng.randint(1, 2)
                elif k < 0.4:
                    st.append([rng.choice(TAGS), rng.randint(0, 1)])
                elif k < 0.5:
                    st[rng.randrange(len(st))][0] = rng.choice(TAGS)
                allex = rng.random() < 0.6
                st = [[t, n, bool(allex or rng.random() < 0.5)] for t, n in st]
                lead = "/" if rng.random() < 0.15 else ""
                if rng.random() < 0.3:
                    add("get_parts", "rnd:get_parts", xml, steps=st)
                else:
                    add("get", "rnd:get", xml, steps=st, lead=lead)
            if rng.random() < 0.3:
                add("get", "rnd:get-malformed", xml, xp=rng.choice(MALFORMED))
            for _ in range(nexpr):
                xp = gen_expr(rng, root, paths)
                st = rng.choice(["findall", "findall", "findall", "findall", "findall", "findfirst", "findfirst", "contains", "contains", "findall_ff"])
                add(st, "rnd:" + st, xml, xp=xp)
            # a selecting '**' / '*' step followed by '..' (the break of the sibling loop): findfirst / in / findall
            for _ in range(2):
                sel = rng.choice(["[1]", "[0]", "[2]", "[*]", gen_cond(rng, ["x", "y", "a"]), "[1]" + gen_cond(rng, ["x", "y"])])
                head = rng.choice(["**", "**", "*", rng.choice(TAGS)]) + sel
                pre = rng.choice(["", "", rng.choice(TAGS) + "/", "*/", "**/"])
                tail = rng.choice(["", "", "/" + rng.choice(TAGS), "/*", "/.."])
                add(rng.choice(["findfirst", "contains", "findall", "findall_ff"]), "rnd:sel-dotdot", xml, xp=pre + head + "/.." + tail)
            # '**' alone and below a prefix
            add("findall", "rnd:starstar", xml, xp=rng.choice(["**", "**", "/**", "**/**", "*/**"]))
            # single selecting step below an exactly addressed parent
            if paths:
                steps, c = rng.choice(paths)
                parent = steps[:-1]
                tag = rng.choice([steps[-1][0], "*"])
                texts = [k.text for k in (et_nav(root, parent) if parent else root) if k.text and not len(k)
                         and "'" not in k.text and '"' not in k.text] or ["x"]
                sel = rng.choice(["", "[%d]" % steps[-1][1], "[%d]" % rng.randint(0, 3), "[*]"])
                cond = gen_cond(rng, texts) if rng.random() < 0.7 else ""
                add("findall", "rnd:select", xml, parent=[list(s) for s in parent], tag=tag, sel=sel, cond=cond)
            if rng.random() < 0.25:
                st = rng.choice(["findall", "findall", "findfirst", "contains"])
                add(st, "rnd:malformed", xml, xp=rng.choice(MALFORMED).replace("a", rng.choice(TAGS), 1))
        # exhaustive small scope
        out += self.exhaustive(rng, tier)
        return out

    def exhaustive(self, rng, tier):
        out = []
        # all forests of <= n elements over tags {a,b}, leaves with text x or empty
        n = 3 if tier == "quick" else 4

        def forests(k):
            """all ordered forests with exactly k nodes"""
            if k == 0:
                yield []
                return
            for first in range(1, k + 1):
                for t in trees(first):
                    for rest in forests(k - first):
                        yield [t] + rest

        def trees(k):
            for tag in ("a", "b"):
                if k == 1:
                    yield "<%s>x</%s>" % (tag, tag)
                    yield "<%s/>" % tag
                else:
                    for f in forests(k - 1):
                        yield "<%s>%s</%s>" % (tag, "".join(f), tag)

        docs = []
        for k in range(0, n + 1):
            docs += ["<r>%s</r>" % "".join(f) for f in forests(k)]
        steps1 = ["a", "b", "*", "**", "..", "a[0]", "a[1]", "b[*]", "*[1]", "**[1]", "**[0]", "a[text()=x]", "b[text()!=x]",
                  "*[text()=None]", "**[text()=x]"]
        exprs = steps1 + ["%s/%s" % p for p in itertools.product(steps1, repeat=2)]
        if tier == "quick":
            docs = rng.sample(docs, min(len(docs), 60))
        for xml in docs:
            ex = exprs if tier != "quick" else rng.sample(exprs, 8) + rng.sample([e for e in exprs if ".." in e and "[" in e], 4)
            for xp in ex:
                st = "findall" if tier != "quick" else rng.choice(["findall", "findall", "findfirst", "contains"])
                out.append({"stream": st, "tag": "exh:" + st, "input": {"xml": xml, "xp": xp}})
                if tier != "quick" and rng.random() < 0.15:
                    st2 = rng.choice(["findfirst", "contains"])
                    out.append({"stream": st2, "tag": "exh:" + st2, "input": {"xml": xml, "xp": xp}})
        return out

    def valid(self, case):
        i = case["input"]
        try:
            ET.fromstring(i["xml"])
            for t in i.get("steps", []):
                if len(t) != 3 or not re.match(r"^[A-Za-z_][A-Za-z0-9_]*$", t[0]) or t[1] < 0:
                    return False
            for t in i.get("parent", []):
                if len(t) != 2 or not re.match(r"^[A-Za-z_][A-Za-z0-9_]*$", t[0]) or t[1] < 0:
                    return False
            if "parent" in i and not (i["tag"] == "*" or re.match(r"^[A-Za-z_][A-Za-z0-9_]*$", i["tag"])):
                return False
            case_xp(i)
        except Exception:
            return False
        return True

    # ---- implementation -----------------------------------------------------------------
    def run_impl(self, case):
        i, st = case["input"], case["stream"]
        x = self.n0xml(i["xml"])
        aux = {}
        try:
            if st == "parse":
                return {"ok": L.canon(x.ordered_items)}
            if st in ("get", "get_parts"):
                xp = case_xp(i)
                r = x.get(xp if st == "get" else xp.split("/"), SENT)
                return {"ok": ["b", False] if r is SENT else L.canon(r)}
            xp = case_xp(i)
            if st == "findall_ff":
                return {"ok": L.canon(x.findall(xp, [], True))}
            if st == "findall":
                r = x.findall(xp)
                if r is not None:
                    unresolved = []
                    for path, val in r:
                        try:
                            keep = list(path)
                            g = x.get(path, SENT)        # the path object exactly as findall handed it out
                            g2 = x.get(path, SENT)       # ... and once more: resolving a result does not use it up
                            ok = g is not SENT and g == val and g2 is not SENT and g2 == val and list(path) == keep
                            if g is not SENT and g == val and not ok:
                                g = "first get resolved; afterwards the pair's path is %r and resolves to %s" % (
                                    list(path), "<default>" if g2 is SENT else repr(g2)[:60])
                        except Exception as e:  # noqa
                            ok, g = False, "%s" % type(e).__name__
                        if not ok:
                            unresolved.append([list(path), repr(val)[:80], "<default>" if g is SENT else repr(g)[:80]])
                    aux["unresolved"] = unresolved
                return {"ok": L.canon(r), "aux": aux}
            if st in ("findfirst", "contains"):
                try:
                    fa = x.findall(xp)
                    aux["findall"] = L.canon(fa)
                except Exception as e:  # noqa
                    aux["findall_raise"] = type(e).__name__
                if st == "findfirst":
                    return {"ok": L.canon(x.findfirst(xp)), "aux": aux}
                r = xp in x
                return {"ok": L.canon(r), "aux": aux}
        except Exception as e:  # noqa  (the class is kept in "exc" for messages; the observation collapses it)
            return {"raise": "ExOther", "exc": "%s: %s" % (type(e).__name__, str(e)[:200]), "aux": aux}
        raise ValueError(st)

    def elem_lit(self, e):
        return "El %s %s %s %s" % (
            L.pstr(e.tag), L.lst("(%s, %s)" % (L.pstr(k), L.pstr(v)) for k, v in e.attrib.items()),
            L.opt(None if e.text is None else L.pstr(e.text)), L.lst("(%s)" % self.elem_lit(c) for c in e))

    def coq_input(self, case):
        i, st = case["input"], case["stream"]
        e = "(%s)" % self.elem_lit(ET.fromstring(i["xml"]))
        if st == "parse":
            return e
        if st == "get_parts":
            return "(%s, %s)" % (e, L.strs(case_xp(i).split("/")))
        return "(%s, %s)" % (e, L.pstr(case_xp(i)))

    # ---- the property on the implementation ---------------------------------------------
    def oracle(self, case, obs):
        i, st = case["input"], case["stream"]
        root = ET.fromstring(i["xml"])
        if st == "parse":
            if "raise" in obs:
                return "parsing a well-formed document raised %s" % obs.get("exc")
            want = L.canon(ref_items(root))
            if obs["ok"] != want:
                return "ordered_items differ from the ElementTree structure"
            return None
        if st in ("get", "get_parts"):
            if "steps" not in i:
                return None
            steps = [(t, n) for t, n, _ in i["steps"]]
            node = et_nav(root, steps)
            want = ["b", False] if node is None else L.canon(ref_value(node))
            if "raise" in obs:
                return "get with explicit indexes raised %s (ElementTree: %s)" % (obs.get("exc"), "no such node" if node is None else "node exists")
            if obs["ok"] != want:
                return "get returned %s, ElementTree node at that position is %s" % (str(obs["ok"])[:120], str(want)[:120])
            return None
        if st == "findall":
            if "raise" in obs:
                return None
            un = obs.get("aux", {}).get("unresolved")
            if un:
                return "findall returned (path, value) pairs that get does not resolve to the same value: %s" % un[:2]
            res = obs["ok"]
            if res == ["n"]:
                return None
            pairs = [(["%s" % p[1] for p in pv[2][0][2]], pv[2][1]) for pv in res[2]]
            # returned paths denote real nodes of the document, each with the node's value
            for parts, val in pairs:
                steps = parts_to_steps(parts)
                if steps is None:
                    return "returned path %r is not a sequence of tag[index] parts" % (parts,)
                node = et_nav(root, steps) if steps else root
                if node is None:
                    return "returned path %r names no ElementTree node" % (parts,)
                want = L.canon(ref_value(node)) if steps else L.canon(ref_items(root))
                if val != want:
                    return "value returned for %r differs from the ElementTree node" % (parts,)
            xp = case_xp(i)
            if xp == "**" and len(root):
                leaves = [c for c in root.iter() if c is not root and not len(c)]
                got = [et_nav(root, parts_to_steps(p)) for p, _ in pairs]
                if len(got) != len(leaves) or any(g is not l for g, l in zip(got, leaves)):
                    return "'**' returned %d nodes, the document has %d leaves (or the order differs)" % (len(got), len(leaves))
            if "parent" in i:
                parent = et_nav(root, [(t, n) for t, n in i["parent"]]) if i["parent"] else root
                want = self.select_ref(parent, i["tag"], xp.split("/")[-1]) if parent is not None else None
                if want is not None:
                    got = [et_nav(root, parts_to_steps(p)) for p, _ in pairs]
                    if len(got) != len(want) or any(g is not w for g, w in zip(got, want)):
                        return "selecting step %r kept %d siblings, %d match" % (xp.split("/")[-1], len(got), len(want))
            return None
        if st in ("findfirst", "contains"):
            aux = obs.get("aux", {})
            if "findall" not in aux:
                return None
            fa = aux["findall"]
            items = [] if fa == ["n"] else fa[2]
            if "raise" in obs:
                return "%s raised %s although findall returned %d result(s)" % (st, obs.get("exc"), len(items))
            if st == "findfirst":
                want = items[0] if items else ["l", 0, []]
                if obs["ok"] != want:
                    return "findfirst returned %s, first findall result is %s" % (str(obs["ok"])[:120], str(want)[:120])
            else:
                if obs["ok"] != ["b", bool(items)]:
                    return "'in' is %s although findall returned %d result(s)" % (obs["ok"][1], len(items))
            return None
        return None

    COND = re.compile(r"^(\*|[a-zA-Z0-9_]+)(?:\[(\d+|\*)\])?(?:\[text(?:\(\))?(==|!=|<>|=)(['\"]?)([^'\"\]]+)\4\])?$")

    def select_ref(self, parent, tag, step):
        """the siblings a single selecting step must keep (None: step outside the simple grammar)"""
        m = self.COND.match(step)
        if not m:
            return None
        idx, op, val = m.group(2), m.group(3), m.group(5)
        out, cnt = [], {}
        for c in parent:
            if tag != "*" and c.tag != tag:
                continue
            k = cnt.get(c.tag, 0)
            cnt[c.tag] = k + 1
            if idx not in (None, "*") and int(idx) != k:
                continue
            if op:
                if val.lower() in ("none", "null", "nul"):
                    hit = (not len(c)) and c.text is None
                else:
                    hit = (not len(c)) and c.text == val
                if hit != (op in ("=", "==")):
                    continue
            out.append(c)
        return out


PROP = C18
