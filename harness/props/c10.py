"""C10 — exclude_xpaths, compare_only and transform only narrow or map what is compared."""
import copy
import json
import itertools

from n0v import coqlit as L
from n0v.core import Prop
from props import compare_common as CC


def is_container(v):
    return isinstance(v, (dict, list))


def first_fn(path, tr):
    for pat, spec in tr:
        if CC.xpath_match_ref(path, [pat]):
            return CC.mk_tfun(spec)
    return None


def tr_entry(v, path, tr):
    """reference: the operand with every compared value replaced by its transformed value"""
    f = first_fn(path, tr)
    if f is not None:
        v2 = f(v)
        if not is_container(v2):
            return v2
    if isinstance(v, dict):
        return tr_dict(v, path, tr)
    if isinstance(v, list):
        return tr_list(v, path, tr)
    return v


def tr_dict(d, path, tr):
    return {k: tr_entry(v, path + "/" + k, tr) for k, v in d.items()}


def tr_list(l, path, tr):
    f = first_fn(path, tr)
    out = []
    for n, x in enumerate(l):
        x2 = f(x) if f is not None else x
        if not is_container(x2):
            out.append(x2)
        elif isinstance(x, dict):
            out.append(tr_dict(x, "%s[%d]" % (path, n), tr))
        else:
            out.append(tr_list(x, "%s[%d]" % (path, n), tr))
    return out


def list_paths(t, path=""):
    """(rendered path, list) of every list of a plain tree"""
    if isinstance(t, dict):
        for k, v in t.items():
            yield from list_paths(v, path + "/" + k)
    elif isinstance(t, list):
        yield path, t
        for n, v in enumerate(t):
            yield from list_paths(v, "%s[%d]" % (path, n))


class C10(Prop):
    id = "C10"
    props_file = "Props/C10.v"
    refuted_file = None
    rule = ("matcher: all patterns of <= 3 parts over {a, B, *, empty} against all xpaths of <= 3 parts over {a, b, A, "
            "a[0]} (exhaustive), random longer ones, patterns given as str or sequence; comparisons: the pairs of C07 and "
            "keyed record lists x {direct_compare, compare} with exclude_xpaths / compare_only / transform alone and "
            "combined, patterns built from the operands' own key names (absolute, '//'-relative, '*', mixed case, str or "
            "tuple), transform functions from {identity, lower, constant int, constant str, rounding}; every case is run "
            "with and without the options. non-trivial = report returned / matcher returned")
    trusted_base = [
        "the oracle's reference reading of the pattern language and of 'at or below a dictionary entry' (harness/props/compare_common.py xpath_match_ref, dict_entry_prefixes)",
        "str.lower on ASCII, round() on halves: modelled (Base/PyStr.lower, Compare/Model.round_half_even), validated by the correspondence of this run",
    ]
    assumptions = ["operands built by n0dict.convert_recursively; plain key names; patterns and text ASCII; the place flag "
                   "stays on (entries without xpaths cannot be related to patterns)"]
    streams = {
        "cmp": CC.STREAM,
        "match": dict(requires=["Compare.Match"], itype="pstr * pats", model="obs_match"),
    }
    case_timeout = 10

    def setup(self):
        self.impl = CC.Impl()
        import n0struct
        self.xpath_match = n0struct.xpath_match

    def teardown(self):
        if getattr(self, "impl", None):
            self.impl.reset_flags()

    # ---- generation -------------------------------------------------------------------
    def gen_tr(self, rng, names):
        out = []
        for _ in range(rng.randint(1, 2)):
            spec = rng.choice([["id"], ["lower"], ["lower"], ["ci", rng.randint(0, 2)], ["cs", rng.choice(["x", "", "1"])], ["round"], ["round"]])
            out.append([CC.gen_pattern(rng, names), spec])
        return out

    def plant(self, rng, a, b):
        """make the transform matter: a key T (leaves) and a list TL (items) whose values are
        equal / different before and after lower() / round(), at a random dict of both trees"""
        a, b = copy.deepcopy(a), copy.deepcopy(b)
        spots = [p for p in CC.positions(a) if isinstance(CC.resolve(a, p), dict) and isinstance(CC.resolve(b, p), dict)]
        p = rng.choice(spots)
        da, db = CC.resolve(a, p), CC.resolve(b, p)
        pairs = [("Ab", "aB"), ("Ab", "cD"), ("Ab", "Ab"), (1.5, 2.0), (0.5, 1.5), (2.5, 2), (3, 3.5), ("X", 1), (None, "x"),
                 (2, 2.0), (10.0, 10), (1, True), (0, False)]     # the last four: equal under ==, of different types
        va, vb = rng.choice(pairs)
        da["T"], db["T"] = va, vb
        if rng.random() < 0.5:
            # items that the unordered walk pairs (same str()) although they differ: only the transform makes them equal
            twins = [(1, "1"), (2, "2"), (1.5, "1.5"), (None, "None"), (True, "True"), ("7", 7)]
            items = [rng.choice(pairs + twins + twins) for _ in range(rng.randint(1, 4))]
            da["TL"], db["TL"] = [x for x, _ in items], [y for _, y in items]
        fn = rng.choice([["lower"], ["round"], ["lower"], ["round"], ["id"], ["ci", 0], ["cs", "ab"]])
        tr = [[rng.choice(["//T", "//t", "/" + "/".join(str(s) for s in p if isinstance(s, str) and False) + "T", "T"]), fn]]
        if "TL" in da:
            tr.append([rng.choice(["//TL", "//tl", "TL"]), rng.choice([["lower"], ["round"], ["cs", "ab"], ["ci", 0], ["cs", "ab"]])])
        if rng.random() < 0.3:
            tr.reverse()
        return a, b, tr

    def generate(self, rng, tier):
        quick = tier == "quick"
        out = []
        # matcher, exhaustive small scope
        pparts = ["a", "B", "*", ""]
        xparts = ["a", "b", "A", "a[0]"]
        pats = ["/".join(t) for n in (1, 2, 3) for t in itertools.product(pparts, repeat=n)]
        xps = ["/" + "/".join(t) for n in (1, 2, 3) for t in itertools.product(xparts, repeat=n)] + ["", "a", "a/b"]
        combos = list(itertools.product(xps, pats))
        if quick:
            combos = rng.sample(combos, 1500)
        for xp, p in combos:
            arg = p if rng.random() < 0.3 else [p]
            if rng.random() < 0.25:
                arg = [rng.choice(pats), p] if rng.random() < 0.5 else [p, rng.choice(pats)]
            out.append({"stream": "match", "tag": "match:exh", "input": {"xpath": xp, "pats": arg}})
        for _ in range(500 if quick else 10000):
            names = rng.sample(CC.KEYS, 4)
            steps = [rng.choice(names) + (("[%d]" % rng.randint(0, 3)) if rng.random() < 0.3 else "") +
                     (("<>[%d]" % rng.randint(0, 3)) if rng.random() < 0.1 else "") for _ in range(rng.randint(0, 5))]
            xp = "".join("/" + s for s in steps)
            ps = CC.gen_patterns(rng, names)
            out.append({"stream": "match", "tag": "match:rnd", "input": {"xpath": xp, "pats": ps}})
        # comparisons with options
        for _ in range(700 if quick else 30000):
            if rng.random() < 0.75:
                a, b = CC.gen_pair(rng, rng.choice([2, 3, 4]), dict, edits=rng.choice([1, 2, 3, 4, 5]))
                ck = None
            else:
                xs, ys, ck = CC.gen_record_lists(rng, lists=rng.random() < 0.5)
                a, b, _ = CC.enclose(rng, xs, ys)
                if not isinstance(a, dict):
                    a, b = {"L": a}, {"L": b}
            names = CC.names_of(a, b)
            st = [s for s in (CC.gen_setters(rng) if rng.random() < 0.3 else []) if s[0] != "place"]
            r = rng.random()
            opt = {}
            if r < 0.3:
                opt["excl"] = CC.gen_patterns(rng, names)
            elif r < 0.55:
                opt["only"] = CC.gen_patterns(rng, names)
            elif r < 0.8:
                if rng.random() < 0.6:
                    a, b, opt["tr"] = self.plant(rng, a, b)
                else:
                    opt["tr"] = self.gen_tr(rng, names)
            else:
                for k in rng.sample(["excl", "only", "tr"], rng.choice([2, 2, 3])):
                    opt[k] = self.gen_tr(rng, names) if k == "tr" else CC.gen_patterns(rng, names)
            walks = ("direct", "compare") if ck is None else ("compare",)
            for walk in walks:
                i = {"a": a, "b": b, "walk": walk, "setters": st}
                if ck is not None:
                    i["ck"] = ck
                i.update(copy.deepcopy(opt))
                out.append({"stream": "cmp", "tag": "opt:" + "+".join(sorted(opt)) + ":" + walk, "input": i})
        # ---- systematic slices (not left to chance) -----------------------------------------------------------------
        twins = [(1, "1"), (2, "2"), (1.5, "1.5"), (None, "None"), (True, "True"), ("7", 7)]
        for _ in range(40 if quick else 1500):
            # a scalar list whose items pair under str() although they differ; only the transform makes every pair equal
            if rng.random() < 0.4:
                items = [rng.choice(twins) for _ in range(rng.randint(2, 4))]
                fn = rng.choice([["cs", "ab"], ["ci", 0]])
            else:
                # numbers as numbers on one side and as text on the other (they pair: same str()); equal as numbers
                items = rng.sample([(1, "1"), (2.5, "2.5"), (3, "3"), ("4", 4), (0.5, "0.5"), (7, 7)], rng.randint(2, 4))
                fn = ["num"]
            xs, ys = [x for x, _ in items], [y for _, y in items]
            key = rng.choice(["TL", "prices"])
            a, b = {"a": 1, key: xs}, {"a": 1, key: ys}
            if rng.random() < 0.5:
                a, b = {"w": a}, {"w": b}
            tr = [[rng.choice(["//" + key, "//" + key.lower(), key]), fn]]
            # further entries that match nothing here (before and after): which entry is applied must not depend on the item
            for _ in range(rng.randint(0, 2)):
                tr.insert(rng.randint(0, len(tr)), [rng.choice(["//zz", "/a/zz", "qq"]), rng.choice([["id"], ["cs", "zz"], ["round"]])])
            for walk in ("compare", "direct"):
                out.append({"stream": "cmp", "tag": "sys:twins:" + walk, "input": {"a": a, "b": b, "walk": walk, "setters": [], "tr": copy.deepcopy(tr)}})
        for _ in range(40 if quick else 1500):
            # several keys that exist on one side only, an excluded / not requested one directly before a reportable one
            ks = rng.sample(["k1", "k2", "k3", "k4", "k5"], rng.randint(2, 4))
            common = {"z": 1, "y": "x"}
            only_side = dict(common)
            for k in ks:
                only_side[k] = CC.gen_leaf(rng)
            if rng.random() < 0.5:
                items = list(only_side.items()); rng.shuffle(items); only_side = dict(items)
            a, b = (only_side, dict(common)) if rng.random() < 0.5 else (dict(common), only_side)
            opt = {"excl": ["//" + rng.choice(ks)]} if rng.random() < 0.5 else {"only": ["//" + k for k in rng.sample(ks, rng.randint(1, len(ks) - 1))]}
            for walk in ("compare", "direct"):
                i = {"a": a, "b": b, "walk": walk, "setters": []}
                i.update(copy.deepcopy(opt))
                out.append({"stream": "cmp", "tag": "sys:one-sided:" + walk, "input": i})
        for _ in range(40 if quick else 1500):
            # a list-valued entry below an element of another list, differences inside it, and an exclusion pattern that spells
            # the outer list step without its index: it matches no dictionary entry path ('/rows[0]/tags'), so nothing is hidden
            rows = [{"name": rng.choice(["x", "y"]), "tags": [CC.gen_leaf(rng) for _ in range(rng.randint(1, 3))]} for _ in range(rng.randint(1, 3))]
            rows2 = copy.deepcopy(rows)
            r = rng.choice(rows2)
            r["tags"][rng.randrange(len(r["tags"]))] = rng.choice(["changed", 99])
            if rng.random() < 0.5:
                r["name"] = "changed"
            opt = {"excl": [rng.choice(["/rows/tags", "//rows/tags", "/Rows/TAGS", "/rows/*", "/rows[0]/tags", "//tags"])]}
            for walk in ("compare", "direct"):
                i = {"a": {"rows": rows, "z": 1}, "b": {"rows": rows2, "z": 1}, "walk": walk, "setters": []}
                i.update(copy.deepcopy(opt))
                out.append({"stream": "cmp", "tag": "sys:list-below-list:" + walk, "input": i})
        for _ in range(40 if quick else 1500):
            # one pattern given as a bare str or inside a tuple means the same; changed leaves whose NAME occurs in the pattern
            # text (a step of it, or a part of a longer step) at places that the pattern does not match stay hidden
            def leaves():
                return {"a": {"b": rng.randint(0, 9), "x": 1, "id": rng.randint(0, 9)}, "x": {"b": rng.randint(0, 9), "a": rng.randint(0, 9)},
                        "b": rng.randint(0, 9), "id": rng.randint(0, 9), "paid": rng.randint(0, 9), "name": rng.choice(["p", "q", "r"])}
            a, b = leaves(), leaves()
            pat = rng.choice(["/a/b", "//a/b", "//paid", "/x/*", "//x/a", "/a/id", "//ab", "/*/b", "paid", "//a/*"])
            for only in (pat, [pat]):
                for walk in ("compare", "direct"):
                    out.append({"stream": "cmp", "tag": "sys:only-str:" + walk, "input": {"a": a, "b": b, "walk": walk, "setters": [], "only": only}})
        return out

    def valid(self, case):
        i = case.get("input")
        if case.get("stream") == "match":
            return (isinstance(i, dict) and isinstance(i.get("xpath"), str) and
                    (isinstance(i.get("pats"), str) or (isinstance(i.get("pats"), list) and all(isinstance(p, str) for p in i["pats"])))
                    and all(ord(c) < 128 for c in i["xpath"] + "".join(i["pats"])))
        return (CC.valid_input(i) and i.get("wa", "conv") == "conv" and i.get("wb", "conv") == "conv"
                and isinstance(i["a"], dict) and (i.get("only") or i.get("excl") or i.get("tr"))
                and not any(s[0] == "place" for s in i.get("setters", [])))

    # ---- implementation ---------------------------------------------------------------
    def run_impl(self, case):
        i = case["input"]
        if case["stream"] == "match":
            ps = i["pats"]
            return {"ok": L.canon(self.xpath_match(i["xpath"], tuple(ps) if isinstance(ps, list) else ps))}

        def extra(A, B, obs):
            if i.get("excl") or i.get("only"):
                rep0, exc0 = self.impl.compare(A, B, dict(i, excl=None, only=None))
                obs["base"] = rep0 if exc0 is None else {"raise": "%s: %s" % (type(exc0).__name__, str(exc0)[:120])}
            elif i.get("tr"):
                a2, b2 = tr_dict(i["a"], "", i["tr"]), tr_dict(i["b"], "", i["tr"])
                A2, B2 = self.impl.build(a2, "conv"), self.impl.build(b2, "conv")
                rep0, exc0 = self.impl.compare(A2, B2, dict(i, a=a2, b=b2, tr=None))
                obs["ref"] = rep0 if exc0 is None else {"raise": "%s: %s" % (type(exc0).__name__, str(exc0)[:120])}
        return CC.observe(self.impl, i, extra)

    def coq_input(self, case):
        i = case["input"]
        if case["stream"] == "match":
            return "(%s, %s)" % (L.pstr(i["xpath"]), CC.pats_lit(i["pats"]))
        return CC.cin_lit(self.impl, i)

    # ---- the property on the implementation -----------------------------------------------
    def oracle(self, case, obs):
        i = case["input"]
        if case["stream"] == "match":
            if "raise" in obs:
                return "xpath_match raised %s" % obs.get("exc", obs["raise"])
            got = obs["ok"][1]
            want = CC.first_match_ref(i["xpath"], i["pats"])
            if got != want:
                return "xpath_match(%r, %r) = %r, the pattern language says %r" % (i["xpath"], i["pats"], got, want)
            return None
        base = obs.get("base")
        if base is not None:
            if "raise" in obs:
                if "raise" in base:
                    return None      # the unrestricted comparison fails the same way: not this property's subject
                return "the comparison raised %s only with the options" % obs.get("exc", obs["raise"])
            if "raise" in base:
                return "the comparison raised %s only without exclude_xpaths / compare_only" % base["raise"]
            want = CC.entries(base)
            if i.get("excl"):
                want = [e for e in want if not CC.under_excluded(e[1], i["excl"])]
            if i.get("only"):
                want = [e for e in want if CC.ends_with_index(e[1]) or CC.xpath_match_ref(e[1], i["only"])]
            got = CC.entries(obs["rep"])
            if got != want:
                hidden = [e for e in want if e not in got]
                extra = [e for e in got if e not in want]
                return ("with exclude_xpaths=%r compare_only=%r: %d entries expected, %d reported; missing %s, unexpected %s"
                        % (i.get("excl"), i.get("only"), len(want), len(got), hidden[:3], extra[:3]))
            return None
        ref = obs.get("ref")
        if ref is not None and self.key_field_transformed(i):
            return None     # pairing on transformed key fields: correspondence only (see notes/design/C10.md)
        if ref is not None:
            if "raise" in obs:
                return "the comparison raised %s with transform %r" % (obs.get("exc", obs["raise"]), i["tr"])
            if "raise" in ref:
                return None
            got = CC.entries(obs["rep"])
            want = CC.entries(ref)
            if [(e[0], e[1]) for e in got] != [(e[0], e[1]) for e in want]:
                return ("with transform %r the differences are %s; comparing the transformed values gives %s"
                        % (i["tr"], [(e[0], e[1]) for e in got], [(e[0], e[1]) for e in want]))
            for kind, path, l, r in got:
                pp = CC.parse_path(path)
                if pp is None:
                    return "xpath %r unreadable" % path
                if kind in ("ne", "dt"):
                    lv, rv = CC.resolve(i["a"], pp[0]), CC.resolve(i["b"], pp[1])
                    if kind == "dt":
                        rv, r = None, L.canon(None)       # difftypes entries of the unordered walk carry the left index only
                    if lv is CC.MISSING or rv is CC.MISSING or L.canon(lv) != l or L.canon(rv) != r:
                        return "entry %r does not show the original values: %r / %r" % (path, CC.plain(l), CC.plain(r))
                else:
                    src, st = (i["a"], pp[0]) if kind == "su" else (i["b"], pp[1][:-1] + [pp[0][-1]])
                    v = CC.resolve(src, st)
                    if v is CC.MISSING or L.canon(v) != l:
                        return "unique entry %r does not show the original value: %r" % (path, CC.plain(l))
        return None

    @staticmethod
    def key_field_transformed(i):
        """generate_composite_keys matches the transform patterns against <list xpath>/<field>
        (no index), the walk against <list xpath>[i]/<field>: a pattern that reaches a
        composite-key field changes the pairing, which the property does not speak about"""
        ck = i.get("ck")
        if not ck:
            return False
        ck = [ck] if isinstance(ck, str) else ck
        for t in (i["a"], i["b"]):
            for path, l in list_paths(t):
                for n, x in enumerate(l):
                    if isinstance(x, dict):
                        for k in ck:
                            if k in x and (first_fn(path + "/" + k, i["tr"]) or first_fn("%s[%d]/%s" % (path, n, k), i["tr"])):
                                return True
        return False

    # ---- known findings ------------------------------------------------------------------------
    @staticmethod
    def cl_transform_unordered(case, obs, failure):
        """the unordered walk pairs non-record list items by str() of the untransformed
        items: a transform that changes such an item (or something inside it)"""
        i = case["input"]
        if case.get("stream") != "cmp" or i.get("walk") != "compare" or not i.get("tr"):
            return False
        blists = dict(list_paths(i["b"]))
        alists = dict(list_paths(i["a"]))
        for t, others in ((i["a"], blists), (i["b"], alists)):
            for path, l in list_paths(t):
                l2 = tr_list(l, path, i["tr"])
                if not any(not isinstance(x, dict) and L.canon(x) != L.canon(x2) for x, x2 in zip(l, l2)):
                    continue
                # the finding is about the pairing: it applies when pairing the items by str() of the untransformed items
                # differs from pairing them by their transformed values (numbers against the same numbers as text pair
                # alike both ways: a failure there is not this finding)
                o = others.get(path)
                if o is None or any(isinstance(x, (dict, list)) for x in l + o):
                    return True
                o2 = tr_list(o, path, i["tr"])

                def pairing(ka, kb):
                    used, out = set(), []
                    for n, k in enumerate(ka):
                        for m, k2 in enumerate(kb):
                            if m not in used and k2 == k:
                                used.add(m)
                                out.append((n, m))
                                break
                    return out
                if pairing([str(x) for x in l], [str(x) for x in o]) != pairing([json.dumps(L.canon(x)) for x in l2],
                                                                               [json.dumps(L.canon(x)) for x in o2]):
                    return True
        return False

    @staticmethod
    def cl_str_keys(case, obs, failure):
        i = case["input"]
        if case.get("stream") != "cmp" or i.get("walk") != "compare" or "raise" in obs:
            return False
        a, b = i["a"], i["b"]
        if i.get("tr"):
            a, b = tr_dict(a, "", i["tr"]), tr_dict(b, "", i["tr"])
        return not CC.keys_ok(a, b, i.get("ck")) or not CC.keys_ok(i["a"], i["b"], i.get("ck"))

    classifiers = {"transform_unordered": cl_transform_unordered.__func__, "str_keys": cl_str_keys.__func__}


PROP = C10
