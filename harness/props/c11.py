"""C11 — JSON export and load round-trip every JSON-representable tree."""
import itertools
import copy
import json
import re

from n0v import coqlit as L
from n0v.core import Prop

# critical alphabet of the quantifier: quote, backslash, control, non-ASCII, JSON-keyword-like, structural
CHARS = ['a', '"', '\\', '\n', '\t', '\x01', 'é', '€']
CHARS_MORE = ['\r', '\x08', '\x0c', '\x00', '\x1f', '\x7f', "'", ' ', '/', '{', ']', ',', ':', '\U0001F600', ' ', 'u', 'n']
WORDS = ['null', 'true', 'false', 'None', 'True', '1', '1.5', '-0', '[]', '{}', '\\u0041', '\\"', 'a"b\\c\nd']
KEYS = ['a', 'b', 'x', 'y', 'k"q', 'k\\', '', 'é', 'n\nl', ' ', 'null', 'a/b', '?a', 'a[0]', '*']
INTS = [0, 1, -1, 7, 10, 42, -100, 2 ** 63, -(10 ** 30), 123456789]
HALVES = [1, -1, 0, 2, 5, -6, 199, 2 ** 40 + 1]          # value = h / 2
INDENTS = [4, 0, 1, 2, 3, 8, -1]
DEPTH_LIMIT = 111
NAME_RE = re.compile(r"[A-Za-z_][A-Za-z0-9_]*\Z")


def opt_combos():
    for pairs, compress, skip in itertools.product([True, False], repeat=3):
        yield pairs, compress, skip


# ---- ctree helpers (see n0v.coqlit) ---------------------------------------------------------
def is_ctree(ct, root=False):
    try:
        t = ct[0]
        if t == "n":
            return len(ct) == 1 and not root
        if t == "b":
            return isinstance(ct[1], bool) and not root
        if t in ("i", "f"):
            return isinstance(ct[1], int) and not isinstance(ct[1], bool) and not root
        if t == "s":
            return isinstance(ct[1], str) and not root
        if t == "d":
            ks = [kv[0] for kv in ct[2]]
            return (ct[1] in (0, 1) and (not root or ct[1] == 1) and all(isinstance(k, str) for k in ks)
                    and len(set(ks)) == len(ks) and all(len(kv) == 2 and is_ctree(kv[1]) for kv in ct[2]))
        if t == "l":
            return ct[1] in (0, 1) and (not root or ct[1] == 1) and all(is_ctree(v) for v in ct[2])
    except Exception:
        return False
    return False


def plain(ct):
    return L.uncanon(ct)


DROP = object()


def prune(v):
    """what skip_empty_arrays is stated to do: empty containers are dropped (bottom-up)"""
    if isinstance(v, dict):
        o = {k: prune(x) for k, x in v.items()}
        o = {k: x for k, x in o.items() if x is not DROP}
        return o if o else DROP
    if isinstance(v, list):
        o = [x for x in (prune(x) for x in v) if x is not DROP]
        return o if o else DROP
    return v


def strict_eq(a, b):
    """equality of decoded values: dict key order irrelevant, list order relevant,
    True != 1 and 1 != 1.0 (the JSON spelling of a value is part of it)"""
    if type(a) is not type(b):
        return False
    if isinstance(a, dict):
        return a.keys() == b.keys() and all(strict_eq(a[k], b[k]) for k in a)
    if isinstance(a, list):
        return len(a) == len(b) and all(strict_eq(x, y) for x, y in zip(a, b))
    return a == b


def plant_floats(rng, v, pool):
    """replace some scalar leaves (and add one) by floats from the pool"""
    if isinstance(v, dict):
        o = {k: plant_floats(rng, x, pool) for k, x in v.items()}
        if rng.random() < 0.3:
            o["fl"] = rng.choice(pool) * rng.choice([1, -1])
        return o
    if isinstance(v, list):
        o = [plant_floats(rng, x, pool) for x in v]
        if rng.random() < 0.3:
            o.insert(rng.randint(0, len(o)), rng.choice(pool))
        return o
    return rng.choice(pool) * rng.choice([1, 1, -1]) if rng.random() < 0.4 else v


def depth_over(ct, lvl=0):
    """a non-empty container at nesting level >= 111 (n0pretty prints '{.......}' there)"""
    if ct[0] in ("d", "l"):
        kids = [kv[1] for kv in ct[2]] if ct[0] == "d" else ct[2]
        if kids and lvl >= DEPTH_LIMIT:
            return True
        return any(depth_over(k, lvl + 1) for k in kids)
    return False


def leaf_paths(v, prefix=""):
    if isinstance(v, dict):
        for k, x in v.items():
            if not NAME_RE.match(k):
                continue
            yield from leaf_paths(x, prefix + "/" + k if prefix else k)
    elif isinstance(v, list):
        for i, x in enumerate(v):
            yield from leaf_paths(x, "%s[%d]" % (prefix, i))
    else:
        yield prefix, v


def all_dicts_are(v, cls):
    if isinstance(v, dict):
        return isinstance(v, cls) and all(all_dicts_are(x, cls) for x in v.values())
    if isinstance(v, list):
        return all(all_dicts_are(x, cls) for x in v)
    return True


class C11(Prop):
    id = "C11"
    props_file = "Props/C11.v"
    refuted_file = "Refuted/C11.v"
    rule = ("trees over the critical alphabet (quote, backslash, control, non-ASCII, astral, JSON-keyword-like and structural "
            "strings as values and as keys; ints incl. > 64 bit, half floats, bools, None; empty containers; nested lists; lists of "
            "one- and two-key records with missing keys), n0- and plain-tagged children, x every combination of "
            "pairs_in_one_line/compress/skip_empty_arrays x indent in {4,0,1,2,3,8,-1}; exhaustive strings up to a length bound "
            "in three positions (dict value, key, pair-layout cell); nesting depth around the 111 limit; JSON texts (json.dumps "
            "in several layouts, to_json outputs, blank-padded, truncated, non-JSON) through n0dict(text)/n0list(text). "
            "non-trivial = the call returned; distinct = distinct (stream, input)")
    trusted_base = [
        "json.loads (C accelerated) is the standard parser of the statement: an oracle on the implementation side, an input "
        "(its result) on the model side of the load stream; Export/JsonGrammar.json_denotes is the Coq-side statement of "
        "'a standard parser accepts the text and decodes it to this value'",
        "str(int), repr(float) for halves below 2^53: modelled (Export/Util.dec_Z, dec_half), validated by the tojson stream",
    ]
    assumptions = ["floats are halves k/2 with |k| < 2^53 (shared value type); keys are strings; no NaN/Infinity; no bytes leaves"]
    opts_t = "opts * tree"
    streams = {
        "tojson": dict(requires=["Export.Json"], itype="opts * tree", model="obs_to_json"),
        "load": dict(requires=["Export.Json"], itype="(bool * pstr) * option tree", model="obs_load"),
    }

    def setup(self):
        import n0struct
        self.n0dict, self.n0list = n0struct.n0dict, n0struct.n0list

    # ---- generation ------------------------------------------------------------------------
    def r_str(self, rng):
        k = rng.random()
        if k < 0.15:
            return rng.choice(WORDS)
        al = CHARS if k < 0.7 else CHARS + CHARS_MORE
        return "".join(rng.choice(al) for _ in range(rng.choice([0, 1, 1, 2, 3, 5])))

    def r_scalar(self, rng):
        k = rng.random()
        if k < 0.4:
            return ["s", self.r_str(rng)]
        if k < 0.6:
            return ["i", rng.choice(INTS)]
        if k < 0.72:
            return ["f", rng.choice(HALVES)]
        if k < 0.84:
            return ["b", rng.random() < 0.5]
        return ["n"]

    def r_key(self, rng):
        return rng.choice(KEYS) if rng.random() < 0.85 else self.r_str(rng)

    def r_dict(self, rng, depth, tag=None):
        kvs, seen = [], set()
        for _ in range(rng.choice([0, 1, 2, 2, 3])):
            k = self.r_key(rng)
            if k in seen:
                continue
            seen.add(k)
            kvs.append([k, self.r_tree(rng, depth - 1)])
        return ["d", rng.randint(0, 1) if tag is None else tag, kvs]

    def r_records(self, rng, tag=None):
        """list of small records: what the pair layout is about"""
        ks = rng.sample(KEYS, rng.choice([1, 2, 2, 2, 3]))
        items = []
        for _ in range(rng.choice([1, 2, 3, 4])):
            kvs = []
            order = list(ks)
            if rng.random() < 0.3:
                rng.shuffle(order)
            for k in order:
                if rng.random() < 0.7:
                    v = self.r_scalar(rng)
                    if rng.random() < 0.08:
                        v = self.r_tree(rng, 1)
                    kvs.append([k, v])
            items.append(["d", rng.randint(0, 1), kvs])
        if rng.random() < 0.1:
            items.insert(rng.randrange(len(items) + 1), self.r_scalar(rng))
        return ["l", rng.randint(0, 1) if tag is None else tag, items]

    def r_tree(self, rng, depth, root=False):
        k = rng.random()
        tag = 1 if root else None
        if not root and (depth <= 0 or k < 0.3):
            return self.r_scalar(rng)
        if k < 0.55:
            return self.r_dict(rng, depth, tag)
        if k < 0.78:
            return ["l", rng.randint(0, 1) if tag is None else tag,
                    [self.r_tree(rng, depth - 1) for _ in range(rng.choice([0, 1, 2, 3]))]]
        return self.r_records(rng, tag)

    def r_opts(self, rng):
        return {"indent": rng.choice(INDENTS), "pairs": rng.random() < 0.6, "compress": rng.random() < 0.25,
                "skip": rng.random() < 0.4}

    def generate(self, rng, tier):
        quick = tier == "quick"
        out = []

        def tj(tag, tree, opts):
            out.append({"stream": "tojson", "tag": tag, "input": {"tree": tree, "opts": opts}})

        # exhaustive short strings in three positions, option combination rotating
        combos = list(opt_combos())
        maxlen = 2 if quick else 3
        strings = [""]
        for n in range(1, maxlen + 1):
            strings += ["".join(t) for t in itertools.product(CHARS, repeat=n)]
        strings += WORDS + CHARS_MORE
        for i, s in enumerate(strings):
            pairs, compress, skip = combos[i % 8]
            o = {"indent": INDENTS[i % len(INDENTS)], "pairs": pairs, "compress": compress, "skip": skip}
            tj("exh:value", ["d", 1, [["a", ["s", s]]]], o)
            tj("exh:key", ["d", 1, [[s, ["i", 1]]]], dict(o, pairs=not pairs))
            tj("exh:cell", ["l", 1, [["d", 1, [["a", ["s", s]], [s + "k", ["i", 7]]]], ["d", 0, [[s + "k", ["s", s]]]]]],
               dict(o, pairs=True, compress=False, indent=o["indent"] or 4))
        # every option combination on a fixed set of shapes
        shapes = [
            ["d", 1, []], ["l", 1, []],
            ["d", 1, [["a", ["l", 1, []]], ["b", ["d", 1, []]]]],
            ["d", 1, [["a", ["l", 0, [["l", 0, []], ["d", 0, []]]]]]],
            ["l", 1, [["i", 1], ["l", 0, []], ["i", 2]]],
            ["l", 1, [["d", 1, [["x", ["i", 1]]]], ["d", 1, [["y", ["i", 2]]]]]],
            ["l", 1, [["d", 1, []], ["d", 1, [["x", ["i", 1]], ["y", ["s", "abc"]]]], ["d", 1, [["y", ["b", True]]]]]],
            ["l", 1, [["d", 1, [["y", ["f", 3]], ["x", ["s", 'q"']]]], ["d", 1, [["x", ["s", ""]], ["y", ["i", -5]]]]]],
            ["d", 1, [["a", ["s", "x"]], ["b", ["s", "y\nz"]]]],
            ["d", 1, [["a", ["s", "x"]], ["b", ["s", "y"]], ["c", ["s", "z"]]]],
            ["d", 1, [["a", ["n"]], ["b", ["b", True]], ["c", ["b", False]], ["d", ["f", 3]], ["e", ["i", -12]]]],
            ["l", 1, [["l", 1, [["i", 1], ["i", 2]]], ["l", 0, [["i", 3]]]]],
            ["l", 1, [["d", 1, [["x", ["n"]]]], ["d", 1, [["x", ["i", 1]]]]]],
            ["l", 1, [["d", 0, [["x", ["d", 0, []]]]], ["d", 0, []]]],
        ]
        for sh in shapes:
            for pairs, compress, skip in combos:
                for ind in ([4, 0, 2] if quick else INDENTS):
                    tj("shape", sh, {"indent": ind, "pairs": pairs, "compress": compress, "skip": skip})
        # nesting depth around the limit of n0pretty (indent_ < 111)
        for d in ([110, 111, 112] if quick else [1, 50, 109, 110, 111, 112, 113, 150]):
            for kind in ("l", "d"):
                t = ["i", 1]
                for _ in range(d):
                    t = ["l", 1, [t]] if kind == "l" else ["d", 1, [["k", t]]]
                tj("depth", t, {"indent": 0 if d > 20 else 2, "pairs": True, "compress": False, "skip": False})
        # random trees
        n = 900 if quick else 60000
        for _ in range(n):
            t = self.r_tree(rng, rng.choice([1, 2, 3, 4]), root=True)
            tj("rnd", t, self.r_opts(rng))
        # ---- floats outside the shared value type (not halves): shortest-repr doubles that need 16-17 significant digits,
        #      extremes of the exponent range.  The model's value type cannot hold them, so these cases go to the oracle only
        hard = [0.1 + 0.2, 1 / 3, 3.141592653589793, 1.1 * 1.1, 2 / 3, 1e-07, 1e22, 1.7976931348623157e308, 5e-324,
                123456789.12345679, 0.1, 9007199254740993.0, 1e16, 1.5e-10, 4.35, 2.675, 100.0]
        for _ in range(120 if quick else 5000):
            v = plain(self.r_tree(rng, rng.choice([1, 2, 3]), root=True))
            v = plant_floats(rng, v, hard)
            out.append({"stream": "tojson_f", "tag": "floats", "input": {"tree": v, "opts": self.r_opts(rng)}})
        # ---- values in which one container object occurs at several places (a DAG, no cycle): [[0, 0]] * 3, a default
        #      record assigned to two keys.  It decodes like the tree with the shared part written out at each place.
        for _ in range(100 if quick else 4000):
            v = plain(self.r_tree(rng, rng.choice([2, 3]), root=True))
            out.append({"stream": "tojson_f", "tag": "shared", "input": {"tree": v, "opts": self.r_opts(rng),
                                                                         "share": [rng.random(), rng.random(), rng.randint(1, 2)]}})
        # ---- loading -------------------------------------------------------------------------
        nl = 300 if quick else 15000
        for _ in range(nl):
            t = self.r_tree(rng, rng.choice([1, 2, 3]), root=True)
            v = plain(t)
            k = rng.random()
            if k < 0.5:
                text = json.dumps(v, ensure_ascii=rng.random() < 0.5, indent=rng.choice([None, None, 1, 4]),
                                  separators=rng.choice([None, (",", ":"), (" , ", " : ")]))
            else:
                o = self.r_opts(rng)
                try:
                    x = self.n0dict(v) if isinstance(v, dict) else self.n0list(v)
                    text = x.to_json(indent=o["indent"], pairs_in_one_line=o["pairs"], compress=o["compress"],
                                     skip_empty_arrays=o["skip"])
                    assert isinstance(text, str)
                except Exception:  # noqa  (a broken exporter is the tojson stream's business)
                    text = json.dumps(v)
            k = rng.random()
            if k < 0.3:
                text = rng.choice(["", " ", "\n", "\t \r\n"]) + text + rng.choice(["", " ", "\n\n"])
            elif k < 0.4 and text:
                text = text[:rng.randrange(len(text))]                       # truncated: mostly malformed
            elif k < 0.45:
                text = rng.choice(["", " ", "hello", "nul", "1", '"a"', "  \n", "x{}", "]"])
            isdict = isinstance(v, dict) if rng.random() < 0.9 else not isinstance(v, dict)
            out.append({"stream": "load", "tag": "load", "input": {"isdict": isdict, "text": text}})
        return out

    def valid(self, case):
        i = case["input"]
        if case.get("stream") == "tojson_f":
            return False
        if case.get("stream") == "tojson":
            o = i.get("opts", {})
            return (is_ctree(i.get("tree"), root=True) and isinstance(o.get("indent"), int) and abs(o["indent"]) <= 8
                    and all(isinstance(o.get(k), bool) for k in ("pairs", "compress", "skip")))
        return isinstance(i.get("text"), str) and isinstance(i.get("isdict"), bool)

    # ---- implementation ----------------------------------------------------------------------
    def build(self, ct):
        return L.uncanon(ct, wrap=True)

    def wrap_all(self, v):
        if isinstance(v, dict):
            return self.n0dict({k: self.wrap_all(x) for k, x in v.items()})
        if isinstance(v, list):
            return self.n0list([self.wrap_all(x) for x in v])
        return v

    @staticmethod
    def _containers(node, acc):
        if isinstance(node, dict):
            acc.append(node)
            for v in dict.values(node):
                C11._containers(v, acc)
        elif isinstance(node, list):
            acc.append(node)
            for v in list.__iter__(node):
                C11._containers(v, acc)
        return acc

    def alias(self, x, share):
        """make one container of x occur again (1-2 more times) in another container that is not inside it; returns the
        plain value the result is equal to"""
        cs = self._containers(x, [])
        inner = cs[1:]
        if inner:
            c = inner[int(share[0] * len(inner)) % len(inner)]
            below = {id(n) for n in self._containers(c, [])}
            hosts = [h for h in cs if id(h) not in below]
            h = hosts[int(share[1] * len(hosts)) % len(hosts)]
            for n in range(share[2]):
                if isinstance(h, dict):
                    dict.__setitem__(h, "dup%d" % n, c)
                else:
                    list.append(h, c)

        def pl(v):
            if isinstance(v, dict):
                return {k: pl(w) for k, w in dict.items(v)}
            if isinstance(v, list):
                return [pl(w) for w in list.__iter__(v)]
            return v
        return pl(x)

    def parsed(self, text):
        try:
            return ("ok", json.loads(text.strip()))
        except ValueError:
            return ("bad", None)

    def run_impl(self, case):
        i = case["input"]
        if case["stream"] == "tojson_f":
            o = i["opts"]
            x = self.wrap_all(i["tree"])      # the same construction as the main stream (n0dict(d) / n0list(l) at every level)
            if i.get("share"):
                i["_expect"] = self.alias(x, i["share"])
            s = x.to_json(indent=o["indent"], pairs_in_one_line=o["pairs"], compress=o["compress"],
                          skip_empty_arrays=o["skip"])
            if not isinstance(s, str):
                raise TypeError("to_json returned %s" % type(s).__name__)
            return {"ok": ["s", s]}
        if case["stream"] == "tojson":
            o = i["opts"]
            x = self.build(i["tree"])
            s = x.to_json(indent=o["indent"], pairs_in_one_line=o["pairs"], compress=o["compress"],
                          skip_empty_arrays=o["skip"])
            if not isinstance(s, str):
                raise TypeError("to_json returned %s" % type(s).__name__)
            return {"ok": ["s", s]}
        text = i["text"]
        x = (self.n0dict if i["isdict"] else self.n0list)(text)
        ob = {"ok": L.canon(x)}
        st, ref = self.parsed(text)
        if st == "ok" and isinstance(ref, (dict, list)):
            ob["same"] = strict_eq(plain(ob["ok"]), ref)
            ob["n0"] = all_dicts_are(x, self.n0dict)
            nav = []
            for p, v in itertools.islice(leaf_paths(ref), 12):
                if not p:
                    continue
                try:
                    got = x[p]
                    if not strict_eq(got, v):
                        nav.append("%s -> %r, parser has %r" % (p, got, v))
                except Exception as e:  # noqa
                    nav.append("%s -> %s" % (p, type(e).__name__))
            ob["nav"] = nav
        return ob

    def coq_input(self, case):
        i = case["input"]
        if case["stream"] == "tojson":
            o = i["opts"]
            return "({| o_indent := %s; o_pairs := %s; o_compress := %s; o_skip := %s |}, %s)" % (
                L.z(o["indent"]), L.boolean(o["pairs"]), L.boolean(o["compress"]), L.boolean(o["skip"]), L.tree(i["tree"]))
        st, ref = self.parsed(i["text"])
        p = None
        if st == "ok":
            p = "(%s)" % L.tree(L.erase_tags(L.canon(ref, self.n0dict, self.n0list)))
        return "((%s, %s), %s)" % (L.boolean(i["isdict"]), L.pstr(i["text"]), L.opt(p))

    # ---- the property on the implementation --------------------------------------------------
    def oracle(self, case, obs):
        i = case["input"]
        if case["stream"] in ("tojson", "tojson_f"):
            if "raise" in obs:
                return "to_json raised %s" % obs.get("exc", obs["raise"])
            text = obs["ok"][1]
            want = plain(i["tree"]) if case["stream"] == "tojson" else i.pop("_expect", None) or copy.deepcopy(i["tree"])
            if i["opts"]["skip"]:
                p = prune(want)
                want = type(want)() if p is DROP else p
            try:
                got = json.loads(text)
            except ValueError as e:
                return "to_json output is not JSON (%s): %r" % (str(e)[:60], text[:200])
            if not strict_eq(got, want):
                return "to_json output decodes to %r, expected %r" % (got, want)
            return None
        # loading
        text = i["text"]
        st, ref = self.parsed(text)
        s = text.strip()
        if not s or s[0] != ("{" if i["isdict"] else "["):
            return None                      # not JSON text for this constructor: nothing stated
        if st == "bad":
            return None if "raise" in obs else "constructor accepted text the standard parser rejects: %r" % text[:100]
        if "raise" in obs:
            return "constructor raised %s on valid JSON %r" % (obs.get("exc", obs["raise"]), text[:100])
        if not obs.get("same"):
            return "constructor value differs from json.loads for %r" % text[:100]
        if not obs.get("n0"):
            return "nested objects are not n0dict (not navigable) for %r" % text[:100]
        if obs.get("nav"):
            return "xpath navigation differs: %s" % obs["nav"][:2]
        return None


PROP = C11
