"""C14 — loading a CSV file reproduces the saved table under every header mode."""
import csv
import io
import itertools
import os
import shutil
import tempfile

from n0v import coqlit as L
from n0v.core import Prop

DELIMS = [",", ";", "|", "\t"]
ENCODINGS = ["utf-8", "utf-8-sig", "latin-1", "cp1252"]
NAMES = ["A", "B", "C", "id", "naïve", "x y", "N°"]
EXN_CODE = {"ExIndex": 0, "ExKey": 1, "ExType": 2, "ExValue": 3, "ExSyntax": 4, "ExAttribute": 5,
            "ExAssertion": 6, "ExUnbound": 7, "ExRecursion": 8, "ExOther": 9}


def s2b(s):
    return s.encode("latin-1")


def b2s(b):
    return bytes(b).decode("latin-1")


def tname(x):
    """JSON typed name ["s", text] | ["y", latin-1 of the bytes] -> Python str / bytes"""
    return s2b(x[1]) if x[0] == "y" else x[1]


def cell_alphabet(d):
    other = ";" if d != ";" else ","
    return ["a", "b", d, other, '"', "'", " ", "é", "€"]


class C14(Prop):
    id = "C14"
    props_file = "Props/C14.v"
    refuted_file = "Refuted/C14.v"
    rule = ("tables of 1..4 columns and 0..5 rows, cells over the C13 alphabet {letters, delimiter, other delimiter, \", ', blank, "
            "non-ASCII}, ragged rows (short, long), blank lines (leading, inner, trailing), written by save_csv (= csv.writer) with "
            "delimiter in , ; | TAB, EOL LF/CRLF, with and without BOM, with and without a header line; loaded by load_csv under "
            "scenario-driven and random combinations of column_names (absent, equal, permuted, subset, superset, unknown; str, and bytes "
            "for binary mode), contains_header (absent, bool, first name, list of mandatory names), header_is_mandatory, skip_empty_lines, "
            "strip_line, strip_field, read_mode t/b, encoding; an exhaustive small scope (2x2 table x full option product); arbitrary "
            "byte files with ill-formed quoting / CR-only lines / invalid UTF-8 for load_csv alone. "
            "non-trivial = records returned; distinct = distinct (stream, input)")
    trusted_base = [
        "csv.writer (QUOTE_MINIMAL) is external C code: modelled by Codec.Csv.gen_w inside Files.CsvFile.save_csv, validated by the save stream",
        "CPython's utf-8 / utf-8-sig / latin-1 / cp1252 codecs, universal newlines, readline(), tell()/seek() on the first line: modelled "
        "(Files/Bytes.v, Files/SaveLoad.v, Files/CsvFile.v), validated by the load / rt streams",
        "csv.reader is used by the oracle as an independent parser of the written file (agreement demanded by the property)",
        "n0dict(zip(..)) and n0dict.get(name) for names without xpath syntax behave as dict(zip(..)) and dict.get",
    ]
    assumptions = ["cells and column names contain no CR/LF; column names are unique, non-empty, without leading/trailing blanks and "
                   "without xpath syntax (/ [ leading ?); the delimiter is one ASCII character other than the quote; in binary mode the "
                   "caller passes bytes names and the file has no BOM"]
    streams = {
        "rt": dict(requires=["Codec.Csv", "Files.Bytes", "Files.SaveLoad", "Files.CsvFile"], itype="table_in * opts", model="obs_csv_rt"),
        "load": dict(requires=["Codec.Csv", "Files.Bytes", "Files.SaveLoad", "Files.CsvFile"], itype="option pstr * opts", model="obs_load_csv"),
        "save": dict(requires=["Codec.Csv", "Files.Bytes", "Files.SaveLoad", "Files.CsvFile"], itype="table_in", model="obs_save_csv"),
    }

    def setup(self):
        import n0struct
        self.load_csv = n0struct.load_csv
        self.load_native_csv = n0struct.load_native_csv
        self.save_csv = n0struct.save_csv
        self.dir = tempfile.mkdtemp(prefix="n0v-")
        self.counter = 0
        self.stats = {"oracle_in_domain": 0, "oracle_expected_refusal": 0, "oracle_expected_records": 0,
                      "oracle_caller_error_or_outside_spec": 0}

    def teardown(self):
        d = getattr(self, "dir", None)
        if d and os.path.isdir(d):
            shutil.rmtree(d, ignore_errors=True)

    # ---- generation -----------------------------------------------------------
    def rand_cell(self, rng, d, wild=False):
        al = cell_alphabet(d)
        if wild:
            al = al + ["\xa0", "\t", "/", "[", "?"]
        return "".join(rng.choice(al) for _ in range(rng.choice([0, 1, 1, 2, 3, 4])))

    def rand_table(self, rng, d, wild):
        ncols = rng.randint(1, 4)
        header = rng.sample(NAMES, ncols) if rng.random() < 0.7 else []
        if header and wild and rng.random() < 0.3:
            header[rng.randrange(ncols)] = rng.choice(["a" + d + "b", 'q"x', " p", "A", "", "a/b", "?A", "k[0]"])
        rows = []
        for _ in range(rng.choice([0, 1, 2, 2, 3, 5])):
            k = rng.random()
            n = ncols
            if k < 0.15:
                n = rng.randint(0, ncols)          # short (0 = blank line)
            elif k < 0.22:
                n = ncols + rng.randint(1, 2)      # long
            row = [self.rand_cell(rng, d, wild) for _ in range(n)]
            if wild and row and rng.random() < 0.1:
                row[rng.randrange(len(row))] = None
            rows.append(row)
        if rng.random() < 0.15:
            rows.insert(rng.randint(0, len(rows)), [])
        return header, rows

    def typed(self, names, binary):
        return [["y", b2s(n.encode("utf-8"))] if binary else ["s", n] for n in names]

    def rand_opts(self, rng, header, ncols, wild):
        """scenario-driven load options for a file whose header line is `header` ([] = none)"""
        rm = "b" if rng.random() < 0.25 else "t"
        binary = rm == "b"
        if wild and rng.random() < 0.3:
            binary = not binary            # names of the other type
        o = {"cn": None, "ch": None, "him": None, "skip": rng.random() > 0.15, "sl": rng.random() < 0.12,
             "sf": rng.random() < 0.12, "rm": rm, "enc": rng.choice(["utf-8-sig"] * 6 + ["utf-8", "utf-8", "latin-1", "cp1252"])}
        sc = rng.choice(["file", "file", "none", "names", "names", "names", "caller", "missing", "random"])
        pool = header or NAMES[:ncols]
        if sc == "file":
            k = rng.randrange(5)
            if k == 0:
                o["him"] = True
            elif k == 1:
                o["ch"] = True
            elif k == 2:
                o["ch"], o["him"] = True, True
            elif k == 3:
                o["ch"], o["him"] = pool[0], rng.choice([None, True, False])
            else:
                o["ch"] = self.typed(rng.sample(pool, rng.randint(1, len(pool))), binary)
                o["him"] = rng.choice([None, True, False])
        elif sc == "none":
            o["ch"] = rng.choice([None, False])
            o["him"] = rng.choice([None, False])
        elif sc in ("names", "caller"):
            k = rng.randrange(4)
            if k == 0:
                names = list(pool)
            elif k == 1:
                names = rng.sample(pool, len(pool))
            elif k == 2:
                names = rng.sample(pool, rng.randint(1, len(pool)))
            else:
                names = rng.sample(pool, rng.randint(1, len(pool))) + ["Z"]
            o["cn"] = self.typed(names, binary)
            o["him"] = rng.choice([None, True, False])
            k = rng.randrange(5)
            if k == 4:
                o["ch"] = []               # an empty list of mandatory names: as good as not given
            if k == 1:
                o["ch"] = names[0] if rng.random() < 0.8 else pool[-1]
            elif k == 2:
                o["ch"] = self.typed(rng.sample(names, rng.randint(1, len(names))), binary)
            elif k == 3:
                o["ch"] = rng.choice([True, False])
        elif sc == "missing":
            bad = rng.sample(pool, rng.randint(0, len(pool) - 1)) + ["Z"]
            if rng.random() < 0.5:
                o["cn"] = self.typed(bad, binary)
            else:
                o["ch"] = self.typed(bad, binary) if rng.random() < 0.7 else "Z"
            o["him"] = rng.choice([True, True, None, False])
        else:
            o["cn"] = rng.choice([None, None, self.typed(rng.sample(NAMES + ["Z", "A"], rng.randint(0, 3)), binary),
                                  self.typed([rng.choice(pool)] * 2, binary)])
            o["ch"] = rng.choice([None, True, False, "A", "", self.typed(rng.sample(NAMES, rng.randint(0, 2)), binary)])
            o["him"] = rng.choice([None, True, False])
        return o

    def generate(self, rng, tier):
        out = []
        quick = tier == "quick"
        self.tier = tier
        # ---- exhaustive small scope: 2x2 table x option product ---------------------------
        tables = [(["A", "B"], [["1", "2"], ["3", "4"]]), ([], [["1", "2"], ["3", "4"]]), (["A", "B"], [["x,y", ""], [], ["z"]])]
        cns = [None, ["A", "B"], ["B", "A"], ["B"], ["A", "Z"], ["A", "A"]]
        chs = [None, True, False, "A", "B", ["A"], ["Z"], ["B", "B"], []]
        prod = list(itertools.product(range(len(tables)), cns, chs, [None, True, False], ["t", "b"], ["\n", "\r\n"], [False, True]))
        if quick:
            prod = rng.sample(prod, 600)
        for ti, cn, ch, him, rm, eol, bom in prod:
            header, rows = tables[ti]
            binary = rm == "b"
            o = {"cn": None if cn is None else self.typed(cn, binary),
                 "ch": self.typed(ch, binary) if isinstance(ch, list) else ch,
                 "him": him, "skip": True, "sl": False, "sf": False, "rm": rm, "enc": "utf-8-sig"}
            out.append({"stream": "rt", "tag": "exh:rt", "input": {"header": header, "rows": rows, "wenc": "utf-8-sig" if bom else "utf-8",
                                                                   "eol": eol, "d": ",", "o": o}})
        # ---- random tables, scenario-driven options, with EOL / BOM / mode siblings --------------
        n = 700 if quick else 15000
        for _ in range(n):
            d = rng.choice(DELIMS)
            wild = rng.random() < 0.2
            header, rows = self.rand_table(rng, d, wild)
            ncols = len(header) or max([len(r) for r in rows] + [1])
            o = self.rand_opts(rng, header, ncols, wild)
            base = {"header": header, "rows": rows, "wenc": rng.choice(["utf-8", "utf-8", "utf-8-sig"]), "eol": rng.choice(["\n", "\r\n"]),
                    "d": d, "o": o}
            if base["wenc"] == "utf-8" and rng.random() < 0.3:
                base["wdef"] = True
            out.append({"stream": "rt", "tag": "rnd:rt" + (":wild" if wild else "") + (":wdef" if base.get("wdef") else ""), "input": base})
            if rng.random() < 0.35:
                sib = dict(base)
                k = rng.randrange(3)
                if k == 0:
                    sib["eol"] = "\r\n" if base["eol"] == "\n" else "\n"
                elif k == 1:
                    sib["wenc"] = "utf-8-sig" if base["wenc"] == "utf-8" else "utf-8"
                    sib.pop("wdef", None)
                else:
                    o2 = dict(o)
                    o2["rm"] = "b" if o["rm"] == "t" else "t"
                    conv = (lambda x: ["y", b2s(x[1].encode("utf-8"))]) if o2["rm"] == "b" else (lambda x: ["s", s2b(x[1]).decode("utf-8", "replace")])
                    for key in ("cn", "ch"):
                        if isinstance(o2[key], list):
                            o2[key] = [conv(x) for x in o2[key]]
                    sib["o"] = o2
                    sib["wenc"] = "utf-8"
                out.append({"stream": "rt", "tag": "rnd:rt:sibling", "input": sib})
        # ---- save_csv alone -----------------------------------------------------------------------
        for _ in range(150 if quick else 3000):
            d = rng.choice(DELIMS)
            header, rows = self.rand_table(rng, d, True)
            we = rng.choice(ENCODINGS)
            out.append({"stream": "save", "tag": "rnd:save", "input": {"header": header, "rows": rows, "wenc": we,
                                                                      "eol": rng.choice(["\n", "\r\n"]), "d": d,
                                                                      "wdef": we == "utf-8" and rng.random() < 0.5}})
        # ---- load_csv on arbitrary files -------------------------------------------------------------
        for _ in range(400 if quick else 8000):
            d = rng.choice(DELIMS)
            al = [ord(d), ord(d), 34, 34, 10, 10, 13, 65, 66, 90, 32, 0xC3, 0xA9, 0xFF, 9, 0xA0]
            k = rng.random()
            if k < 0.03:
                disk = None
            else:
                body = [rng.choice(al) for _ in range(rng.randint(0, 16))]
                if rng.random() < 0.5:
                    body = list(("A%sB\n" % d).encode()) + body
                if rng.random() < 0.2:
                    body = [239, 187, 191] + body
                disk = b2s(body)
            o = self.rand_opts(rng, ["A", "B"] if rng.random() < 0.7 else [], 2, True)
            out.append({"stream": "load", "tag": "rnd:load", "input": {"disk": disk, "d": d, "o": o}})
        # ---- files that start with blank lines (the reader skips them to look for the header, then has to come back to
        #      the right place when the first non-empty line turns out to be data), skip_empty_lines on and off
        for _ in range(120 if quick else 3000):
            d = rng.choice(DELIMS)
            eol = rng.choice(["\n", "\n", "\r\n"])
            lead = eol * rng.randint(1, 3)
            lines = []
            for _ in range(rng.randint(1, 4)):
                lines.append(d.join(rng.choice(["1", "2", "x", "A", "B", "", "a b"]) for _ in range(rng.randint(1, 3))))
                if rng.random() < 0.2:
                    lines.append("")
            if rng.random() < 0.4:
                lines.insert(0, "A%sB" % d)
            disk = lead + eol.join(lines) + (eol if rng.random() < 0.8 else "")
            o = self.rand_opts(rng, ["A", "B"] if rng.random() < 0.5 else [], 2, False)
            o["skip"] = rng.random() < 0.4
            o["enc"] = "utf-8"
            out.append({"stream": "load", "tag": "lead-blank:load", "input": {"disk": disk, "d": d, "o": o}})
        return out

    def valid(self, case):
        i = case["input"]
        if i.get("d") not in DELIMS:
            return False
        o = i.get("o")
        if o is not None:
            if o.get("rm") not in ("t", "b") or o.get("enc") not in ENCODINGS:
                return False
            for key in ("cn", "ch"):
                v = o.get(key)
                if isinstance(v, list) and not all(isinstance(x, list) and len(x) == 2 and x[0] in ("s", "y") for x in v):
                    return False
            if not (o.get("ch") is None or isinstance(o["ch"], (bool, str, list))):
                return False
        if "rows" in i:
            if i.get("eol") not in ("\n", "\r\n") or i.get("wenc") not in ENCODINGS:
                return False
            if not all(isinstance(r, list) for r in i["rows"]):
                return False
        return True

    # ---- implementation ------------------------------------------------------------
    def path(self):
        self.counter += 1
        return os.path.join(self.dir, "t%d.csv" % self.counter)

    def load_kwargs(self, i):
        o = i["o"]
        kw = dict(delimiter=i["d"], skip_empty_lines=o["skip"], strip_line=o["sl"], strip_field=o["sf"], read_mode=o["rm"], encoding=o["enc"])
        if o["cn"] is not None:
            kw["column_names"] = [tname(x) for x in o["cn"]]
        if o["ch"] is not None:
            kw["contains_header"] = [tname(x) for x in o["ch"]] if isinstance(o["ch"], list) else o["ch"]
        if o["him"] is not None:
            kw["header_is_mandatory"] = o["him"]
        return kw

    @staticmethod
    def canon_scalar(v):
        if v is None:
            return ["n"]
        if isinstance(v, bool):
            raise L.Unrepresentable("bool")
        if isinstance(v, int):
            return ["i", v]
        if isinstance(v, (bytes, bytearray)):
            return ["y", list(v)]
        if isinstance(v, str):
            return ["s", v]
        raise L.Unrepresentable(type(v).__name__)

    def canon_records(self, recs):
        return ["l", 0, [["l", 0, [["l", 0, [self.canon_scalar(k), self.canon_scalar(v)]] for k, v in r.items()]] for r in recs]]

    def nested(self, fn):
        try:
            return ["l", 0, [fn()]]
        except BaseException as e:  # noqa
            if isinstance(e, (KeyboardInterrupt, SystemExit)) or type(e).__name__ == "CaseTimeout":
                raise
            return ["i", EXN_CODE[L.exn_name(e)]]

    def run_impl(self, case):
        i, st = case["input"], case["stream"]
        path = self.path()
        try:
            if st == "load":
                if i["disk"] is not None:
                    with open(path, "wb") as f:
                        f.write(s2b(i["disk"]))
                return {"ok": self.canon_records(list(self.load_csv(path, **self.load_kwargs(i))))}
            if i.get("wdef"):
                # the writer's own default encoding (utf-8, no byte-order mark): the argument is left out
                self.save_csv(path, i["rows"], i["header"], EOL=i["eol"], delimiter=i["d"])
            else:
                self.save_csv(path, i["rows"], i["header"], encoding=i["wenc"], EOL=i["eol"], delimiter=i["d"])
            with open(path, "rb") as f:
                data = f.read()
            if st == "save":
                return {"ok": ["y", list(data)]}
            a = self.nested(lambda: self.canon_records(list(self.load_csv(path, **self.load_kwargs(i)))))
            obs = {"ok": ["l", 0, [["y", list(data)], a]]}
            if i["header"] and i["wenc"] in ("utf-8", "utf-8-sig"):
                # the library's csv.DictReader-based reader on the same file (side observation for the oracle only)
                try:
                    obs["native"] = [[[k, v] for k, v in r.items()] for r in
                                     self.load_native_csv(path, column_names=list(i["header"]), delimiter=i["d"])]
                except Exception as e:  # noqa
                    obs["native"] = "raise:" + type(e).__name__
            return obs
        finally:
            if os.path.exists(path):
                os.remove(path)

    # ---- Coq literals ---------------------------------------------------------------------
    @staticmethod
    def lit_t(x):
        return "(%s, %s)" % ("true" if x[0] == "y" else "false", L.pstr(s2b(x[1]) if x[0] == "y" else x[1]))

    def lit_opts(self, i):
        o = i["o"]
        cn = "None" if o["cn"] is None else "(Some %s)" % L.lst(self.lit_t(x) for x in o["cn"])
        ch = o["ch"]
        if ch is None:
            chl = "ChNone"
        elif isinstance(ch, bool):
            chl = "(ChBool %s)" % L.boolean(ch)
        elif isinstance(ch, str):
            chl = "(ChStr %s)" % L.pstr(ch)
        else:
            chl = "(ChList %s)" % L.lst(self.lit_t(x) for x in ch)
        him = "None" if o["him"] is None else "(Some %s)" % L.boolean(o["him"])
        return ("{| o_cn := %s; o_delim := %d%%N; o_ch := %s; o_him := %s; o_skip := %s; o_strip_line := %s; o_strip_field := %s; "
                "o_binary := %s; o_codec := %d%%N |}") % (cn, ord(i["d"]), chl, him, L.boolean(o["skip"]), L.boolean(o["sl"]),
                                                         L.boolean(o["sf"]), L.boolean(o["rm"] == "b"), ENCODINGS.index(o["enc"]))

    def lit_table(self, i):
        rows = L.lst(L.lst(("None" if c is None else "(Some %s)" % L.pstr(c)) for c in r) for r in i["rows"])
        return "((((%s, %s), %d%%N), %s), %d%%N)" % (L.strs(i["header"]), rows, ENCODINGS.index(i["wenc"]), L.pstr(i["eol"]), ord(i["d"]))

    def coq_input(self, case):
        i, st = case["input"], case["stream"]
        if st == "load":
            disk = "None" if i["disk"] is None else "(Some %s)" % L.pstr(s2b(i["disk"]))
            return "(%s, %s)" % (disk, self.lit_opts(i))
        if st == "save":
            return self.lit_table(i)
        return "(%s, %s)" % (self.lit_table(i), self.lit_opts(i))

    # ---- the property on the implementation -----------------------------------------------
    @staticmethod
    def good_name(n):
        return bool(n) and n == n.strip() and not any(c in n for c in "/[\r\n") and not n.startswith("?")

    def spec(self, lines, o, conv):
        """the documented decision table + record construction, on the logical lines of the
        table (lists of cells, [] = blank line).  conv: cell text -> value as read.
        Returns ("refuse",) | ("records", [[(key, value)...]...]) | None (caller error / outside)"""
        cn = None if o["cn"] is None else [tname(x) for x in o["cn"]]
        ch = o["ch"]
        if isinstance(ch, list):
            ch = [tname(x) for x in ch]
        him = o["him"]
        if cn is not None and not cn:
            cn = None
        if isinstance(ch, (str, list)) and not ch:
            ch = None
        if cn is not None and len(set(cn)) != len(cn):
            return None
        if isinstance(ch, list) and len(set(ch)) != len(ch):
            return None
        if cn is not None and isinstance(ch, str) and cn[0] != ch:
            return None
        if cn is not None and isinstance(ch, list) and any(x not in cn for x in ch):
            return None
        if isinstance(ch, bool):
            if him is not None and him != ch:
                return None
            him = ch
            ch = None
        him = bool(him)
        body = [l for l in lines]
        while body and not body[0]:
            body.pop(0)
        if not body:
            return None
        first = [conv(c) for c in body[0]]
        declared = ch if ch is not None else cn
        if isinstance(declared, str):
            recognised = first[0] == declared
        elif declared is not None:
            recognised = all(x in first for x in declared)
        else:
            recognised = him
        if not recognised and him and declared is not None:
            return ("refuse",)
        if recognised:
            if len(set(first)) != len(first):
                return None
            keys, cols, data = first, (cn if cn is not None else first), body[1:]
        else:
            keys = cn if cn is not None else list(range(len(first)))
            cols, data = keys, body
        recs = []
        for l in data:
            if not l:
                if not o["skip"]:
                    return None
                continue
            if len(l) > len(keys):
                return None
            vals = [conv(c) for c in l] + [None] * (len(keys) - len(l))
            d = dict(zip(keys, vals))
            recs.append([(k, d.get(k)) for k in cols])
        return ("records", recs)

    def domain(self, i):
        o = i["o"]
        if i["wenc"] not in ("utf-8", "utf-8-sig"):
            return False
        binary = o["rm"] == "b"
        if binary and i["wenc"] != "utf-8":
            return False
        if not binary and not (o["enc"] == "utf-8-sig" or (o["enc"] == "utf-8" and i["wenc"] == "utf-8")):
            return False
        if not all(self.good_name(n) for n in i["header"]) or len(set(i["header"])) != len(i["header"]):
            return False
        for key in ("cn", "ch"):
            v = o[key]
            if isinstance(v, list):
                if any((x[0] == "y") != binary for x in v):
                    return False
                if any(not self.good_name(s2b(x[1]).decode("utf-8", "replace") if x[0] == "y" else x[1]) for x in v):
                    return False
            if isinstance(v, str) and (binary or (v and not self.good_name(v))):
                return False
        cells = [c for r in i["rows"] for c in r]
        if any(c is None or "\r" in c or "\n" in c for c in cells):
            return False
        if (o["sl"] or o["sf"]) and any("\xa0" in c for c in cells):
            return False             # str.strip and bytes.strip differ on non-ASCII blanks
        if o["sl"] and (i["d"].isspace() or any(c != c.strip() for c in cells)):
            return False             # stripping the line changes its first / last cell (or eats a blank delimiter)
        return True

    def oracle(self, case, obs):
        if case["stream"] != "rt":
            return None
        i = case["input"]
        if not self.domain(i):
            return None
        o = i["o"]
        binary = o["rm"] == "b"
        if "raise" in obs:
            return "save_csv raised %s on a table of the quantifier" % obs.get("exc", obs["raise"])
        data, a = obs["ok"][2]
        data = bytes(data[1])

        def conv(c):
            c = c.strip() if o["sf"] else c
            return c.encode("utf-8") if binary else c
        lines = ([list(i["header"])] if i["header"] else []) + [list(r) for r in i["rows"]]
        want = self.spec(lines, o, conv)
        # the standard csv reader on the written file must see the same table
        rd = list(csv.reader(io.StringIO(data.decode("utf-8-sig"), newline=""), delimiter=i["d"]))
        if [l for l in rd if l] != [l for l in lines if l]:
            return "csv.reader reads %r from the file written for %r" % (rd, lines)
        self.stats["oracle_in_domain"] += 1
        if "native" in obs and all(len(l) <= len(i["header"]) for l in lines):
            nat = [[[h, (l[j] if j < len(l) else None)] for j, h in enumerate(i["header"])] for l in lines[1:] if l]
            if obs["native"] != nat:
                return "load_native_csv (csv.DictReader) returned %r for the saved table %r" % (obs["native"], lines)
            self.stats["native_reader_agrees"] = self.stats.get("native_reader_agrees", 0) + 1
        if want is None:
            self.stats["oracle_caller_error_or_outside_spec"] += 1
            return None
        self.stats["oracle_expected_refusal" if want == ("refuse",) else "oracle_expected_records"] += 1
        want2 = self.spec(rd, o, conv)
        if want2 != want:
            return "HARNESS: spec differs between table and csv.reader rows"
        if want == ("refuse",):
            if a[0] == "l":
                return "a mandatory header that is missing was not refused: load_csv returned %r" % (a[2][0],)
            return None
        if a[0] != "l":
            return "load_csv raised (code %r) on a saved table; expected %d record(s)" % (a[1], len(want[1]))
        got = [[(self.uncanon(kv[2][0]), self.uncanon(kv[2][1])) for kv in rec[2]] for rec in a[2][0][2]]
        if got != want[1]:
            return "load_csv returned %r, expected %r" % (got, want[1])
        return None

    def extra_evidence(self):
        ev = {"oracle_stats": dict(self.stats)}
        if getattr(self, "tier", "quick") == "thorough":
            ev["exhaustive_scopes"] = ["3 tables (2x2 with header, 2x2 without, ragged with blank row) x 6 column_names x 8 contains_header "
                                       "x 3 header_is_mandatory x read_mode t/b x LF/CRLF x BOM/no BOM = 3456 cases, complete"]
        else:
            ev["exhaustive_scopes"] = ["sample of 600 of the 3456-case small-scope option product (complete in the thorough tier)"]
        return ev

    @staticmethod
    def uncanon(t):
        if t[0] == "n":
            return None
        if t[0] == "y":
            return bytes(t[1])
        return t[1]


PROP = C14
