"""Shared code of the checks C07-C10 (the three comparison walks of n0dict/n0list).

Case input (JSON):
  a, b     plain JSON-like values (dict / list / None / bool / int / float-half / str)
  wa, wb   how the operand is built: "conv" = n0dict.convert_recursively (the
           supported domain), "wrap" = n0dict(x) / n0list(x) (inner containers stay plain)
  walk     "direct" (direct_compare) | "compare"
  ck, only, excl   None | str | list of str   (composite_key, compare_only, exclude_xpaths)
  tr       list of [pattern, fnspec]; fnspec = ["id"] | ["lower"] | ["ci", int] | ["cs", str] | ["round"]
  setters  list of [name, bool]: the set__flag_compare_* calls made before the comparison
"""
import copy
import itertools
import re

from n0v import coqlit as L

SETTERS = {
    "types": ("set__flag_compare_check_different_types", "SetTypes"),
    "delta": ("set__flag_compare_return_difference_of_values", "SetDelta"),
    "equal": ("set__flag_compare_return_equal", "SetEqual"),
    "eqrec": ("set__flag_compare_return_equal_records", "SetEqRec"),
    "eqelem": ("set__flag_compare_return_equal_elements", "SetEqElem"),
    "place": ("set__flag_compare_return_place", "SetPlace"),
}
KEYS = ["a", "b", "k", "id", "n", "Q", "x_1", "Ab", "ab", "Am ", " n"]     # the last two: blank-padded names (CSV-header style)
STREAM = dict(requires=["Compare.Util", "Compare.Flags", "Compare.Match", "Compare.Model"],
              itype="cinput", model="obs_compare")


# ---------------------------------------------------------------------------------
# the implementation side
# ---------------------------------------------------------------------------------
class Impl:
    def __init__(self):
        import n0struct
        self.m = n0struct
        self.n0dict, self.n0list = n0struct.n0dict, n0struct.n0list

    def build(self, x, how):
        x = copy.deepcopy(x)
        if how == "conv":
            return self.n0dict.convert_recursively(x)
        if how == "graft":
            # converted operands into which plain dictionaries were stored afterwards (rec["sub"] = {...}): every dictionary
            # held directly by a record of a list is a plain dict again (its own content stays as converted)
            t = self.n0dict.convert_recursively(x)

            def graft(node):
                if isinstance(node, dict):
                    for v in dict.values(node):
                        graft(v)
                elif isinstance(node, list):
                    for rec in list.__iter__(node):
                        if isinstance(rec, dict):
                            for k in list(dict.keys(rec)):
                                v = dict.__getitem__(rec, k)
                                if isinstance(v, dict):
                                    dict.__setitem__(rec, k, dict(dict.items(v)))
                        graft(rec)
            graft(t)
            return t
        if isinstance(x, dict):
            return self.n0dict(x)
        return self.n0list(x)

    def reset_flags(self):
        m = self.m
        m.set__flag_compare_check_different_types(False)
        m.set__flag_compare_return_difference_of_values(False)
        m.set__flag_compare_return_equal(False)
        m.set__flag_compare_return_place(True)

    def apply_setters(self, setters):
        for name, val in setters:
            getattr(self.m, SETTERS[name][0])(bool(val))

    def kwargs(self, i):
        kw = {}
        for jk, pk in (("ck", "composite_key"), ("only", "compare_only"), ("excl", "exclude_xpaths")):
            v = i.get(jk)
            if v is not None:
                kw[pk] = tuple(v) if isinstance(v, list) else v
        if i.get("tr"):
            kw["transform"] = tuple((p, mk_tfun(f)) for p, f in i["tr"])
        return kw

    def compare(self, A, B, i, setters=None, **override):
        """one comparison under the given setter history; returns (report dict | None, exception | None).
        The flags are back at their import-time values afterwards."""
        kw = self.kwargs(i)
        kw.update(override)
        kw = {k: v for k, v in kw.items() if v is not None}
        try:
            self.reset_flags()
            self.apply_setters(i.get("setters", []) if setters is None else setters)
            place = self.m.get__flag_compare_return_place()
            meth = A.direct_compare if i["walk"] == "direct" else A.compare
            res = meth(B, **kw)
            return report_of(res, place), None
        except BaseException as e:  # noqa
            if isinstance(e, (KeyboardInterrupt, SystemExit)) or type(e).__name__ == "CaseTimeout":
                raise
            return None, e
        finally:
            self.reset_flags()


def mk_tfun(spec):
    k = spec[0]
    if k == "id":
        return lambda v: v
    if k == "lower":
        return lambda v: v.lower() if isinstance(v, str) else v
    if k == "ci":
        c = int(spec[1])
        return lambda v: c
    if k == "cs":
        s = str(spec[1])
        return lambda v: s
    if k == "round":
        return lambda v: round(v) if isinstance(v, (int, float)) and not isinstance(v, bool) else v
    if k == "num":
        # numbers arriving as numbers on one side and as text on the other: both become the float (not in the Coq
        # model's function set: cases that use it go to the oracle only)
        def num(v):
            if isinstance(v, bool):
                return v
            try:
                return float(v)
            except (TypeError, ValueError):
                return v
        return num
    raise ValueError(spec)


def report_of(res, place):
    """result n0dict -> {"n", "ne", "su", "ou", "dt"}: values as ctrees (class tags kept),
    ne/dt entries (path, l, r), su/ou entries (path | None, v)."""
    g = lambda k: dict.__getitem__(res, k)
    rep = {"n": len(g("differences")), "place": bool(place)}
    rep["ne"] = [(p, L.canon(v[0]), L.canon(v[1])) for p, v in g("not_equal")]
    for jk, pk in (("su", "self_unique"), ("ou", "other_unique")):
        if place:
            rep[jk] = [(p, L.canon(v)) for p, v in g(pk)]
        else:
            rep[jk] = [(None, L.canon(v)) for v in g(pk)]
    if dict.__contains__(res, "difftypes"):
        rep["dt"] = [(p, L.canon(v[1]), L.canon(v[3])) for p, v in g("difftypes")]
    else:
        rep["dt"] = None
    return rep


def report_ctree(rep):
    """the observation compared with the model (Compare.Model.obs_report)"""
    pair = lambda e: ["l", 0, [["s", e[0]], e[1], e[2]]]
    uniq = lambda e: ["l", 0, [["s", e[0]], e[1]]] if rep["place"] else e[1]
    kvs = [["n", ["i", rep["n"]]],
           ["not_equal", ["l", 0, [pair(e) for e in rep["ne"]]]],
           ["self_unique", ["l", 0, [uniq(e) for e in rep["su"]]]],
           ["other_unique", ["l", 0, [uniq(e) for e in rep["ou"]]]]]
    if rep["dt"] is not None:
        kvs.append(["difftypes", ["l", 0, [pair(e) for e in rep["dt"]]]])
    return ["d", 0, kvs]


def observe(impl, i, extra=None):
    """the primary run of a case + purity of the operands.  extra(A, B, obs) may add
    further runs to the observation (they are not part of the correspondence)."""
    A, B = impl.build(i["a"], i.get("wa", "conv")), impl.build(i["b"], i.get("wb", "conv"))
    A0, B0 = L.canon(A), L.canon(B)
    rep, exc = impl.compare(A, B, i)
    if exc is None:
        obs = {"ok": report_ctree(rep), "rep": rep}
    else:
        obs = {"raise": L.exn_name(exc), "exc": "%s: %s" % (type(exc).__name__, str(exc)[:200])}
    if extra:
        extra(A, B, obs)
    obs["pure"] = (L.canon(A) == A0 and L.canon(B) == B0)
    obs["opnd"] = [A0, B0]
    return obs


# ---------------------------------------------------------------------------------
# Coq literals
# ---------------------------------------------------------------------------------
def pats_lit(v):
    if v is None:
        return "(PSeq [])"
    if isinstance(v, str):
        return "(PStr %s)" % L.pstr(v)
    return "(PSeq %s)" % L.strs(v)


def tfun_lit(spec):
    k = spec[0]
    if k == "id":
        return "TId"
    if k == "lower":
        return "TLower"
    if k == "ci":
        return "(TConstI %s)" % L.z(int(spec[1]))
    if k == "cs":
        return "(TConstS %s)" % L.pstr(spec[1])
    if k == "round":
        return "TRound"
    if k == "num":
        raise L.Unrepresentable("transform function outside the model's set: oracle only")
    raise ValueError(spec)


def cin_lit(impl, i):
    A, B = impl.build(i["a"], i.get("wa", "conv")), impl.build(i["b"], i.get("wb", "conv"))
    hist = L.lst("(%s, %s)" % (SETTERS[n][1], L.boolean(v)) for n, v in i.get("setters", []))
    opts = "(mk_opts %s %s %s)" % (pats_lit(i.get("only")), pats_lit(i.get("excl")),
                                   L.lst("(%s, %s)" % (L.pstr(p), tfun_lit(f)) for p, f in (i.get("tr") or [])))
    return "(mk_cin %s %s %s %s (%s) (%s))" % (
        hist, "MDirect" if i["walk"] == "direct" else "MKeyed", pats_lit(i.get("ck")), opts,
        L.tree(L.canon(A)), L.tree(L.canon(B)))


# ---------------------------------------------------------------------------------
# reference definitions for the oracles (independent of the model)
# ---------------------------------------------------------------------------------
def plain(ct):
    return L.uncanon(ct)


def teq(a, b):
    """structural equality: keys as sets, lists in order, leaves equal with equal type"""
    if isinstance(a, dict) and isinstance(b, dict):
        return a.keys() == b.keys() and all(teq(a[k], b[k]) for k in a)
    if isinstance(a, list) and isinstance(b, list):
        return len(a) == len(b) and all(teq(x, y) for x, y in zip(a, b))
    if isinstance(a, (dict, list)) or isinstance(b, (dict, list)):
        return False
    return type(a) == type(b) and a == b


def emo(a, b):
    """equal up to the order of the non-record items inside each list: records
    correspond pairwise in order, non-record items are matched by value"""
    if isinstance(a, dict) and isinstance(b, dict):
        return a.keys() == b.keys() and all(emo(a[k], b[k]) for k in a)
    if isinstance(a, list) and isinstance(b, list):
        ra = [x for x in a if isinstance(x, dict)]
        rb = [x for x in b if isinstance(x, dict)]
        if len(ra) != len(rb) or not all(emo(x, y) for x, y in zip(ra, rb)):
            return False
        na = [x for x in a if not isinstance(x, dict)]
        nb = [x for x in b if not isinstance(x, dict)]
        if len(na) != len(nb):
            return False
        for x in na:
            for j, y in enumerate(nb):
                if teq(x, y):
                    del nb[j]
                    break
            else:
                return False
        return True
    if isinstance(a, (dict, list)) or isinstance(b, (dict, list)):
        return False
    return type(a) == type(b) and a == b


def keys_ok(a, b, ck=None):
    """the guard of C07_default_verdict_partial (Compare.Spec.keys_ok, tied to it by the
    'guard' correspondence stream of C07): along the pairing of the unordered compare, for
    every left item x and right item y of two paired lists: two non-records have equal str()
    iff they are equal, and then the guard holds below them; a non-record's str() is not a
    record's key (the empty string without composite key); two records with the same key:
    the guard holds below them."""
    if isinstance(a, dict) and isinstance(b, dict):
        return all(keys_ok(a[k], b[k], ck) for k in a if k in b)
    if isinstance(a, list) and isinstance(b, list):
        for x in a:
            for y in b:
                rx, ry = isinstance(x, dict), isinstance(y, dict)
                if rx and ry:
                    if _rec_key(x, ck) == _rec_key(y, ck) and not keys_ok(x, y, ck):
                        return False
                elif not rx and not ry:
                    same = str(x) == str(y)
                    if same != teq(x, y) or (same and not keys_ok(x, y, ck)):
                        return False
                elif rx:
                    if str(y) == _rec_key(x, ck):
                        return False
                else:
                    if str(x) == _rec_key(y, ck):
                        return False
        return True
    return True


def _rec_key(rec, ck):
    if not ck:
        return ""
    if isinstance(ck, str):
        ck = [ck]
    return ";".join("%s=%s" % (k, rec[k]) for k in ck if k in rec)


_TOK = re.compile(r"/([^/\[]*)|\[(\d+)\](?:<>\[(\d+)\])?")


def parse_path(path):
    """'/a/b[1]<>[2]/c' -> (left steps, right steps) or None"""
    pos, left, right = 0, [], []
    while pos < len(path):
        m = _TOK.match(path, pos)
        if not m or m.end() == pos:
            return None
        if m.group(1) is not None:
            left.append(m.group(1))
            right.append(m.group(1))
        else:
            left.append(int(m.group(2)))
            right.append(int(m.group(3) if m.group(3) is not None else m.group(2)))
        pos = m.end()
    return left, right


MISSING = object()


def resolve(t, stepsl):
    for s in stepsl:
        if isinstance(s, str):
            if not isinstance(t, dict) or s not in t:
                return MISSING
            t = t[s]
        else:
            if not isinstance(t, list) or s >= len(t):
                return MISSING
            t = t[s]
    return t


def xpath_match_ref(xpath, pats):
    """reference reading of the pattern language (C10): patterns are anchored at the
    tail, case-insensitive, '*' stands for one step, an empty part (leading '/' or
    '//') cuts the pattern there.  Returns whether some pattern matches."""
    if isinstance(pats, str):
        pats = [pats]
    xp = xpath.split("/")
    for pat in pats:
        parts = pat.split("/")
        tail = []
        for p in reversed(parts):
            if p == "":
                break
            tail.append(p)
        tail.reverse()
        if len(tail) > len(xp):
            continue
        last = xp[len(xp) - len(tail):]
        if all(p == "*" or p.lower() == x.lower() for p, x in zip(tail, last)):
            return True
    return False


def first_match_ref(xpath, pats):
    if isinstance(pats, str):
        pats = [pats]
    for i, p in enumerate(pats):
        if xpath_match_ref(xpath, [p]):
            return i + 1
    return 0


_IDX_TAIL = re.compile(r"(\[\d+\](<>\[\d+\])?)+$")


def dict_entry_prefixes(path):
    """the prefixes of a reported xpath that denote dictionary entries"""
    parts = path.split("/")[1:]
    res = []
    for i in range(1, len(parts) + 1):
        stripped = _IDX_TAIL.sub("", parts[i - 1])
        res.append("/" + "/".join(parts[:i - 1] + [stripped]))
    return res


def under_excluded(path, excl):
    return any(xpath_match_ref(pre, excl) for pre in dict_entry_prefixes(path))


def ends_with_index(path):
    return path.endswith("]")


def entries(rep):
    """flat list of (kind, path, l, r) with class tags erased"""
    out = []
    for p, l, r in rep["ne"]:
        out.append(("ne", p, L.erase_tags(l), L.erase_tags(r)))
    for p, l, r in rep["dt"] or []:
        out.append(("dt", p, L.erase_tags(l), L.erase_tags(r)))
    for p, v in rep["su"]:
        out.append(("su", p, L.erase_tags(v), None))
    for p, v in rep["ou"]:
        out.append(("ou", p, L.erase_tags(v), None))
    return out


def all_n0(ct):
    if ct[0] == "d":
        return ct[1] == 1 and all(all_n0(v) for _, v in ct[2])
    if ct[0] == "l":
        return ct[1] == 1 and all(all_n0(v) for v in ct[2])
    return True


# ---------------------------------------------------------------------------------
# generators
# ---------------------------------------------------------------------------------
def gen_leaf(rng):
    r = rng.random()
    if r < 0.12:
        return None
    if r < 0.22:
        return rng.choice([True, False])
    if r < 0.5:
        return rng.randint(-2, 6)
    if r < 0.62:
        return rng.choice([0.5, 1.5, -2.0, 1.0, 3.0])
    if r < 0.66:
        return rng.choice(["7", "1.50", 2 ** 53, "1"])
    return rng.choice(["", "x", "yz", "a b", "1", "X", "Yz", "True", "1.0"])


def gen_tree(rng, depth, nokeys=KEYS, wide=4):
    r = rng.random()
    if depth <= 0 or r < 0.3:
        return gen_leaf(rng)
    if r < 0.65:
        ks = rng.sample(nokeys, rng.randint(0, min(wide, len(nokeys))))
        return {k: gen_tree(rng, depth - 1, nokeys, wide) for k in ks}
    return [gen_tree(rng, depth - 1, nokeys, wide) for _ in range(rng.randint(0, wide))]


def gen_root(rng, depth=4, kind=dict, keys=KEYS):
    while True:
        t = gen_tree(rng, depth, keys)
        if isinstance(t, kind) and t:
            return t


def positions(t, pre=()):
    yield pre
    if isinstance(t, dict):
        for k, v in t.items():
            yield from positions(v, pre + (k,))
    elif isinstance(t, list):
        for i, v in enumerate(t):
            yield from positions(v, pre + (i,))


def retype(rng, v):
    """a value of another type that prints alike / compares alike"""
    if isinstance(v, bool):
        return int(v)
    if isinstance(v, int):
        return rng.choice([float(v), str(v), bool(v) if v in (0, 1) else str(v)])
    if isinstance(v, float):
        return rng.choice([int(v) if v == int(v) else str(v), str(v)])
    if isinstance(v, str):
        return rng.choice([None, [v], {"x": v}, 0])
    if v is None:
        return rng.choice(["", 0, False, [], {}])
    if isinstance(v, list):
        return rng.choice([{}, None, {"a": v}])
    if isinstance(v, dict):
        return rng.choice([[], None, [v]])
    return None


def float_twin(v):
    """another value of the same type whose float() image is the same (None if there is none at hand)"""
    if isinstance(v, str):
        try:
            f = float(v)
        except ValueError:
            return None
        for cand in (v + ".0" if "." not in v and "e" not in v.lower() else None, "0" + v, v + "0" if "." in v else None,
                     v[:-2] if v.endswith(".0") else None):
            if cand and cand != v:
                try:
                    if float(cand) == f:
                        return cand
                except ValueError:
                    pass
        return None
    if isinstance(v, int) and not isinstance(v, bool) and abs(v) >= 2 ** 53:
        return v + 1 if float(v + 1) == float(v) else v - 1 if float(v - 1) == float(v) else None
    return None


def mutate(rng, t, keys=KEYS):
    """one edit: changed value, changed type, removed / added key, removed / appended /
    permuted list items, reordered dict keys, replaced subtree"""
    t = copy.deepcopy(t)
    ps = [p for p in positions(t) if p]
    if not ps:
        if isinstance(t, dict):
            t[rng.choice(keys)] = gen_leaf(rng)
        else:
            t.append(gen_leaf(rng))
        return t
    p = rng.choice(ps)
    par = t
    for st in p[:-1]:
        par = par[st]
    r = rng.random()
    tw = float_twin(par[p[-1]])
    if tw is not None and rng.random() < 0.5:
        par[p[-1]] = tw              # differs, but only for an exact comparison: '1' / '1.0', '7' / '07', 2**53 / 2**53+1
    elif r < 0.22:
        par[p[-1]] = gen_leaf(rng)
    elif r < 0.34:
        par[p[-1]] = retype(rng, par[p[-1]])
    elif r < 0.46:
        if isinstance(par, dict):
            del par[p[-1]]
        else:
            par.pop(p[-1])
    elif r < 0.6:
        if isinstance(par, dict):
            par[rng.choice(keys)] = gen_leaf(rng)
        else:
            par.insert(rng.randint(0, len(par)), gen_leaf(rng))
    elif r < 0.74:
        if isinstance(par, list):
            rng.shuffle(par)
        else:
            items = list(par.items())
            rng.shuffle(items)
            par.clear()
            par.update(items)
    elif r < 0.84:
        if isinstance(par, dict):
            items = list(par.items())
            rng.shuffle(items)
            par.clear()
            par.update(items)
        else:
            par.append(copy.deepcopy(rng.choice(par)))
    else:
        par[p[-1]] = gen_tree(rng, 2, keys)
    return t


def gen_pair(rng, depth=4, kind=dict, edits=None, keys=KEYS):
    a = gen_root(rng, depth, kind, keys)
    b = copy.deepcopy(a)
    n = rng.choice([0, 0, 1, 1, 2, 3, 4]) if edits is None else edits
    for _ in range(n):
        b2 = mutate(rng, b, keys)
        if isinstance(b2, kind):
            b = b2
    return a, b


ALL_SETTERS = list(SETTERS)


def gen_setters(rng):
    """a history of setter calls (the reachable flag configurations arise from these)"""
    r = rng.random()
    if r < 0.25:
        return []
    n = rng.choice([1, 1, 2, 3, 5])
    return [[rng.choice(ALL_SETTERS), rng.random() < 0.6] for _ in range(n)]


def names_of(*trees):
    out = []
    for t in trees:
        for p in positions(t):
            for k in p:
                if isinstance(k, str) and k not in out:
                    out.append(k)
    return out or ["a"]


def gen_pattern(rng, names):
    """patterns built from the trees' own key names: absolute, '//'-relative, '*', mixed case"""
    k = rng.choice(names)
    r = rng.random()
    if r < 0.28:
        p = "//" + k
    elif r < 0.38:
        p = k.upper() if rng.random() < 0.5 else k.lower()
    elif r < 0.5:
        p = "/" + k
    elif r < 0.7:
        p = "//" + rng.choice(names) + "/" + k
    elif r < 0.8:
        p = "/*/" + k
    elif r < 0.88:
        p = "//" + k + "/*"
    elif r < 0.94:
        p = "/" + rng.choice(names) + "/" + rng.choice(names) + "/" + k
    else:
        p = "//" + k.swapcase()
    return p


def gen_patterns(rng, names):
    pats = [gen_pattern(rng, names) for _ in range(rng.randint(1, 3))]
    if rng.random() < 0.2:
        return pats[0]
    return pats


def small_trees(keys, leaves, depth):
    """all trees over the given keys/leaves up to a depth, containers of size <= 2"""
    if depth == 0:
        return list(leaves)
    sub = small_trees(keys, leaves, depth - 1)
    out = list(leaves) + [{}, []]
    for k in keys:
        for v in sub:
            out.append({k: v})
    if len(keys) >= 2:
        for v, w in itertools.product(sub[:6], repeat=2):
            out.append({keys[0]: v, keys[1]: w})
            out.append({keys[1]: w, keys[0]: v})
    for v in sub:
        out.append([v])
    for v, w in itertools.product(sub[:6], repeat=2):
        out.append([v, w])
    return out


def valid_value(x, depth=0):
    if depth > 12:
        return False
    if x is None or isinstance(x, (bool, int, str)):
        return not isinstance(x, str) or all(ord(c) < 128 for c in x)
    if isinstance(x, float):
        return x * 2 == int(x * 2) and abs(x) < 1e15
    if isinstance(x, dict):
        return all(isinstance(k, str) and k != "" and re.fullmatch(r"[A-Za-z0-9_]+", k) and valid_value(v, depth + 1)
                   for k, v in x.items())
    if isinstance(x, list):
        return all(valid_value(v, depth + 1) for v in x)
    return False


def valid_input(i):
    if not isinstance(i, dict) or i.get("walk") not in ("direct", "compare"):
        return False
    if i.get("wa", "conv") not in ("conv", "wrap") or i.get("wb", "conv") not in ("conv", "wrap"):
        return False
    for k in ("a", "b"):
        if k not in i or not isinstance(i[k], (dict, list)) or not valid_value(i[k]):
            return False
    if type(i["a"]) != type(i["b"]):
        return False
    for k in ("ck", "only", "excl"):
        v = i.get(k)
        if not (v is None or isinstance(v, str) or (isinstance(v, list) and all(isinstance(s, str) for s in v))):
            return False
        if v is not None and any(ord(c) >= 128 for s in ([v] if isinstance(v, str) else v) for c in s):
            return False
    for s in i.get("setters", []):
        if not (isinstance(s, list) and len(s) == 2 and s[0] in SETTERS and isinstance(s[1], bool)):
            return False
    for t in i.get("tr") or []:
        if not (isinstance(t, list) and len(t) == 2 and isinstance(t[0], str) and isinstance(t[1], list) and t[1]
                and t[1][0] in ("id", "lower", "ci", "cs", "round")):
            return False
        if t[1][0] in ("ci", "cs") and len(t[1]) != 2:
            return False
        if t[1][0] == "ci" and (isinstance(t[1][1], bool) or not isinstance(t[1][1], int)):
            return False
        if t[1][0] == "cs" and not isinstance(t[1][1], str):
            return False
    return True


class _SharedCodeNotACheck:
    """harness/main.py imports every props/c*.py and reads PROP.id; this module is
    shared code of C07-C10, not a property."""
    id = "compare_common(shared-code)"


PROP = _SharedCodeNotACheck


# ---------------------------------------------------------------------------------
# record lists with a composite key (C08; also used by C09 / C10)
# ---------------------------------------------------------------------------------
KEY_FIELDS = {"id": [1, 2, 3, 4, 5, 6, 7, 1000001, 1000002, 2500001.5, 2500002.5], "n": ["a", "b", "c", "A", "1"], "t": [True, 1.5, "x", "X", None, 0, 1, "a"]}


def record_key(rec, ck):
    """the composite key of a record: the listed fields that are present, as text"""
    if isinstance(ck, str):
        ck = [ck]
    return ";".join("%s=%s" % (k, rec[k]) for k in ck if k in rec)


def gen_payload(rng, lists=False):
    p = {}
    if rng.random() < 0.8:
        p["v"] = gen_leaf(rng)
    if rng.random() < 0.5:
        p["w"] = gen_leaf(rng)
    if rng.random() < 0.5:
        q = {"q": gen_leaf(rng)}
        if rng.random() < 0.5:
            q["r"] = {"s": gen_leaf(rng)}
        if rng.random() < 0.35:
            # payload leaves named like key fields, below the record level (they are ordinary payload there)
            q[rng.choice(list(KEY_FIELDS))] = gen_leaf(rng)
            if "r" in q and rng.random() < 0.5:
                q["r"][rng.choice(list(KEY_FIELDS))] = gen_leaf(rng)
        if rng.random() < 0.15:
            q["e"] = {}
        p["p"] = q
    if rng.random() < 0.15:
        # a payload field whose name is blank-padded (a CSV header with padded columns), mostly next to its stripped twin
        p[rng.choice(["v ", " w", " v ", "q "])] = gen_leaf(rng)
    if lists and rng.random() < 0.4:
        p["l"] = [gen_leaf(rng) for _ in range(rng.randint(0, 3))]
    if lists and rng.random() < 0.2:
        p["m"] = [{"id": rng.randint(1, 3), "z": gen_leaf(rng)} for _ in range(rng.randint(0, 2))]
    return p


def change_payload(rng, rec, ck, structural=True):
    """0-3 payload differences: changed leaf (value or type), and, if structural, removed / added payload key"""
    rec = copy.deepcopy(rec)
    for _ in range(rng.choice([0, 0, 1, 1, 2, 3])):
        leaves = [p for p in positions(rec) if p and not isinstance(resolve(rec, p), (dict, list)) and p[0] not in ck]
        r = rng.random()
        if leaves and r < 0.6:
            p = rng.choice(leaves)
            par = resolve(rec, p[:-1])
            old = par[p[-1]]
            new = gen_leaf(rng) if rng.random() < 0.7 else retype(rng, old)
            if isinstance(new, (dict, list)) and not structural:
                new = gen_leaf(rng)
            par[p[-1]] = new
        elif structural and r < 0.8:
            ks = [k for k in rec if k not in ck]
            if ks:
                del rec[rng.choice(ks)]
        elif structural:
            rec[rng.choice(["w", "u", "v"])] = gen_leaf(rng)
    return rec


def gen_record_lists(rng, lists=False, structural=True, maxn=6):
    """(xs, ys, ck): two lists of records whose composite keys are unique within each list"""
    fields = rng.sample(list(KEY_FIELDS), rng.randint(1, 3))
    ck = fields[0] if len(fields) == 1 and rng.random() < 0.4 else list(fields)

    def fresh(used):
        for _ in range(50):
            rec = {}
            for f in fields:
                if rng.random() < 0.92:
                    rec[f] = rng.choice(KEY_FIELDS[f])
            k = record_key(rec, fields)
            if k not in used:
                used.add(k)
                items = list(rec.items()) + list(gen_payload(rng, lists).items())
                if rng.random() < 0.3:
                    rng.shuffle(items)
                return dict(items)
        return None
    used_a = set()
    xs = [r for r in (fresh(used_a) for _ in range(rng.randint(0, maxn))) if r is not None]
    overlap = rng.choice([0.0, 0.5, 0.8, 1.0])
    ys = [change_payload(rng, x, fields, structural) for x in xs if rng.random() < overlap]

    def reorder(rec):
        # the same logical record may list its fields (key fields included) in another order on the other side
        if isinstance(rec, dict) and rng.random() < 0.4:
            items = list(rec.items())
            rng.shuffle(items)
            return dict(items)
        return rec
    ys = [reorder(y) for y in ys]
    used_b = set(record_key(y, fields) for y in ys) | (used_a if rng.random() < 0.7 else set())
    ys += [r for r in (fresh(used_b) for _ in range(rng.randint(0, 3))) if r is not None]
    # keys unique within ys even if the fresh ones were drawn against used_b only
    seen, uniq = set(), []
    for y in ys:
        k = record_key(y, fields)
        if k not in seen:
            seen.add(k)
            uniq.append(y)
    ys = uniq
    rng.shuffle(ys)
    return xs, ys, ck


def enclose(rng, xs, ys):
    """put the two lists at the same place of two enclosing trees; returns (a, b, loc)"""
    r = rng.random()
    if r < 0.35:
        return {"L": xs}, {"L": ys}, ["L"]
    if r < 0.6:
        return {"X": {"L": xs, "z": 1}, "y": "s"}, {"y": "s", "X": {"z": 1, "L": ys}}, ["X", "L"]
    if r < 0.8:
        return {"O": [{"L": xs, "c": 1}]}, {"O": [{"L": ys, "c": 1}]}, ["O", 0, "L"]
    if r < 0.9:
        return {"X": {"Y": {"L": xs}}}, {"X": {"Y": {"L": ys}}}, ["X", "Y", "L"]
    return xs, ys, []


def render_loc(loc):
    return "".join("/" + s if isinstance(s, str) else "[%d]" % s for s in loc)
