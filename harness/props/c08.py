"""C08 — keyed unordered compare ignores order and classifies records correctly."""
import copy
import itertools
import re

from n0v import coqlit as L
from n0v.core import Prop
from props import compare_common as CC

SCALARS = [None, True, False, 1, 2, 3, 0.5, 1.5, "x", "yz", "a b"]
_HEAD = re.compile(r"\[(\d+)\](?:<>\[(\d+)\])?")


def set_at(t, loc, v):
    t = copy.deepcopy(t)
    if not loc:
        return copy.deepcopy(v)
    par = t
    for s in loc[:-1]:
        par = par[s]
    par[loc[-1]] = copy.deepcopy(v)
    return t


def leaf_eq(x, y):
    return type(x) == type(y) and x == y


def ref_diff(x, y, rest=""):
    """reference classification of a pair of records (nested dict payloads, no lists)"""
    out = []
    for k in x:
        if k in y:
            vx, vy = x[k], y[k]
            if isinstance(vx, dict) and isinstance(vy, dict):
                out += ref_diff(vx, vy, rest + "/" + k)
            elif isinstance(vx, (dict, list)) or isinstance(vy, (dict, list)) or not leaf_eq(vx, vy):
                out.append(("ne", rest + "/" + k, L.erase_tags(L.canon(vx)), L.erase_tags(L.canon(vy))))
        else:
            out.append(("su", rest + "/" + k, L.erase_tags(L.canon(x[k])), None))
    for k in y:
        if k not in x:
            out.append(("ou", rest + "/" + k, L.erase_tags(L.canon(y[k])), None))
    return out


def classified(rep, prefix, xs, ys, ck):
    """entries below the record lists, indexes replaced by the records' keys.
    Returns (list of (kind, key, rest, l, r), problem | None)."""
    out = []
    for kind, path, l, r in CC.entries(rep):
        if path is None or not path.startswith(prefix + "["):
            continue
        m = _HEAD.match(path, len(prefix))
        if not m:
            return None, "entry path %r is not an index below %r" % (path, prefix)
        i = int(m.group(1))
        j = int(m.group(2)) if m.group(2) is not None else i
        rest = path[m.end():]
        if kind == "ou" and rest == "":
            if i >= len(ys):
                return None, "other_unique entry %r: index out of range" % path
            out.append(("ou", CC.record_key(ys[i], ck), "", l, None))
            continue
        if i >= len(xs):
            return None, "entry %r: left index out of range" % path
        key = CC.record_key(xs[i], ck)
        if rest == "" and kind == "su":
            out.append(("su", key, "", l, None))
            continue
        if kind == "dt":
            # difftypes entries carry the left index only
            kind = "ne"
        elif j >= len(ys) or CC.record_key(ys[j], ck) != key:
            return None, "entry %r pairs records with different keys" % path
        out.append((kind, key, rest, l, r))
    return out, None


def expected(xs, ys, ck):
    kx = {CC.record_key(x, ck): x for x in xs}
    ky = {CC.record_key(y, ck): y for y in ys}
    out = []
    for k, x in kx.items():
        if k in ky:
            out += [(kind, k, rest, l, r) for kind, rest, l, r in ref_diff(x, ky[k])]
        else:
            out.append(("su", k, "", L.erase_tags(L.canon(x)), None))
    for k, y in ky.items():
        if k not in kx:
            out.append(("ou", k, "", L.erase_tags(L.canon(y)), None))
    return out


def msorted(l):
    return sorted(repr(e) for e in l)


class C08(Prop):
    id = "C08"
    props_file = "Props/C08.v"
    refuted_file = None
    rule = ("two lists of 0-6 records whose composite key (1-3 fields, given as str or tuple, some fields absent) is unique "
            "within each list; overlap of the key sets 0/50/80/100 %; 0-3 payload differences per common record (changed "
            "leaf value or type, removed / added payload key, nested dict payloads); the right list shuffled; the lists "
            "placed at depth 1-3 of enclosing trees (below dicts, below a record of a list, or as roots), next to a list "
            "of scalars compared by value; every case is run three times (as is, right list permuted, left list "
            "permuted); thorough: every permutation of lists of <= 4 records. non-trivial = report returned")
    trusted_base = [
        "str() of key field values: modelled in Compare/Util.v (py_str), validated by the correspondence of this run",
        "the oracle's reference classification (harness/props/c08.py ref_diff / expected)",
    ]
    assumptions = ["operands built by n0dict.convert_recursively; composite keys unique within each list (as key strings); "
                   "record payloads are scalars and nested dicts for the classification oracle (lists inside records are "
                   "covered by the correspondence only); plain key names, ASCII text, floats are halves"]
    streams = {"cmp": CC.STREAM}
    case_timeout = 10

    def setup(self):
        self.impl = CC.Impl()

    def teardown(self):
        if getattr(self, "impl", None):
            self.impl.reset_flags()

    # ---- generation -------------------------------------------------------------------
    def mk_case(self, rng, xs, ys, ck, tag, lists=False, perms=None):
        a, b, loc = CC.enclose(rng, xs, ys)
        i = {"a": a, "b": b, "walk": "compare", "ck": ck, "loc": loc, "setters": CC.gen_setters(rng) if rng.random() < 0.4 else []}
        # flags that drop the xpaths make the classification unreadable: keep the place
        i["setters"] = [s for s in i["setters"] if s[0] != "place"]
        if isinstance(a, dict) and rng.random() < 0.5:
            sa = [rng.choice(SCALARS) for _ in range(rng.randint(0, 5))]
            sb = list(sa)
            rng.shuffle(sb)
            for _ in range(rng.choice([0, 0, 1, 2])):
                if sb and rng.random() < 0.5:
                    sb.pop(rng.randrange(len(sb)))
                else:
                    sb.insert(rng.randint(0, len(sb)), rng.choice(SCALARS))
            i["a"] = dict(a, S=sa)
            i["b"] = dict(b, S=sb)
            i["sloc"] = ["S"]
        if loc and isinstance(loc[-1], str) and rng.random() < 0.25:
            # an exclusion pattern of two steps that names the record list without an index: it matches no reported path
            # (those carry '[i]' or '[i]<>[j]' on the list step), so nothing is hidden - for aligned and displaced pairs alike
            i["excl"] = [rng.choice(["%s/%s", "//%s/%s", "/%s/%s"]) % (loc[-1], rng.choice(["v", "w", "p", "id"]))]
        if perms is None:
            py = list(range(len(ys)))
            px = list(range(len(xs)))
            rng.shuffle(py)
            rng.shuffle(px)
        else:
            px, py = perms
        i["px"], i["py"] = px, py
        if lists:
            i["lists"] = True
        return {"stream": "cmp", "tag": tag, "input": i}

    def generate(self, rng, tier):
        quick = tier == "quick"
        out = []
        for _ in range(700 if quick else 30000):
            xs, ys, ck = CC.gen_record_lists(rng)
            out.append(self.mk_case(rng, xs, ys, ck, "rnd"))
        for _ in range(150 if quick else 3000):
            xs, ys, ck = CC.gen_record_lists(rng, lists=True)
            out.append(self.mk_case(rng, xs, ys, ck, "rnd:lists", lists=True))
        # every permutation of short lists
        for n in ((2, 3) if quick else (2, 3, 4)):
            for _ in range(6 if quick else 25):
                xs, ys, ck = CC.gen_record_lists(rng, maxn=n)
                if len(ys) < 2:
                    continue
                for py in itertools.permutations(range(len(ys))):
                    out.append(self.mk_case(rng, xs, ys, ck, "perm", perms=(list(range(len(xs))), list(py))))
        return out

    def valid(self, case):
        i = case.get("input")
        if not CC.valid_input(i) or i.get("walk") != "compare" or not i.get("ck"):
            return False
        loc = i.get("loc")
        if not isinstance(loc, list):
            return False
        xs, ys = CC.resolve(i["a"], loc), CC.resolve(i["b"], loc)
        if not isinstance(xs, list) or not isinstance(ys, list):
            return False
        if not all(isinstance(r, dict) for r in xs + ys):
            return False
        for l in (xs, ys):
            ks = [CC.record_key(r, i["ck"]) for r in l]
            if len(set(ks)) != len(ks):
                return False
        if sorted(i.get("px", [])) != list(range(len(xs))) or sorted(i.get("py", [])) != list(range(len(ys))):
            return False
        if not i.get("lists") and any(isinstance(CC.resolve(r, p), list) for r in xs + ys for p in CC.positions(r)):
            return False
        if "sloc" in i:
            sa, sb = CC.resolve(i["a"], i["sloc"]), CC.resolve(i["b"], i["sloc"])
            if not isinstance(sa, list) or not isinstance(sb, list) or any(isinstance(v, (dict, list)) for v in sa + sb):
                return False
            strs = {}
            for v in sa + sb:
                if v == "" and isinstance(v, str):
                    return False
                if str(v) in strs and not leaf_eq(strs[str(v)], v):
                    return False
                strs[str(v)] = v
        return True

    # ---- implementation ---------------------------------------------------------------
    def run_impl(self, case):
        i = case["input"]
        loc = i["loc"]
        xs, ys = CC.resolve(i["a"], loc), CC.resolve(i["b"], loc)

        def extra(A, B, obs):
            ys2 = [ys[k] for k in i["py"]]
            xs2 = [xs[k] for k in i["px"]]
            runs = {}
            for name, a2, b2 in (("py", i["a"], set_at(i["b"], loc, ys2)), ("px", set_at(i["a"], loc, xs2), i["b"])):
                i2 = dict(i, a=a2, b=b2)
                A2, B2 = self.impl.build(a2, "conv"), self.impl.build(b2, "conv")
                rep2, exc2 = self.impl.compare(A2, B2, i2)
                runs[name] = rep2 if exc2 is None else {"raise": "%s: %s" % (type(exc2).__name__, str(exc2)[:120])}
            obs["perm"] = runs
            # the same two objects compared once more: a comparison leaves nothing behind on its operands
            rep3, exc3 = self.impl.compare(A, B, i)
            obs["again"] = rep3 if exc3 is None else {"raise": "%s: %s" % (type(exc3).__name__, str(exc3)[:120])}
        return CC.observe(self.impl, i, extra)

    def coq_input(self, case):
        return CC.cin_lit(self.impl, case["input"])

    # ---- the property on the implementation -----------------------------------------------
    def oracle(self, case, obs):
        i = case["input"]
        if "raise" in obs:
            return "the comparison raised %s" % obs.get("exc", obs["raise"])
        if "again" in obs and obs["again"] != obs["rep"]:
            return "the same two objects compared a second time give another report: %r, first %r" % (obs["again"], obs["rep"])
        loc, ck = i["loc"], i["ck"]
        prefix = CC.render_loc(loc)
        xs, ys = CC.resolve(i["a"], loc), CC.resolve(i["b"], loc)
        rep = obs["rep"]
        runs = [("as given", rep, xs, ys)]
        perm = obs.get("perm", {})
        for name, xs2, ys2 in (("py", xs, [ys[k] for k in i["py"]]), ("px", [xs[k] for k in i["px"]], ys)):
            r2 = perm.get(name)
            if r2 is None:
                continue
            if "raise" in r2:
                return "the comparison raised %s after permuting the %s list" % (r2["raise"], "right" if name == "py" else "left")
            runs.append(("right list permuted %s" % i["py"] if name == "py" else "left list permuted %s" % i["px"], r2, xs2, ys2))
        want = None if i.get("lists") else msorted(expected(xs, ys, ck))
        first = None
        for what, r, xs_r, ys_r in runs:
            got, problem = classified(r, prefix, xs_r, ys_r, ck)
            if problem:
                return "%s: %s" % (what, problem)
            if (r["n"] == 0) != (rep["n"] == 0):
                return "verdict changed (%s): %d vs %d difference(s)" % (what, r["n"], rep["n"])
            if want is not None and msorted(got) != want:
                return "%s: records classified %s, expected %s" % (what, msorted(got), want)
            if first is None:
                first = msorted(got)
            elif msorted(got) != first:
                return "%s: classification changed: %s vs %s" % (what, msorted(got), first)
            # scalar items are matched by value irrespective of position
            if "sloc" in i:
                sp = CC.render_loc(i["sloc"])
                sa, sb = list(CC.resolve(i["a"], i["sloc"])), list(CC.resolve(i["b"], i["sloc"]))
                exp = []
                rest_b = list(sb)
                for v in sa:
                    for k, w in enumerate(rest_b):
                        if leaf_eq(v, w):
                            del rest_b[k]
                            break
                    else:
                        exp.append(("su", repr(L.canon(v))))
                exp += [("ou", repr(L.canon(w))) for w in rest_b]
                gots = [(kind, repr(l)) for kind, path, l, _ in CC.entries(r) if path is not None and path.startswith(sp + "[")]
                if sorted(gots) != sorted(exp):
                    return "%s: scalar items %s vs %s reported %s, expected %s" % (what, sa, sb, sorted(gots), sorted(exp))
        return None


PROP = C08
