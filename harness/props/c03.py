"""C03 — assigning to a missing xpath creates exactly the missing chain; new() appends."""
import copy

from n0v import coqlit as L
from n0v.core import Prop
from props import xpath_common as X
from props.c02 import gen_value


def render_suffix(steps, base_len, pad=""):
    """pad: blanks between a name and its bracket ('b [new()]' names the same node as 'b[new()]')"""
    s = ""
    for st in steps:
        if st[0] == "name":
            s += "/" + st[1]
        elif st[0] == "namenew":
            s += "/%s%s[%s]" % (st[1], pad, st[2])
        else:
            s += "[new()]" if st[1] == "new" else "[%d]" % base_len
    return s


def ref_create(t, pos, steps, v):
    """reference: exactly the missing chain is created below the node at pos; None = outside the grammar"""
    t = copy.deepcopy(t)
    cur = t
    for st in pos:
        cur = cur[st]
    for i, st in enumerate(steps):
        last = i == len(steps) - 1
        if st[0] == "name":
            if not isinstance(cur, dict) or st[1] in cur:
                return None
            cur[st[1]] = copy.deepcopy(v) if last else {}
            cur = cur[st[1]]
        elif st[0] == "namenew":
            if not isinstance(cur, dict) or st[1] in cur:
                return None
            cur[st[1]] = [copy.deepcopy(v) if last else {}]
            cur = cur[st[1]][0]
        else:
            if not isinstance(cur, list):
                return None
            cur.append(copy.deepcopy(v) if last else {})
            cur = cur[-1]
    return t


def list_step_below_new_element(steps):
    """the shape on which the code is known to fail: a list-creating step directly below a
    list element that the same assignment creates"""
    return any(steps[i][0] in ("namenew", "new") and steps[i + 1][0] in ("namenew", "new") for i in range(len(steps) - 1)) \
        or any(steps[i][0] in ("namenew", "new") and steps[i + 1][0] == "name" and i + 2 < len(steps) and steps[i + 2][0] in ("namenew", "new")
               for i in range(len(steps) - 2))


def containers(node, acc=None):
    """every dict / list node, by builtin traversal (never the xpath machinery)"""
    acc = [] if acc is None else acc
    if isinstance(node, dict):
        acc.append(node)
        for v in dict.values(node):
            containers(v, acc)
    elif isinstance(node, (list, tuple)):
        acc.append(node)
        for v in list.__iter__(node):
            containers(v, acc)
    return acc


class C03(Prop):
    id = "C03"
    props_file = "Props/C03.v"
    refuted_file = "Refuted/C03.v"
    rule = ("random dict-rooted trees; below a random existing dict or list node a creation suffix of 1..3 steps from the grammar "
            "{fresh name, name[new()], name[0] on a fresh name, [new()], [len]}, value scalar or container; interleaved with C02 "
            "writes and C05 deletions in histories of 1..5 operations; plus refusals (index beyond the end, step below a scalar, "
            "wrapping a pre-existing non-list value). non-trivial = no exception; distinct = distinct (tree, history)")
    trusted_base = ["reference semantics of creation on plain nested dict/list: harness (c03.ref_create)"]
    streams = {"ops": X.OPS_STREAM}
    classifiers = {
        "c03_list_step_below_new_element": lambda case, obs, failure: any(
            m.get("steps") and list_step_below_new_element(m["steps"]) for m in case["input"]["metas"]),
        "c03_index_on_scalar": lambda case, obs, failure: any(m.get("kind") == "scalar_index" for m in case["input"]["metas"]),
    }

    def valid(self, case):
        return False

    def gen_steps(self, rng, node):
        steps = []
        is_list = isinstance(node, list)
        for i in range(rng.randint(1, 3)):
            if is_list and i == 0:
                steps.append(["new", rng.choice(["new", "len"])])
            else:
                nm = "z%d" % i
                if rng.random() < 0.4:
                    steps.append(["namenew", nm, rng.choice(["new()", "0"])])
                else:
                    steps.append(["name", nm])
            is_list = False
        return steps

    def generate(self, rng, tier):
        n = 1300 if tier == "quick" else 20000
        out = []
        for _ in range(n):
            t = X.gen_tree(rng, rng.choice([1, 2, 3]), root="dict")
            mode = rng.choice(["convert", "convert", "wrap", "json", "convert", "convert", "wrap", "json", "missing"])
            cur = copy.deepcopy(t)
            ops, metas = [], []
            for _ in range(rng.randint(1, 5)):
                nodes = [((), cur)] + list(X.node_paths(cur))
                k = rng.random()
                if k < 0.6:
                    conts = [(p, x) for p, x in nodes if isinstance(x, (dict, list))]
                    p, x = rng.choice(conts)
                    steps = self.gen_steps(rng, x)
                    v = gen_value(rng)
                    ref = ref_create(cur, p, steps, v)
                    if ref is None:
                        continue
                    base = X.render(cur, p, rng, style=rng.choice([0, 1, 2])) if p else ""
                    xp = base + render_suffix(steps, len(x) if isinstance(x, list) else 0, pad=rng.choice(["", "", "", " ", "  "]))
                    if not base:
                        xp = xp.lstrip("/") if rng.random() < 0.5 and "/" in xp.lstrip("/") + "[" else xp
                    ops.append(["set", xp, v])
                    metas.append({"kind": "create", "steps": steps, "pos": list(p)})
                    cur = ref
                elif k < 0.7:
                    # wrap a pre-existing non-list value: name[new()] on an existing scalar/dict entry
                    cands = [(p, x) for p, x in nodes if p and isinstance(p[-1], str) and not isinstance(x, list)]
                    if not cands:
                        continue
                    p, x = rng.choice(cands)
                    v = gen_value(rng)
                    ops.append(["set", X.render(cur, p, rng, style=0) + rng.choice(["", "", " "]) + "[new()]", v])
                    metas.append({"kind": "wrap", "pos": list(p)})
                    cur = X.ref_set(cur, p, [copy.deepcopy(x), copy.deepcopy(v)])
                elif k < 0.8 and len(nodes) > 1:
                    p, x = rng.choice(nodes[1:])
                    v = gen_value(rng)
                    ops.append(["set", X.render(cur, p, rng), v])
                    metas.append({"kind": "write", "pos": list(p)})
                    cur = X.ref_set(cur, p, v)
                elif k < 0.9 and len(nodes) > 1:
                    p, x = rng.choice(nodes[1:])
                    ops.append(["del", X.render(cur, p, rng), False])
                    metas.append({"kind": "delete", "pos": list(p)})
                    cur = X.ref_del(cur, p)
                else:
                    # refusals: index beyond the end of a list / step below a scalar
                    lists = [(p, x) for p, x in nodes if isinstance(x, list) and p]
                    scal = [(p, x) for p, x in nodes if p and isinstance(p[-1], str) and not isinstance(x, (dict, list))]
                    if lists and rng.random() < 0.5:
                        p, x = rng.choice(lists)
                        ops.append(["set", X.render(cur, p, rng, style=0) + "[%d]" % (len(x) + 1 + rng.randrange(3)), 1])
                        metas.append({"kind": "refuse"})
                    elif scal:
                        p, x = rng.choice(scal)
                        if rng.random() < 0.5:
                            ops.append(["set", X.render(cur, p, rng, style=0) + "/below", 1])
                            metas.append({"kind": "refuse"})
                        else:
                            ops.append(["set", X.render(cur, p, rng, style=0) + "[1]", 1])
                            metas.append({"kind": "scalar_index"})
                    else:
                        continue
                    ops_ok = False
                    out.append({"stream": "ops", "tag": "refuse", "input": {"tree": t, "mode": mode, "ops": ops, "metas": metas, "final": cur}})
                    ops = None
                    break
            if ops:
                out.append({"stream": "ops", "tag": "hist:%d" % len(ops), "input": {"tree": t, "mode": mode, "ops": ops, "metas": metas, "final": cur}})
        return out

    def run_impl(self, case):
        i = case["input"]
        obj = X.build(i["tree"], i["mode"])
        fail = None
        last_exc = None
        for n, (op, m) in enumerate(zip(i["ops"], i["metas"])):
            before = copy.deepcopy(X.plain(obj))
            if m["kind"] in ("refuse", "scalar_index"):
                try:
                    X.apply_op(obj, op)
                    if fail is None:
                        fail = "d[%r] = v cannot be honoured but did not raise (tree now %r)" % (op[1], X.plain(obj))
                except RecursionError:
                    raise
                except Exception as e:  # noqa
                    if fail is None and not X.same(X.plain(obj), before):
                        fail = "d[%r] = v raised %s after changing the tree to %r" % (op[1], type(e).__name__, X.plain(obj))
                    case["_fail"] = fail
                    case["_refused"] = True
                    raise          # a refusal is the last operation of its history: the observation is the exception
                continue
            held = containers(obj)          # kept referenced during the operation so that ids are not reused
            before_ids = {id(c) for c in held}
            try:
                X.apply_op(obj, op)
            except RecursionError:
                raise
            except Exception as e:  # noqa
                case["_fail"] = fail or "operation %d %r raised %s: %s" % (n, op[:2], type(e).__name__, str(e)[:80])
                case["_partial"] = not X.same(X.plain(obj), before)
                raise
            if fail is None and m["kind"] == "create" and op[0] == "set":
                fail = self.created_navigable(obj, op, before_ids)
            del held
        case["_fail"] = fail
        if fail is None and not X.same(X.plain(obj), i["final"]):
            case["_fail"] = "after the history the tree is %r, exactly-the-missing-chain semantics give %r" % (X.plain(obj), i["final"])
        if case["_fail"] is None:
            # containers created on the way are xpath-navigable: read every leaf back through the enumeration
            try:
                for xp, v in obj.xpath():
                    if obj[xp] is not v and obj[xp] != v:
                        case["_fail"] = "created structure is not navigable at %r" % xp
                        break
            except Exception as e:  # noqa
                case["_fail"] = "created structure is not navigable: %s" % type(e).__name__
        return {"ok": L.canon(obj)}

    @staticmethod
    def created_navigable(obj, op, before_ids):
        """"Containers created this way are themselves xpath-navigable": every container that exists after the
        assignment and did not before (the assigned value's own subtree aside) answers relative xpaths to its leaves"""
        try:
            val_ids = {id(c) for c in containers(obj[op[1]])}
        except Exception:  # noqa
            return None                     # d[xpath] is v fails: reported by the other clauses
        for c in containers(obj):
            if id(c) in before_ids or id(c) in val_ids:
                continue
            for path, leaf in X.leaf_paths(X.plain(c)):
                xp = X.canonical_xpath(path)
                try:
                    got = c[xp]
                except Exception as e:  # noqa
                    return "after d[%r] = v the created %s %r is not xpath-navigable: [%r] raised %s" % (
                        op[1], type(c).__name__, X.plain(c), xp, type(e).__name__)
                if not X.same(X.plain(got), leaf):
                    return "after d[%r] = v the created container %r answers %r for [%r], the leaf is %r" % (op[1], X.plain(c), X.plain(got), xp, leaf)
        return None

    def coq_input(self, case):
        i = case["input"]
        return X.ops_lit(X.build(i["tree"], i["mode"]), i["ops"])

    def oracle(self, case, obs):
        fail = case.pop("_fail", None)
        refused = case.pop("_refused", False)
        if "raise" in obs and fail is None and not refused:
            return "raised %s" % obs.get("exc")
        return fail


PROP = C03
