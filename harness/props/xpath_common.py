"""Shared generators / helpers for the xpath properties C01–C06."""
import copy
import json

from n0v import coqlit as L

KEYS = ["a", "b", "c", "k1", "é", "Z", "id", "f"]
# legal keys that look like something else to a careless tokenizer: punctuation, digits only, a signed number
ODD_KEYS = ["line-item", "ns:tag", "$r", "@x", "2024", "0", "-1", "x.y", "#y", ".", "Up", "Item", "50%25", "a%41b", "lim]", ".cfg"]
STRS = ["", "x", "B", "a b", "1", "é", "xy", "2"]


def gen_leaf(rng):
    k = rng.randrange(7)
    if k == 0:
        return None
    if k == 1:
        return rng.random() < 0.5
    if k == 2:
        return rng.randint(-2, 5)
    if k == 3:
        return rng.randint(-3, 7) / 2
    return rng.choice(STRS)


def gen_tree(rng, depth, root=None, width=4):
    """plain JSON tree; root in {None, 'dict', 'list'}"""
    k = rng.random()
    kind = root
    if kind is None:
        if depth <= 0 or k < 0.3:
            return gen_leaf(rng)
        kind = "dict" if k < 0.68 else "list"
    if kind == "dict":
        keys = rng.sample(KEYS, rng.randint(0, min(width, len(KEYS))))
        if rng.random() < 0.12:
            keys = keys[:max(0, len(keys) - 1)] + [rng.choice(ODD_KEYS)]
            rng.shuffle(keys)
        return {key: gen_tree(rng, depth - 1, width=width) for key in keys}
    if rng.random() < 0.05:
        # a long list: indexes with two digits (and last()-k with k >= 10)
        return [gen_leaf(rng) for _ in range(rng.randint(10, 13))]
    return [gen_tree(rng, depth - 1, width=width) for _ in range(rng.randint(0, width))]


def gen_records(rng, n=None):
    """a list of dict records with present/absent fields, for fan-out / predicates"""
    n = rng.randint(0, 5) if n is None else n
    out = []
    for _ in range(n):
        r = {}
        for f in ["id", "k1", "f", "a"]:
            if rng.random() < 0.7:
                r[f] = rng.choice(["1", "2", "x", "B", 1, 2, "a b", ""]) if rng.random() < 0.85 else gen_tree(rng, 1)
        out.append(r)
    return out


def build(tree, mode):
    """mode: convert (n0dict.convert_recursively), wrap (n0dict/n0list around plain containers),
    json (constructor from JSON text: n0dict objects, plain lists)"""
    import n0struct
    if mode == "convert":
        return n0struct.n0dict.convert_recursively(copy.deepcopy(tree))
    if mode == "wrap":
        t = copy.deepcopy(tree)
        return n0struct.n0dict(t) if isinstance(t, dict) else n0struct.n0list(t)
    if mode == "json":
        txt = json.dumps(tree)
        if isinstance(tree, dict):
            return n0struct.n0dict(txt) if tree else n0struct.n0dict()
        return n0struct.n0list(txt) if tree else n0struct.n0list()
    if mode == "tuples":
        # raw Python data with tuples where the lists are (below the root): the resolvers accept a tuple wherever they
        # accept a list
        def tup(v, top=False):
            if isinstance(v, dict):
                return {k: tup(x) for k, x in v.items()}
            if isinstance(v, list):
                items = [tup(x) for x in v]
                return items if top else tuple(items)
            return v
        t = tup(copy.deepcopy(tree), top=True)
        return n0struct.n0dict(t) if isinstance(t, dict) else n0struct.n0list(t)
    if mode == "convtup":
        # convert_recursively applied to raw data with tuples: the converter turns them into n0list like lists
        def tup2(v, top=False):
            if isinstance(v, dict):
                return {k: tup2(x) for k, x in v.items()}
            if isinstance(v, list):
                items = [tup2(x) for x in v]
                return items if top else tuple(items)
            return v
        return n0struct.n0dict.convert_recursively(tup2(copy.deepcopy(tree), top=True))
    if mode == "missing":
        # raw data whose nested dictionaries answer absent keys themselves (collections.defaultdict): the same tree as
        # far as its content goes - a key that was never stored is absent, whatever dict[key] would make up for it
        import collections

        def dd(v, top=False):
            if isinstance(v, dict):
                items = {k: dd(x) for k, x in v.items()}
                return items if top else collections.defaultdict(list, items)
            if isinstance(v, list):
                return [dd(x) for x in v]
            return v
        t = dd(copy.deepcopy(tree), top=True)
        return n0struct.n0dict(t) if isinstance(t, dict) else n0struct.n0list(t)
    raise ValueError(mode)


def leaf_paths(t, pre=()):
    """(path, value) for every scalar leaf in document order; path = tuple of str keys / int indexes"""
    if isinstance(t, dict):
        for k, v in t.items():
            yield from leaf_paths(v, pre + (k,))
    elif isinstance(t, list):
        for i, v in enumerate(t):
            yield from leaf_paths(v, pre + (i,))
    else:
        yield pre, t


def node_paths(t, pre=()):
    """every non-root node (leaf or inner)"""
    if isinstance(t, dict):
        for k, v in t.items():
            yield pre + (k,), v
            yield from node_paths(v, pre + (k,))
    elif isinstance(t, list):
        for i, v in enumerate(t):
            yield pre + (i,), v
            yield from node_paths(v, pre + (i,))


def plain_get(t, path):
    for s in path:
        t = t[s]
    return t


def parent_len(tree, path, i):
    return len(plain_get(tree, path[:i]))


def render(tree, path, rng, style=None):
    """one of the equivalent spellings of a node path (C01 quantifier): leading '/', '//' or none;
    '][' vs ']/['; index i, i-len, last()-k, i+j, blanks."""
    parts = []
    for n, s in enumerate(path):
        if isinstance(s, int):
            ln = parent_len(tree, path, n)
            k = rng.randrange(6) if style is None else style
            if k == 0:
                idx = str(s)
            elif k == 1:
                idx = str(s - ln)
            elif k == 2:
                idx = "last()" if s == ln - 1 else "last()-%d" % (ln - 1 - s)
            elif k == 3:
                j = rng.randint(0, s)
                idx = "%d+%d" % (s - j, j)
            elif k == 4:
                idx = " %d " % s
            else:
                idx = "last()-%d" % (ln - 1 - s) if rng.random() < 0.5 else str(s)
            if parts and not (rng.random() < 0.3 and parts[-1].endswith("]")):
                parts[-1] += "[%s]" % idx          # a[0], a[0][1]
            else:
                parts.append("[%s]" % idx)         # leading index or ]/[ form
        else:
            parts.append(s)
    body = "/".join(parts)
    lead = rng.choice(["", "/", "//"]) if style is None else ["", "/", "//"][style % 3]
    if lead == "" and not any(c in body for c in "/["):
        lead = "/"  # a bare key would bypass the resolver; keep it in resolver territory half the time
        if rng.random() < 0.5:
            lead = ""
    return lead + body


def canonical_xpath(path):
    """the rendering xpath() itself produces: '/' + '/key' + '[i]'"""
    s = "/"
    for step in path:
        s += "[%d]" % step if isinstance(step, int) else "/" + step
    return s


def contains_plain_dict_below_list_root(tree):
    return isinstance(tree, list)


SOUP = ["a", "b", "k1", "id", "f", "/", "[", "]", "*", "..", "0", "1", "2", "-", "+", "last()", "new()",
        "text()", "=", "!=", "~", '"', "'", " ", "x", "B", "[*]", "[0]", "[-1]", "[last()]", "[1]", "/a", "/b",
        "[id=1]", "[k1~x]", "[f!=2]", "/..", "[text()=x]", "?",
        "[id='']", '[k1=""]', "[f=]", "[text()!='']", "[a~]", "[id=true()]", "[k1=false()]", "[]", "/[]"]


def gen_soup(rng, maxn=8):
    return "".join(rng.choice(SOUP) for _ in range(rng.randint(1, maxn)))


def tree_lit(obj):
    return L.tree(L.canon(obj))


# ---------------------------------------------------------------------------------------
# streams shared by C01–C06
LOOKUP_STREAM = dict(requires=["Xpath.Find"], itype="(nat * tree) * pstr",
                     model="fun x => obs_lookup (fst (fst x)) (snd (fst x)) (snd x)")
OPS_STREAM = dict(requires=["Xpath.Find", "Xpath.Write"], itype="tree * list wop",
                  model="fun x => run_ops (fst x) (snd x)")
POP_STREAM = dict(requires=["Xpath.Find", "Xpath.Write"], itype="(tree * pstr) * bool",
                  model="fun x => obs_pop (fst (fst x)) (snd (fst x)) (snd x)")
ENUM_STREAM = dict(requires=["Xpath.Find", "Xpath.Write"], itype="tree", model="obs_enum")
TOK_STREAM = dict(requires=["Xpath.Token"], itype="pstr", model="obs_tokenize")
EVAL_STREAM = dict(requires=["Xpath.Token"], itype="pstr", model="obs_n0eval")
SNI_STREAM = dict(requires=["Xpath.Token"], itype="pstr", model="obs_sni")

DFLT = "<D>"
ALLOWED_MISS = ("ExKey", "ExIndex", "ExValue", "ExType", "ExSyntax")


def raw_get(obj, path):
    """navigate with the builtin dict/list item access (never the xpath machinery)"""
    for s in path:
        obj = dict.__getitem__(obj, s) if isinstance(obj, dict) else tuple.__getitem__(obj, s) if isinstance(obj, tuple) else list.__getitem__(obj, s)
    return obj


def plain(x):
    if isinstance(x, dict):
        return {k: plain(v) for k, v in dict.items(x)}
    if isinstance(x, tuple):
        return [plain(v) for v in tuple.__iter__(x)]
    if isinstance(x, list):
        return [plain(v) for v in list.__iter__(x)]
    return x


def same(a, b):
    """equality that distinguishes True/1/1.0 and checks structure recursively"""
    if isinstance(a, dict) and isinstance(b, dict):
        return list(a.keys()) == list(b.keys()) and all(same(a[k], b[k]) for k in a)
    if isinstance(a, list) and isinstance(b, list):
        return len(a) == len(b) and all(same(x, y) for x, y in zip(a, b))
    return type(a) is type(b) and a == b


def lookup(obj, kind, xp):
    if kind == 0:
        return obj[xp]
    if kind == 1:
        return obj.get(xp, DFLT)
    return obj.first(xp, DFLT)


def lookup_obs(obj, kind, xp):
    v = lookup(obj, kind, xp)
    return {"ok": ["l", 0, [L.canon(v), L.canon(obj)]]}


def lookup_lit(obj, kind, xp):
    return "((%d%%nat, %s), %s)" % (kind, tree_lit(obj), L.pstr(xp))


def value_of(v):
    """JSON value of an op -> the object that is stored"""
    import n0struct
    return n0struct.n0dict.convert_recursively(copy.deepcopy(v)) if isinstance(v, (dict, list)) else v


def set_value(op):
    """the object a 'set' op assigns: converted (n0dict/n0list) by default, the plain container when op[3] == 'plain'"""
    if len(op) > 3 and op[3] == "plain":
        return copy.deepcopy(op[2])
    return value_of(op[2])


def apply_op(obj, op):
    k = op[0]
    if k == "set":
        obj[op[1]] = set_value(op)
    elif k == "del":
        obj.delete(op[1], bool(op[2]))
    elif k == "pop":
        kind = op[3] if len(op) > 3 else "D"
        if kind == "none":            # no default given: a miss returns None
            return obj.pop(op[1], recursively=bool(op[2]))
        if kind == "same":            # the caller's default happens to be the very value stored there
            try:
                cur = obj[op[1]]
            except Exception:  # noqa
                cur = DFLT
            return obj.pop(op[1], cur, bool(op[2]))
        return obj.pop(op[1], DFLT, bool(op[2]))
    else:
        raise ValueError(k)


def op_lit(op):
    k = op[0]
    if k == "set":
        return "WSet %s (%s)" % (L.pstr(op[1]), tree_lit(set_value(op)))
    if k == "del":
        return "WDel %s %s" % (L.pstr(op[1]), L.boolean(bool(op[2])))
    return "WPop %s %s" % (L.pstr(op[1]), L.boolean(bool(op[2])))


def ops_lit(obj, ops):
    return "(%s, %s)" % (tree_lit(obj), L.lst(op_lit(o) for o in ops))


# reference (plain nested dict/list) semantics of the write operations ---------------------
def ref_set(t, path, v):
    t = copy.deepcopy(t)
    if not path:
        return v
    node = t
    for s in path[:-1]:
        node = node[s]
    node[path[-1]] = copy.deepcopy(v)
    return t


def ref_del(t, path, recursively=False):
    t = copy.deepcopy(t)
    node = t
    for s in path[:-1]:
        node = node[s]
    del node[path[-1]]
    if recursively:
        # ancestors that became empty dictionaries are removed as well
        p = list(path[:-1])
        while p:
            cur = t
            for s in p:
                cur = cur[s]
            if isinstance(cur, dict) and not cur:
                par = t
                for s in p[:-1]:
                    par = par[s]
                del par[p[-1]]
                p = p[:-1]
            else:
                break
    return t


# ---- exhaustive small scope (thorough tier) --------------------------------------------------------
def all_trees(nodes, keys=("a", "b"), leaves=(1, "x"), root=None):
    """every tree with exactly `nodes` nodes: leaves from `leaves`, dicts over ordered subsets of `keys`
    (a dict's children in key order of the subset's order), lists of up to 3 items"""
    import itertools
    if nodes <= 0:
        return
    if root is None and nodes == 1:
        for lf in leaves:
            yield lf
    if root in (None, "dict"):
        for r in range(0, len(keys) + 1):
            for ks in itertools.permutations(keys, r):
                for parts in _compositions(nodes - 1, r):
                    for kids in itertools.product(*[list(all_trees(n, keys, leaves)) for n in parts]):
                        yield dict(zip(ks, kids))
    if root in (None, "list"):
        for r in range(0, 4):
            for parts in _compositions(nodes - 1, r):
                for kids in itertools.product(*[list(all_trees(n, keys, leaves)) for n in parts]):
                    yield list(kids)


def _compositions(total, parts):
    if parts == 0:
        if total == 0:
            yield ()
        return
    for first in range(1, total - parts + 2):
        for rest in _compositions(total - first, parts - 1):
            yield (first,) + rest
