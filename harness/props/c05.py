"""C05 — delete and pop remove exactly the addressed node."""
import copy

from n0v import coqlit as L
from n0v.core import Prop
from props import xpath_common as X
from props.c02 import gen_value


class C05(Prop):
    id = "C05"
    props_file = "Props/C05.v"
    rule = ("random dict-rooted trees x histories of 1..6 operations mixing delete / pop (every spelling lookup accepts: "
            "relative, '/'- and '//'-rooted, 'a[i][j]', negative / last() indexes; recursively on and off; missing paths through pop and delete: unknown keys, indexes just outside a list on either side and far outside) with "
            "C02 writes and C03 creations; tree compared with the model after the history and with a plain reference after "
            "every step; pop's return value compared with lookup. non-trivial = no exception; distinct = distinct (tree, history)")
    trusted_base = ["reference semantics of delete on plain nested dict/list: harness (xpath_common.ref_del)"]
    streams = {"ops": X.OPS_STREAM, "pop": X.POP_STREAM}

    def valid(self, case):
        return False

    def generate(self, rng, tier):
        n = 700 if tier == "quick" else 15000
        out = []
        for _ in range(n):
            t = X.gen_tree(rng, rng.choice([2, 3, 4]), root="dict")
            mode = rng.choice(["convert", "convert", "wrap", "json"])
            cur = copy.deepcopy(t)
            ops, metas = [], []
            for _ in range(rng.randint(1, 6)):
                nodes = list(X.node_paths(cur))
                k = rng.random()
                if nodes and k < 0.6:
                    path, _v = rng.choice(nodes)
                    rc = rng.random() < 0.4
                    kind = rng.choice(["del", "pop"])
                    ops.append([kind, X.render(cur, path, rng), rc] + ([rng.choice(["D", "D", "none", "same"])] if kind == "pop" else []))
                    metas.append({"path": list(path)})
                    cur = X.ref_del(cur, path, rc)
                elif nodes and k < 0.8:
                    path, _v = rng.choice(nodes)
                    v = gen_value(rng)
                    ops.append(["set", X.render(cur, path, rng), v])
                    metas.append({"path": list(path)})
                    cur = X.ref_set(cur, path, v)
                elif k < 0.9:
                    nm = rng.choice(["n1", "n2", "n3"])
                    if nm in cur:
                        continue
                    v = gen_value(rng)
                    ops.append(["set", "/" + nm, v])
                    metas.append({"path": [nm]})
                    cur = X.ref_set(cur, [nm], v)
                else:
                    # a missing path: pop returns the default and changes nothing
                    lists = [(p, v) for p, v in nodes if isinstance(v, list)]
                    if lists and rng.random() < 0.6:
                        # an index just outside the list, on either side (and far outside)
                        lp, lv = rng.choice(lists)
                        ln = len(lv)
                        idx = rng.choice([ln, ln + 1, -ln - 1, -ln - 2, -2 * ln, -2 * ln - 1, 2 * ln, 99, -99])
                        sfx = "[%d]" % idx + rng.choice(["", "", "/x", "[0]"])
                        base = X.render(cur, lp, rng)
                    else:
                        base = X.render(cur, rng.choice(nodes)[0], rng) if nodes else ""
                        sfx = rng.choice(["/nokey", "[99]", "/nokey/x", "[-99]"])
                    if rng.random() < 0.5:
                        ops.append(["pop", base + sfx, rng.random() < 0.3])
                        metas.append({"missing": True})
                    else:
                        # delete of a path that addresses nothing: whatever it answers, nothing may be removed;
                        # it may raise, so it is the last operation of its history
                        ops.append(["del", base + sfx, rng.random() < 0.3])
                        metas.append({"missing": True})
                        break
            if ops:
                out.append({"stream": "ops", "tag": "hist:%d" % len(ops), "input": {"tree": t, "mode": mode, "ops": ops, "metas": metas}})
        self._exh = None
        if tier == "thorough":
            n_trees = n_cases = 0
            style = 0
            for nodes in range(2, 6):
                for t in X.all_trees(nodes, root="dict"):
                    n_trees += 1
                    for path, _v in X.node_paths(t):
                        for kind in ("del", "pop"):
                            for rc in (False, True):
                                style = (style + 1) % 6
                                op = [kind, X.render(t, path, rng, style=style), rc] + (["none"] if kind == "pop" else [])
                                out.append({"stream": "ops", "tag": "exh:" + kind,
                                            "input": {"tree": t, "mode": "convert", "ops": [op], "metas": [{"path": list(path)}]}})
                                n_cases += 1
            self._exh = {"exhaustive_scopes": ["every dict-rooted tree with <= 5 nodes over keys {a,b}, leaves {1,'x'} (%d trees): every "
                                               "node x delete/pop x recursively on/off (%d operations)" % (n_trees, n_cases)]}
        return out

    def extra_evidence(self):
        return getattr(self, "_exh", None) or {}

    def run_impl(self, case):
        i = case["input"]
        obj = X.build(i["tree"], i["mode"])
        ref = copy.deepcopy(i["tree"])
        fail = None
        for op, m in zip(i["ops"], i["metas"]):
            before = X.plain(obj)
            expected_val = None
            if op[0] == "pop" and not m.get("missing"):
                expected_val = X.raw_get(obj, m["path"])
            if m.get("missing") and op[0] == "del":
                try:
                    X.apply_op(obj, op)
                finally:
                    if fail is None and not X.same(X.plain(obj), before):
                        fail = "delete(%r) of a missing path changed the tree: %r -> %r" % (op[1], before, X.plain(obj))
                    case["_fail"] = fail
                continue
            r = X.apply_op(obj, op)
            if m.get("missing"):
                if fail is None and (not (isinstance(r, str) and r == X.DFLT) or not X.same(X.plain(obj), before)):
                    fail = "pop(%r) of a missing path returned %r / changed the tree" % (op[1], r)
                continue
            ref = X.ref_set(ref, m["path"], op[2]) if op[0] == "set" else X.ref_del(ref, m["path"], bool(op[2]))
            if fail is None:
                if not X.same(X.plain(obj), ref):
                    fail = "after %s(%r%s) the tree is %r, expected %r" % (op[0], op[1], ", recursively" if op[0] != "set" and op[2] else "", X.plain(obj), ref)
                elif op[0] == "pop" and r is not expected_val and not X.same(r, expected_val):
                    fail = "pop(%r) returned %r, lookup gives %r" % (op[1], r, expected_val)
        case["_fail"] = fail
        return {"ok": L.canon(obj)}

    def coq_input(self, case):
        i = case["input"]
        return X.ops_lit(X.build(i["tree"], i["mode"]), i["ops"])

    def oracle(self, case, obs):
        fail = case.pop("_fail", None)
        i = case["input"]
        if "raise" in obs and not (i["metas"] and i["metas"][-1].get("missing") and i["ops"][-1][0] == "del"):
            return "an operation on an existing node raised %s" % obs.get("exc")
        return fail


PROP = C05
