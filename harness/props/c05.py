"""C05 — delete and pop remove exactly the addressed node."""
import copy

from n0v import coqlit as L
from n0v.core import Prop
from props import xpath_common as X
from props.c02 import gen_value
from props import c03 as C3


def _exists(t, path):
    try:
        X.plain_get(t, path)
        return True
    except (KeyError, IndexError, TypeError):
        return False


class C05(Prop):
    id = "C05"
    props_file = "Props/C05.v"
    rule = ("random dict-rooted trees x histories of 1..6 operations mixing delete / pop (every spelling lookup accepts: "
            "relative, '/'- and '//'-rooted, 'a[i][j]', negative / last() indexes; recursively on and off; missing paths through pop and delete: unknown keys, indexes just outside a list on either side and far outside) with "
            "C02 writes and C03 creations; tree compared with the model after the history and with a plain reference after "
            "every step; pop's return value compared with lookup. non-trivial = no exception; distinct = distinct (tree, history)")
    trusted_base = ["reference semantics of delete on plain nested dict/list: harness (xpath_common.ref_del)"]
    streams = {"ops": X.OPS_STREAM, "pop": X.POP_STREAM}

    def valid(self, case):
        return False

    def generate(self, rng, tier):
        n = 1200 if tier == "quick" else 15000
        out = []
        for _ in range(n):
            t = X.gen_tree(rng, rng.choice([2, 3, 4]), root="dict")
            mode = rng.choice(["convert", "convert", "wrap", "json", "convert", "convert", "wrap", "json", "missing", "convtup"])
            cur = copy.deepcopy(t)
            ops, metas = [], []
            for _ in range(rng.randint(1, 6)):
                nodes = list(X.node_paths(cur))
                k = rng.random()
                if nodes and k < 0.6:
                    path, _v = rng.choice(nodes)
                    rc = rng.random() < 0.4
                    kind = rng.choice(["del", "pop"])
                    xp = X.render(cur, path, rng)
                    if isinstance(path[-1], str) and rng.random() < 0.2:
                        # a spelling lookup accepts as well: the last step carries a text() condition that the node meets
                        if isinstance(_v, str) and _v.isalnum() and _v.isascii():
                            xp += rng.choice(["[text()=%s]", "[text()='%s']", "[text()!=zz%s]"]) % _v
                        elif isinstance(_v, int) and not isinstance(_v, bool):
                            xp += "[text()=%d]" % _v
                    ops.append([kind, xp, rc] + ([rng.choice(["D", "D", "none", "same"])] if kind == "pop" else []))
                    metas.append({"path": list(path)})
                    cur = X.ref_del(cur, path, rc)
                elif nodes and k < 0.8:
                    path, _v = rng.choice(nodes)
                    v = gen_value(rng)
                    ops.append(["set", X.render(cur, path, rng), v])
                    metas.append({"path": list(path)})
                    cur = X.ref_set(cur, path, v)
                elif k < 0.86:
                    # a C03 creation in between: name[new()] on an existing non-list entry (wraps it into a list
                    # [old, v]) or a missing chain below an existing container; later deletes then run through
                    # the containers the creation produced
                    allnodes = [((), cur)] + nodes
                    if rng.random() < 0.5:
                        cands = [(p, x) for p, x in nodes if isinstance(p[-1], str) and not isinstance(x, list)]
                        if not cands:
                            continue
                        path, x = rng.choice(cands)
                        v = gen_value(rng)
                        ops.append(["set", X.render(cur, path, rng, style=0) + "[new()]", v])
                        metas.append({"path": list(path), "refval": [copy.deepcopy(x), copy.deepcopy(v)]})
                        cur = X.ref_set(cur, path, [copy.deepcopy(x), copy.deepcopy(v)])
                    else:
                        conts = [(p, x) for p, x in allnodes if isinstance(x, (dict, list))]
                        path, x = rng.choice(conts)
                        steps = C3.C03.gen_steps(None, rng, x)
                        v = gen_value(rng)
                        ref2 = C3.ref_create(cur, path, steps, v)
                        if ref2 is None or C3.list_step_below_new_element(steps):
                            continue
                        base = X.render(cur, path, rng, style=0) if path else ""
                        xp = base + C3.render_suffix(steps, len(x) if isinstance(x, list) else 0)
                        ops.append(["set", xp, v])
                        metas.append({"create": {"pos": list(path), "steps": steps}})
                        cur = ref2
                elif k < 0.9:
                    nm = rng.choice(["n1", "n2", "n3"])
                    if nm in cur:
                        continue
                    v = gen_value(rng)
                    ops.append(["set", "/" + nm, v])
                    metas.append({"path": [nm]})
                    cur = X.ref_set(cur, [nm], v)
                else:
                    # a missing path: pop returns the default and changes nothing
                    lists = [(p, v) for p, v in nodes if isinstance(v, list)]
                    if lists and rng.random() < 0.6:
                        # an index just outside the list, on either side (and far outside)
                        lp, lv = rng.choice(lists)
                        ln = len(lv)
                        idx = rng.choice([ln, ln + 1, -ln - 1, -ln - 2, -2 * ln, -2 * ln - 1, 2 * ln, 99, -99])
                        sfx = "[%d]" % idx + rng.choice(["", "", "/x", "[0]"])
                        base = X.render(cur, lp, rng)
                    else:
                        base = X.render(cur, rng.choice(nodes)[0], rng) if nodes else ""
                        # ... and paths that are missing because a step is not even well-formed: a non-numeric or
                        # fractional index, an empty index, a blank step (the resolver reports those with other exception classes)
                        sfx = rng.choice(["/nokey", "[99]", "/nokey/x", "[-99]", "[one]", "[1.5]", "[]", "/ /c", "[x]/y"])
                    if rng.random() < 0.5:
                        ops.append(["pop", base + sfx, rng.random() < 0.3])
                        metas.append({"missing": True})
                    else:
                        # delete of a path that addresses nothing: whatever it answers, nothing may be removed;
                        # it may raise, so it is the last operation of its history
                        ops.append(["del", base + sfx, rng.random() < 0.3])
                        metas.append({"missing": True})
                        break
            if ops:
                out.append({"stream": "ops", "tag": "hist:%d" % len(ops), "input": {"tree": t, "mode": mode, "ops": ops, "metas": metas}})
        # delete / pop through a container that an earlier write of the same history produced: an existing dict entry
        # wrapped by name[new()] (it becomes element 0 of a new list), or a plain (unconverted) container assigned as a value
        for _ in range(80 if tier == "quick" else 2000):
            t = X.gen_tree(rng, rng.choice([2, 3]), root="dict")
            mode = rng.choice(["wrap", "wrap", "convert", "json"])
            cands = [(p, x) for p, x in X.node_paths(t) if isinstance(p[-1], str) and isinstance(x, dict) and x]
            if not cands:
                continue
            path, x = rng.choice(cands)
            cur = copy.deepcopy(t)
            ops, metas = [], []
            if rng.random() < 0.6:
                v = gen_value(rng)
                ops.append(["set", X.render(cur, path, rng, style=0) + "[new()]", v])
                metas.append({"path": list(path), "refval": [copy.deepcopy(x), copy.deepcopy(v)]})
                cur = X.ref_set(cur, path, [copy.deepcopy(x), copy.deepcopy(v)])
                below = [p for p, _v in X.node_paths(cur) if len(p) > len(path) + 1 and list(p[:len(path) + 1]) == list(path) + [0]]
            else:
                v = copy.deepcopy(x)
                ops.append(["set", X.render(cur, path, rng, style=0), v, "plain"])
                metas.append({"path": list(path)})
                below = [p for p, _v in X.node_paths(cur) if len(p) > len(path) and list(p[:len(path)]) == list(path)]
            if not below:
                continue
            for _ in range(rng.randint(1, 2)):
                below = [p for p in below if _exists(cur, p)]
                if not below:
                    break
                p = rng.choice(below)
                rc = rng.random() < 0.4
                kind = rng.choice(["del", "pop"])
                ops.append([kind, X.render(cur, p, rng), rc] + (["D"] if kind == "pop" else []))
                metas.append({"path": list(p)})
                cur = X.ref_del(cur, p, rc)
            out.append({"stream": "ops", "tag": "through-created:%d" % len(ops), "input": {"tree": t, "mode": mode, "ops": ops, "metas": metas}})
        # a dictionary that holds a literal key spelled like a path ('text/html', 'item[0]'): delete / pop of that string
        # address what lookup addresses for it - the nested node if there is one, nothing otherwise - never the literal entry
        for _ in range(60 if tier == "quick" else 1500):
            t = X.gen_tree(rng, 2, root="dict")
            lit, nested_path, nested = rng.choice([("text/html", ["text", "html"], {"text": {"html": 2, "z": 3}}),
                                                   ("item[0]", ["item", 0], {"item": [5, 6]}),
                                                   ("a/b/c", ["a", "b", "c"], {"a": {"b": {"c": "x"}}}),
                                                   ("m[1][0]", ["m", 1, 0], {"m": [[1], [2, 3]]})])
            t = {k: v for k, v in t.items() if k not in nested}
            t[lit] = rng.choice([1, "lit", None])
            both = rng.random() < 0.5
            if both:
                t.update(copy.deepcopy(nested))
                if rng.random() < 0.5:
                    t = dict(reversed(list(t.items())))
            kind = rng.choice(["del", "pop"])
            rc = rng.random() < 0.3
            op = [kind, rng.choice(["", "", "/"]) + lit, rc] + (["D"] if kind == "pop" else [])
            meta = {"path": nested_path} if both else {"missing": True}
            out.append({"stream": "ops", "tag": "literal-path-key:" + ("both" if both else "only"),
                        "input": {"tree": t, "mode": rng.choice(["wrap", "json"]), "ops": [op], "metas": [meta]}})
        # input in which one container object is referenced from two places (a template record used twice, a tuple of
        # defaults): after n0dict.convert_recursively the two places are two nodes - a delete / pop through one of them
        # leaves the other alone.  "alias": [src, dst] = before building, the node at dst is made the very object at src
        for _ in range(60 if tier == "quick" else 1500):
            t = X.gen_tree(rng, rng.choice([2, 3]), root="dict")
            conts = [(p, v) for p, v in X.node_paths(t) if isinstance(v, (dict, list)) and v and isinstance(p[-1], str)]
            if not conts:
                continue
            src, v = rng.choice(conts)
            t["twin"] = copy.deepcopy(v)
            dst = ["twin"]
            side = rng.choice([src, dst])
            below = [p for p, _v in X.node_paths(t) if len(p) > len(side) and list(p[:len(side)]) == list(side)]
            if not below:
                continue
            p = rng.choice(below)
            rc = rng.random() < 0.4
            kind = rng.choice(["del", "pop"])
            op = [kind, X.render(t, p, rng), rc] + (["D"] if kind == "pop" else [])
            out.append({"stream": "ops", "tag": "shared-input", "input": {"tree": t, "mode": "convert", "ops": [op],
                                                                         "metas": [{"path": list(p)}], "alias": [list(src), dst]}})
        # a lookup of the path before the tree is changed underneath with a single-key assignment on the root (no xpath
        # involved), then pop: the answer is what the tree holds now, not what an earlier lookup saw
        for _ in range(40 if tier == "quick" else 1000):
            newcfg = rng.choice([{"mode": "new", "n": 2}, {"other": 1}, {"mode": None}, {}])
            t = {"cfg": {"mode": "old", "n": 1}, "z": rng.choice([1, [1, 2]])}
            kind = rng.choice(["pop", "pop", "del"])
            op2 = [kind, rng.choice(["cfg/mode", "/cfg/mode", "//cfg/mode"]), False] + (["D"] if kind == "pop" else [])
            meta2 = {"path": ["cfg", "mode"]} if "mode" in newcfg else {"missing": True}
            out.append({"stream": "ops", "tag": "lookup-then-replace", "input": {
                "tree": t, "mode": rng.choice(["convert", "json", "wrap"]), "prelook": True,
                "ops": [["set", "cfg", newcfg], op2], "metas": [{"path": ["cfg"]}, meta2]}})
        self._exh = None
        if tier == "thorough":
            n_trees = n_cases = 0
            style = 0
            for nodes in range(2, 6):
                for t in X.all_trees(nodes, root="dict"):
                    n_trees += 1
                    for path, _v in X.node_paths(t):
                        for kind in ("del", "pop"):
                            for rc in (False, True):
                                style = (style + 1) % 6
                                op = [kind, X.render(t, path, rng, style=style), rc] + (["none"] if kind == "pop" else [])
                                out.append({"stream": "ops", "tag": "exh:" + kind,
                                            "input": {"tree": t, "mode": "convert", "ops": [op], "metas": [{"path": list(path)}]}})
                                n_cases += 1
            self._exh = {"exhaustive_scopes": ["every dict-rooted tree with <= 5 nodes over keys {a,b}, leaves {1,'x'} (%d trees): every "
                                               "node x delete/pop x recursively on/off (%d operations)" % (n_trees, n_cases)]}
        return out

    def extra_evidence(self):
        return getattr(self, "_exh", None) or {}

    def run_impl(self, case):
        i = case["input"]
        if i.get("alias"):
            t0 = copy.deepcopy(i["tree"])
            src, dst = i["alias"]
            X.plain_get(t0, dst[:-1])[dst[-1]] = X.plain_get(t0, src)       # one object, two places
            obj = X.build(t0, i["mode"])
        else:
            obj = X.build(i["tree"], i["mode"])
        ref = copy.deepcopy(i["tree"])
        fail = None
        if i.get("prelook"):
            # every path of the history is looked up first (lookups are pure: C04)
            for op in i["ops"]:
                if "new()" not in op[1]:
                    obj.get(op[1], X.DFLT)
        for op, m in zip(i["ops"], i["metas"]):
            before = X.plain(obj)
            expected_val = None
            if op[0] == "pop" and not m.get("missing"):
                expected_val = X.raw_get(obj, m["path"])
            if m.get("missing") and op[0] == "del":
                try:
                    X.apply_op(obj, op)
                finally:
                    if fail is None and not X.same(X.plain(obj), before):
                        fail = "delete(%r) of a missing path changed the tree: %r -> %r" % (op[1], before, X.plain(obj))
                    case["_fail"] = fail
                continue
            r = X.apply_op(obj, op)
            if m.get("missing"):
                if fail is None and (not (isinstance(r, str) and r == X.DFLT) or not X.same(X.plain(obj), before)):
                    fail = "pop(%r) of a missing path returned %r / changed the tree" % (op[1], r)
                continue
            if "create" in m:
                ref = C3.ref_create(ref, m["create"]["pos"], m["create"]["steps"], op[2])
            elif op[0] == "set":
                ref = X.ref_set(ref, m["path"], m.get("refval", op[2]))
            else:
                ref = X.ref_del(ref, m["path"], bool(op[2]))
            if fail is None:
                if not X.same(X.plain(obj), ref):
                    fail = "after %s(%r%s) the tree is %r, expected %r" % (op[0], op[1], ", recursively" if op[0] != "set" and op[2] else "", X.plain(obj), ref)
                elif op[0] == "pop" and r is not expected_val and not X.same(r, expected_val):
                    fail = "pop(%r) returned %r, lookup gives %r" % (op[1], r, expected_val)
        case["_fail"] = fail
        return {"ok": L.canon(obj)}

    def coq_input(self, case):
        i = case["input"]
        return X.ops_lit(X.build(i["tree"], i["mode"]), i["ops"])

    def oracle(self, case, obs):
        fail = case.pop("_fail", None)
        i = case["input"]
        if "raise" in obs and not (i["metas"] and i["metas"][-1].get("missing") and i["ops"][-1][0] == "del"):
            return "an operation on an existing node raised %s" % obs.get("exc")
        return fail


PROP = C05
