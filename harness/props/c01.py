"""C01 — every enumerated xpath resolves to exactly the leaf it names."""
import copy

from n0v import coqlit as L
from n0v.core import Prop
from props import xpath_common as X


class C01(Prop):
    id = "C01"
    props_file = "Props/C01.v"
    refuted_file = None
    rule = ("random trees (8 key names incl. non-ASCII, 5 leaf kinds, depth<=4, lists of lists, empty containers; dict- and "
            "list-rooted; built by convert_recursively / wrapping plain containers / the JSON constructor); for every tree: the "
            "enumeration, and for sampled leaves every lookup entry point x random equivalent spellings of the path (leading '/', "
            "'//', none; '][' vs ']/['; i, i-len, last()-k, i+j, blanks) plus out-of-range / unknown-key variants; tokenizer "
            "streams on the same strings. non-trivial = lookup returned a value; distinct = distinct (stream, input)")
    trusted_base = ["Python list/dict semantics and str methods used by the tokenizer: modelled in Base/PyStr, Xpath/Dec, Xpath/Token"]
    assumptions = ["keys are plain names (no '/', '[', ']', '*', '?', '=', '~', quotes, blanks) other than '..'"]
    streams = {"lookup": X.LOOKUP_STREAM, "enum": X.ENUM_STREAM, "tok": X.TOK_STREAM, "n0eval": X.EVAL_STREAM,
               "sni": X.SNI_STREAM}

    classifiers = {
        # recorded finding C01/qmark-key: a step of the addressed path is a key that begins with '?'
        "c01_qmark_key": lambda case, obs, failure: any(isinstance(st, str) and st.startswith("?") for st in (case["input"].get("path") or [])),
    }

    def valid(self, case):
        return False      # path / tree / spelling are interdependent: no structural shrinking

    def generate(self, rng, tier):
        ntrees = 180 if tier == "quick" else 2500
        out = []
        # keys with a dot inside (file names, version numbers, dotted option names), next to a nested path of the same
        # spelling with '/' for '.': a plain key is taken as it is, at the root and in nested dictionaries
        fixed = [{"server.port": 8080, "server": {"port": 1}, "d": {"file.txt": "x", "v1.2": {"a.b": 2, "a": {"b": 3}}}},
                 {"cfg": {"log.level": "info", "log": {"level": "debug"}, "paths": [{"a.b": 1}, {"a": {"b": 2}}]}, "x.y.z": 0},
                 {"a": {"b.c": [1, {"d.e": 5}]}, "b.c": "top"},
                 # keys that begin with '.', at the root and nested, next to the key without the dot; keys made of digits in
                 # dictionaries (a digit-only step below a dictionary is a key, never an index)
                 {".cfg": {"x": 1, ".y": 2}, "cfg": {"x": 3}, ".": {"a": 4}, "..a": 5},
                 {"a": {"0": {"b": 1}, "2024": 5, "-1": [7, {"0": 8}]}, "0": {"1": "x"}},
                 {"m": [{"0": "zero", "1": {"0": "deep"}}], "7": [1, 2]}]
        for n_tree in range(ntrees):
            root = rng.choice(["dict", "dict", "list"])
            t = X.gen_tree(rng, 4, root=root)
            if n_tree < len(fixed):
                root, t = "dict", copy.deepcopy(fixed[n_tree])
            if rng.random() < 0.2:
                # two containers with equal content at different places (identical order lines, equal matrix rows):
                # equal is not identical - both are enumerated, both resolve
                conts = [(p, v) for p, v in X.node_paths(t) if isinstance(v, (dict, list)) and v]
                if conts:
                    p, v = rng.choice(conts)
                    par = X.plain_get(t, p[:-1])
                    if isinstance(par, list):
                        par.insert(rng.randint(0, len(par)), copy.deepcopy(v))
                    else:
                        par["twin"] = copy.deepcopy(v)
            mode = rng.choice(["convert", "convert", "wrap", "json"])
            if n_tree < len(fixed):
                mode = ["convert", "wrap", "json"][n_tree % 3] if n_tree < 3 else rng.choice(["wrap", "wrap", "convert", "json"])
            if root == "dict":
                out.append({"stream": "enum", "tag": "enum:" + mode, "input": {"tree": t, "mode": mode}})
                nodes0 = list(X.node_paths(t))
                if nodes0 and rng.random() < 0.35:
                    # a second enumeration of the same object: the first result was used up by its caller and the tree was
                    # changed underneath with the builtin dict / list operations (not through the xpath interface)
                    p0, _v0 = rng.choice(nodes0)
                    out.append({"stream": "enum", "tag": "enum:again:" + mode,
                                "input": {"tree": t, "mode": mode, "reenum": {"path": list(p0), "old": X.gen_tree(rng, 2)}}})
            leaves = list(X.leaf_paths(t))
            nodes = list(X.node_paths(t))
            rng.shuffle(leaves)
            for path, _v in (leaves if n_tree < len(fixed) else leaves[:6]):
                if not path:
                    continue
                for kind in (0, 1, 2):
                    xp = X.render(t, path, rng)
                    out.append({"stream": "lookup", "tag": "leaf:%s:%d" % (root, kind),
                                "input": {"tree": t, "mode": mode, "xpath": xp, "kind": kind, "path": list(path), "expect": "node"}})
                # a miss derived from the real path: index out of range / unknown key
                p2 = list(path)
                idxs = [i for i, s in enumerate(p2) if isinstance(s, int)]
                kind = rng.randrange(3)
                if idxs and rng.random() < 0.6:
                    i = rng.choice(idxs)
                    ln = X.parent_len(t, path, i)
                    bad = rng.choice([ln, ln + 1, -ln - 1])
                    pre = X.render(t, p2[:i], rng, style=0) if i else ""
                    xp = pre + "[%d]" % bad + "".join(("[%d]" % s) if isinstance(s, int) else "/" + s for s in p2[i + 1:])
                    if not xp.startswith("[") and not any(ch in xp for ch in "/["):
                        xp = "/" + xp
                    out.append({"stream": "lookup", "tag": "miss:index", "input": {"tree": t, "mode": mode, "xpath": xp, "kind": kind, "path": None, "expect": "miss"}})
                elif root == "dict" or len(p2) > 1:
                    xp = X.render(t, p2, rng, style=0) + "/nokey"
                    if isinstance(X.plain_get(t, p2), (dict,)) or True:
                        out.append({"stream": "lookup", "tag": "miss:key", "input": {"tree": t, "mode": mode, "xpath": xp, "kind": kind, "path": None, "expect": None}})
            # inner nodes: correspondence only
            for path, _v in rng.sample(nodes, min(3, len(nodes))):
                xp = X.render(t, path, rng)
                out.append({"stream": "lookup", "tag": "inner", "input": {"tree": t, "mode": mode, "xpath": xp, "kind": rng.randrange(3), "path": None, "expect": None}})
                comps = [c for c in xp.replace("][", "]/[").split("/") if c]
                for c in comps[:2]:
                    out.append({"stream": "sni", "tag": "sni", "input": {"s": c}})
                    if "[" in c and c.endswith("]"):
                        out.append({"stream": "n0eval", "tag": "n0eval", "input": {"s": c[c.index("[") + 1:-1]}})
                out.append({"stream": "tok", "tag": "tok", "input": {"s": xp}})
            # the index evaluator and the step splitter on their own: several digits, sign runs, sums, junk
            for _ in range(3):
                e = rng.choice(["", "-", "+", "--", "last()-", "last()+", "1+", "2-", " "]) + rng.choice(
                    ["0", "7", "10", "12", "007", "105", "last()", "1+10", "20-9", "x", "1.5", "", "1 0", "new()"])
                out.append({"stream": "n0eval", "tag": "n0eval:direct", "input": {"s": e}})
                nm = rng.choice(["a", "line-item", "ns:tag", "$r", "2024", "0", "-1", "", "x.y", "a b", "@x"])
                out.append({"stream": "sni", "tag": "sni:direct", "input": {"s": rng.choice([nm, nm + "[" + e + "]", nm + "[k=" + e + "]", nm + " [ " + e + " ]"])}})
        self._exh = None
        if tier == "thorough":
            # exhaustive small scope: every tree with <= 5 nodes (2 keys, 2 leaf values, lists <= 3 items),
            # dict- and list-rooted, every leaf, every entry point, spelling styles in rotation
            n_trees = n_cases = 0
            style = 0
            for root in ("dict", "list"):
                for nodes in range(1, 6):
                    for t in X.all_trees(nodes, root=root):
                        n_trees += 1
                        if root == "dict":
                            out.append({"stream": "enum", "tag": "exh:enum", "input": {"tree": t, "mode": "convert"}})
                        for path, _v in X.leaf_paths(t):
                            if not path:
                                continue
                            for kind in (0, 1, 2):
                                style = (style + 1) % 6
                                xp = X.render(t, path, rng, style=style)
                                out.append({"stream": "lookup", "tag": "exh:%s:%d" % (root, kind),
                                            "input": {"tree": t, "mode": "convert", "xpath": xp, "kind": kind,
                                                      "path": list(path), "expect": "node"}})
                                n_cases += 1
            self._exh = {"exhaustive_scopes": ["every tree with <= 5 nodes over keys {a,b}, leaves {1,'x'}, lists <= 3 items, dict- and "
                                               "list-rooted (%d trees): every leaf x item access/get/first (%d lookups), "
                                               "spelling styles in rotation" % (n_trees, n_cases)]}
        return out

    def extra_evidence(self):
        return getattr(self, "_exh", None) or {}

    def run_impl(self, case):
        i, st = case["input"], case["stream"]
        if st == "tok":
            return {"ok": L.canon([itm.strip() for itm in i["s"].replace("][", "]/[").split("/") if itm])}
        if st == "n0eval":
            from n0struct.n0struct_utils import n0eval
            return {"ok": L.canon(n0eval(i["s"]))}
        if st == "sni":
            from n0struct.n0struct_utils_find import split_name_index
            n, ix = split_name_index(i["s"])
            return {"ok": L.canon([n, list(ix) if isinstance(ix, tuple) else ix])}
        if st == "enum" and i.get("reenum"):
            rp = i["reenum"]["path"]
            t0 = X.ref_set(i["tree"], rp, i["reenum"]["old"])
            obj = X.build(t0, i["mode"])
            first = obj.xpath()
            if isinstance(first, list):
                del first[:]                                  # the caller consumed its result
            new_node = X.raw_get(X.build(i["tree"], i["mode"]), rp)
            holder = X.raw_get(obj, rp[:-1])
            (dict.__setitem__ if isinstance(holder, dict) else list.__setitem__)(holder, rp[-1], new_node)
            case["_obj"] = obj
            return {"ok": L.canon([[p, v] for p, v in obj.xpath()])}
        obj = X.build(i["tree"], i["mode"])
        case["_obj"] = obj
        if st == "enum":
            return {"ok": L.canon([[p, v] for p, v in obj.xpath()])}
        self._before = copy.deepcopy(X.plain(obj))
        v = X.lookup(obj, i["kind"], i["xpath"])
        case["_res"] = v
        return {"ok": ["l", 0, [L.canon(v), L.canon(obj)]]}

    def coq_input(self, case):
        i, st = case["input"], case["stream"]
        if st in ("tok", "n0eval", "sni"):
            return L.pstr(i["s"])
        if any(isinstance(st_, str) and st_.startswith("?") for st_ in (i.get("path") or [])):
            raise L.Unrepresentable("a key that begins with '?': recorded finding C01/qmark-key, oracle only")
        obj = X.build(i["tree"], i["mode"])
        if st == "enum":
            return X.tree_lit(obj)
        return X.lookup_lit(obj, i["kind"], i["xpath"])

    def oracle(self, case, obs):
        i, st = case["input"], case["stream"]
        obj = case.pop("_obj", None)
        res = case.pop("_res", None)
        if st == "enum":
            if "raise" in obs:
                return "xpath() raised %s" % obs.get("exc")
            got = [(p[2][0][1], p[2][1]) for p in obs["ok"][2]]
            want = [(X.canonical_xpath(p), L.canon(v)) for p, v in X.leaf_paths(i["tree"])]
            if got != want:
                return "enumeration %r differs from the leaves in document order %r" % (got[:6], want[:6])
            for (xp, _), (path, _v) in zip(got, X.leaf_paths(i["tree"])):
                leaf = X.raw_get(obj, path)
                for kind in (0, 1, 2):
                    try:
                        r = X.lookup(obj, kind, xp)
                    except Exception as e:  # noqa
                        return "enumerated xpath %r does not resolve (kind %d): %s" % (xp, kind, type(e).__name__)
                    if r is not leaf and not (X.same(r, leaf) and not isinstance(leaf, (dict, list))):
                        return "enumerated xpath %r resolves to %r, not to its leaf %r (kind %d)" % (xp, r, leaf, kind)
            return None
        if st != "lookup":
            return None
        exp = i.get("expect")
        if exp == "node":
            if "raise" in obs:
                return "spelling %r of an existing path raised %s" % (i["xpath"], obs.get("exc"))
            node = X.raw_get(obj, i["path"])
            if res is not node and not (X.same(res, node) and not isinstance(node, (dict, list))):
                return "spelling %r resolves to %r, not to the addressed element %r" % (i["xpath"], res, node)
            if not X.same(X.plain(obj), self._before):
                return "lookup modified the tree"
        elif exp == "miss":
            if i["kind"] == 0:
                if "raise" not in obs:
                    return "out-of-range index %r resolved to %r" % (i["xpath"], res)
                if obs["raise"] not in X.ALLOWED_MISS:
                    return "out-of-range index raised %s" % obs.get("exc")
            else:
                if "raise" in obs:
                    return "get/first raised %s on a miss" % obs.get("exc")
                if res != X.DFLT:
                    return "out-of-range index %r did not yield the default but %r" % (i["xpath"], res)
        return None


PROP = C01
