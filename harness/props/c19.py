"""C19 — dictionary findall returns complete, resolvable, history-independent results."""
import copy
import itertools
import re

from n0v import coqlit as L
from n0v.core import Prop

NAMES = ["a", "b", "name", "tag", "S"]
LEAFS = ["x", "y", "P1", "v1", "a", "Rn", 1, 0, None, True, "a b", "ab"]


# ---- trees ----------------------------------------------------------------------------
def gen_tree(rng, depth, maxdepth, in_domain=True):
    """JSON value; lists contain dictionaries or lists (the quantifier's domain) unless in_domain is False"""
    k = rng.random()
    if depth >= maxdepth or k < 0.3:
        return rng.choice(LEAFS)
    if k < 0.72:
        d = {}
        for _ in range(rng.randint(0, 3)):
            key = rng.choice(NAMES) if rng.random() < 0.92 else rng.choice(["A b", "n.1", "Ünï", ".meta", ".a", "a.", "..b"])
            d[key] = gen_tree(rng, depth + 1, maxdepth, in_domain)
        return d
    n = rng.randint(0, 3)
    out = []
    for _ in range(n):
        if in_domain or rng.random() < 0.7:
            v = gen_tree(rng, depth + 1, maxdepth, in_domain)
            if not isinstance(v, (dict, list)):
                v = {rng.choice(NAMES): v} if rng.random() < 0.8 else [{"name": v}]
            out.append(v)
        else:
            out.append(rng.choice(LEAFS))
    return out


def gen_root(rng, maxdepth, in_domain=True):
    for _ in range(20):
        t = gen_tree(rng, 0, maxdepth, in_domain)
        if isinstance(t, dict) and t:
            return t
        if isinstance(t, list) and t and rng.random() < 0.5:
            return t
    return {"a": {"name": "x"}, "S": [{"tag": "P1", "name": "y"}, {"tag": "v1"}]}


def in_domain(t):
    if isinstance(t, dict):
        return all(in_domain(v) for v in t.values())
    if isinstance(t, list):
        return all(isinstance(v, (dict, list)) and in_domain(v) for v in t)
    return True


def positions(t, pos=()):
    """all node positions (tuples of str keys / int indexes), document order, root excluded"""
    out = []
    if isinstance(t, dict):
        for k, v in t.items():
            out.append(pos + (k,))
            out += positions(v, pos + (k,))
    elif isinstance(t, list):
        for i, v in enumerate(t):
            out.append(pos + (i,))
            out += positions(v, pos + (i,))
    return out


def at(t, pos):
    for p in pos:
        t = t[p]
    return t


def key_of(pos, neg=None):
    """the key findall renders for a position: names joined by '/', indexes glued on"""
    segs = []
    for p in pos:
        if isinstance(p, int):
            s = "[%d]" % p
            if segs:
                segs[-1] += s
            else:
                segs.append(s)
        else:
            segs.append(p)
    return "//" + "/".join(segs)


# ---- a reference for the three "complete" clauses (independent of the library) -------------
def ref_walk(node, steps, segs, out):
    """steps: list of ('n', name) | ('i', int) | ('*',) ; lists fan out when no index is given.
    Only defined on trees of the quantifier's domain."""
    if not steps:
        out.append(("//" + "/".join(segs), node))
        return
    s = steps[0]
    if isinstance(node, list):
        if s[0] == "i":
            n = len(node)
            i = s[1]
            if -n <= i < n:
                ref_walk(node[i], steps[1:], glue(segs, "[%d]" % i), out)
            else:
                raise IndexError
        else:
            for i, c in enumerate(node):
                ref_walk(c, steps[1:] if s[0] == "a" else steps, glue(segs, "[%d]" % i), out)
    elif isinstance(node, dict):
        if s[0] == "n":
            if s[1] in node:
                ref_walk(node[s[1]], steps[1:], segs + [s[1]], out)
        elif s[0] == "*":
            ref_walk(node, steps[1:], segs, out)
            for k, c in node.items():
                if isinstance(c, (dict, list)):
                    ref_walk(c, steps, segs + [k], out)
        else:
            raise LookupError
    else:
        raise LookupError


def glue(segs, s):
    return (segs[:-1] + [segs[-1] + s]) if segs else [s]


def all_named(t, name, pos=()):
    out = []
    if isinstance(t, dict):
        for k, v in t.items():
            if k == name:
                out.append(pos + (k,))
            out += all_named(v, name, pos + (k,))
    elif isinstance(t, list):
        for i, v in enumerate(t):
            out += all_named(v, name, pos + (i,))
    return out


# ---- expressions -------------------------------------------------------------------------
def render_steps(steps, rng):
    parts = []
    for s in steps:
        if s[0] == "n":
            parts.append(s[1])
        elif s[0] == "*":
            parts.append("*")
        elif s[0] == "a":
            parts.append("[*]")
        elif s[0] == "i":
            parts.append(s[2] if len(s) > 2 else "[%d]" % s[1])
    xp = ""
    for p in parts:
        if p.startswith("[") and xp and rng.random() < 0.85:
            xp += p
        else:
            xp += ("/" if xp else "") + p
    return rng.choice(["//", "//", "/", "", "./"]) + xp


def steps_for(rng, root, pos, mode):
    """expression steps addressing pos: exact / fan-out (indexes omitted) / variants"""
    steps = []
    cur = root
    for p in pos:
        if isinstance(p, int):
            n = len(cur)
            k = rng.random()
            if mode == "exact" or k < 0.45:
                sp = rng.random()
                if sp < 0.6:
                    steps.append(("i", p))
                elif sp < 0.75:
                    steps.append(("i", p - n))
                elif sp < 0.85 and p == n - 1:
                    steps.append(("i", -1, "[last()]"))
                elif sp < 0.9 and p == n - 2:
                    steps.append(("i", -2, "[last()-1]"))
                elif sp < 0.95:
                    steps.append(("i", p, "[ %d ]" % p))
                else:
                    steps.append(("i", p))
            elif k < 0.7:
                steps.append(("a",))
            # else: index omitted -> fan-out
        else:
            steps.append(("n", p))
        cur = cur[p]
    return steps


def gen_misc_expr(rng, root, poss):
    """wildcards, text() conditions, '..', odd spellings; keys-resolve / history / purity are checked on these"""
    names = sorted({p[-1] for p in poss if isinstance(p[-1], str)}) or ["name"]
    leaf_txt = sorted({at(root, p) for p in poss if isinstance(at(root, p), str)}) or ["x"]
    pos = rng.choice(poss) if poss else ()
    parts = []
    cur = root
    for p in pos:
        k = rng.random()
        if isinstance(p, int):
            if k < 0.4:
                parts.append("[%d]" % p)
            elif k < 0.55:
                parts.append("[*]")
            elif k < 0.6:
                parts.append(rng.choice(["[last()]", "[-1]", "[last()-1]", "[ 0 ]", "[+0]", "[last()+1]"]))
        else:
            if k < 0.6:
                parts.append(p)
            elif k < 0.8:
                parts.append("*")
            elif k < 0.85:
                parts.append(rng.choice(names + ["zz"]))
            else:
                parts.append(p)
        cur = cur[p]
        if isinstance(cur, str) and rng.random() < 0.5:
            v = rng.choice([cur, cur, cur.upper(), cur.lower(), rng.choice(leaf_txt), "zz"])
            op = rng.choice(["=", "==", "!=", "<>"])
            q = rng.choice(["", "", "'", '"'])
            sp = rng.choice(["", "", " "])
            parts.append("[text()%s%s%s%s%s%s]" % (sp, op, sp, q, v, q))
            if rng.random() < 0.08:
                parts.append(parts[-1])
            if rng.random() < 0.25:
                parts.append("..")
                if rng.random() < 0.5:
                    parts.append(rng.choice(["..", rng.choice(names), "*"]))
        if rng.random() < 0.12:
            parts.append("..")
            if rng.random() < 0.6:
                parts.append(rng.choice(names + ["*"]))
    if rng.random() < 0.2:
        parts = ["*"] + parts[rng.randrange(len(parts) + 1):]
    if rng.random() < 0.1:
        parts.append(rng.choice(names))
    xp = ""
    for p in parts:
        xp += p if (p.startswith("[") and xp and rng.random() < 0.85) else ("/" if xp else "") + p
    return rng.choice(["//", "//", "/", "", "./"]) + xp


MALFORMED = ["", "/", "//", ".", "..", "a/..", "../a", "[0]", "[*]", "[", "a[", "a[0", "a]", "a[]", "a[x]", "a[1.5]", "a[- 1]",
             "a[+ 1]", "a[1_0]", "a[last(]", "a[last()x]", "a[last()-]", "a[last()1]", "a[last()--1]", "a[last()+01]", "a[text()]",
             "a[text()~x]", "a[text() = = x]", "a[text()='x]", "a[text()=x']", "a[text()='']", "a[text()=]", "a[TEXT()=x]",
             "a[ * ]", "a[**]", "a//b", "a///b", "a/./b", "./a", ".//a", "*", "**", "*/*", "a/*/..", "*/..", "a[0][0]", "a[0]/[0]",
             " a", "a ", " .. ", "a/ ..", "a/[0]/..", "a[text()=x]/..", "a[text()=x]/../..", "a[0]/../..", "a[ 00 ]", "a[-0]"]


def wrap(n0, t):
    """JSON value -> n0dict / n0list tree"""
    if isinstance(t, dict):
        return n0.n0dict.convert_recursively(copy.deepcopy(t))
    return n0.n0dict.convert_recursively({"r": copy.deepcopy(t)})["r"]


class C19(Prop):
    id = "C19"
    props_file = "Props/C19.v"
    refuted_file = "Refuted/C19.v"
    case_timeout = 10
    rule = ("trees over 5 names whose lists contain dictionaries or lists (plus a share with scalar list elements for the error paths), "
            "dict and list roots, depth <= 4 (5 thorough); expressions: exact node paths with [i] / [-k] / last() / [ i ] spellings, "
            "the same with indexes omitted or [*] (fan-out), '//*/name' for every name, '*' at any step, text() conditions with "
            "=,==,!=,<> quoted or not and case variants, '..', a malformed list; sequences of 1-6 searches over 1-3 trees in one "
            "process with _findall.__defaults__ read after every call. non-trivial = the call returned a mapping; distinct = distinct (stream, input)")
    trusted_base = [
        "item access d[key] (n0dict/n0list __getitem__) is the oracle for 'resolves'; on returned keys it is modelled by Findall.Model.resolve_key (getitem stream)",
        "str.strip/lower/replace/split/startswith, int(), eval('-1'+...) for last(): modelled (Base.PyStr, N0xml.Util, Findall.Model.eval_last), validated by correspondence",
    ]
    assumptions = ["exception classes of findall are collapsed (the property does not speak about them); findfirst distinguishes IndexError",
                   "theorems exclude OutOfFuel; the model supplies (|steps|+2)(2*height+3)+2 fuel and the run reports any OutOfFuel as a disagreement"]
    R = ["N0xml.Util", "Findall.Util", "Findall.Model"]
    streams = {
        "findall": dict(requires=R, itype="tree * pstr", model="obs_findall"),
        "seq": dict(requires=R, itype="list tree * list (nat * pstr)", model="obs_seq"),
        "findfirst": dict(requires=R, itype="tree * pstr * bool", model="obs_findfirst"),
        "getitem": dict(requires=R, itype="tree * pstr", model="obs_getitem"),
    }

    def setup(self):
        import n0struct
        import n0struct.n0struct_findall as F
        self.n0 = n0struct
        self.F = F
        self.saved_defaults = F._findall.__defaults__

    def teardown(self):
        self.F._findall.__defaults__ = self.saved_defaults

    def reset(self):
        """fresh default objects, so that every case starts from the state of a new process"""
        self.F._findall.__defaults__ = ([], {}, True, 0)

    def defaults(self):
        fx, st = self.F._findall.__defaults__[:2]
        return ["l", 0, [["l", 0, [["s", x] for x in fx]], L.canon(dict(st))]]

    # ---- generation ------------------------------------------------------------------------
    def generate(self, rng, tier):
        out = []
        ntrees = 150 if tier == "quick" else 8000
        maxdepth = 4 if tier == "quick" else 5

        def add(stream, label, **kw):
            out.append({"stream": stream, "tag": label, "input": kw})

        trees = []
        for n in range(ntrees):
            dom = rng.random() < 0.85
            t = gen_root(rng, maxdepth, dom)
            trees.append(t)
            poss = positions(t)
            # exact paths and fan-out
            for pos in rng.sample(poss, min(len(poss), 3)):
                mode = rng.choice(["exact", "exact", "fan"])
                steps = steps_for(rng, t, pos, mode)
                if steps:
                    add("findall", "rnd:" + mode, tree=t, steps=[list(s) for s in steps], xp=render_steps(steps, rng))
            # descendant wildcard for every name that occurs (and one that does not)
            names = sorted({p[-1] for p in poss if isinstance(p[-1], str)})
            for name in rng.sample(names, min(len(names), 2)) + ["zz"] * (rng.random() < 0.2):
                add("findall", "rnd:desc", tree=t, desc=name, xp=rng.choice(["//*/", "//*/", "*/", "/*/"]) + name)
            # the sibling idiom: an exact path to a dictionary (the root included), a text() condition on one of its string
            # leaves, '..' back to the dictionary, another of its keys: exactly that node when the text matches, nothing otherwise
            dicts = [()] * isinstance(t, dict) + [pp for pp in poss if isinstance(at(t, pp), dict)]
            rng.shuffle(dicts)
            for pp in dicts[:2]:
                dd = at(t, pp)
                ks = [k for k, v in dd.items() if isinstance(v, str) and v.isalnum() and v.isascii()
                      and re.match(r"^[A-Za-z]\w*$", k)]
                fs = [f for f in dd if re.match(r"^[A-Za-z]\w*$", f)]
                if not ks or len(fs) < 2:
                    continue
                k = rng.choice(ks)
                f = rng.choice([f for f in fs if f != k])
                hit = rng.random() < 0.75
                base = key_of(pp)[2:]
                xp = rng.choice(["//", "/", ""]) + (base + "/" if base else "") + "%s[text()=%s]/../%s" % (k, dd[k] if hit else "zz9", f)
                add("findall", "rnd:sibling", tree=t, xp=xp, expect=[list(pp) + [f]] if hit else [])
            if rng.random() < 0.12:
                # two levels up from a leaf of a list element: a name applied to the list, '[*]' and the exact index are three
                # spellings of the same fan-out, and '../..' from the selected leaf is the owner of the list in all of them
                skus = rng.sample(["A1", "B2", "C3", "D4"], rng.randint(1, 3))
                shop = {"shop": {"currency": rng.choice(["EUR", "USD"]), "items": [{"sku": x, "q": n} for n, x in enumerate(skus)], "open": "yes"}}
                gi = rng.randrange(len(skus))
                hit = rng.random() < 0.8
                step = rng.choice(["items", "items[*]", "items[%d]" % gi, "items/[*]"])
                f = rng.choice(["currency", "open"])
                xp = rng.choice(["//", "/", ""]) + "shop/%s/sku[text()=%s]/../../%s" % (step, skus[gi] if hit else "zz9", f)
                add("findall", "rnd:fan-up", tree=shop, xp=xp, expect=[["shop", f]] if hit else [])
            for _ in range(5):
                add(rng.choice(["findall", "findall", "findall", "findfirst"]), "rnd:misc", tree=t, xp=gen_misc_expr(rng, t, poss),
                    rx=rng.random() < 0.5)
            if poss and rng.random() < 0.5:
                steps = steps_for(rng, t, rng.choice(poss), rng.choice(["exact", "fan"]))
                if steps:
                    add("findfirst", "rnd:findfirst", tree=t, xp=render_steps(steps, rng), rx=rng.random() < 0.5)
            if rng.random() < 0.35:
                add(rng.choice(["findall", "findall", "findfirst"]), "rnd:malformed", tree=t,
                    xp=rng.choice(MALFORMED).replace("a", rng.choice(names or ["a"]), 1), rx=rng.random() < 0.5)
            # item access with rendered keys (ties the resolver model to __getitem__)
            for pos in rng.sample(poss, min(len(poss), 2)):
                add("getitem", "rnd:getitem", tree=t, xp=key_of(pos))
            # sequences over up to three trees
            if n % 3 == 2:
                ts = trees[-3:]
                calls = []
                for _ in range(rng.randint(1, 6)):
                    ti = rng.randrange(len(ts))
                    ps = positions(ts[ti])
                    k = rng.random()
                    if calls and k < 0.25:
                        calls.append(list(rng.choice(calls)))
                    elif k < 0.5 and ps:
                        st = steps_for(rng, ts[ti], rng.choice(ps), rng.choice(["exact", "fan"]))
                        calls.append([ti, render_steps(st, rng) if st else "//*/name"])
                    elif k < 0.85:
                        calls.append([ti, gen_misc_expr(rng, ts[ti], ps)])
                    else:
                        calls.append([ti, rng.choice(MALFORMED)])
                add("seq", "rnd:seq", trees=ts, calls=calls)
        out += self.exhaustive(rng, tier)
        return out

    def exhaustive(self, rng, tier):
        """all trees with <= n nodes over names {a, name} x all expressions <= 3 steps over a step alphabet"""
        out = []
        n = 3 if tier == "quick" else 4

        def vals(k):
            if k == 0:
                yield "x"
                return
            # dict with children of total size k-1, or list likewise
            for shape in splits(k - 1):
                for kids in itertools.product(*[list(vals(s)) for s in shape]):
                    if len(kids) <= 2:
                        for keys in itertools.permutations(["a", "name"], len(kids)):
                            yield dict(zip(keys, kids))
                    if all(isinstance(c, (dict, list)) for c in kids):
                        yield list(kids)

        def splits(total):
            """compositions of total into parts (each child of size s contributes s+... nodes)"""
            if total == 0:
                yield ()
                return
            for first in range(0, total):
                for rest in splits(total - first - 1):
                    yield (first,) + rest

        trees = []
        for k in range(1, n + 1):
            trees += [t for t in vals(k) if isinstance(t, (dict, list)) and t]
        alpha = ["a", "name", "*", "[0]", "[*]", "[-1]", "..", "[text()=x]"]
        exprs = ["/".join(p) for r in (1, 2, 3) for p in itertools.product(alpha, repeat=r)]
        if tier == "quick":
            trees = rng.sample(trees, min(len(trees), 40))
        for t in trees:
            ex = exprs if tier != "quick" else rng.sample(exprs, 6)
            for xp in ex:
                out.append({"stream": "findall", "tag": "exh:findall", "input": {"tree": t, "xp": xp}})
        return out

    def valid(self, case):
        i = case["input"]
        try:
            ts = i["trees"] if "trees" in i else [i["tree"]]
            for t in ts:
                if not isinstance(t, (dict, list)):
                    return False
            if "calls" in i:
                for c in i["calls"]:
                    if len(c) != 2 or not (0 <= c[0] < len(ts)) or not isinstance(c[1], str):
                        return False
            if "steps" in i or "desc" in i:
                return False    # expression and oracle data must stay consistent: not shrunk
            return isinstance(i.get("xp", ""), str)
        except Exception:
            return False

    # ---- implementation -----------------------------------------------------------------------
    def one_findall(self, d, xp):
        """-> (ctree outcome, python result or None, exception name or None)"""
        try:
            r = d.findall(xp)
        except Exception as e:  # noqa
            return ["s", "raise"], None, "%s: %s" % (type(e).__name__, str(e)[:120])
        if r is None:
            return ["n"], None, None
        return ["d", 0, [[k, L.canon(v)] for k, v in r.items()]], r, None

    def run_impl(self, case):
        i, st = case["input"], case["stream"]
        self.reset()
        aux = {}
        if st == "findall":
            d = wrap(self.n0, i["tree"])
            before = L.canon(d)
            oc, r, exc = self.one_findall(d, i["xp"])
            aux["exc"] = exc
            aux["defaults"] = self.defaults()
            aux["before"] = before
            if r is not None:
                un = []
                for k, v in r.items():
                    try:
                        g = d[k]
                        ok = g is v
                        why = "other object" if not ok else ""
                    except Exception as e:  # noqa
                        ok, why = False, type(e).__name__
                    if not ok:
                        un.append([k, why])
                aux["unresolved"] = un
                # the three "complete" clauses: keys and identity of the values against the reference walk
                want = self.node_ids(d, i)
                if want is not None:
                    got = sorted((k, id(v)) for k, v in r.items())
                    if got != sorted((k, n) for k, n in want):
                        aux["incomplete"] = {"got": sorted(r.keys())[:8], "want": sorted(k for k, _ in want)[:8],
                                             "same_keys": sorted(r.keys()) == sorted(k for k, _ in want)}
            elif oc[0] == "n":
                want = self.node_ids(d, i)
                if want:
                    aux["incomplete"] = {"got": [], "want": sorted(k for k, _ in want)[:8], "same_keys": False}
            return {"ok": ["l", 0, [oc, aux["defaults"], L.canon(d)]], "aux": aux}
        if st == "seq":
            ds = [wrap(self.n0, t) for t in i["trees"]]
            before = [L.canon(d) for d in ds]
            outs, iso = [], []
            for ti, xp in i["calls"]:
                oc, _r, _e = self.one_findall(ds[ti], xp)
                outs.append(["l", 0, [oc, self.defaults()]])
            aux["after"] = [L.canon(d) for d in ds]
            aux["before"] = before
            for ti, xp in i["calls"]:
                self.reset()
                oc, _r, _e = self.one_findall(ds[ti], xp)
                iso.append(oc)
            aux["isolated"] = iso
            return {"ok": ["l", 0, outs], "aux": aux}
        if st == "findfirst":
            d = wrap(self.n0, i["tree"])
            oc, r, exc = self.one_findall(d, i["xp"])
            aux["findall"] = oc
            aux["findall_exc"] = exc
            self.reset()
            try:
                k, v = d.findfirst(i["xp"], bool(i.get("rx", True)))
            except IndexError as e:
                return {"raise": "ExIndex", "exc": "IndexError: %s" % str(e)[:100], "aux": aux}
            except Exception as e:  # noqa
                return {"raise": "ExOther", "exc": "%s: %s" % (type(e).__name__, str(e)[:100]), "aux": aux}
            aux["same_obj"] = (r is not None and k in r and r[k] is v) or (k is None and v is None)
            return {"ok": ["l", 0, [L.canon(k), L.canon(v)]], "aux": aux}
        if st == "getitem":
            d = wrap(self.n0, i["tree"])
            try:
                return {"ok": L.canon(d[i["xp"]])}
            except Exception as e:  # noqa
                return {"raise": "ExOther", "exc": "%s: %s" % (type(e).__name__, str(e)[:100])}
        raise ValueError(st)

    def node_ids(self, d, i):
        """ids of the nodes the oracle expects, keyed by the expected key"""
        out = None
        try:
            if "steps" in i and in_domain(i["tree"]):
                steps = [tuple(s[:2]) if s[0] == "i" else tuple(s) for s in i["steps"]]
                res = []
                ref_walk(d, steps, [], res)
                out = [[k, id(v)] for k, v in res]
            elif "desc" in i and in_domain(i["tree"]):
                out = [[key_of(p), id(at(d, p))] for p in all_named(i["tree"], i["desc"])]
            elif "expect" in i and in_domain(i["tree"]):
                out = [[key_of(tuple(p)), id(at(d, tuple(p)))] for p in i["expect"]]
        except (IndexError, LookupError):
            out = None
        return out

    def coq_input(self, case):
        i, st = case["input"], case["stream"]
        if st == "seq":
            ts = L.lst("(%s)" % L.tree(L.canon(wrap(self.n0, t))) for t in i["trees"])
            cs = L.lst("(%s, %s)" % (L.nat(ti), L.pstr(xp)) for ti, xp in i["calls"])
            return "(%s, %s)" % (ts, cs)
        t = "(%s)" % L.tree(L.canon(wrap(self.n0, i["tree"])))
        if st == "findfirst":
            return "(%s, %s, %s)" % (t, L.pstr(i["xp"]), L.boolean(bool(i.get("rx", True))))
        return "(%s, %s)" % (t, L.pstr(i["xp"]))

    def nontrivial(self, case, obs):
        if "ok" not in obs:
            return False
        if case["stream"] == "findall":
            return obs["ok"][2][0][0] == "d"
        return True

    # ---- the property on the implementation -----------------------------------------------------
    INIT = ["l", 0, [["l", 0, []], ["d", 0, []]]]

    def oracle(self, case, obs):
        i, st = case["input"], case["stream"]
        aux = obs.get("aux", {})
        if st == "findall":
            if "ok" not in obs:
                return "harness: %s" % obs
            oc, defaults, after = obs["ok"][2]
            if defaults != self.INIT:
                return "MUTATED-DEFAULTS: _findall.__defaults__ after the call is %s" % str(defaults)[:200]
            if after != aux["before"]:
                return "TREE-MODIFIED by findall(%r)" % i["xp"]
            if aux.get("unresolved"):
                return "UNRESOLVED: keys %s of findall(%r) do not resolve by item access to the identical value" % (aux["unresolved"][:3], i["xp"])
            if "steps" in i or "desc" in i or "expect" in i:
                what = "descendant search '//*/%s'" % i["desc"] if "desc" in i else "path %r" % i["xp"]
                if oc[0] == "s":
                    exp = self.expected(i)
                    if exp:
                        return "INCOMPLETE: %s raised (%s); %d node(s) expected" % (what, aux.get("exc"), len(exp))
                    return None
                if aux.get("incomplete"):
                    inc = aux["incomplete"]
                    return "INCOMPLETE: %s returned keys %s, expected exactly %s%s" % (
                        what, inc["got"], inc["want"], " (same keys, other objects)" if inc["same_keys"] else "")
            return None
        if st == "seq":
            if "ok" not in obs:
                return "harness: %s" % obs
            if aux["after"] != aux["before"]:
                return "TREE-MODIFIED by a sequence of searches"
            for n, (o, iso) in enumerate(zip(obs["ok"][2], aux["isolated"])):
                oc, defaults = o[2]
                if defaults != self.INIT:
                    return "MUTATED-DEFAULTS: after search #%d (%r) _findall.__defaults__ is %s" % (n, i["calls"][n][1], str(defaults)[:200])
                if oc != iso:
                    return "HISTORY: search #%d (%r) returned %s after the earlier searches, %s on its own" % (
                        n, i["calls"][n][1], str(oc)[:150], str(iso)[:150])
            return None
        if st == "findfirst":
            fa = aux.get("findall")
            if fa is None or fa[0] == "s":
                return None
            items = fa[2] if fa[0] == "d" else []
            rx = bool(i.get("rx", True))
            if len(items) == 0:
                ok = (obs.get("raise") == "ExIndex") if rx else (obs.get("ok") == ["l", 0, [["n"], ["n"]]])
                return None if ok else "findfirst(%r, %s) on an empty result gave %s" % (i["xp"], rx, str(obs)[:150])
            if len(items) > 1 and rx:
                return None if obs.get("raise") == "ExIndex" else "findfirst(%r) on %d results did not raise IndexError: %s" % (i["xp"], len(items), str(obs)[:150])
            first = ["l", 0, [["s", items[0][0]], items[0][1]]]
            if obs.get("ok") != first or not aux.get("same_obj"):
                return "findfirst(%r, %s) returned %s, the first pair of findall is %s" % (i["xp"], rx, str(obs.get("ok", obs))[:150], str(first)[:150])
            return None
        return None

    def expected(self, i):
        try:
            if "steps" in i and in_domain(i["tree"]):
                steps = [tuple(s[:2]) if s[0] == "i" else tuple(s) for s in i["steps"]]
                res = []
                ref_walk(i["tree"], steps, [], res)
                return res
            if "desc" in i and in_domain(i["tree"]):
                return all_named(i["tree"], i["desc"])
            if "expect" in i and in_domain(i["tree"]):
                return [tuple(p) for p in i["expect"]]
        except (IndexError, LookupError):
            return None
        return None

    # ---- known findings ---------------------------------------------------------------------------
    @staticmethod
    def steps_of(xp):
        return [p for p in xp.replace("[", "/[").split("/") if p]

    @staticmethod
    def is_text_step(p):
        return p.startswith("[") and p[1:].strip().lower().replace(" ", "").startswith("text()")

    @staticmethod
    def bad_dotdot(xp):
        """some '..' step is taken while the top of the parent stack is not the current node with its
        parent right below.  The stack holds the ancestors only (state P) after a name / index / '*'
        step; a text() condition pushes the current node (P -> S); '..' is right exactly in state S (and
        leaves S); a second text() pushes the node twice (S -> B, broken)."""
        state = "P"
        for p in C19.steps_of(xp):
            if p.strip() == "..":
                if state != "S":
                    return True
            elif C19.is_text_step(p):
                state = "S" if state == "P" else "B"
            else:
                state = "P"
        return False

    @staticmethod
    def has_nested_list(t):
        if isinstance(t, dict):
            return any(C19.has_nested_list(v) for v in t.values())
        if isinstance(t, list):
            return any(isinstance(v, list) or C19.has_nested_list(v) for v in t)
        return False

    @staticmethod
    def dotdot_case(case):
        """the '..' defect applies: syntactically (bad_dotdot), or a chain of two or more '..' steps climbs
        through a list nested directly in a list (S[i][j] is one segment of the path but two entries of the
        parent stack, so the second '..' lands on the outer list)"""
        xp = case["input"]["xp"]
        if C19.bad_dotdot(xp):
            return True
        ups = sum(1 for p in C19.steps_of(xp) if p.strip() == "..")
        return ups >= 2 and C19.has_nested_list(case["input"]["tree"])

    TEXTKEY = re.compile(r"\[\s*(text\(\))\s*(==|=|!=|<>)\s*([^\[\]]*?)\s*\]$", re.I)

    @staticmethod
    def unresolved_text(obs):
        """for every unresolved key: (operator, condition value, leaf value, spelling of text()) of its last
        text() condition, or None"""
        aux = obs.get("aux", {})
        res = dict((k, v) for k, v in obs["ok"][2][0][2]) if "ok" in obs and obs["ok"][2][0][0] == "d" else {}
        out = []
        for k, _why in aux.get("unresolved") or []:
            m = C19.TEXTKEY.search(k)
            if not m or k not in res or res[k][0] != "s":
                out.append(None)
                continue
            v = m.group(3)
            if len(v) > 1 and v[0] == v[-1] and v[0] in "'\"":
                v = v[1:-1]
            out.append((m.group(2), v, res[k][1], m.group(1)))
        return out

    classifiers = {
        # '..' after a name / index step re-enters at the grand-parent
        "dotdot": lambda case, obs, failure: case["stream"] == "findall" and failure.startswith("UNRESOLVED")
        and C19.dotdot_case(case),
        # text() = value matches case-insensitively in findall, item access compares exactly
        "text-case": lambda case, obs, failure: case["stream"] == "findall" and failure.startswith("UNRESOLVED")
        and not C19.dotdot_case(case)
        and all(t is not None and (t[3] != "text()" or (t[0] in ("=", "==") and t[1] != t[2] and t[1].lower() == t[2].lower()))
                for t in C19.unresolved_text(obs)) and bool(C19.unresolved_text(obs)),
        # the '<>' spelling of "not equal" is accepted by findall but not by item access
        "text-ltgt": lambda case, obs, failure: case["stream"] == "findall" and failure.startswith("UNRESOLVED")
        and not C19.dotdot_case(case)
        and all(t is not None and t[0] == "<>" for t in C19.unresolved_text(obs)) and bool(C19.unresolved_text(obs)),
    }


PROP = C19
