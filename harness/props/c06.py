"""C06 — wildcard and predicate steps select exactly the matching elements, in order."""
import copy

from n0v import coqlit as L
from n0v.core import Prop
from props import xpath_common as X

FIELDS = ["id", "k1", "f", "a", "text", "textId"]
BIG = 9007199254740993      # 2**53 + 1: not representable as a float
VALS = ["1", "2", "x", "B", "a b", 1, 2, 1.5, "xy", "10", BIG, BIG - 1, "m=f", "a~b", "m=f~x", "C:\\tmp", "a\tb", "it's", "C++", "a+b", "x]", "eth[0]"]
LITS = ["1", "2", "x", "B", "a b", "xy", "1.5", "zz", "10", "0", str(BIG), str(BIG - 1), "m=f", "a~b", "C:\\tmp", "a\tb", "it's", "C++", "a+b", "+", "x]", "eth[0]"]


def gen_recs(rng, n=None):
    n = rng.randint(0, 5) if n is None else n
    out = []
    for _ in range(n):
        r = {}
        for f in FIELDS:
            if rng.random() < (0.7 if f in ("id", "k1", "f", "a") else 0.3):
                r[f] = None if rng.random() < 0.04 else rng.choice(VALS) if rng.random() < 0.9 else X.gen_tree(rng, 1)
        out.append(r)
    return out


def lit_eq(val, lit):
    """field value equals the literal of the path (numeric fields compare numerically)"""
    if isinstance(val, bool) or val is None or isinstance(val, (dict, list)):
        return None        # outside the quantifier (string and numeric field values)
    if isinstance(val, str):
        return val == lit
    try:
        return val == (int(lit) if isinstance(val, int) else float(lit))
    except ValueError:
        return False


def lit_in(val, lit):
    if isinstance(val, str):
        return lit in val
    if isinstance(val, (int, float)) and not isinstance(val, bool):
        return False
    return None


class C06(Prop):
    id = "C06"
    props_file = "Props/C06.v"
    refuted_file = None
    rule = ("lists of 0..5 dict records (fields id,k1,f,a each present with p=0.7; string, int and half-float values, duplicates) "
            "at depth 0..3 of an enclosing tree; selecting expressions P[*]/f, P/f, P[k=v]/f, P[k!=v]/f, P[k~v]/f, quoted / "
            "unquoted literal, P/k[text()=v]/../f, literals occurring and not occurring; item access, get and first; plus "
            "chained selections: predicate after predicate and fan-out first (orders/items[k=v]/f, get and first). non-trivial = at least one record selected; distinct = distinct (tree, path, entry point)")
    trusted_base = ["reference selection = Python list comprehension over the plain records (harness)"]
    streams = {"lookup": X.LOOKUP_STREAM}
    classifiers = {
        "c06_tilde_in_eq_literal": lambda case, obs, failure: case["input"].get("form") in ("eq", "eqq", "text", "textq")
        and "~" in case["input"].get("v", "")
        or case["input"].get("form") == "fanchain" and "=" in case["input"]["xpath"].split("/")[-2] and "~" in case["input"].get("v", "")
        or case["input"].get("form") == "chained" and "~" in case["input"].get("v", ""),
    }

    def valid(self, case):
        return False

    def generate(self, rng, tier):
        n = 900 if tier == "quick" else 20000
        out = []
        for _ in range(n):
            recs = gen_recs(rng)
            depth = rng.randrange(6)
            mode = rng.choice(["convert", "convert", "wrap", "json"])
            if depth == 0:
                t, P, ppath = {"r": recs, "z": 1}, rng.choice(["r", "/r", "//r"]), ["r"]
            elif depth == 1:
                t, P, ppath = {"a": {"r": recs, "k1": "x"}}, rng.choice(["a/r", "/a/r"]), ["a", "r"]
            elif depth == 2 and rng.random() < 0.4:
                # a from-the-end index that addresses element 0: the only element of a list, or the first of two
                if rng.random() < 0.5:
                    t, P, ppath = {"a": [{"r": recs}]}, rng.choice(["a[last()]/r", "a[-1]/r", "/a[0]/r", "a/[-1]/r"]), ["a", 0, "r"]
                else:
                    t, P, ppath = {"a": [{"r": recs}, {"x": 1}]}, rng.choice(["a[-2]/r", "a[last()-1]/r", "/a[0]/r"]), ["a", 0, "r"]
            elif depth == 2:
                t, P, ppath = {"a": [{"x": 1}, {"r": recs}]}, rng.choice(["a[1]/r", "/a[last()]/r", "a[-1]/r"]), ["a", 1, "r"]
            elif depth == 3:
                t, P, ppath = {"a": {"b": [[0], recs]}}, rng.choice(["a/b[1]", "//a/b[last()]", "a/b/[1]"]), ["a", "b", 1]
            elif depth == 4:
                # a list-rooted container: the records sit in an element other than the first
                t, P, ppath = [{"x": 1}, {"r": recs, "k1": "x"}], rng.choice(["[1]/r", "[-1]/r", "/[1]/r", "[last()]/r"]), [1, "r"]
            else:
                # the list of records is the root itself: only the explicit fan-out applies ('[*]/f')
                t, P, ppath = recs, rng.choice(["", "/"]), []
            f = rng.choice(FIELDS)
            k = rng.choice(FIELDS)
            v = rng.choice(LITS) if rng.random() < 0.95 else ""      # the empty literal: equals no string or number field
            form = rng.choice(["star", "short", "eq", "eq", "ne", "has", "eqq", "text", "textq", "chained", "fanchain"])
            if v == "" and form == "has":
                form = "textq"
            q = rng.choice(["'", '"'])
            if depth == 5:
                form = "star"
            if form == "star":
                xp = "%s[*]/%s" % (P, f)
            elif form == "short":
                xp = "%s/%s" % (P, f)
            elif form == "eq":
                xp = "%s[%s=%s]/%s" % (P, k, v, f)
            elif form == "eqq":
                xp = "%s[%s=%s%s%s]/%s" % (P, k, q, v, q, f)
            elif form == "ne":
                xp = "%s[%s!=%s]/%s" % (P, k, v, f)
            elif form == "has":
                xp = "%s[%s~%s]/%s" % (P, k, v, f)
            elif form == "text":
                xp = "%s/%s[text()=%s]/../%s" % (P, k, v, f)
            elif form == "textq":
                xp = "%s/%s[text()%s%s%s%s]/../%s" % (P, k, rng.choice(["=", "=", "!="]), q, v, q, f)
            elif form == "fanchain":
                # chained selection whose first selecting step is a fan-out: orders/items[k=v]/f, orders[*]/items/f ...
                orders = [{"id": rng.choice(["1", "2"]), "items": gen_recs(rng, rng.randint(0, 3))} for _ in range(rng.randint(1, 3))]
                t, ppath = {"orders": orders}, None
                outer = rng.choice(["orders", "orders[*]", "/orders"])
                inner = rng.choice(["items[%s=%s]" % (k, v), "items[%s=%s]" % (k, v), "items", "items[*]", "items[%s!=%s]" % (k, v)])
                xp = "%s/%s/%s" % (outer, inner, f)
            else:
                # chained selection: orders[id=..]/items[k1=..]/f
                orders = [{"id": rng.choice(["1", "2"]), "items": gen_recs(rng, rng.randint(0, 3))} for _ in range(rng.randint(1, 3))]
                t, ppath = {"orders": orders}, None
                xp = "orders[id=%s]/items[%s=%s]/%s" % (rng.choice(["1", "2"]), k, v, f)
            pre = None
            if ppath and rng.random() < 0.12:
                # the same question asked twice on one document, the record list (or its parent) replaced in between:
                # the second answer is about the records that are there now
                pre = {"recs": gen_recs(rng), "graft": len(ppath) if rng.random() < 0.6 or len(ppath) < 2 or not isinstance(ppath[-1], str)
                       else len(ppath) - 1}
            for kind in ((1, 2) if form in ("chained", "fanchain") else (0, 1, 2)):
                inp = {"tree": t, "mode": mode, "xpath": xp, "kind": kind, "form": form, "ppath": ppath, "f": f, "k": k, "v": v}
                if pre:
                    inp["pre"] = pre
                out.append({"stream": "lookup", "tag": "%s:d%d:k%d%s" % (form, depth, kind, ":requery" if pre else ""), "input": inp})
        # ---- systematic: integers that no float can tell apart - the literal selects exactly the record that holds that very
        #      integer (not left to the chance of drawing BIG for both the field and the literal)
        for _ in range(24 if tier == "quick" else 600):
            recs = [{"id": BIG, "f": "a", "k1": "x"}, {"id": BIG - 1, "f": "b"}, {"id": 7, "f": "c"}, {"id": str(BIG), "f": "d"}]
            rng.shuffle(recs)
            v = str(rng.choice([BIG, BIG - 1, BIG + 1, 7]))
            form = rng.choice(["eq", "ne", "text", "eqq"])
            P = rng.choice(["r", "/r", "//r"])
            q = rng.choice(["'", '"'])
            xp = {"eq": "%s[id=%s]/f" % (P, v), "ne": "%s[id!=%s]/f" % (P, v), "text": "%s/id[text()=%s]/../f" % (P, v),
                  "eqq": "%s[id=%s%s%s]/f" % (P, q, v, q)}[form]
            mode = rng.choice(["convert", "wrap", "json"])
            for kind in (0, 1, 2):
                out.append({"stream": "lookup", "tag": "sys:bigint:%s:k%d" % (form, kind),
                            "input": {"tree": {"r": recs, "z": 1}, "mode": mode, "xpath": xp, "kind": kind, "form": form, "ppath": ["r"],
                                      "f": "f", "k": "id", "v": v}})
        return out

    def run_impl(self, case):
        i = case["input"]
        obj = X.build(i["tree"], i["mode"])
        if i.get("pre"):
            # build the earlier document (other records at the same place), ask, then graft today's container in
            t0 = copy.deepcopy(i["tree"])
            par = X.plain_get(t0, i["ppath"][:-1])
            par[i["ppath"][-1]] = copy.deepcopy(i["pre"]["recs"])
            old = X.build(t0, i["mode"])
            try:
                X.lookup(old, i["kind"], i["xpath"])
            except Exception:  # noqa
                pass
            g = i["pre"]["graft"]
            new_node = X.raw_get(obj, i["ppath"][:g])
            holder = X.raw_get(old, i["ppath"][:g - 1])
            holder[i["ppath"][g - 1]] = new_node
            obj = old
        v = X.lookup(obj, i["kind"], i["xpath"])
        case["_res"] = v
        return {"ok": ["l", 0, [L.canon(v), L.canon(obj)]]}

    def coq_input(self, case):
        i = case["input"]
        return X.lookup_lit(X.build(i["tree"], i["mode"]), i["kind"], i["xpath"])

    def expected(self, i):
        form, f, k, v = i["form"], i["f"], i["k"], i["v"]
        if form == "fanchain":
            inner = i["xpath"].split("/")[-2]
            out = []
            for o in i["tree"]["orders"]:
                sel = []
                for r in o["items"]:
                    if "=" in inner:
                        if k not in r:
                            continue
                        e = lit_eq(r[k], v)
                        if e is None:
                            return None
                        if e == ("!=" in inner):
                            continue
                    if f in r:
                        if isinstance(r[f], list) and len(r[f]) == 1:
                            return None   # first unwraps a singleton list value once more: not covered by the statement
                        sel.append(r[f])
                out.append(sel)
            return ("nested", out)
        if form == "chained":
            out = []
            oid = i["xpath"].split("[id=")[1].split("]")[0]
            for o in i["tree"]["orders"]:
                if o["id"] == oid:
                    sel = []
                    for r in o["items"]:
                        if k in r and f in r:
                            e = lit_eq(r[k], v)
                            if e is None:
                                return None
                            if e:
                                if isinstance(r[f], list) and len(r[f]) == 1:
                                    return None   # first unwraps a singleton list value once more: not covered by the statement
                                sel.append(r[f])
                    out.append(sel)
            return ("nested", out)
        recs = X.plain_get(i["tree"], i["ppath"])
        sel = []
        neg = form == "ne" or (form == "textq" and "[text()!=" in i["xpath"])
        for r in recs:
            if form in ("star", "short"):
                ok = True
            else:
                if k not in r:
                    continue
                if v == "" and r[k] in ("", 0, False):
                    return None          # the empty literal is read as false(): what it equals among falsy values is not stated
                ok = lit_in(r[k], v) if form == "has" else lit_eq(r[k], v)
                if ok is None:
                    return None          # a field value outside the quantifier takes part in the selection
                if neg:
                    ok = not ok
            if ok and f in r:
                sel.append(r[f])
        return ("flat", sel)

    def oracle(self, case, obs):
        i = case["input"]
        res = case.pop("_res", None)
        exp = self.expected(i)
        if exp is None:
            return None
        shape, sel = exp
        kind = i["kind"]
        if shape == "nested":
            flat = [x for s in sel for x in s]
            if "raise" in obs:
                return "chained selection raised %s" % obs.get("exc")
            if not flat:
                return None if res == X.DFLT else "chained selection with no match returned %r" % (res,)
            want = [s for s in sel if s]
            if kind == 2:
                # first unwraps a single match, at the level of the parents and within each parent
                want = [s[0] if len(s) == 1 else s for s in want]
                want = want[0] if len(want) == 1 else want
                if not X.same(X.plain(res), want):
                    return "first(%r) returned %r, the per-parent selections with single matches unwrapped are %r" % (i["xpath"], X.plain(res), want)
                return None
            if not (isinstance(res, list) and X.same(X.plain(res), want)):
                return "chained selection %r returned %r, per-parent selections are %r" % (i["xpath"], X.plain(res) if isinstance(res, list) else res, want)
            return None
        if not sel:
            if kind == 0:
                if "raise" not in obs:
                    return "nothing matches %r but item access returned %r" % (i["xpath"], res)
                return None if obs["raise"] in X.ALLOWED_MISS else "miss raised %s" % obs.get("exc")
            if "raise" in obs:
                return "get/first raised %s" % obs.get("exc")
            return None if isinstance(res, str) and res == X.DFLT else "nothing matches %r but %r was returned" % (i["xpath"], res)
        if "raise" in obs:
            return "%r raised %s, expected the selection %r" % (i["xpath"], obs.get("exc"), sel)
        if kind == 2 and len(sel) == 1:
            if isinstance(sel[0], list) and len(sel[0]) == 1:
                return None     # first unwraps a singleton list value once more: not covered by the statement
            return None if X.same(X.plain(res), sel[0]) else "first(%r) returned %r, the single match is %r" % (i["xpath"], X.plain(res), sel[0])
        if not isinstance(res, list) or not X.same(X.plain(res), sel):
            return "%r returned %r, the matching records give %r" % (i["xpath"], X.plain(res) if isinstance(res, (list, dict)) else res, sel)
        return None


PROP = C06
