"""C13 — a CSV line parses back to the fields it was generated from."""
import csv
import io
import itertools

from n0v import coqlit as L
from n0v.core import Prop

DELIMS = [",", ";", "|", "\t"]


def alphabet(d):
    other = ";" if d != ";" else ","
    return ["a", d, other, '"', "'", " ", "é"]


class C13(Prop):
    id = "C13"
    props_file = "Props/C13.v"
    refuted_file = "Refuted/C13.v"
    rule = ("rows of 1..5 fields over the critical alphabet {letter, delimiter, other delimiter, \", ', blank, non-ASCII}; "
            "exhaustive fields up to a length bound in 5 row shapes, plus random longer rows; x 4 delimiters x str/bytes x "
            "3 line endings x {library generator, csv.writer}; plus arbitrary (malformed) lines for the parser alone. "
            "non-trivial = the parse returned fields (no exception); distinct = distinct (stream, input)")
    trusted_base = [
        "csv.writer (QUOTE_MINIMAL) is external C code: modelled by Csv.gen_w and validated by the genw stream of this run",
        "str.rstrip / utf-8 encoding of ASCII delimiter and quote: modelled (PyStr.rstrip_set), validated by correspondence",
    ]
    assumptions = ["fields contain no CR/LF (quantifier); delimiter is a single character other than the quote, CR, LF"]
    pair_t = "(N * list pstr) * pstr"
    streams = {
        "rt_lib": dict(requires=["Codec.Csv"], itype=pair_t,
                       model="fun x => obs_parse (fst (fst x)) (gen_row (fst (fst x)) (snd (fst x)) (snd x))"),
        "rt_csv": dict(requires=["Codec.Csv"], itype=pair_t,
                       model="fun x => obs_parse (fst (fst x)) (gen_w (fst (fst x)) (snd (fst x)) ++ snd x)"),
        "rt_bytes": dict(requires=["Codec.Csv"], itype=pair_t,
                         model="fun x => obs_parse (fst (fst x)) (gen_row (fst (fst x)) (snd (fst x)) (snd x))"),
        "gen": dict(requires=["Codec.Csv"], itype=pair_t,
                    model="fun x => obs_gen (fst (fst x)) (snd (fst x)) (snd x)"),
        "genw": dict(requires=["Codec.Csv"], itype=pair_t,
                     model="fun x => obs_gen_w (fst (fst x)) (snd (fst x)) (snd x)"),
        "parse": dict(requires=["Codec.Csv"], itype="N * pstr", model="fun x => obs_parse (fst x) (snd x)"),
        "parse_bytes": dict(requires=["Codec.Csv"], itype="N * pstr", model="fun x => obs_parse (fst x) (snd x)"),
    }

    def setup(self):
        import n0struct
        lib_parse = n0struct.parse_complex_csv_line
        self._reparse = None

        def parse(line, d):
            # the caller owns the list it gets: it is changed in place here, and an equal line parsed afterwards
            # must still give the fields of the line (a parse is a function of the line, not of earlier results)
            r = lib_parse(line, d)
            keep = list(r)
            if isinstance(r, list):
                r.append(r[0] if r else line[:0])
                r.reverse()
                again = lib_parse(line[:], d)
                if list(again) != keep and self._reparse is None:
                    self._reparse = "the line %r parsed to %r, and after the caller changed that list in place an equal line parsed to %r" % (line, keep, list(again))
            return keep
        self.parse = parse
        self.genrow = n0struct.generate_complex_csv_row

    # ---- generation -----------------------------------------------------------
    def generate(self, rng, tier):
        maxlen = 3 if tier == "quick" else 4
        nrand = 1500 if tier == "quick" else 20000
        out = []
        for di, d in enumerate(DELIMS):
            al = alphabet(d)
            fields = [""]
            for n in range(1, maxlen + 1):
                fields += ["".join(t) for t in itertools.product(al, repeat=n)]
            if tier == "quick" and di > 0:
                fields = rng.sample(fields, 80)
            for f in fields:
                shapes = [[f], [f, "x"], ["x", f], ["", f, ""], [f, f[::-1]]]
                if tier == "quick":
                    shapes = [shapes[0], shapes[rng.randrange(1, 5)]]
                for row in shapes:
                    eol = rng.choice(["", "\n", "\r\n"])
                    st = rng.choice(["rt_lib", "rt_lib", "rt_csv", "rt_bytes"])
                    out.append({"stream": st, "tag": "exh:" + st, "input": {"d": d, "row": row, "eol": eol}})
        for _ in range(nrand):
            d = rng.choice(DELIMS)
            # 'ｱ' (U+FF71) and '\ufeff' encode with the lead byte 0xEF, the first byte of the UTF-8 byte-order mark
            al = alphabet(d) + ["b", "€", "ｱ", "\ufeff"]
            row = ["".join(rng.choice(al) for _ in range(rng.choice([0, 1, 2, 3, 5, 8])))
                   for _ in range(rng.randint(1, 5))]
            eol = rng.choice(["", "\n", "\r\n"])
            k = rng.random()
            if k < 0.45:
                st = rng.choice(["rt_lib", "rt_csv", "rt_bytes"])
                out.append({"stream": st, "tag": "rnd:" + st, "input": {"d": d, "row": row, "eol": eol}})
            elif k < 0.6:
                st = rng.choice(["gen", "genw"])
                out.append({"stream": st, "tag": "rnd:" + st, "input": {"d": d, "row": row, "eol": eol}})
            else:
                # arbitrary line for the parser alone (mostly ill-formed quoting)
                line = "".join(rng.choice(al + ['"', d, "\r", "\n"]) for _ in range(rng.randint(0, 10)))
                st = rng.choice(["parse", "parse", "parse_bytes"])
                out.append({"stream": st, "tag": "rnd:" + st, "input": {"d": d, "line": line}})
        return out

    def valid(self, case):
        i = case["input"]
        if i.get("d") not in DELIMS or i.get("eol", "") not in ("", "\n", "\r\n"):
            return False
        if "row" in i:
            return len(i["row"]) >= 1 and all("\r" not in f and "\n" not in f for f in i["row"])
        return True

    # ---- implementation ------------------------------------------------------------
    def csvw(self, d, row, eol):
        buf = io.StringIO(newline="")
        csv.writer(buf, delimiter=d, lineterminator=eol, quoting=csv.QUOTE_MINIMAL).writerow(row)
        return buf.getvalue()

    def run_impl(self, case):
        self._reparse = None
        try:
            return self.run_impl1(case)
        finally:
            case["_reparse"] = self._reparse

    def run_impl1(self, case):
        i, st = case["input"], case["stream"]
        d = i["d"]
        if st == "gen":
            return {"ok": L.canon(self.genrow(list(i["row"]), d, i["eol"]))}
        if st == "genw":
            return {"ok": L.canon(self.csvw(d, i["row"], i["eol"]))}
        if st == "parse":
            return {"ok": L.canon(self.parse(i["line"], d))}
        if st == "parse_bytes":
            r = self.parse(i["line"].encode("utf-8"), d)
            return {"ok": ["l", 0, [["s", x.decode("latin-1")] for x in r]]}
        if st == "rt_lib":
            return {"ok": L.canon(self.parse(self.genrow(list(i["row"]), d, i["eol"]), d))}
        if st == "rt_csv":
            return {"ok": L.canon(self.parse(self.csvw(d, i["row"], i["eol"]), d))}
        if st == "rt_bytes":
            r = self.parse(self.genrow(list(i["row"]), d, i["eol"]).encode("utf-8"), d)
            return {"ok": ["l", 0, [["s", x.decode("latin-1")] for x in r]]}
        raise ValueError(st)

    def coq_input(self, case):
        i, st = case["input"], case["stream"]
        d = str(ord(i["d"])) + "%N"
        if st == "parse":
            return "(%s, %s)" % (d, L.pstr(i["line"]))
        if st == "parse_bytes":
            return "(%s, %s)" % (d, L.pstr(i["line"].encode("utf-8")))
        if st == "rt_bytes":
            return "((%s, %s), %s)" % (d, L.lst(L.pstr(f.encode("utf-8")) for f in i["row"]), L.pstr(i["eol"]))
        return "((%s, %s), %s)" % (d, L.strs(i["row"]), L.pstr(i["eol"]))

    # ---- the property on the implementation ------------------------------------
    def oracle(self, case, obs):
        st, i = case["stream"], case["input"]
        reparse = case.pop("_reparse", None)
        if reparse:
            return reparse
        if not st.startswith("rt_"):
            return None
        if "raise" in obs:
            return "parsing a generated line raised %s" % obs.get("exc", obs["raise"])
        got = [x[1] for x in obs["ok"][2]]
        want = [f.encode("utf-8").decode("latin-1") for f in i["row"]] if st == "rt_bytes" else list(i["row"])
        if got != want:
            return "parsed %r, written %r (%s)" % (got, want, st)
        return None


PROP = C13
