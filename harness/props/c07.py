"""C07 — compare verdict is exact: no differences reported iff the trees are equal;
the verdict is the same under every reachable flag configuration."""
import itertools
import re

from n0v import coqlit as L
from n0v.core import Prop
from props import compare_common as CC


def skeleton(rep):
    """what must not depend on the flags: the (xpath, left, right) pairs wherever they are
    filed, and the values reported as unique"""
    left = lambda p: re.sub(r"(\[\d+\])<>\[\d+\]", r"\1", p)   # difftypes entries carry the left index only
    pairs = sorted(repr((left(p), L.erase_tags(l), L.erase_tags(r))) for p, l, r in rep["ne"] + (rep["dt"] or []))
    su = [repr(L.erase_tags(v)) for _, v in rep["su"]]
    ou = [repr(L.erase_tags(v)) for _, v in rep["ou"]]
    return pairs, su, ou


class C07(Prop):
    id = "C07"
    props_file = "Props/C07.v"
    refuted_file = "Refuted/C07.v"
    rule = ("pairs (tree, tree after 0-4 edits: changed value / changed type / removed or added key / removed, inserted, "
            "duplicated or permuted list items / reordered dict keys / replaced subtree), dict and list roots, depth <= 4, "
            "x {direct_compare, compare} x a random history of set__flag_compare_* calls; an exhaustive stream of all "
            "pairs of small trees; a stream of operands that wrap plain containers. non-trivial = the comparison returned "
            "a report; distinct = distinct inputs")
    trusted_base = [
        "str()/repr() of ints, half floats, ASCII strings, lists and dicts: modelled in Compare/Util.v (py_str), validated by the correspondence of this run",
        "the oracle's reference definitions tree_eq / eq_mod_order (harness/props/compare_common.py teq, emo)",
    ]
    assumptions = ["operands are built by n0dict.convert_recursively (the supported domain); dictionary keys are plain names "
                   "([A-Za-z0-9_]+) so that self[key] is not read as an xpath; ASCII text; floats are halves"]
    streams = {"cmp": CC.STREAM,
               # the classifier of C07/str-keys is the complement of the Coq guard keys_ok: checked here
               "guard": dict(requires=["Compare.Util", "Compare.Model", "Compare.Spec"], itype="tree * tree",
                             model="fun x => Ok (Leaf (SBool (keys_ok (fst x) (snd x))))")}
    case_timeout = 10

    def setup(self):
        self.impl = CC.Impl()

    def teardown(self):
        if getattr(self, "impl", None):
            self.impl.reset_flags()

    # ---- generation -------------------------------------------------------------------
    def generate(self, rng, tier):
        quick = tier == "quick"
        out = []
        nrand = 900 if quick else 30000
        for _ in range(nrand):
            kind = list if rng.random() < 0.12 else dict
            a, b = CC.gen_pair(rng, rng.choice([2, 3, 4, 4]), kind)
            st = CC.gen_setters(rng)
            for walk in ("direct", "compare"):
                out.append({"stream": "cmp", "tag": "rnd:" + walk,
                            "input": {"a": a, "b": b, "walk": walk, "setters": st}})
        # unusual but legal keys: the empty string, a blank, a digit string (item access by such a key must still
        # reach the entry; nothing below it may be skipped)
        for _ in range(120 if quick else 3000):
            a, b = CC.gen_pair(rng, rng.choice([2, 3]), dict, keys=["", "a", " ", "0", "b"])
            for walk in ("direct", "compare"):
                out.append({"stream": "cmp", "tag": "oddkeys:" + walk, "input": {"a": a, "b": b, "walk": walk, "setters": []}})
        # a NaN leaf on one side against an ordinary number on the other (same place, nothing else differs): the trees
        # differ.  The model's value type has no NaN: oracle only, the observation is the number of differences.
        for _ in range(40 if quick else 1000):
            a, b = CC.gen_pair(rng, rng.choice([2, 3]), dict, edits=0)
            ps = [p for p in CC.positions(a) if p and not isinstance(CC.resolve(a, p), (dict, list))]
            if not ps:
                continue
            p = rng.choice(ps)
            left = rng.random() < 0.5
            for t, val in ((a, float("nan") if left else 1.5), (b, 1.5 if left else float("nan"))):
                par = CC.resolve(t, p[:-1])
                par[p[-1]] = val
            for walk in ("direct", "compare"):
                out.append({"stream": "cmp_nan", "tag": "nan:" + walk, "input": {"a": a, "b": b, "walk": walk, "setters": CC.gen_setters(rng)}})
        # lists whose items collide under str(): 1 / "1", 1.0 / "1.0", True / "True", "" next to records,
        # nested dicts in different key order (the zone of the known finding C07/str-keys)
        pool = [1, "1", 1.0, "1.0", True, "True", "", None, "None", {"k": 1}, {"k": 1, "n": 2}, {"n": 2, "k": 1},
                [1, "1"], ["1", 1], [{"k": 1, "n": 2}], [{"n": 2, "k": 1}], [], {}]
        for _ in range(150 if quick else 3000):
            xs = [rng.choice(pool) for _ in range(rng.randint(1, 4))]
            ys = list(xs)
            rng.shuffle(ys)
            if rng.random() < 0.4:
                ys[rng.randrange(len(ys))] = rng.choice(pool)
            walk = rng.choice(["compare", "compare", "direct"])
            out.append({"stream": "cmp", "tag": "collide:" + walk,
                        "input": {"a": {"a": xs}, "b": {"a": ys}, "walk": walk, "setters": CC.gen_setters(rng) if rng.random() < 0.3 else []}})
        # the guard of the default-compare theorem vs the classifier of the known finding
        for c in [c for c in out if c["stream"] == "cmp" and c["input"]["walk"] == "compare"][-(400 if quick else 6000):]:
            out.append({"stream": "guard", "tag": "guard", "input": {"a": c["input"]["a"], "b": c["input"]["b"], "walk": "compare"}})
        # exhaustive small scope: all pairs of small trees under a key
        small = CC.small_trees(["a", "b"], [None, True, 1, 1.0, "1", ""], 1)
        roots = [{"r": t} for t in small] + [[t] for t in small[:12]]
        pairs = [(x, y) for x, y in itertools.product(roots, repeat=2) if type(x) == type(y)]
        if quick:
            pairs = rng.sample(pairs, 500)
        for x, y in pairs:
            walk = rng.choice(["direct", "compare"])
            out.append({"stream": "cmp", "tag": "exh:" + walk,
                        "input": {"a": x, "b": y, "walk": walk, "setters": CC.gen_setters(rng) if rng.random() < 0.3 else []}})
        # operands that wrap plain containers (outside the supported domain; recorded finding)
        for _ in range(60 if quick else 1500):
            a, b = CC.gen_pair(rng, 3)
            out.append({"stream": "cmp", "tag": "wrap",
                        "input": {"a": a, "b": b, "walk": rng.choice(["direct", "compare"]), "setters": [],
                                  "wa": "wrap", "wb": rng.choice(["wrap", "wrap", "conv"])}})
        return out

    def valid(self, case):
        if case.get("stream") == "cmp_nan":
            return False
        i = case.get("input")
        return CC.valid_input(i) and not i.get("ck") and not i.get("only") and not i.get("excl") and not i.get("tr")

    # ---- implementation ---------------------------------------------------------------
    def run_impl(self, case):
        i = case["input"]
        if case["stream"] == "cmp_nan":
            A, B = self.impl.build(i["a"], "conv"), self.impl.build(i["b"], "conv")
            try:
                self.impl.reset_flags()
                self.impl.apply_setters(i.get("setters", []))
                res = (A.direct_compare if i["walk"] == "direct" else A.compare)(B)
                return {"ok": ["i", len(dict.__getitem__(res, "differences"))]}
            finally:
                self.impl.reset_flags()
        if case["stream"] == "guard":
            return {"ok": ["b", bool(CC.keys_ok(i["a"], i["b"]))]}

        def extra(A, B, obs):
            if i.get("setters"):
                rep0, exc0 = self.impl.compare(A, B, i, setters=[])
                obs["base"] = rep0 if exc0 is None else {"raise": type(exc0).__name__}
        return CC.observe(self.impl, i, extra)

    def coq_input(self, case):
        i = case["input"]
        if case["stream"] == "guard":
            return "(%s, %s)" % (L.tree(L.canon(self.impl.build(i["a"], "conv"))), L.tree(L.canon(self.impl.build(i["b"], "conv"))))
        return CC.cin_lit(self.impl, i)

    # ---- the property on the implementation -----------------------------------------------
    def oracle(self, case, obs):
        i = case["input"]
        if case["stream"] == "guard":
            return None
        if case["stream"] == "cmp_nan":
            if "raise" in obs:
                return "the comparison raised %s" % obs.get("exc", obs["raise"])
            return None if obs["ok"][1] > 0 else "a NaN leaf against the number 1.5 at the same place: the trees differ, no difference reported"
        if "raise" in obs:
            return "the comparison raised %s" % obs.get("exc", obs["raise"])
        rep = obs["rep"]
        a, b = i["a"], i["b"]
        verdict = rep["n"] == 0
        if i["walk"] == "direct":
            want = CC.teq(a, b)
            if verdict != want:
                return "direct_compare reports %d difference(s) but the trees are %s" % (rep["n"], "equal" if want else "different")
        else:
            want = CC.emo(a, b)
            if verdict != want:
                return ("compare reports %d difference(s) but the trees are %s up to the order of non-record list items"
                        % (rep["n"], "equal" if want else "different"))
        base = obs.get("base")
        if base is not None:
            if "raise" in base:
                return "the comparison raised %s under the import-time flags only" % base["raise"]
            if (base["n"] == 0) != verdict:
                return "verdict under setters %s differs from the verdict under the import-time flags" % (i.get("setters"),)
            if skeleton(base) != skeleton(rep):
                return "the flags %s changed more than detail: %s vs %s" % (i.get("setters"), skeleton(rep), skeleton(base))
        return None

    # ---- known findings ------------------------------------------------------------------------
    @staticmethod
    def cl_plain_operands(case, obs, failure):
        i = case["input"]
        return i.get("wa", "conv") != "conv" or i.get("wb", "conv") != "conv"

    @staticmethod
    def cl_str_keys(case, obs, failure):
        i = case["input"]
        return (i["walk"] == "compare" and i.get("wa", "conv") == "conv" and i.get("wb", "conv") == "conv"
                and "raise" not in obs and not CC.keys_ok(i["a"], i["b"]))

    classifiers = {"plain_operands": cl_plain_operands.__func__, "str_keys": cl_str_keys.__func__}


PROP = C07
