"""C12 — XML export is well-formed, escaped, and loads back to the same tree."""
import itertools
import re
import xml.etree.ElementTree as ET

from n0v import coqlit as L
from n0v.core import Prop

NAMES = ['a', 'b', 'c', 'Parm', 'ParmCode', 'Value', 'x1', 'é', 'a-b', '_u']
# critical text alphabet of the quantifier: markup, quotes, non-ASCII, entity-table characters
# (U+2003 is both in the table and whitespace for str.strip), blanks and newlines
CHARS = ['a', '<', '>', '&', '"', "'", 'é', '€', ' ', ' ', '\n']
CHARS_MORE = ['Œ', '—', ' ', '\t', ']', ';', '#', '1', 'ß', '\U0001F600', '‍', '‰', '[', '!']
WORDS = ['&amp;', '&euro;', '<![CDATA[', ']]>', '&#65;', '<a>', '</a>', '<a/>', '  x  ', 'x\ny', '<!--', '?>', '<?xml']
INTS = [0, 1, -5, 12345678901234567890]
HALVES = [1, -3, 4]
INDENTS = [4, 0, 1, 2, 7, -1]
ENCODINGS = ["utf-8", None, "UTF-8", "", "ascii", "latin-1"]
QUOTES = ['"', "'"]
CD_OPEN, CD_CLOSE = "<![CDATA[", "]]>"


def is_cdata(v):
    """the writer's pass-through test, restated"""
    return v.lstrip().startswith(CD_OPEN) and v.rstrip().endswith(CD_CLOSE) and v.find(CD_CLOSE) == len(v.rstrip()) - 3


def xml_char_ok(c):
    o = ord(c)
    return o in (9, 10) or 0x20 <= o <= 0xD7FF or 0xE000 <= o <= 0xFFFD or o >= 0x10000


NAME_RE = re.compile(r"[A-Za-z_À-ÖØ-öø-˿][-A-Za-z0-9_.·À-ÖØ-öø-˿]*\Z")


def plain(ct):
    return L.uncanon(ct)


def shaped(ct, root=True, in_list=False):
    """XML-shaped (the domain of the statement): one root element, element names, values that are
    text without characters XML cannot carry, None, numbers, nested elements, or repeated elements
    (a non-empty list of items that are not lists themselves; a one-item list loads back as the item)"""
    t = ct[0]
    if root:
        return t == "d" and len(ct[2]) == 1 and ct[2][0][1][0] != "l" and shaped_entries(ct[2])
    if t == "s":
        return all(xml_char_ok(c) for c in ct[1])
    if t in ("n", "i", "f", "b"):
        return True
    if t == "d":
        return shaped_entries(ct[2])
    if t == "l":
        return (not in_list) and len(ct[2]) >= 1 and all(shaped(x, False, True) for x in ct[2])
    return False


def shaped_entries(kvs):
    return all(NAME_RE.match(k) and shaped(v, False) for k, v in kvs)


def py_positions(v, pre=()):
    """positions of the scalar leaves of a plain value"""
    out = []
    if isinstance(v, dict):
        for k, x in v.items():
            out += py_positions(x, pre + (k,))
    elif isinstance(v, list):
        for n, x in enumerate(v):
            out += py_positions(x, pre + (n,))
    else:
        out.append(list(pre))
    return out


def hard_numbers(rng, v, pool, top=True):
    """replace number leaves (and some text leaves) by numbers from the pool; the shape stays the same"""
    if isinstance(v, dict):
        return {k: hard_numbers(rng, x, pool, False) for k, x in v.items()}
    if isinstance(v, list):
        return [hard_numbers(rng, x, pool, False) for x in v]
    if isinstance(v, bool) or v is None:
        return v
    if isinstance(v, (int, float)) or (isinstance(v, str) and rng.random() < 0.3):
        return rng.choice(pool) * rng.choice([1, 1, -1])
    return v


def xml_norm(v):
    """XML's own normalisations: numbers become text, '' and None coincide, surrounding
    whitespace is dropped (a CDATA section is its content); an element without content is None"""
    if isinstance(v, dict):
        o = {k: xml_norm(x) for k, x in v.items()}
        return o if o else None
    if isinstance(v, (list, tuple)):
        o = [xml_norm(x) for x in v]
        return None if not o else (o[0] if len(o) == 1 else o)
    if v is None:
        return None
    if isinstance(v, str) and is_cdata(v):
        v = v.strip()[len(CD_OPEN):-len(CD_CLOSE)]
    s = str(v).strip()
    return s if s else None


def unwrap(v):
    if isinstance(v, dict):
        return {k: unwrap(x) for k, x in v.items()}
    if isinstance(v, (list, tuple)):
        return [unwrap(x) for x in v]
    return v


def all_dicts_are(v, cls):
    if isinstance(v, dict):
        return isinstance(v, cls) and all(all_dicts_are(x, cls) for x in v.values())
    if isinstance(v, list):
        return all(all_dicts_are(x, cls) for x in v)
    return True


def is_ctree(ct):
    try:
        t = ct[0]
        if t == "n":
            return len(ct) == 1
        if t == "b":
            return isinstance(ct[1], bool)
        if t in ("i", "f"):
            return isinstance(ct[1], int) and not isinstance(ct[1], bool)
        if t == "s":
            return isinstance(ct[1], str)
        if t == "y":
            return all(isinstance(b, int) and 0 <= b < 256 for b in ct[1])
        if t == "d":
            ks = [kv[0] for kv in ct[2]]
            return (ct[1] in (0, 1) and all(isinstance(k, str) for k in ks) and len(set(ks)) == len(ks)
                    and all(len(kv) == 2 and is_ctree(kv[1]) for kv in ct[2]))
        if t == "l":
            return ct[1] in (0, 1) and all(is_ctree(v) for v in ct[2])
    except Exception:
        return False
    return False


def wf_parse(s, enc):
    """a conforming parser on the exported document: as bytes in the declared encoding (utf-8 when none / an unknown one is
    declared); a document whose text the declared encoding cannot hold exists as text only and is parsed as text"""
    import codecs
    try:
        codecs.lookup(enc or "utf-8")
        data = s.encode(enc or "utf-8")
    except LookupError:
        data = s.encode("utf-8")
    except UnicodeEncodeError:
        data = s
    return ET.fromstring(data)


class C12(Prop):
    id = "C12"
    props_file = "Props/C12.v"
    refuted_file = "Refuted/C12.v"
    rule = ("XML-shaped trees: one root element over 10 element names (incl. Parm/ParmCode/Value, a non-ASCII name), values = "
            "text over the critical alphabet (< > & quotes, non-ASCII, characters of the entity table incl. U+2003 which str.strip "
            "drops, blanks, newlines, entity-like and markup-like words, CDATA sections and near-misses), None, ints, half floats, "
            "bools, nested elements, repeated elements (lists of >= 2 texts / records); exhaustive texts up to a length bound; "
            "x indent in {4,0,1,2,7,-1} x encoding in {utf-8, None, UTF-8, ''} x quote in {\", '}; plus trees outside the domain "
            "(several roots, attribute keys, bytes, nested / short lists, control characters) for the model alone; XML texts "
            "(exports, hand-made documents with attributes, comments, mixed content, truncated) through n0dict(text); random element "
            "trees (mixed content, repeated / interleaved names, blank chunks, CDATA) for the Spec's restatement of xmltodict. "
            "non-trivial = the call returned; distinct = distinct (stream, input)")
    trusted_base = [
        "xml.etree.ElementTree / expat decide well-formedness, xmltodict.parse is the reference loader: oracles on the "
        "implementation side, an input (its result) on the model side of the load stream; Export/XmlGrammar.v is the Coq-side "
        "statement of well-formedness for the subset the writer emits",
        "str(int), repr(float) of halves: modelled (Export/Util), validated by the toxml stream",
    ]
    assumptions = ["floats are halves k/2 with |k| < 2^53; keys are strings; text values contain only characters XML 1.0 can carry "
                   "(no C0 controls but tab/newline, no carriage return: XML line-end normalisation is outside the statement)"]
    streams = {
        "toxml": dict(requires=["Export.Xml"], itype="xopts * tree", model="obs_to_xml"),
        "load": dict(requires=["Export.Xml"], itype="pstr * option tree", model="obs_load_xml"),
        # the Spec's restatement of xmltodict (Export/XmlGrammar.x2d_root) against the real xmltodict
        "x2d": dict(requires=["Export.XmlGrammar"], itype="xnode", model="fun n => Ok (x2d_root n)"),
    }

    def setup(self):
        import n0struct
        import xmltodict
        self.n0dict, self.n0list, self.xmltodict = n0struct.n0dict, n0struct.n0list, xmltodict

    # ---- generation ------------------------------------------------------------------------
    def r_text(self, rng):
        k = rng.random()
        if k < 0.08:
            inner = "".join(rng.choice(['a', '<', '&', ' ', '\n', ']', '>', 'é']) for _ in range(rng.choice([0, 1, 3, 5])))
            return rng.choice(["", " ", "\n  "]) + CD_OPEN + inner + CD_CLOSE + rng.choice(["", " ", "\n"])
        if k < 0.12:
            return rng.choice(["<![cdata[x]]>", "<![CDATA[a]]><b/><![CDATA[c]]>", "<![CDATA[a]]>x", "x<![CDATA[a]]>",
                               "<![CDATA[]]]>", "<![CDATA[]>", "<![CDATA[a]]>]]>"])
        if k < 0.25:
            return rng.choice(WORDS)
        al = CHARS if k < 0.75 else CHARS + CHARS_MORE
        return "".join(rng.choice(al) for _ in range(rng.choice([0, 1, 1, 2, 3, 5])))

    def r_leaf(self, rng):
        k = rng.random()
        if k < 0.6:
            return ["s", self.r_text(rng)]
        if k < 0.74:
            return ["n"]
        if k < 0.84:
            return ["i", rng.choice(INTS)]
        if k < 0.92:
            return ["f", rng.choice(HALVES)]
        return ["b", rng.random() < 0.5]

    def r_dict(self, rng, depth):
        ks = rng.sample(NAMES, rng.choice([0, 1, 1, 2, 2, 3]))
        if rng.random() < 0.25:
            ks = [k for k in ['Parm', 'ParmCode', 'Value'] if rng.random() < 0.8] + ks[:1]
            ks = list(dict.fromkeys(ks))
        return ["d", rng.randint(0, 1), [[k, self.r_val(rng, depth - 1)] for k in ks]]

    def r_val(self, rng, depth):
        k = rng.random()
        if depth <= 0 or k < 0.45:
            return self.r_leaf(rng)
        if k < 0.75:
            return self.r_dict(rng, depth)
        n = rng.choice([1, 2, 2, 3])
        if rng.random() < 0.5:
            return ["l", rng.randint(0, 1), [self.r_leaf(rng) for _ in range(n)]]
        return ["l", rng.randint(0, 1), [self.r_dict(rng, depth - 1) if rng.random() < 0.8 else self.r_leaf(rng) for _ in range(n)]]

    def r_opts(self, rng):
        return {"indent": rng.choice(INDENTS), "encoding": rng.choice(ENCODINGS), "quote": rng.choice(QUOTES)}

    def r_outside(self, rng):
        """trees outside the XML-shaped domain (model only)"""
        k = rng.random()
        base = self.r_dict(rng, 2)
        if k < 0.2:
            return ["d", 1, [[n, self.r_val(rng, 1)] for n in rng.sample(NAMES, rng.choice([0, 2, 3]))]]
        if k < 0.45:
            v = rng.choice([["s", "1"], ["i", 5], ["n"], ["d", 1, []], ["l", 0, []], ["s", ""]])
            kv = ["@id", v]
            inner = ["d", 1, [kv] + base[2][:1]] if rng.random() < 0.5 else ["d", 1, base[2][:1] + [kv]]
            return ["d", 1, [["r", inner]]]
        if k < 0.55:
            return ["d", 1, [["r", ["d", 1, base[2][:1] + [["z", ["y", [65, 66]]]]]]]]
        if k < 0.75:
            lst = rng.choice([["l", 0, []], ["l", 1, [self.r_leaf(rng)]], ["l", 0, [["l", 0, [["s", "1"], ["s", "2"]]], ["l", 0, [["s", "3"]]]]],
                              ["l", 1, [["d", 1, []], ["d", 0, []]]]])
            return ["d", 1, [["r", ["d", 1, [["a", lst]] + base[2][:1]]]]]
        if k < 0.85:
            return ["d", 1, [["r", ["s", rng.choice(["\x01", "a\rb", "\x0b", "￾"])]]]]
        if k < 0.93:
            return ["d", 1, [[rng.choice(["a b", "1a", "", "a<b", "#text"]), self.r_val(rng, 1)]]]
        return ["d", 1, [["r", ["l", 1, [self.r_leaf(rng), self.r_leaf(rng)]]]]]

    def generate(self, rng, tier):
        quick = tier == "quick"
        out = []

        def tx(tag, tree, opts):
            out.append({"stream": "toxml", "tag": tag, "input": {"tree": tree, "opts": opts}})

        combos = list(itertools.product(INDENTS, ENCODINGS, QUOTES))
        maxlen = 2 if quick else 3
        strings = [""]
        for n in range(1, maxlen + 1):
            strings += ["".join(t) for t in itertools.product(CHARS, repeat=n)]
        strings += WORDS + CHARS_MORE + [CD_OPEN + s + CD_CLOSE for s in ["", "<q>", "a]]", "]]>", " x ", "&", "é€", "цена", "a € b"]]
        for i, s in enumerate(strings):
            ind, enc, q = combos[i % len(combos)]
            o = {"indent": ind, "encoding": enc, "quote": q}
            tx("exh:text", ["d", 1, [["r", ["d", 1, [["a", ["s", s]]]]]]], o)
            if i % 3 == 0:
                tx("exh:root", ["d", 1, [["r", ["s", s]]]], o)
            if i % 3 == 2:
                tx("exh:item1", ["d", 1, [["r", ["d", 1, [["a", ["l", 1, [["s", s]]]]]]]]], o)
            if i % 3 == 1:
                tx("exh:item", ["d", 1, [["r", ["d", 0, [["a", ["l", 1, [["s", s], ["s", "x" + s]]]], ["Value", ["s", s]]]]]]], o)
        shapes = [
            ["d", 1, [["r", ["n"]]]], ["d", 1, [["r", ["s", "x"]]]], ["d", 1, [["r", ["i", 1]]]],
            ["d", 1, [["r", ["d", 1, [["a", ["s", "1"]], ["b", ["s", "2"]]]]]]],
            ["d", 1, [["r", ["d", 1, [["a", ["l", 1, [["s", "1"], ["s", "2"]]]]]]]]],
            ["d", 1, [["r", ["d", 1, [["a", ["l", 1, [["d", 1, [["b", ["s", "1"]]]], ["d", 1, [["b", ["s", "2"]], ["c", ["n"]]]]]]]]]]]],
            ["d", 1, [["r", ["d", 1, [["Parm", ["d", 1, [["ParmCode", ["s", "A"]], ["Value", ["s", "B"]]]]]]]]]],
            ["d", 1, [["r", ["d", 1, [["Parm", ["l", 1, [["d", 1, [["ParmCode", ["s", "A"]], ["Value", ["s", "B"]]]],
                                                            ["d", 1, [["ParmCode", ["s", "C"]], ["Value", ["s", "D"]]]]]]]]]]]],
            ["d", 1, [["r", ["d", 1, [["a", ["s", "1"]], ["Parm", ["s", "p"]], ["Value", ["s", "v"]], ["b", ["d", 1, [["c", ["s", "2"]]]]]]]]]],
            ["d", 1, [["r", ["d", 1, [["a", ["d", 1, [["b", ["d", 1, [["c", ["s", "x\ny"]]]]]]]]]]]]],
            ["d", 1, [["r", ["d", 1, [["a", ["d", 1, []]], ["b", ["l", 0, []]], ["c", ["s", ""]]]]]]],
            ["d", 1, [["Parm", ["d", 1, [["Value", ["s", "<![CDATA[<q>]]>"]]]]]]],
            ["d", 1, [["r", ["d", 1, [["a", ["b", True]], ["b", ["f", 3]], ["c", ["i", -7]]]]]]],
        ]
        for sh in shapes:
            for ind, enc, q in (combos[::3] if quick else combos):
                tx("shape", sh, {"indent": ind, "encoding": enc, "quote": q})
        n = 900 if quick else 50000
        for _ in range(n):
            root = rng.choice(NAMES)
            v = self.r_val(rng, rng.choice([1, 2, 3, 3]))
            if v[0] == "l":
                v = ["d", 1, [["a", v]]]
            tx("rnd", ["d", 1, [[root, v]]], self.r_opts(rng))
        for _ in range(150 if quick else 6000):
            tx("outside", self.r_outside(rng), self.r_opts(rng))
        # ---- numbers outside the shared value type (not halves): very small / very large doubles, 17 significant
        #      digits, integers beyond 2**53.  Oracle only: the number comes back as the text of the same number.
        hard = [1.5e-07, 1.2345678e-05, 1e-05, 2.5e-05, 1e+16, 0.1 + 0.2, 1 / 3, 123456789.12345679, 5e-324, 1.7976931348623157e308,
                1e-10, 0.000123456789, 12345678901234567890, -9007199254740993, 4.35]
        for _ in range(100 if quick else 3000):
            root = rng.choice(NAMES)
            v = self.r_val(rng, rng.choice([1, 2, 3]))
            if v[0] == "l":
                v = ["d", 1, [["a", v]]]
            ct = ["d", 1, [[root, v]]]
            if not shaped(ct):
                continue
            py = plain(ct)
            py = hard_numbers(rng, py, hard)
            out.append({"stream": "toxml_f", "tag": "numbers", "input": {"tree": py, "opts": self.r_opts(rng)}})
            # the same object exported, changed in place (one leaf of a nested element), exported again with the same options:
            # the second document is the document of the tree as it is now
            leaves = [p for p in py_positions(py) if len(p) >= 2 and isinstance(p[-1], str)]
            if leaves and rng.random() < 0.7:
                lp = rng.choice(leaves)
                out.append({"stream": "toxml_f", "tag": "re-export", "input": {"tree": py, "opts": self.r_opts(rng),
                                                                               "pre": {"path": lp, "old": rng.choice(["old text", 0, None])}}})
        # ---- documents of realistic size: a text of hundreds / thousands of characters, hundreds of repeated elements
        #      (the document text is longer than any file name or path may be).  Oracle only (size of the Coq literal).
        for _ in range(8 if quick else 60):
            ln = rng.choice([256, 300, 1000, 4096, 5000, 70000])
            word = rng.choice(["x", "ab ", "lorem ipsum ", "é", "1"])
            text = (word * (ln // len(word) + 1))[:ln].strip() or "x"
            py = rng.choice([
                {"r": {"a": text}}, {"r": text}, {"r": {"a": "1", "b": {"c": text}}},
                {"r": {"item": ["item %d" % k for k in range(rng.choice([40, 400]))]}},
                {"r": {"row": [{"id": str(k), "v": rng.choice(["x", "y", None])} for k in range(rng.choice([30, 300]))]}},
            ])
            out.append({"stream": "toxml_f", "tag": "long", "input": {"tree": py, "opts": self.r_opts(rng)}})
        # ---- loading -------------------------------------------------------------------------
        for _ in range(250 if quick else 12000):
            k = rng.random()
            if k < 0.5:
                root = rng.choice(NAMES)
                v = self.r_val(rng, rng.choice([1, 2, 3]))
                if v[0] == "l":
                    v = ["d", 1, [["a", v]]]
                o = self.r_opts(rng)
                try:
                    text = self.build(["d", 1, [[root, v]]]).to_xml(indent=o["indent"], encoding=o["encoding"], quote=o["quote"])
                    assert isinstance(text, str)
                except Exception:  # noqa  (a broken exporter is the toxml stream's business)
                    text = self.r_doc(rng)
            else:
                text = self.r_doc(rng)
            k = rng.random()
            if k < 0.25:
                text = rng.choice(["", " ", "\n", "\t \n"]) + text + rng.choice(["", " ", "\n\n"])
            elif k < 0.35 and text:
                text = text[:rng.randrange(len(text))]
            elif k < 0.4:
                text = rng.choice(["", " ", "hello", "<", "<a>", "<a></b>", "x<a/>", "<a/><b/>"])
            out.append({"stream": "load", "tag": "load", "input": {"text": text}})
        # ---- element trees for the x2d stream ---------------------------------------------------
        for _ in range(300 if quick else 15000):
            out.append({"stream": "x2d", "tag": "x2d", "input": {"node": self.r_node(rng, rng.choice([1, 2, 3]))}})
        return out

    def r_node(self, rng, depth):
        """["e", name, kids] / ["t", text]: repeated and interleaved names, mixed content, blank texts"""
        name = rng.choice(['a', 'b', 'c', 'Parm'])
        kids = []
        for _ in range(rng.choice([0, 1, 1, 2, 3, 4]) if depth > 0 else rng.choice([0, 1, 1, 2])):
            k = rng.random()
            if depth > 0 and k < 0.6:
                kids.append(self.r_node(rng, depth - 1))
            elif k < 0.8:
                kids.append(["t", rng.choice([" ", "\n  ", "", "\t", " \n"])])
            else:
                kids.append(["t", "".join(rng.choice(['a', 'b', ' ', '\n', '<', '&', 'é', ' ', ']', '>']) for _ in range(rng.choice([1, 2, 3])))])
        return ["e", name, kids]

    @staticmethod
    def node_xml(n, rng_flag=0):
        from xml.sax.saxutils import escape
        if n[0] == "t":
            if "]]>" not in n[1] and len(n[1]) % 2 == rng_flag and n[1]:
                return "<![CDATA[%s]]>" % n[1]
            return escape(n[1])
        if not n[2]:
            return "<%s/>" % n[1]
        return "<%s>%s</%s>" % (n[1], "".join(C12.node_xml(k, rng_flag) for k in n[2]), n[1])

    @staticmethod
    def node_lit(n):
        if n[0] == "t":
            return "XText %s" % L.pstr(n[1])
        return "XElem %s %s" % (L.pstr(n[1]), L.lst(C12.node_lit(k) for k in n[2]))

    @staticmethod
    def is_node(n, root=True):
        try:
            if n[0] == "t":
                return (not root) and isinstance(n[1], str) and all(xml_char_ok(c) for c in n[1])
            return n[0] == "e" and bool(NAME_RE.match(n[1])) and all(C12.is_node(k, False) for k in n[2])
        except Exception:
            return False

    def r_doc(self, rng, depth=3):
        """a hand-made XML document: attributes, comments, mixed content, CDATA, references"""
        def elem(d):
            name = rng.choice(['a', 'b', 'c', 'Parm', 'é'])
            attrs = "".join(' %s="%s"' % (a, rng.choice(["1", "x y", "&lt;", ""])) for a in rng.sample(['id', 'k'], rng.choice([0, 0, 1, 2])))
            if d <= 0 or rng.random() < 0.3:
                k = rng.random()
                if k < 0.3:
                    return "<%s%s/>" % (name, attrs)
                body = rng.choice(["x", " x ", "&amp;&#65;&#x42;", "<![CDATA[<q>&]]>", "é€", "", "a\nb", "<!-- c -->y"])
                return "<%s%s>%s</%s>" % (name, attrs, body, name)
            kids = [elem(d - 1) for _ in range(rng.choice([1, 2, 3]))]
            sep = rng.choice(["", "\n  ", " "])
            mixed = rng.choice(["", "", "t"])
            return "<%s%s>%s%s%s%s</%s>" % (name, attrs, sep, (sep + mixed).join(kids), sep, "", name)
        decl = rng.choice(["", '<?xml version="1.0" encoding="utf-8"?>\n', "<?xml version='1.0'?>"])
        return decl + elem(depth)

    def valid(self, case):
        i = case["input"]
        if case.get("stream") == "toxml_f":
            return False
        if case.get("stream") == "toxml":
            o = i.get("opts", {})
            t = i.get("tree")
            return (is_ctree(t) and t[0] == "d" and t[1] == 1 and isinstance(o.get("indent"), int) and abs(o["indent"]) <= 8
                    and o.get("encoding") in ENCODINGS and o.get("quote") in QUOTES)
        if case.get("stream") == "x2d":
            return C12.is_node(i.get("node"))
        return isinstance(i.get("text"), str)

    # ---- implementation ----------------------------------------------------------------------
    def build(self, ct):
        return L.uncanon(ct, wrap=True)

    def parsed(self, text):
        try:
            return ("ok", self.xmltodict.parse(text.strip()))
        except Exception:  # noqa  (ExpatError and the like)
            return ("bad", None)

    def wrap_all(self, v):
        if isinstance(v, dict):
            return self.n0dict({k: self.wrap_all(x) for k, x in v.items()})
        if isinstance(v, list):
            return self.n0list([self.wrap_all(x) for x in v])
        return v

    def run_impl(self, case):
        i = case["input"]
        if case["stream"] == "toxml_f":
            o = i["opts"]
            x = self.wrap_all(i["tree"])
            if i.get("pre"):
                path = i["pre"]["path"]
                holder = x
                for st in path[:-1]:
                    holder = dict.__getitem__(holder, st) if isinstance(holder, dict) else list.__getitem__(holder, st)
                new = dict.__getitem__(holder, path[-1])
                dict.__setitem__(holder, path[-1], i["pre"]["old"])
                x.to_xml(indent=o["indent"], encoding=o["encoding"], quote=o["quote"])       # first export (of the earlier content)
                dict.__setitem__(holder, path[-1], new)                                       # changed in place
            s = x.to_xml(indent=o["indent"], encoding=o["encoding"], quote=o["quote"])
            if not isinstance(s, str):
                raise TypeError("to_xml returned %s" % type(s).__name__)
            ob = {"ok": ["s", s]}
            try:
                wf_parse(s, o["encoding"])
                ob["wf"] = None
            except Exception as e:  # noqa
                ob["wf"] = "%s: %s" % (type(e).__name__, str(e)[:80])
            try:
                ob["back_py"] = unwrap(self.n0dict(s))
            except Exception as e:  # noqa
                ob["back_exc"] = "%s: %s" % (type(e).__name__, str(e)[:80])
            return ob
        if case["stream"] == "toxml":
            o = i["opts"]
            x = self.build(i["tree"])
            s = x.to_xml(indent=o["indent"], encoding=o["encoding"], quote=o["quote"])
            if not isinstance(s, str):
                raise TypeError("to_xml returned %s" % type(s).__name__)
            ob = {"ok": ["s", s]}
            if shaped(i["tree"]):
                # well-formed for a conforming parser?
                try:
                    wf_parse(s, o["encoding"])
                    ob["wf"] = None
                except Exception as e:  # noqa
                    ob["wf"] = "%s: %s" % (type(e).__name__, str(e)[:80])
                try:
                    back = self.n0dict(s)
                    ob["back"] = L.erase_tags(L.canon(back))
                    ob["back_n0"] = all_dicts_are(back, self.n0dict)
                except Exception as e:  # noqa
                    ob["back_exc"] = "%s: %s" % (type(e).__name__, str(e)[:80])
                st, ref = self.parsed(s)
                ob["ref"] = L.erase_tags(L.canon(unwrap(ref))) if st == "ok" else None
            return ob
        if case["stream"] == "x2d":
            text = C12.node_xml(i["node"], len(i["node"][2]) % 2)
            return {"ok": L.erase_tags(L.canon(unwrap(self.xmltodict.parse(text)))), "text": text}
        text = i["text"]
        x = self.n0dict(text)
        ob = {"ok": L.canon(x)}
        st, ref = self.parsed(text)
        if st == "ok":
            ob["same"] = unwrap(x) == unwrap(ref)
            ob["n0"] = all_dicts_are(x, self.n0dict)
        return ob

    def coq_input(self, case):
        i = case["input"]
        if case["stream"] == "toxml":
            o = i["opts"]
            return "({| x_indent := %s; x_encoding := %s; x_quote := %s |}, %s)" % (
                L.z(o["indent"]), L.pstr(o["encoding"] or ""), L.pstr(o["quote"]), L.tree(i["tree"]))
        if case["stream"] == "x2d":
            return "(%s)" % C12.node_lit(i["node"])
        st, ref = self.parsed(i["text"])
        p = None
        if st == "ok":
            p = "(%s)" % L.tree(L.erase_tags(L.canon(unwrap(ref), self.n0dict, self.n0list)))
        return "(%s, %s)" % (L.pstr(i["text"]), L.opt(p))

    # ---- the property on the implementation --------------------------------------------------
    def oracle(self, case, obs):
        i = case["input"]
        if case["stream"] == "toxml":
            if not shaped(i["tree"]):
                return None                      # outside the domain of the statement
            if "raise" in obs:
                return "to_xml raised %s" % obs.get("exc", obs["raise"])
            text = obs["ok"][1]
            if obs.get("wf"):
                return "to_xml output is not well-formed (%s): %r" % (obs["wf"], text[:200])
            if "back_exc" in obs:
                return "n0dict(to_xml output) raised %s: %r" % (obs["back_exc"], text[:200])
            want = xml_norm(plain(i["tree"]))
            got = plain(obs["back"])
            if got != want:
                return "n0dict(x.to_xml()) = %r, expected %r (XML normalisations applied)" % (got, want)
            if obs.get("ref") is None or plain(obs["ref"]) != got:
                return "n0dict(text) differs from xmltodict.parse(text) for the exported text %r" % text[:200]
            return None
        if case["stream"] == "toxml_f":
            if "raise" in obs:
                return "to_xml raised %s" % obs.get("exc", obs["raise"])
            text = obs["ok"][1]
            if obs.get("wf"):
                return "to_xml output is not well-formed (%s): %r" % (obs["wf"], text[:200])
            if "back_exc" in obs:
                return "n0dict(to_xml output) raised %s: %r" % (obs["back_exc"], text[:200])
            want, got = xml_norm(i["tree"]), obs["back_py"]

            def same_number_text(w, g):
                # a number comes back as text of the same number (its spelling is the exporter's choice)
                if isinstance(w, dict) and isinstance(g, dict):
                    return w.keys() == g.keys() and all(same_number_text(w[k], g[k]) for k in w)
                if isinstance(w, list) and isinstance(g, list):
                    return len(w) == len(g) and all(same_number_text(a, b) for a, b in zip(w, g))
                if isinstance(w, str) and isinstance(g, str) and w != g:
                    try:
                        return (int(w) == int(g)) if (w.lstrip("-").isdigit() and g.lstrip("-").isdigit()) else float(w) == float(g)
                    except ValueError:
                        return False
                return w == g
            if not same_number_text(want, got):
                return "n0dict(x.to_xml()) = %r, expected %r (numbers as text of the same number)" % (got, want)
            return None
        if case["stream"] == "x2d":
            return None                          # a stream about the Spec's model of xmltodict, not about the repository
        text = i["text"]
        st, ref = self.parsed(text)
        s = text.strip()
        if not s or s[0] != "<":
            return None
        if st == "bad":
            return None if "raise" in obs else "n0dict accepted XML text that xmltodict rejects: %r" % text[:100]
        if "raise" in obs:
            return "n0dict raised %s on XML text xmltodict accepts: %r" % (obs.get("exc", obs["raise"]), text[:100])
        if not obs.get("same"):
            return "n0dict(text) differs from xmltodict.parse(text) for %r" % text[:100]
        return None


PROP = C12
