"""C17 — delimited list / key=value / INI text decodes to what was encoded."""
import itertools
import os
import re
import shutil
import tempfile
import warnings

from n0v import coqlit as L
from n0v.core import Prop

DELIMS = [";", ",", "|", "&", "\t"]
EQS = ["=", ":"]
ESCS = ["\\", "\\", "\\", "^", None, ""]


def alphabet(d, eq="=", esc="\\"):
    other = "," if d != "," else ";"
    return ["a", "b", d, d, other, eq, esc or "\\", esc or "\\", "{", "}", "[", "]", '"', " "]


def optn(x, f):
    return "None" if x is None else "(Some %s)" % f(x)


def chrn(c):
    return "%d%%N" % ord(c)


def ctree_ok(t):
    if not isinstance(t, list) or not t:
        return False
    if t[0] == "n":
        return len(t) == 1
    if t[0] in ("b", "i", "s"):
        return len(t) == 2 and isinstance(t[1], {"b": bool, "i": int, "s": str}[t[0]])
    if t[0] == "d":
        return len(t) == 3 and len({k for k, _ in t[2]}) == len(t[2]) and all(isinstance(k, str) and ctree_ok(v) for k, v in t[2])
    if t[0] == "l":
        return len(t) == 3 and all(ctree_ok(v) for v in t[2])
    return False


def has_none_in_list(t):
    if t[0] == "l":
        return any(v[0] == "n" or has_none_in_list(v) for v in t[2])
    if t[0] == "d":
        return any(has_none_in_list(v) for _, v in t[2])
    return False


def all_str_keys_ascii(t, i):
    """upper/lower-casing is only demanded to work; nothing else can legitimately fail"""
    return True


def ini_canon(d):
    """dict of str/int/float -> ctree with floats as 'float:' + repr"""
    out = []
    for k, v in d.items():
        if isinstance(v, float):
            out.append([k, ["s", "float:" + repr(v)]])
        else:
            out.append([k, L.canon(v)])
    return ["d", 0, out]


INT_RE = re.compile(r"[+-]?[0-9]+\Z")
FLT_RE = re.compile(r"[+-]?([0-9]+\.[0-9]*|\.[0-9]+)\Z")


def ref_typed(v):
    s = v.strip()
    if INT_RE.match(s):
        return int(s)
    if FLT_RE.match(s):
        return round(float(s), 7)
    if len(s) >= 2 and s[0] == s[-1] and s[0] in "'\"":
        return s[1:-1]
    return s


def ref_ini(lines, eq, comments, concat):
    """reference reading of INI lines: comments and blank lines skipped, KEY upper-cased and stripped,
    typed numbers, quotes stripped, 'key+=' concatenates; None = outside the reference's domain"""
    res = {}
    for line in lines:
        s = line.lstrip()
        if not s or any(s.startswith(c) for c in comments):
            continue
        k, sep, v = s.partition(eq)
        key = k.strip().upper()
        val = ref_typed(v)
        if key.endswith("+"):
            key = key[:-1]
            val = (str(res[key]) if key in res else concat) + str(val)
        res[key] = val
    return res


def trailing(s, e):
    n = 0
    while n < len(s) and s[len(s) - 1 - n] == e:
        n += 1
    return n


class C17(Prop):
    id = "C17"
    props_file = "Props/C17.v"
    refuted_file = "Refuted/C17.v"
    case_timeout = 5
    rule = ("texts / item lists / mappings over the critical alphabet {letters, delimiter, other delimiter, equal sign, escape "
            "character, braces, brackets, quote, blank}; delimiters ; , | & TAB, equal tags = :, escape \\ ^ or off, trim on/off, "
            "maxsplit None/0/1/2/3, parse_empty on/off; an exhaustive scope of all texts up to a length bound over "
            "{letter, delimiter, escape} x maxsplit x trim. "
            "non-trivial = returned a value (no exception); distinct = distinct (stream, input)")
    trusted_base = [
        "str.split(sep, maxsplit) for a one-character separator: modelled by Base/PyStr.split_chr(_max), validated by correspondence",
    ]
    assumptions = [
        "delimiter, equal tag and escape character are single characters (or escape off)",
    ]
    streams = {
        "split": dict(requires=["Codec.Util", "Codec.Split"], itype="split_in", model="obs_split"),
        "deser_list": dict(requires=["Codec.Util", "Codec.Split"], itype="((pstr * N) * bool) * option N", model="obs_deser_list"),
        "deser_kv": dict(requires=["Codec.Util", "Codec.Split"], itype="((pstr * N) * option pstr) * tree", model="obs_deser_kv"),
        "deser_dict": dict(requires=["Codec.Util", "Codec.Split"],
                           itype="((((pstr * N) * bool) * N) * option pstr) * tree", model="obs_deser_dict"),
        "serialize": dict(requires=["Codec.Util", "Codec.Split", "Codec.Serialize"], itype="ser_cfg * tree", model="obs_serialize"),
        "ser_rt": dict(requires=["Codec.Util", "Codec.Split", "Codec.Serialize"], itype="ser_cfg * tree", model="obs_ser_rt"),
        "unescape": dict(requires=["Codec.Util", "Codec.Split", "Codec.Serialize"], itype="tree", model="obs_unescape"),
        "parse_ini": dict(requires=["Codec.Util", "Codec.Ini"], itype="ini_cfg * list pstr", model="obs_parse_ini"),
        "ini_file": dict(requires=["Codec.Util", "Codec.Ini"], itype="list (pstr * scalar)", model="obs_ini_file"),
        # a file of raw lines (blank lines, comments, junk) through load_ini = parse_ini over the lines of the file
        "ini_text": dict(requires=["Codec.Util", "Codec.Ini"], itype="ini_cfg * list pstr", model="obs_parse_ini"),
    }

    def setup(self):
        import n0struct
        warnings.simplefilter("ignore")
        self.n0 = n0struct
        self.tmp = tempfile.mkdtemp(prefix="n0v-")

    def teardown(self):
        shutil.rmtree(getattr(self, "tmp", ""), ignore_errors=True)

    # ---- generation -----------------------------------------------------------
    def _text(self, rng, al, lens=(0, 1, 2, 3, 4, 6, 9, 14)):
        return "".join(rng.choice(al) for _ in range(rng.choice(lens)))

    def generate(self, rng, tier):
        quick = tier == "quick"
        out = []
        # (1) split_with_escape, exhaustive small scope
        maxlen = 5 if quick else 7
        for n in range(0, maxlen + 1):
            for tup in itertools.product(["a", ";", "\\"], repeat=n):
                s = "".join(tup)
                combos = [(m, t) for m in (None, 0, 1, 2, 3) for t in (True, False)]
                if quick:
                    combos = [(None, True), (None, False), rng.choice(combos[2:])]
                for m, t in combos:
                    out.append({"stream": "split", "tag": "exh:split",
                                "input": {"s": s, "d": ";", "m": m, "esc": "\\", "trim": t}})
        # (2) random split calls
        for _ in range(900 if quick else 25000):
            d, esc = rng.choice(DELIMS), rng.choice(ESCS)
            al = alphabet(d, "=", esc)
            s = self._text(rng, al)
            if rng.random() < 0.3 and esc:
                s = s.replace(esc, "a")          # texts without the escape character
            out.append({"stream": "split", "tag": "rnd:split",
                        "input": {"s": s, "d": d, "m": rng.choice([None, None, 0, 1, 2, 3]), "esc": esc,
                                  "trim": rng.random() < 0.6}})
        # (2b) structured: items ending in escape runs of every parity, several escaped delimiters per text
        #      (the re-join / restart logic only shows with two or more re-joins away from the first item)
        for _ in range(500 if quick else 12000):
            d, esc = rng.choice(DELIMS), "\\"
            items = []
            for _ in range(rng.randint(2, 8)):
                body = "".join(rng.choice("abk") for _ in range(rng.randint(0, 2)))
                items.append(body + esc * rng.choice([0, 0, 1, 1, 2, 2, 3, 4]))
            out.append({"stream": "split", "tag": "runs:split",
                        "input": {"s": d.join(items), "d": d, "m": rng.choice([None, None, None, 0, 2, 3]), "esc": esc,
                                  "trim": rng.random() < 0.7}})
        # (3) join then deserialize_list
        for _ in range(500 if quick else 10000):
            d, esc = rng.choice(DELIMS), rng.choice(ESCS)
            al = alphabet(d, "=", esc)
            clean = rng.random() < 0.7
            items = []
            for _ in range(rng.choice([1, 1, 2, 3, 4, 6])):
                it = self._text(rng, al, (0, 0, 1, 2, 3, 5))
                if clean:
                    it = it.replace(d, "a")
                    if esc:
                        it = it.replace(esc, "b")
                items.append(it)
            out.append({"stream": "deser_list", "tag": "rnd:deser_list" + (":clean" if clean else ":dirty"),
                        "input": {"items": items, "d": d, "pe": rng.random() < 0.5, "esc": esc}})
        # (3b) the fixed-length variant: the first n items (empty items dropped unless parse_empty), padded with the default.
        #      Oracle only: its reference is the item list itself.
        for _ in range(120 if quick else 3000):
            d = rng.choice(DELIMS)
            al = [c for c in alphabet(d, "=", None) if c != d]
            items = [self._text(rng, al, (0, 0, 1, 2, 3)) for _ in range(rng.choice([0, 1, 2, 3, 4, 6]))]
            out.append({"stream": "deser_fixed", "tag": "rnd:deser_fixed",
                        "input": {"items": items, "d": d, "pe": rng.random() < 0.5, "n": rng.choice([0, 1, 2, 3, 5]),
                                  "dflt": rng.choice([None, "D"])}})
        # (4) key=value and dict
        for _ in range(350 if quick else 8000):
            d, eq = rng.choice(DELIMS), rng.choice(EQS)
            al = alphabet(d, eq)
            dk = rng.choice([None, None, None, "", "K"])
            dv = rng.choice([None, None, "", "D"])
            if rng.random() < 0.4:
                out.append({"stream": "deser_kv", "tag": "rnd:deser_kv",
                            "input": {"s": self._text(rng, al, (0, 1, 2, 3, 5)), "eq": eq, "dk": dk, "dv": dv}})
            else:
                parts = []
                for _ in range(rng.choice([0, 1, 2, 3, 4])):
                    k = self._text(rng, ["a", "b", "c", " "], (0, 1, 1, 2))
                    v = self._text(rng, al, (0, 1, 2, 3)).replace(d, "")
                    parts.append(k + eq + v if rng.random() < 0.75 else k)
                out.append({"stream": "deser_dict", "tag": "rnd:deser_dict",
                            "input": {"s": d.join(parts), "d": d, "pe": rng.random() < 0.4, "eq": eq, "dk": dk, "dv": dv}})
        self._gen_serialize(rng, quick, out)
        self._gen_ini(rng, quick, out)
        return out

    # serialize_dict / unescape -------------------------------------------------------
    def _leaf(self, rng, al):
        k = rng.random()
        if k < 0.75:
            return ["s", self._text(rng, al, (0, 1, 2, 3, 5))]
        if k < 0.87:
            return ["i", rng.choice([0, 7, -3, 120, 10 ** 9])]
        if k < 0.94:
            return ["b", rng.random() < 0.5]
        return ["n"]

    def _tree(self, rng, al, depth):
        k = rng.random()
        if depth == 0 or k < 0.45:
            return self._leaf(rng, al)
        n = rng.choice([0, 1, 2, 3])
        if k < 0.8:
            keys = []
            for _ in range(n):
                key = self._text(rng, ["a", "b", "K", " ", "é"], (0, 1, 1, 2))
                if key not in keys:
                    keys.append(key)
            return ["d", 0, [[key, self._tree(rng, al, depth - 1)] for key in keys]]
        return ["l", 0, [self._tree(rng, al, depth - 1) for _ in range(n)]]

    def _gen_serialize(self, rng, quick, out):
        for _ in range(450 if quick else 10000):
            d, eq = rng.choice(DELIMS), rng.choice(EQS)
            al = alphabet(d, eq) + ["é", "x", "5"]
            cfg = {"d": d, "eq": eq, "ge": True, "gn": True, "ck": 0, "cv": 0}
            k = rng.random()
            if k < 0.45:
                # flat str -> str mapping, default options: the round trip
                m, keys = [], set()
                for _ in range(rng.choice([0, 1, 2, 3, 4])):
                    key = self._text(rng, ["a", "b", "K", " ", "\\", "{", "x"], (0, 1, 1, 2, 3))
                    if key in keys:
                        continue
                    keys.add(key)
                    val = self._text(rng, al, (0, 1, 2, 3, 5, 8))
                    if rng.random() < 0.8:
                        val = val.replace("é", "e")
                    m.append([key, ["s", val]])
                out.append({"stream": "ser_rt", "tag": "rnd:ser_rt", "input": dict(cfg, t=["d", 0, m])})
            elif k < 0.85:
                if rng.random() < 0.4:
                    cfg.update(ge=rng.random() < 0.5, gn=rng.random() < 0.5, ck=rng.choice([0, 1, -1, 2]), cv=rng.choice([0, 1, -1]))
                t = self._tree(rng, al, 3)
                if rng.random() < 0.7 and t[0] != "d":
                    t = ["d", 0, [["a", t]]]
                out.append({"stream": "serialize", "tag": "rnd:serialize", "input": dict(cfg, t=t)})
            else:
                ual = ["a", "\\", "\\", "x", "4", "1", "n", "t", "0", "7", "g", "é", "'", "\n", "u"]
                t = ["s", self._text(rng, ual, (0, 1, 2, 3, 4, 6))] if rng.random() < 0.7 else self._tree(rng, ual, 2)
                out.append({"stream": "unescape", "tag": "rnd:unescape", "input": {"t": t}})

        # delimiters / equal tags of several characters (oracle only: the model's delimiter is one character): values that
        # contain the delimiter, its single characters, the equal tag
        for _ in range(120 if quick else 3000):
            d, eq = rng.choice(["||", "; ", "<>", "|"]), rng.choice(["=", ":=", ": ", "="])
            al = ["a", "b", "x", " ", d, d[0], d[-1], eq, eq[0], "{", "\\", "5"]
            m, keys = [], set()
            for _ in range(rng.choice([1, 2, 3, 4])):
                key = self._text(rng, ["a", "b", "K", "x"], (1, 1, 2, 3))
                if key in keys:
                    continue
                keys.add(key)
                m.append([key, ["s", self._text(rng, al, (0, 1, 2, 3, 5))]])
            out.append({"stream": "ser_rt_m", "tag": "rnd:ser_rt_m", "input": {"d": d, "eq": eq, "ge": True, "gn": True, "ck": 0, "cv": 0, "t": ["d", 0, m]}})

    # parse_ini / load_ini ---------------------------------------------------------------
    NUMS = ["1", "12", "-3", "+4", "007", "1.5", "12345678901234567", "9999999999999999", "-9007199254740993", "-0.25", ".5", "2.", "1.25", "0.0", "-0.0", "100.125", ".", "-", "+", "- 5", "+ 5",
            "1.2.3", "1e3", "0.0001", "12345678.5", "1.1234567", "-.5", "+1.0", "00.50", "0",
            "--5", "+-7", "-+1.5", "++1", "-+", "5-", "5+", "--", "-1-2", "+.5", "-5."]
    INI_AL = ["a", "b", "Z", "1", " ", "=", "+", "#", "/", "'", '"', ".", "-", "é", "\t"]

    def _ini_value(self, rng):
        k = rng.random()
        if k < 0.35:
            v = rng.choice(self.NUMS)
        elif k < 0.5:
            q = rng.choice(["'", '"'])
            v = q + self._text(rng, ["a", " ", "=", "1", q], (0, 1, 2, 3)) + rng.choice([q, q, q, ""])
        else:
            v = self._text(rng, self.INI_AL, (0, 1, 2, 3, 5))
        return rng.choice(["", "", " ", "  "]) + v + rng.choice(["", "", " "])

    def _gen_ini(self, rng, quick, out):
        for _ in range(450 if quick else 10000):
            lines = []
            for _ in range(rng.choice([0, 1, 2, 3, 4, 6])):
                k = rng.random()
                if k < 0.12:
                    lines.append(rng.choice(["# c", "// c", "  # x=1", "", "   ", "/ a=1", "#"]))
                elif k < 0.2:
                    lines.append(self._text(rng, self.INI_AL, (1, 2, 3, 5)))
                else:
                    key = rng.choice(["a", "b", "k1", " a ", "Ab", "a+", "b+", "a +", "x", "x"] + (["é"] if rng.random() < 0.1 else [])) if rng.random() < 0.85 else self._text(rng, self.INI_AL, (0, 1, 2))
                    lines.append(rng.choice(["", "", " "]) + key + rng.choice(["=", "=", "=", " = ", ""]) + self._ini_value(rng))
            eq = "=" if rng.random() < 0.85 else ":"
            if eq != "=":
                lines = [l.replace("=", ":") for l in lines]
            out.append({"stream": "parse_ini", "tag": "rnd:parse_ini",
                        "input": {"lines": lines, "eq": eq, "comments": rng.choice([["#", "//"], ["#", "//"], [";"], []]),
                                  "concat": rng.choice(["\x16", "\x16", "", "+"])}})
        # systematic: 'KEY+=text' appends to whatever value KEY has - also a falsy one (0, 0.0, the empty text)
        for _ in range(30 if quick else 800):
            key = rng.choice(["a", "k1", "Ab", "x"])
            first = rng.choice(["0", "0.0", "", '""', "-0.0", "00", " 0 ", "+0"])
            more = rng.choice(["7", "x", "/usr/bin", "0", ".5"])
            lines = [rng.choice(["b=1", "# c", ""]), key + "=" + first, rng.choice(["", "b=2", "// c"]), key + "+=" + more]
            lines = [l for l in lines if l != "" or rng.random() < 0.5]
            out.append({"stream": "parse_ini", "tag": "sys:append-to-falsy",
                        "input": {"lines": lines, "eq": "=", "comments": ["#", "//"], "concat": rng.choice(["\x16", "\x16", "+"])}})
        for c in [c for c in out if c["stream"] == "parse_ini"][-(250 if quick else 5000):]:
            lines = [l for l in c["input"]["lines"]]
            if c["input"]["eq"] != "=" or any("\n" in l or "\r" in l for l in lines):
                continue
            # blank lines anywhere: at the start, between entries, at the end
            for _ in range(rng.choice([0, 1, 1, 2])):
                lines.insert(rng.randint(0, len(lines)), rng.choice(["", "", "", " "]))
            out.append({"stream": "ini_text", "tag": "rnd:ini_text",
                        "input": {"lines": lines, "eq": "=", "comments": ["#", "//"], "concat": "\x16",
                                  "final_eol": rng.random() < 0.7}})
        for _ in range(300 if quick else 6000):
            m, keys = [], set()
            for _ in range(rng.choice([0, 1, 2, 3, 4])):
                key = rng.choice(["a", "b", "key", "Ab", "k 1", " c", "d "]) if rng.random() < 0.85 else self._text(rng, self.INI_AL, (0, 1, 2))
                if key in keys or "\n" in key:
                    continue
                keys.add(key)
                k = rng.random()
                if k < 0.3:
                    v = rng.choice([0, 5, -12, 1000, 10 ** 10, 12345678901234567, 9999999999999999, -(2 ** 53) - 1])
                elif k < 0.35:
                    v = rng.choice([True, None])
                else:
                    v = self._ini_value(rng)
                m.append([key, v])
            out.append({"stream": "ini_file", "tag": "rnd:ini_file", "input": {"m": m}})

    def valid(self, case):
        i, st = case["input"], case["stream"]
        one = lambda x: isinstance(x, str) and len(x) == 1
        if st == "split":
            return isinstance(i.get("s"), str) and one(i.get("d")) and (i.get("esc") in (None, "") or one(i["esc"])) \
                and (i.get("m") is None or (isinstance(i["m"], int) and i["m"] >= 0))
        if st == "deser_fixed":
            return False
        if st == "deser_list":
            return isinstance(i.get("items"), list) and len(i["items"]) >= 1 and one(i.get("d")) and (i.get("esc") in (None, "") or one(i["esc"]))
        if st == "deser_kv":
            return isinstance(i.get("s"), str) and one(i.get("eq"))
        if st == "deser_dict":
            return isinstance(i.get("s"), str) and one(i.get("eq")) and one(i.get("d")) and i["d"] != i["eq"]
        if st in ("serialize", "ser_rt"):
            if not (one(i.get("d")) and one(i.get("eq")) and i["d"] != i["eq"] and ctree_ok(i.get("t"))):
                return False
            return st == "serialize" or (i["t"][0] == "d" and all(v[0] == "s" for _, v in i["t"][2]))
        if st == "unescape":
            return ctree_ok(i.get("t"))
        if st == "parse_ini":
            return one(i.get("eq")) and all(isinstance(l, str) and "\n" not in l and "\r" not in l for l in i.get("lines", [None])) \
                and all(isinstance(c, str) and c for c in i.get("comments", [None])) and isinstance(i.get("concat"), str)
        if st == "ini_text":
            return i.get("eq") == "=" and i.get("comments") == ["#", "//"] and i.get("concat") == "\x16" and isinstance(i.get("final_eol"), bool) \
                and all(isinstance(l, str) and "\n" not in l and "\r" not in l for l in i.get("lines", [None]))
        if st == "ini_file":
            m = i.get("m")
            return isinstance(m, list) and all(isinstance(e, list) and len(e) == 2 and isinstance(e[0], str)
                                               and "\n" not in e[0] and "\r" not in e[0]
                                               and (not isinstance(e[1], str) or ("\n" not in e[1] and "\r" not in e[1]))
                                               for e in m) and len({e[0] for e in m}) == len(m)
        return True

    # ---- implementation ------------------------------------------------------------
    def run_impl(self, case):
        i, st, n0 = case["input"], case["stream"], self.n0
        if st == "split":
            return {"ok": L.canon(n0.split_with_escape(i["s"], i["d"], i["m"], i["esc"], i["trim"]))}
        if st == "deser_fixed":
            r = n0.deserialize_fixed_list(i["d"].join(i["items"]), i["n"], delimiter=i["d"], default_item=i["dflt"], parse_empty=i["pe"])
            return {"ok": L.canon(list(r))}
        if st == "deser_list":
            return {"ok": L.canon(n0.deserialize_list(i["d"].join(i["items"]), i["d"], parse_empty=i["pe"], escape_character=i["esc"]))}
        if st == "deser_kv":
            return {"ok": L.canon(n0.deserialize_key_value(i["s"], i["eq"], default_key=i["dk"], default_value=i["dv"]))}
        if st == "deser_dict":
            return {"ok": L.canon(n0.deserialize_dict(i["s"], i["d"], parse_empty=i["pe"], equal_tag=i["eq"],
                                                      default_key=i["dk"], default_value=i["dv"]))}
        if st == "serialize":
            return {"ok": L.canon(n0.serialize_dict(L.uncanon(i["t"]), i["d"], i["eq"], i["ge"], i["gn"], i["ck"], i["cv"]))}
        if st in ("ser_rt", "ser_rt_m"):
            ser = n0.serialize_dict(L.uncanon(i["t"]), i["d"], i["eq"], i["ge"], i["gn"], i["ck"], i["cv"])
            return {"ok": L.canon([ser, n0.unescape(n0.deserialize_dict(ser, i["d"], equal_tag=i["eq"]))])}
        if st == "unescape":
            return {"ok": L.canon(n0.unescape(L.uncanon(i["t"])))}
        if st == "parse_ini":
            return {"ok": ini_canon(n0.parse_ini(list(i["lines"]), equal_tag=i["eq"], comment_tags=tuple(i["comments"]),
                                                 concatenate_sign=i["concat"]))}
        if st == "ini_text":
            self.nfile = getattr(self, "nfile", 0) + 1
            path = os.path.join(self.tmp, "t%d.ini" % (self.nfile % 50))
            with open(path, "w", encoding="utf-8", newline="") as fh:
                fh.write("\n".join(i["lines"]) + ("\n" if i["final_eol"] and i["lines"] else ""))
            return {"ok": ini_canon(n0.load_ini(path))}
        if st == "ini_file":
            self.nfile = getattr(self, "nfile", 0) + 1
            path = os.path.join(self.tmp, "f%d.ini" % (self.nfile % 50))
            if os.path.exists(path):
                os.remove(path)
            n0.save_file(path, dict(map(tuple, i["m"])))
            return {"ok": ini_canon(n0.load_ini(path))}
        raise ValueError(st)

    def coq_input(self, case):
        i, st = case["input"], case["stream"]
        esc = lambda e: optn(e or None, chrn)
        dv = lambda v: "(%s)" % L.tree(["n"] if v is None else ["s", v])
        dk = lambda k: optn(k or None, L.pstr)
        if st == "split":
            return "((((%s, %s), %s), %s), %s)" % (L.pstr(i["s"]), chrn(i["d"]), optn(i["m"], L.nat), esc(i["esc"]), L.boolean(i["trim"]))
        if st == "deser_list":
            return "(((%s, %s), %s), %s)" % (L.pstr(i["d"].join(i["items"])), chrn(i["d"]), L.boolean(i["pe"]), esc(i["esc"]))
        if st == "deser_kv":
            return "(((%s, %s), %s), %s)" % (L.pstr(i["s"]), chrn(i["eq"]), dk(i["dk"]), dv(i["dv"]))
        if st == "deser_dict":
            return "(((((%s, %s), %s), %s), %s), %s)" % (L.pstr(i["s"]), chrn(i["d"]), L.boolean(i["pe"]), chrn(i["eq"]), dk(i["dk"]), dv(i["dv"]))
        if st in ("serialize", "ser_rt"):
            cfg = "{| sc_d := %s; sc_eq := %s; sc_ge := %s; sc_gn := %s; sc_ck := %s; sc_cv := %s |}" % (
                chrn(i["d"]), chrn(i["eq"]), L.boolean(i["ge"]), L.boolean(i["gn"]), L.z(i["ck"]), L.z(i["cv"]))
            return "(%s, %s)" % (cfg, L.tree(i["t"]))
        if st == "unescape":
            return "(%s)" % L.tree(i["t"])
        if st in ("parse_ini", "ini_text"):
            cfg = "{| ic_eq := %s; ic_comments := %s; ic_concat := %s |}" % (chrn(i["eq"]), L.strs(i["comments"]), L.pstr(i["concat"]))
            return "(%s, %s)" % (cfg, L.strs(i["lines"]))
        if st == "ini_file":
            def sc(v):
                if v is None:
                    return "SNone"
                if isinstance(v, bool):
                    return "SBool %s" % L.boolean(v)
                if isinstance(v, int):
                    return "SInt %s" % L.z(v)
                return "SStr %s" % L.pstr(v)
            return L.lst("(%s, %s)" % (L.pstr(k), sc(v)) for k, v in i["m"])
        raise ValueError(st)

    # ---- the property on the implementation ------------------------------------
    def _split(self, s, d, m, esc, trim):
        return self.n0.split_with_escape(s, d, m, esc, trim)

    def _oracle_ser(self, case, obs):
        i, st = case["input"], case["stream"]
        t = i["t"]
        if st == "serialize":
            if "raise" in obs and not has_none_in_list(t) and all_str_keys_ascii(t, i):
                return "serialize_dict raised %s on a nested mapping" % obs.get("exc")
            return None
        if st == "ser_rt":
            d, eq = i["d"], i["eq"]
            m = [(k, v[1]) for k, v in t[2]]
            if not (i["ge"] and i["gn"] and i["ck"] == 0 and i["cv"] == 0):
                return None
            if any(d in k or eq in k for k, _ in m) or any(ord(c) >= 128 for _, v in m for c in v):
                return None
            if "raise" in obs:
                return "unescape(deserialize_dict(serialize_dict(m))) raised %s" % obs.get("exc")
            ser, got = L.uncanon(obs["ok"])
            if got != dict(m) or list(got) != [k for k, _ in m]:
                return "round trip gave %r for %r" % (got, dict(m))
            # reserved characters in values are protected: the text is exactly k=<protected v> joined by d
            parts = ser.split(d) if m else []
            if len(parts) != len(m):
                return "serialised text %r has %d delimiter-separated parts for %d entries" % (ser, len(parts), len(m))
            for (k, v), part in zip(m, parts):
                pv = part[len(k) + 1:]
                if part[:len(k) + 1] != k + eq or re.search(r"[{}\[\]\"" + re.escape(d) + re.escape(eq) + r"]", pv) \
                        or re.search(r"\\(?!x[0-9a-fA-F]{2})", pv):
                    return "entry %r is serialised as %r: a reserved character of the value is not protected" % ((k, v), part)
            return None
        return None

    def _oracle_ini(self, case, obs):
        i, st = case["input"], case["stream"]
        if st == "ini_file":
            lines = ["%s=%s" % (k, v) for k, v in i["m"]]
            comments, concat, eq = ("#", "//"), "\x16", "="
        else:
            lines, comments, concat, eq = i["lines"], tuple(i["comments"]), i["concat"], i["eq"]
        if any(ord(c) >= 128 for l in lines for c in l):
            return None
        want = ref_ini(lines, eq, comments, concat)
        if want is None:
            return None
        if "raise" in obs:
            return "%s raised %s" % ("load_ini(save_file(m))" if st == "ini_file" else "load_ini(file of the lines)" if st == "ini_text" else "parse_ini", obs.get("exc"))
        got = obs["ok"]
        if got != ini_canon(want):
            return "loaded %r, expected %r" % (L.uncanon(got), want)
        return None

    def oracle(self, case, obs):
        i, st = case["input"], case["stream"]
        if st == "deser_fixed":
            if "raise" in obs:
                return "deserialize_fixed_list raised %s" % obs.get("exc")
            text = i["d"].join(i["items"])
            its = i["items"] or [""]              # the empty text is one empty item (str.split)
            kept = its if i["pe"] else [x for x in its if x != ""]
            if any(x != x.strip() for x in i["items"]):
                return None          # items with outer blanks: trimming is the list deserialiser's business (deser_list stream)
            want = (kept + [i["dflt"]] * i["n"])[:i["n"]]
            got = L.uncanon(obs["ok"])
            return None if got == want else "deserialize_fixed_list(%r, %d, parse_empty=%s) returned %r, the items give %r" % (
                text, i["n"], i["pe"], got, want)
        if st in ("serialize", "ser_rt"):
            return self._oracle_ser(case, obs)
        if st == "ser_rt_m":
            if "raise" in obs:
                return "unescape(deserialize_dict(serialize_dict(m))) raised %s with delimiter %r" % (obs.get("exc"), i["d"])
            m = [(k, v[1]) for k, v in i["t"][2]]
            ser, got = L.uncanon(obs["ok"])
            if got != dict(m) or list(got) != [k for k, _ in m]:
                return "round trip with delimiter %r, equal tag %r gave %r for %r (text %r)" % (i["d"], i["eq"], got, dict(m), ser)
            return None
        if st == "unescape":
            return None
        if st in ("parse_ini", "ini_file", "ini_text"):
            return self._oracle_ini(case, obs)
        if "raise" in obs:
            return "%s raised %s" % (st, obs.get("exc"))
        if st == "split":
            got = [x[1] for x in obs["ok"][2]]
            s, d, m, esc, trim = i["s"], i["d"], i["m"], i["esc"], i["trim"]
            if not esc or esc not in s:
                want = s.split(d, m if m else -1)
                if got != want:
                    return "no escape character in the text: got %r, str.split gives %r" % (got, want)
                return None
            if esc == d or m:
                return None
            # delimiters preceded by an even run of escapes cut, the others stay inside their item
            cuts = [p for p, c in enumerate(s) if c == d and trailing(s[:p], esc) % 2 == 0]
            if len(got) != len(cuts) + 1:
                return "%d item(s) for %d delimiter(s) preceded by an even run of escapes: %r" % (len(got), len(cuts), got)
            if not trim:
                back = d.join(x.replace(d, esc + d) for x in got)
                if back != s:
                    return "items %r do not re-assemble to the text (escaped delimiters must stay inside their item unchanged)" % (got,)
            # independence from neighbouring items
            for p in cuts[:3]:
                try:
                    a, b = self._split(s[:p], d, m, esc, trim), self._split(s[p + 1:], d, m, esc, trim)
                except Exception as e:  # noqa
                    return "split_with_escape raised %s: %s on a part (%r or %r) of the text" % (type(e).__name__, e, s[:p], s[p + 1:])
                if got != a + b:
                    return "split(x%sy) = %r differs from split(x) + split(y) = %r at the unescaped delimiter %d" % (d, got, a + b, p)
            return None
        if st == "deser_list":
            got = [x[1] for x in obs["ok"][2]]
            d, esc, items = i["d"], i["esc"], i["items"]
            if any(d in it or (esc and esc in it) for it in items):
                return None
            want = list(items) if i["pe"] else [it for it in items if it]
            if got != want:
                return "deserialize_list(join(items)) = %r, items %r" % (got, want)
            return None
        if st == "deser_kv":
            k, v = obs["ok"][2][0], obs["ok"][2][1]
            s, eq = i["s"], i["eq"]
            if eq in s:
                want = (["s", s[:s.index(eq)]], ["s", s[s.index(eq) + 1:]])
            elif i["dk"]:
                want = (["s", i["dk"]], ["s", s])
            else:
                want = (["s", s], ["n"] if i["dv"] is None else ["s", i["dv"]])
            if (k, v) != want:
                return "deserialize_key_value(%r) = %r, expected %r" % (s, (k, v), want)
            return None
        if st == "deser_dict":
            s, d, eq = i["s"], i["d"], i["eq"]
            want = {}
            for it in s.split(d):
                if not it and not i["pe"]:
                    continue
                if eq in it:
                    want[it[:it.index(eq)]] = it[it.index(eq) + 1:]
                elif i["dk"]:
                    want[i["dk"]] = it
                else:
                    want[it] = i["dv"]
            got = L.uncanon(obs["ok"])
            if got != want or list(got) != list(want):
                return "deserialize_dict(%r) = %r, expected %r" % (s, got, want)
            return None
        return None


PROP = C17
