"""C04 — lookups are total and pure: a miss yields the default, never a change."""
import copy

from n0v import coqlit as L
from n0v.core import Prop
from props import xpath_common as X
from props import c06 as C6


def bare_index(rng):
    """index expressions as the evaluator accepts or rejects them: sign runs, sums, last(), blanks, junk"""
    sign = rng.choice(["", "", "-", "-", "--", "+", "-+", "---", "+-", " - "])
    body = rng.choice(["0", "1", "2", "7", "10", "last()", "last()-1", "1+1", "2-1", " 1 ", "x", "1.5", "0x1", "1_0", "", "-", "new()", "last()+1", "1-", "01"])
    return sign + body


def star_key_shape(i):
    """the recorded finding C04/star-key-recursion: some dictionary of the tree has the text '*' as a key and the path has
    a step whose name is '*'"""
    def has_star_key(t):
        if isinstance(t, dict):
            return "*" in t or any(has_star_key(v) for v in t.values())
        if isinstance(t, (list, tuple)):
            return any(has_star_key(v) for v in t)
        return False
    steps = [st.strip() for st in i["xpath"].lstrip("?").replace("][", "]/[").split("/")]
    return has_star_key(i["tree"]) and any(st == "*" or st.startswith("*[") for st in steps)


class C04(Prop):
    id = "C04"
    props_file = "Props/C04.v"
    refuted_file = "Refuted/C04.v"
    rule = ("random dict- and list-rooted trees x strings over the xpath alphabet (39 tokens: names, '/', '[', ']', '*', '..', "
            "digits, '-', '+', last(), new(), text(), '=', '!=', '~', quotes, blank, '?', and ready-made steps), 1..8 tokens, "
            "ill-formed included, plus misses derived from real paths (unknown key, index out of range, step below a scalar) and "
            "'?'-prefixed variants, bare index expressions with sign runs (list roots hand them to the index evaluator), predicate steps over record lists with literals incl. integers above 2**53; every string through item access, get and first. non-trivial = the lookup returned a value "
            "other than the default; distinct = distinct (tree, string, entry point)")
    trusted_base = ["deep equality of the tree before/after a lookup: harness (copy.deepcopy + structural compare with exact types)"]
    streams = {"lookup": X.LOOKUP_STREAM}
    classifiers = {
        "c04_new_in_lookup": lambda case, obs, failure: "new()" in case["input"]["xpath"].replace(" ", "").lower()
        and "modified the tree" in failure,
        "c04_star_key": lambda case, obs, failure: star_key_shape(case["input"]),
    }

    def valid(self, case):
        i = case["input"]
        return isinstance(i.get("xpath"), str) and i.get("mode") in ("convert", "wrap", "json") and isinstance(i.get("tree"), (dict, list)) \
            and i.get("kind") in (0, 1, 2) and self.valid_pred(i)

    @staticmethod
    def valid_pred(i):
        pr = i.get("pred")
        if pr is None:
            return True
        xp = i["xpath"]
        return (isinstance(i["tree"], dict) and isinstance(i["tree"].get("r"), list) and all(isinstance(r, dict) for r in i["tree"]["r"])
                and pr.get("form") in ("eq", "ne", "has", "text") and pr.get("k") in C6.FIELDS and pr.get("f") in C6.FIELDS
                and pr.get("ppath") == ["r"] and isinstance(pr.get("v"), str) and pr["v"] != ""
                and any(xp == tpl % (pr["k"], pr["v"], pr["f"]) for tpl in
                        ("r[%s=%s]/%s", "r[%s!=%s]/%s", "r[%s~%s]/%s", "r/%s[text()=%s]/../%s", "/r[*]/[%s=%s]/%s")))

    def generate(self, rng, tier):
        n = 1500 if tier == "quick" else 40000
        out = []
        for _ in range(n):
            root = rng.choice(["dict", "dict", "list"])
            t = X.gen_tree(rng, rng.choice([2, 3, 4]), root=root)
            if rng.random() < 0.3:
                t = {"r": X.gen_records(rng), "a": t} if root == "dict" else [X.gen_records(rng), t]
            mode = rng.choice(["convert", "convert", "wrap", "json"])
            nodes = list(X.node_paths(t))
            k = rng.random()
            if nodes and k < 0.35:
                p, pv = rng.choice(nodes)
                sfx = rng.choice(["/zz", "[7]", "/..", "[*]", "/a", "[new()]", "/a/b", "[-9]", "[x]", "[", "]", "/*", "[]", "/[]", "/[]/a", "", "", "", ""])
                xp = X.render(t, p, rng) + sfx
                tag = "derived" if sfx else "resolves"
                lists_here = [(q, x) for q, x in nodes if isinstance(x, list)]
                if lists_here and rng.random() < 0.25:
                    # an index just outside an existing list, on either side: a miss (with or without further steps)
                    q, x = rng.choice(lists_here)
                    ln = len(x)
                    idx = rng.choice([ln, ln + 1, -ln - 1, -ln - 2, -2 * ln, -2 * ln - 1])
                    xp = X.render(t, q, rng) + "[%d]" % idx + rng.choice(["", "", "/a", "[0]"])
                    tag = "oob"
                if tag == "resolves" and isinstance(p[-1], str) and rng.random() < 0.35:
                    # up to the parent and down again through the same key: still the same existing node (list roots
                    # too, since the "fix:" commit 1eca224)
                    xp, tag = xp + "/../" + p[-1], "resolves"
            else:
                xp = X.gen_soup(rng)
                tag = "soup"
            k2 = rng.random()
            pred = None
            if k2 < 0.08:
                # a bare index expression (no '/' or '['): on a list root it goes straight to the index evaluator
                xp = bare_index(rng)
                tag = "bare"
            elif k2 < 0.16 and root == "dict":
                # a selecting step with a literal: the found-or-default decision rests on the literal comparison
                recs = C6.gen_recs(rng)
                t = {"r": recs, "a": t}
                kf, f, v = rng.choice(C6.FIELDS), rng.choice(C6.FIELDS), rng.choice(C6.LITS)
                present = [str(r[kf]) for r in recs if kf in r and isinstance(r[kf], (str, int, float)) and not isinstance(r[kf], bool)
                           and str(r[kf]) != ""]      # an empty literal is read as false(): outside the statement
                if present and rng.random() < 0.6:
                    v = rng.choice(present)        # a literal that occurs in the data (as text)
                    if rng.random() < 0.3 and v.lstrip("-").isdigit():
                        v = str(int(v) + rng.choice([-1, 1]))   # ... or its integer neighbour
                form, tpl = rng.choice([("eq", "r[%s=%s]/%s"), ("ne", "r[%s!=%s]/%s"), ("has", "r[%s~%s]/%s"),
                                        ("text", "r/%s[text()=%s]/../%s"), ("eq", "/r[*]/[%s=%s]/%s")])
                xp = tpl % (kf, v, f)
                tag = "pred"
                pred = {"form": form, "k": kf, "f": f, "v": v, "ppath": ["r"]}
            if root == "dict" and rng.random() < 0.03:
                # a '~' / '!~' condition over records one of which holds None (or a number) in the tested field: that record
                # does not match, the others decide - the path resolves when one of them matches
                kf, f = rng.choice(["note", "k1"]), rng.choice(["id", "f"])
                recs = [{kf: "alpha", f: 1}, {kf: rng.choice([None, 5, True]), f: 2}, {kf: "beta", f: 3}]
                rng.shuffle(recs)
                t = {"r": recs, "a": t}
                op, lit = rng.choice([("~", "alp"), ("~", "eta"), ("!~", "alp"), ("~", "a")])
                xp, tag, pred = rng.choice(["r[%s%s%s]/%s", "r/[%s%s%s]/%s", "/r[*]/[%s%s%s]/%s"]) % (kf, op, lit, f), "resolves", None
            if root == "dict" and rng.random() < 0.025:
                # integers that no float can tell apart: the literal selects exactly the record that holds that very integer
                big = C6.BIG
                recs = [{"id": big, "f": "a"}, {"id": big - 1, "f": "b"}, {"id": 7, "f": "c"}]
                rng.shuffle(recs)
                t = {"r": recs, "a": t}
                v = str(rng.choice([big, big - 1, big + 1]))
                form, tpl = rng.choice([("eq", "r[%s=%s]/%s"), ("ne", "r[%s!=%s]/%s"), ("text", "r/%s[text()=%s]/../%s")])
                xp, tag = tpl % ("id", v, "f"), "pred"
                pred = {"form": form, "k": "id", "f": "f", "v": v, "ppath": ["r"]}
            if rng.random() < 0.03:
                # a list-rooted container of records (plain dicts when it wraps raw data): '..' followed by a further step,
                # explicit or hidden in a key predicate
                recs = [{"id": str(n + 1), "v": rng.choice([5, "B", None]), "sub": {"k": n}} for n in range(rng.randint(1, 3))]
                gi = rng.randrange(len(recs))
                t, root = recs, "list"
                xp = rng.choice(["[%d]/sub/../v" % gi, "[%d]/sub/../id" % gi, "[%d][id=%s]/id" % (gi, recs[gi]["id"]), "[*][id=%s]/id" % recs[gi]["id"],
                                 "[%d]/sub[k=%d]/k" % (gi, gi)])
                tag, pred, mode = "resolves", None, rng.choice(["wrap", "json", "convert"])
            if root == "dict" and rng.random() < 0.04:
                # a list nested directly in a list, and a path that goes up again below it: g[i][j]/id/../v resolves
                grid = [[{"id": rng.choice(["1", "x", 2]), "v": rng.choice([5, "B", None])} for _ in range(rng.randint(1, 2))]
                        for _ in range(rng.randint(1, 3))]
                t = {"g": grid, "a": t}
                gi = rng.randrange(len(grid)); gj = rng.randrange(len(grid[gi]))
                sp = rng.choice(["g[%d][%d]", "g[%d]/[%d]", "/g/[%d][%d]"]) % (gi, gj)
                xp, tag, pred = sp + rng.choice(["/id/../v", "/id/../id", "/v/.."]), "resolves", None
            if root == "dict" and rng.random() < 0.025:
                # a '~' condition on a list-valued field asks for an ELEMENT equal to the literal: a literal spelled with the
                # letters of several elements is no element, so the path does not resolve (and '!~' does)
                a, b, c = rng.sample(["x", "y", "z", "q", "k", "m"], 3)
                recs = [{"tags": [a, b], "id": 1}, {"tags": [c], "id": 2}]
                t = {"r": recs, "a": t}
                sp = rng.choice(["r[tags%s%s]/id", "r/[tags%s%s]/id", "/r[*]/[tags%s%s]/id", "r/tags[text()%s%s]/../id"])
                op, lit, tag = rng.choice([("~", a + b, "misses"), ("~", b + a, "misses"), ("~", a + a, "misses"), ("!~", a + b, "resolves"),
                                           ("~", a, "resolves"), ("~", c, "resolves"), ("!~", c, "resolves")])
                xp, pred = sp % (op, lit), None
            if root == "dict" and rng.random() < 0.025:
                # a text() condition as the LAST step: the path resolves iff the node meets it (nothing follows that could miss)
                t = {"status": "open", "r": [{"id": 1}, {"id": 2}], "a": t}
                xp, tag = rng.choice([("status[text()=closed]", "misses"), ("status[text()!=open]", "misses"), ("status[text()~zz]", "misses"),
                                      ("r[*]/id[text()=9]", "misses"), ("r[0]/id[text()=9]", "misses"), ("/status[text()='closed']", "misses"),
                                      ("status[text()=open]", "resolves"), ("r[1]/id[text()=2]", "resolves"), ("status[text()~pe]", "resolves")])
                pred = None
            if rng.random() < 0.1:
                xp = "?" + xp
            if rng.random() < 0.01:
                xp, tag, pred = rng.choice(["", "?", " ", "/", "[", "//"]), "degenerate", None
            tup = tag in ("resolves", "derived", "oob", "pred", "misses") and rng.random() < 0.06
            for kind in (0, 1, 2):
                inp = {"tree": t, "mode": "wrap" if tup else mode, "xpath": xp, "kind": kind}
                if tup:
                    # raw Python data with tuples where the lists are (n0dict(raw) without conversion); the model's value
                    # type has no tuples, so these cases go to the oracle only
                    inp["tuples"] = True
                if pred:
                    inp["pred"] = pred
                out.append({"stream": "lookup", "tag": "%s:%s" % (tag, root), "input": inp})
        return out

    @staticmethod
    def tuplify(v):
        if isinstance(v, dict):
            return {k: C04.tuplify(x) for k, x in v.items()}
        if isinstance(v, list):
            return tuple(C04.tuplify(x) for x in v)
        return v

    def build(self, i):
        if i.get("tuples"):
            import n0struct
            t = self.tuplify(copy.deepcopy(i["tree"]))
            return n0struct.n0dict(t) if isinstance(t, dict) else n0struct.n0list(list(t))
        return X.build(i["tree"], i["mode"])

    def coq_input(self, case):
        if case["input"].get("tuples"):
            raise L.Unrepresentable("tuples: oracle only")
        i = case["input"]
        return X.lookup_lit(X.build(i["tree"], i["mode"]), i["kind"], i["xpath"])

    def run_impl(self, case):
        i = case["input"]
        obj = self.build(i)
        before = copy.deepcopy(X.plain(obj))
        case["_changed"] = None
        try:
            v = X.lookup(obj, i["kind"], i["xpath"])
        finally:
            case["_changed"] = not X.same(X.plain(obj), before)
            # what item access does on the same string, for the "default exactly when the path does not resolve" clause
            if i["kind"] != 0:
                o2 = self.build(i)
                try:
                    case["_item"] = ("ok", o2[i["xpath"]])
                except RecursionError:
                    case["_item"] = ("raise", "ExRecursion")
                except Exception as e:  # noqa
                    case["_item"] = ("raise", L.exn_name(e))
        case["_res"] = v
        return {"ok": ["l", 0, [L.canon(v), L.canon(obj)]]}

    def oracle(self, case, obs):
        i = case["input"]
        changed, item, res = case.pop("_changed", None), case.pop("_item", None), case.pop("_res", None)
        if changed:
            return "lookup %r modified the tree" % i["xpath"]
        q = i["xpath"].startswith("?")
        if i["kind"] == 0:
            if "raise" not in obs and case.get("tag", "").startswith(("oob", "misses")) and not q:
                return "%r does not resolve (out of range / no such element) but item access returned %r" % (i["xpath"], X.plain(res))
            if "raise" in obs:
                if case.get("tag", "").startswith("resolves") and not q:
                    return "%r spells an existing node but item access raised %s" % (i["xpath"], obs.get("exc"))
                if q:
                    return "'?'-prefixed item access raised %s" % obs.get("exc")
                if obs["raise"] not in X.ALLOWED_MISS:
                    return "item access raised %s" % obs.get("exc")
            return None
        if "raise" in obs:
            return "%s raised %s" % ("get" if i["kind"] == 1 else "first", obs.get("exc"))
        if case.get("tag", "").startswith(("oob", "misses")) and not q and not (isinstance(res, str) and res == X.DFLT):
            return "%r does not resolve (out of range / no such element) but get/first returned %r instead of the default" % (i["xpath"], X.plain(res))
        if case.get("tag", "").startswith("resolves") and not q and isinstance(res, str) and res == X.DFLT:
            return "%r spells an existing node but get/first returned the default" % i["xpath"]
        if i.get("pred") and not q:
            # "resolves" decided independently of the implementation: the reference selection over the plain records
            exp = C6.C06.expected(None, dict(i["pred"], tree=i["tree"]))
            if exp is not None and "~" not in i["pred"]["v"]:
                if exp[1] and isinstance(res, str) and res == X.DFLT:
                    return "%r selects %r but get/first returned the default" % (i["xpath"], exp[1])
                if not exp[1] and not (isinstance(res, str) and res == X.DFLT):
                    return "%r selects nothing but get/first returned %r" % (i["xpath"], X.plain(res))
        if item is not None and not q:
            if item[0] == "raise" and res != X.DFLT:
                return "item access raises %s but get/first returned %r instead of the default" % (item[1], res)
            # n0list['' ] answers None without resolving anything (theorem C04_list_item_access_default_only_empty:
            # the only string with that behaviour), so there "item access returns" does not mean "resolves"
            empty_on_list = i["xpath"] == "" and isinstance(i["tree"], list)
            if item[0] == "ok" and isinstance(res, str) and res == X.DFLT and not empty_on_list:
                return "item access resolves to %r but get/first returned the default" % (item[1],)
        return None


PROP = C04
