"""C04 — lookups are total and pure: a miss yields the default, never a change."""
import copy

from n0v import coqlit as L
from n0v.core import Prop
from props import xpath_common as X


class C04(Prop):
    id = "C04"
    props_file = "Props/C04.v"
    refuted_file = "Refuted/C04.v"
    rule = ("random dict- and list-rooted trees x strings over the xpath alphabet (39 tokens: names, '/', '[', ']', '*', '..', "
            "digits, '-', '+', last(), new(), text(), '=', '!=', '~', quotes, blank, '?', and ready-made steps), 1..8 tokens, "
            "ill-formed included, plus misses derived from real paths (unknown key, index out of range, step below a scalar) and "
            "'?'-prefixed variants; every string through item access, get and first. non-trivial = the lookup returned a value "
            "other than the default; distinct = distinct (tree, string, entry point)")
    trusted_base = ["deep equality of the tree before/after a lookup: harness (copy.deepcopy + structural compare with exact types)"]
    streams = {"lookup": X.LOOKUP_STREAM}
    classifiers = {
        "c04_new_in_lookup": lambda case, obs, failure: "new()" in case["input"]["xpath"].replace(" ", "").lower()
        and "modified the tree" in failure,
    }

    def valid(self, case):
        i = case["input"]
        return isinstance(i.get("xpath"), str) and i.get("mode") in ("convert", "wrap", "json") and isinstance(i.get("tree"), (dict, list)) \
            and i.get("kind") in (0, 1, 2)

    def generate(self, rng, tier):
        n = 1500 if tier == "quick" else 40000
        out = []
        for _ in range(n):
            root = rng.choice(["dict", "dict", "list"])
            t = X.gen_tree(rng, rng.choice([2, 3, 4]), root=root)
            if rng.random() < 0.3:
                t = {"r": X.gen_records(rng), "a": t} if root == "dict" else [X.gen_records(rng), t]
            mode = rng.choice(["convert", "convert", "wrap", "json"])
            nodes = list(X.node_paths(t))
            k = rng.random()
            if nodes and k < 0.35:
                p, _ = rng.choice(nodes)
                sfx = rng.choice(["/zz", "[7]", "/..", "[*]", "/a", "[new()]", "/a/b", "[-9]", "[x]", "[", "]", "/*", "", "", ""])
                xp = X.render(t, p, rng) + sfx
                tag = "derived" if sfx else "resolves"
            else:
                xp = X.gen_soup(rng)
                tag = "soup"
            if rng.random() < 0.1:
                xp = "?" + xp
            if rng.random() < 0.01:
                xp, tag = rng.choice(["", "?", " ", "/", "[", "//"]), "degenerate"
            for kind in (0, 1, 2):
                out.append({"stream": "lookup", "tag": "%s:%s" % (tag, root), "input": {"tree": t, "mode": mode, "xpath": xp, "kind": kind}})
        return out

    def run_impl(self, case):
        i = case["input"]
        obj = X.build(i["tree"], i["mode"])
        before = copy.deepcopy(X.plain(obj))
        case["_changed"] = None
        try:
            v = X.lookup(obj, i["kind"], i["xpath"])
        finally:
            case["_changed"] = not X.same(X.plain(obj), before)
            # what item access does on the same string, for the "default exactly when the path does not resolve" clause
            if i["kind"] != 0:
                o2 = X.build(i["tree"], i["mode"])
                try:
                    case["_item"] = ("ok", o2[i["xpath"]])
                except RecursionError:
                    case["_item"] = ("raise", "ExRecursion")
                except Exception as e:  # noqa
                    case["_item"] = ("raise", L.exn_name(e))
        case["_res"] = v
        return {"ok": ["l", 0, [L.canon(v), L.canon(obj)]]}

    def coq_input(self, case):
        i = case["input"]
        return X.lookup_lit(X.build(i["tree"], i["mode"]), i["kind"], i["xpath"])

    def oracle(self, case, obs):
        i = case["input"]
        changed, item, res = case.pop("_changed", None), case.pop("_item", None), case.pop("_res", None)
        if changed:
            return "lookup %r modified the tree" % i["xpath"]
        q = i["xpath"].startswith("?")
        if i["kind"] == 0:
            if "raise" in obs:
                if case.get("tag", "").startswith("resolves") and not q:
                    return "%r spells an existing node but item access raised %s" % (i["xpath"], obs.get("exc"))
                if q:
                    return "'?'-prefixed item access raised %s" % obs.get("exc")
                if obs["raise"] not in X.ALLOWED_MISS:
                    return "item access raised %s" % obs.get("exc")
            return None
        if "raise" in obs:
            return "%s raised %s" % ("get" if i["kind"] == 1 else "first", obs.get("exc"))
        if case.get("tag", "").startswith("resolves") and not q and isinstance(res, str) and res == X.DFLT:
            return "%r spells an existing node but get/first returned the default" % i["xpath"]
        if item is not None and not q:
            if item[0] == "raise" and res != X.DFLT:
                return "item access raises %s but get/first returned %r instead of the default" % (item[1], res)
            # n0list['' ] answers None without resolving anything (theorem C04_list_item_access_default_only_empty:
            # the only string with that behaviour), so there "item access returns" does not mean "resolves"
            empty_on_list = i["xpath"] == "" and isinstance(i["tree"], list)
            if item[0] == "ok" and isinstance(res, str) and res == X.DFLT and not empty_on_list:
                return "item access resolves to %r but get/first returned the default" % (item[1],)
        return None


PROP = C04
